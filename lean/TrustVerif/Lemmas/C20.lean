import TrustVerif.Model.C20

/-!
Helper lemmas for C20 (invariants of the transition system, the refinement to the atomic
reference system, the termination measure).
-/
namespace TrustVerif.C20

@[simp] theorem upd_same {α : Type} (f : Nat → α) (r : Nat) (x : α) : upd f r x r = x := by
  simp [upd]

@[simp] theorem upd_other {α : Type} (f : Nat → α) (r q : Nat) (x : α) (h : q ≠ r) :
    upd f r x q = f q := by
  simp [upd, h]

theorem upd_comm {α : Type} (f : Nat → α) (r q : Nat) (x y : α) (h : q ≠ r) :
    upd (upd f r x) q y = upd (upd f q y) r x := by
  funext i
  simp only [upd]
  by_cases h1 : i = q <;> by_cases h2 : i = r <;> simp_all

@[simp] theorem upd_upd {α : Type} (f : Nat → α) (r : Nat) (x y : α) :
    upd (upd f r x) r y = upd f r y := by
  funext i
  simp only [upd]
  by_cases h1 : i = r <;> simp_all

/-! ## Shape of the three kinds of thread actions -/

/-- A local action never starts or ends inside the locked closure. -/
theorem localStep_pc {cfg : Cfg} {clk : Clock} {g : Bool} {R R' : Res}
    (h : localStep cfg clk g R = some R') : R.pc.inLocked = false ∧ R'.pc.inLocked = false := by
  unfold localStep at h
  split at h
  all_goals (try split at h)
  all_goals (try split at h)
  all_goals (try split at h)
  all_goals simp_all [Pc.inLocked]
  all_goals (try (subst h; simp_all [applyCmd]))
  all_goals (try (rename_i c _ _; cases c <;> simp [*]))

theorem post_pc (S : Sys) (r : Nat) (o : Outcome) (R : Res) : (post S r o R).pc.inLocked = false := by
  unfold post
  repeat' split
  all_goals simp [Pc.inLocked]

/-- Inside the closure: the mutex is released exactly by the action at `locked3`, and the thread
is outside the closure afterwards exactly then. -/
theorem secStep_pc (S : Sys) (r : Nat) (R : Res) (sh : Store) (h : R.pc.inLocked = true) :
    (secStep S r R sh).1.pc.inLocked = !(secStep S r R sh).2.2 := by
  cases hpc : R.pc <;> simp [hpc, Pc.inLocked] at h
  · simp only [secStep, hpc]; split <;> simp_all [Pc.inLocked]
  · simp [secStep, hpc, Pc.inLocked]
  · rename_i ok; cases ok <;> simp [secStep, hpc, Pc.inLocked]
  · simp only [secStep, hpc]; simp [post_pc]

/-- The state after an action inside the closure. -/
def secState (S : Sys) (r : Nat) (s : State) : State :=
  { s with res := upd s.res r (secStep S r (s.res r) s.shared).1,
           shared := (secStep S r (s.res r) s.shared).2.1,
           lock := if (secStep S r (s.res r) s.shared).2.2 then none else s.lock }

/-- The state after acquiring the mutex. -/
def acqState (r : Nat) (s : State) : State :=
  { s with res := upd s.res r { s.res r with pc := .locked0 }, lock := some r }

theorem rstep_locked {S : Sys} {r : Nat} {s : State} (h : (s.res r).pc.inLocked = true) :
    rstep S r s = some (secState S r s) := by
  cases hpc : (s.res r).pc <;> simp [hpc, Pc.inLocked] at h <;> simp [rstep, hpc, secState]

/-- Every thread action is of exactly one of three kinds. -/
theorem rstep_cases {S : Sys} {r : Nat} {s s' : State} (h : rstep S r s = some s') :
    ((s.res r).pc = .lockWait ∧ s.lock = none ∧ s' = acqState r s) ∨
    ((s.res r).pc.inLocked = true ∧ s' = secState S r s) ∨
    ((s.res r).pc ≠ .lockWait ∧ (s.res r).pc.inLocked = false ∧
      ∃ R', localStep (S.cfg r) (s.clocks (S.cfg r).clk) s.gateOpen (s.res r) = some R' ∧
        s' = s.setRes r R') := by
  by_cases hl : (s.res r).pc.inLocked = true
  · rw [rstep_locked hl] at h
    cases h
    exact Or.inr (Or.inl ⟨hl, rfl⟩)
  · cases hpc : (s.res r).pc <;> simp [hpc, Pc.inLocked] at hl
    case lockWait =>
      simp only [rstep, hpc] at h
      split at h
      · cases h
        rename_i hk
        exact Or.inl ⟨rfl, hk, rfl⟩
      · cases h
    all_goals
      simp only [rstep, hpc] at h
      cases hls : localStep (S.cfg r) (s.clocks (S.cfg r).clk) s.gateOpen (s.res r) with
      | none => simp [hls] at h
      | some R' =>
        simp [hls] at h
        exact Or.inr (Or.inr ⟨by simp, by simp [Pc.inLocked], R', rfl, h.symm⟩)

/-- Mutual exclusion as an invariant: a thread is inside the locked closure iff it owns the mutex. -/
def Mutex (s : State) : Prop := ∀ q, (s.res q).pc.inLocked = true ↔ s.lock = some q

theorem mutex_init (S : Sys) : Mutex (init S) := by
  intro q
  simp [init, Pc.inLocked]

theorem mutex_rstep {S : Sys} {r : Nat} {s s' : State} (hm : Mutex s) (h : rstep S r s = some s') :
    Mutex s' := by
  rcases rstep_cases h with ⟨hpc, hl, rfl⟩ | ⟨hl, rfl⟩ | ⟨_, hl, R', hR, rfl⟩
  · intro q
    by_cases hq : q = r
    · subst hq; simp [acqState, Pc.inLocked]
    · have := hm q
      simp [acqState, hq, hl] at this ⊢
      simp [this]
      exact fun h => hq h.symm
  · have hr := (hm r).1 hl
    intro q
    by_cases hq : q = r
    · subst hq
      simp only [secState, upd_same, secStep_pc S q _ _ hl]
      cases (secStep S q (s.res q) s.shared).2.2 <;> simp [hr]
    · have := hm q
      simp only [secState, upd_other _ _ _ _ hq]
      cases (secStep S r (s.res r) s.shared).2.2
      · simpa using this
      · simp [hr] at this ⊢
        cases hb : (s.res q).pc.inLocked
        · rfl
        · exact absurd (this.1 hb).symm hq
  · have hp := localStep_pc hR
    intro q
    by_cases hq : q = r
    · subst hq
      have := hm q
      simp [State.setRes, hp.2]
      simp [hp.1] at this
      exact this
    · simpa [State.setRes, hq] using hm q

theorem mutex_estep {e : Env} {s : State} (hm : Mutex s) : Mutex (estep e s) := by
  intro q
  have := hm q
  cases e with
  | send r c => by_cases hq : q = r <;> simp_all [estep, State.setRes]
  | setStop r => by_cases hq : q = r <;> simp_all [estep, State.setRes]
  | interrupt c => simpa [estep] using this
  | advance c dt => simpa [estep] using this
  | openGate => simpa [estep] using this

theorem mutex_step {S : Sys} {s s' : State} {l : Label} (hm : Mutex s) (h : step S s l = some s') :
    Mutex s' := by
  cases l with
  | res r =>
    simp only [step] at h
    split at h
    · exact mutex_rstep hm h
    · cases h
  | env e =>
    simp only [step] at h
    cases h
    exact mutex_estep hm

/-- Induction over executions. -/
theorem run_induct {S : Sys} {P : State → Prop}
    (hstep : ∀ s l s', P s → step S s l = some s' → P s') :
    ∀ (ls : List Label) (s s' : State), P s → run S s ls = some s' → P s' := by
  intro ls
  induction ls with
  | nil => intro s s' hp h; simp [run] at h; exact h ▸ hp
  | cons l ls ih =>
    intro s s' hp h
    simp only [run] at h
    split at h
    · rename_i s1 h1
      exact ih s1 s' (hstep s l s1 hp h1) h
    · cases h

theorem mutex_reachable {S : Sys} {s : State} (h : Reachable S s) : Mutex s := by
  obtain ⟨ls, h⟩ := h
  exact run_induct (fun _ _ _ hp hs => mutex_step hp hs) ls _ _ (mutex_init S) h

/-! ## Completing the section in progress -/

def stage : Pc → Nat
  | .locked0 => 4
  | .locked1 => 3
  | .locked2 _ => 2
  | .locked3 _ => 1
  | _ => 0

theorem stage_pos {pc : Pc} (h : pc.inLocked = true) : 0 < stage pc := by
  cases pc <;> simp_all [Pc.inLocked, stage]

theorem stage_zero {pc : Pc} (h : pc.inLocked = false) : stage pc = 0 := by
  cases pc <;> simp_all [Pc.inLocked, stage]

theorem secStep_stage (S : Sys) (r : Nat) (R : Res) (sh : Store) (h : R.pc.inLocked = true) :
    stage (secStep S r R sh).1.pc < stage R.pc := by
  cases hpc : R.pc <;> simp [hpc, Pc.inLocked] at h
  · simp only [secStep, hpc]; split <;> simp_all [stage]
  · simp [secStep, hpc, stage]
  · rename_i ok; cases ok <;> simp [secStep, hpc, stage]
  · simp only [secStep, hpc]; rw [stage_zero (post_pc _ _ _ _)]; simp [stage]

theorem finishN_out (S : Sys) (q : Nat) (k : Nat) (s : State) (h : (s.res q).pc.inLocked = false) :
    finishN S q k s = s := by
  cases k <;> simp [finishN, h]

theorem finishN_in (S : Sys) (q : Nat) (k : Nat) (s : State) (h : (s.res q).pc.inLocked = true) :
    finishN S q (k + 1) s = finishN S q k (secState S q s) := by
  simp [finishN, h, secState]

theorem secState_stage (S : Sys) (q : Nat) (s : State) (h : (s.res q).pc.inLocked = true) :
    stage ((secState S q s).res q).pc < stage (s.res q).pc := by
  simpa [secState] using secStep_stage S q (s.res q) s.shared h

/-- More fuel than stages left changes nothing. -/
theorem finishN_fuel (S : Sys) (q : Nat) : ∀ (k : Nat) (s : State), stage (s.res q).pc ≤ k →
    finishN S q (k + 1) s = finishN S q k s := by
  intro k
  induction k with
  | zero =>
    intro s h
    have : (s.res q).pc.inLocked = false := by
      cases hb : (s.res q).pc.inLocked
      · rfl
      · have := stage_pos hb; omega
    simp [finishN, this]
  | succ k ih =>
    intro s h
    cases hb : (s.res q).pc.inLocked
    · simp [finishN_out, hb]
    · rw [finishN_in S q (k + 1) s hb, finishN_in S q k s hb]
      apply ih
      have := secState_stage S q s hb
      omega

theorem stage_le_four (pc : Pc) : stage pc ≤ 4 := by cases pc <;> simp [stage]

theorem finish_in (S : Sys) (q : Nat) (s : State) (h : (s.res q).pc.inLocked = true) :
    finish S q s = finish S q (secState S q s) := by
  unfold finish
  rw [finishN_in S q 3 s h]
  refine (finishN_fuel S q 3 _ ?_).symm
  have := secState_stage S q s h
  have := stage_le_four (s.res q).pc
  omega

theorem finish_out (S : Sys) (q : Nat) (s : State) (h : (s.res q).pc.inLocked = false) :
    finish S q s = s := finishN_out S q 4 s h

/-- Completing the section of the owner releases the mutex and leaves the owner outside. -/
theorem finishN_done (S : Sys) (q : Nat) : ∀ (k : Nat) (s : State), stage (s.res q).pc ≤ k →
    s.lock = some q → (s.res q).pc.inLocked = true →
    (finishN S q k s).lock = none ∧ ((finishN S q k s).res q).pc.inLocked = false := by
  intro k
  induction k with
  | zero => intro s h _ hb; have := stage_pos hb; omega
  | succ k ih =>
    intro s h hl hb
    rw [finishN_in S q k s hb]
    have hpc := secStep_pc S q (s.res q) s.shared hb
    cases hrel : (secStep S q (s.res q) s.shared).2.2
    · -- still inside
      have hin : ((secState S q s).res q).pc.inLocked = true := by simpa [secState, hrel] using hpc
      apply ih
      · have := secState_stage S q s hb; omega
      · simp [secState, hrel, hl]
      · exact hin
    · have hout : ((secState S q s).res q).pc.inLocked = false := by simpa [secState, hrel] using hpc
      rw [finishN_out S q k _ hout]
      exact ⟨by simp [secState, hrel], hout⟩

theorem finish_done (S : Sys) (q : Nat) (s : State) (hl : s.lock = some q)
    (hb : (s.res q).pc.inLocked = true) :
    (finish S q s).lock = none ∧ ((finish S q s).res q).pc.inLocked = false :=
  finishN_done S q 4 s (stage_le_four _) hl hb

/-! ## Actions of other threads and of the environment commute with completing a section -/

theorem secState_setRes (S : Sys) (q r : Nat) (s : State) (R' : Res) (h : r ≠ q) :
    secState S q (s.setRes r R') = (secState S q s).setRes r R' := by
  have hq : q ≠ r := fun e => h e.symm
  simp only [secState, State.setRes, upd_other _ _ _ _ hq]
  rw [upd_comm _ _ _ _ _ hq]

theorem finishN_setRes (S : Sys) (q r : Nat) (R' : Res) (h : r ≠ q) : ∀ (k : Nat) (s : State),
    finishN S q k (s.setRes r R') = (finishN S q k s).setRes r R' := by
  have hq : q ≠ r := fun e => h e.symm
  intro k
  induction k with
  | zero => intro s; simp [finishN]
  | succ k ih =>
    intro s
    cases hb : (s.res q).pc.inLocked
    · have hb' : ((s.setRes r R').res q).pc.inLocked = false := by simpa [State.setRes, hq] using hb
      rw [finishN_out S q _ _ hb, finishN_out S q _ _ hb']
    · have hb' : ((s.setRes r R').res q).pc.inLocked = true := by simpa [State.setRes, hq] using hb
      rw [finishN_in S q _ _ hb, finishN_in S q _ _ hb', secState_setRes S q r s R' h, ih]

theorem finishN_frame (S : Sys) (q : Nat) : ∀ (k : Nat) (s : State),
    (∀ r, r ≠ q → (finishN S q k s).res r = s.res r) ∧
    (finishN S q k s).clocks = s.clocks ∧ (finishN S q k s).gateOpen = s.gateOpen := by
  intro k
  induction k with
  | zero => intro s; simp [finishN]
  | succ k ih =>
    intro s
    cases hb : (s.res q).pc.inLocked
    · rw [finishN_out S q _ _ hb]; simp
    · rw [finishN_in S q _ _ hb]
      obtain ⟨h1, h2, h3⟩ := ih (secState S q s)
      refine ⟨?_, ?_, ?_⟩
      · intro r hr; rw [h1 r hr]; simp [secState, hr]
      · rw [h2]; simp [secState]
      · rw [h3]; simp [secState]

theorem secStep_queue (S : Sys) (q : Nat) (R : Res) (sh : Store) (x : List Cmd) :
    secStep S q { R with queue := x } sh =
      ({ (secStep S q R sh).1 with queue := x }, (secStep S q R sh).2) := by
  cases hpc : R.pc <;> simp [secStep, hpc]
  case locked2 ok => cases ok <;> simp
  case locked3 o =>
    unfold post
    repeat' split
    all_goals simp_all

theorem secStep_stop (S : Sys) (q : Nat) (R : Res) (sh : Store) (x : Bool) :
    secStep S q { R with stop := x } sh =
      ({ (secStep S q R sh).1 with stop := x }, (secStep S q R sh).2) := by
  cases hpc : R.pc <;> simp [secStep, hpc]
  case locked2 ok => cases ok <;> simp
  case locked3 o =>
    unfold post
    repeat' split
    all_goals simp_all

theorem secStep_keeps (S : Sys) (q : Nat) (R : Res) (sh : Store) :
    (secStep S q R sh).1.queue = R.queue ∧ (secStep S q R sh).1.stop = R.stop := by
  cases hpc : R.pc <;> simp [secStep, hpc]
  case locked2 ok => cases ok <;> simp
  case locked3 o =>
    unfold post
    repeat' split
    all_goals simp_all

/-- A change `F` of the owner's control block that the section neither reads nor writes commutes
with completing the section. -/
theorem finishN_field (S : Sys) (q : Nat) (F : Res → Res)
    (hpc : ∀ R, (F R).pc = R.pc)
    (hF : ∀ R sh, secStep S q (F R) sh = (F (secStep S q R sh).1, (secStep S q R sh).2)) :
    ∀ (k : Nat) (s : State),
    finishN S q k (s.setRes q (F (s.res q))) =
      (finishN S q k s).setRes q (F ((finishN S q k s).res q)) := by
  intro k
  induction k with
  | zero => intro s; simp [finishN]
  | succ k ih =>
    intro s
    cases hb : (s.res q).pc.inLocked
    · have hb' : ((s.setRes q (F (s.res q))).res q).pc.inLocked = false := by
        simpa [State.setRes, hpc] using hb
      rw [finishN_out S q _ _ hb, finishN_out S q _ _ hb']
    · have hb' : ((s.setRes q (F (s.res q))).res q).pc.inLocked = true := by
        simpa [State.setRes, hpc] using hb
      rw [finishN_in S q _ _ hb, finishN_in S q _ _ hb']
      have : secState S q (s.setRes q (F (s.res q))) =
          (secState S q s).setRes q (F ((secState S q s).res q)) := by
        simp [secState, State.setRes, hF]
      rw [this, ih]

theorem finishN_clocks (S : Sys) (q : Nat) (x : Nat → Clock) : ∀ (k : Nat) (s : State),
    finishN S q k { s with clocks := x } = { finishN S q k s with clocks := x } := by
  intro k
  induction k with
  | zero => intro s; simp [finishN]
  | succ k ih =>
    intro s
    cases hb : (s.res q).pc.inLocked
    · have hb' : (({ s with clocks := x } : State).res q).pc.inLocked = false := hb
      rw [finishN_out S q _ _ hb, finishN_out S q _ _ hb']
    · have hb' : (({ s with clocks := x } : State).res q).pc.inLocked = true := hb
      rw [finishN_in S q _ _ hb, finishN_in S q _ _ hb']
      have : secState S q { s with clocks := x } = { secState S q s with clocks := x } := by
        simp [secState]
      rw [this, ih]

theorem finishN_gate (S : Sys) (q : Nat) (x : Bool) : ∀ (k : Nat) (s : State),
    finishN S q k { s with gateOpen := x } = { finishN S q k s with gateOpen := x } := by
  intro k
  induction k with
  | zero => intro s; simp [finishN]
  | succ k ih =>
    intro s
    cases hb : (s.res q).pc.inLocked
    · have hb' : (({ s with gateOpen := x } : State).res q).pc.inLocked = false := hb
      rw [finishN_out S q _ _ hb, finishN_out S q _ _ hb']
    · have hb' : (({ s with gateOpen := x } : State).res q).pc.inLocked = true := hb
      rw [finishN_in S q _ _ hb, finishN_in S q _ _ hb']
      have : secState S q { s with gateOpen := x } = { secState S q s with gateOpen := x } := by
        simp [secState]
      rw [this, ih]

theorem finishN_estep (S : Sys) (q : Nat) (e : Env) (k : Nat) (s : State) :
    finishN S q k (estep e s) = estep e (finishN S q k s) := by
  obtain ⟨hres, hclk, hgate⟩ := finishN_frame S q k s
  cases e with
  | send r c =>
    by_cases hr : r = q
    · subst hr
      simp only [estep]
      exact finishN_field S r (fun R => { R with queue := R.queue ++ [c] }) (fun _ => rfl)
        (fun R sh => by
          rw [secStep_queue]; simp [(secStep_keeps S r R sh).1]) k s
    · simp only [estep]
      rw [finishN_setRes S q r _ hr, hres r hr]
  | setStop r =>
    by_cases hr : r = q
    · subst hr
      simp only [estep]
      exact finishN_field S r (fun R => { R with stop := true }) (fun _ => rfl)
        (fun R sh => by rw [secStep_stop]) k s
    · simp only [estep]
      rw [finishN_setRes S q r _ hr, hres r hr]
  | interrupt c => simp only [estep]; rw [finishN_clocks, hclk]
  | advance c dt => simp only [estep]; rw [finishN_clocks, hclk]
  | openGate => simp only [estep]; rw [finishN_gate]

/-! ## Forward simulation: interleaved system ⊑ atomic reference system -/

theorem aview_lock_none (S : Sys) {s : State} (hm : Mutex s) : (aview S s).lock = none := by
  unfold aview
  split
  · rename_i q hq
    exact (finish_done S q s hq ((hm q).2 hq)).1
  · assumption

theorem aview_of_none (S : Sys) {s : State} (h : s.lock = none) : aview S s = s := by
  simp [aview, h]

/-- Every action of the interleaved system is, in the atomic view, either invisible (an action
inside a section that has already been accounted for when the mutex was taken) or the same
action of the atomic reference system. -/
theorem sim_step {S : Sys} {s s' : State} {l : Label} (hm : Mutex s) (h : step S s l = some s') :
    aview S s' = aview S s ∨ astep S (aview S s) l = some (aview S s') := by
  cases hl : s.lock with
  | none =>
    right
    simp [astep, aview_of_none S hl, h]
  | some q =>
    have hqin : (s.res q).pc.inLocked = true := (hm q).2 hl
    cases l with
    | env e =>
      right
      simp only [step] at h
      cases h
      have hl' : (estep e s).lock = some q := by
        cases e <;> simp [estep, State.setRes, hl]
      have h1 : aview S (estep e s) = estep e (finish S q s) := by
        simp only [aview, hl']
        exact finishN_estep S q e 4 s
      have h2 : aview S s = finish S q s := by simp [aview, hl]
      have h3 : (estep e (finish S q s)).lock = none := by
        have := (finish_done S q s hl hqin).1
        cases e <;> simp [estep, State.setRes, this]
      simp [astep, step, h1, h2, aview_of_none S h3]
    | res r =>
      simp only [step] at h
      split at h
      case isFalse => cases h
      rename_i hrn
      rcases rstep_cases h with ⟨_, hnone, _⟩ | ⟨hin, rfl⟩ | ⟨hnw, hout, R', hR, rfl⟩
      · simp [hl] at hnone
      · -- an action inside the section: r = q
        have hrq : r = q := by
          have := (hm r).1 hin
          simp [hl] at this
          exact this.symm
        subst hrq
        left
        have h2 : aview S s = finish S r (secState S r s) := by
          simp only [aview, hl]; exact finish_in S r s hin
        rw [h2]
        have hpc := secStep_pc S r (s.res r) s.shared hin
        cases hrel : (secStep S r (s.res r) s.shared).2.2
        · have : (secState S r s).lock = some r := by simp [secState, hrel, hl]
          simp [aview, this]
        · have hnl : (secState S r s).lock = none := by simp [secState, hrel]
          have hout : ((secState S r s).res r).pc.inLocked = false := by
            simpa [secState, hrel] using hpc
          rw [aview_of_none S hnl, finish_out S r _ hout]
      · -- a local action of another thread
        have hrq : r ≠ q := by
          intro e; subst e; simp [hqin] at hout
        right
        have h2 : aview S s = finish S q s := by simp [aview, hl]
        have hl' : (s.setRes r R').lock = some q := by simp [State.setRes, hl]
        have h1 : aview S (s.setRes r R') = (finish S q s).setRes r R' := by
          simp only [aview, hl']
          exact finishN_setRes S q r R' hrq 4 s
        obtain ⟨hres, hclk, hgate⟩ := finishN_frame S q 4 s
        have hrr : (finish S q s).res r = s.res r := hres r hrq
        have h3 : rstep S r (finish S q s) = some ((finish S q s).setRes r R') := by
          have hpcr : ((finish S q s).res r).pc = (s.res r).pc := by rw [hrr]
          cases hpc : (s.res r).pc <;> simp [hpc, Pc.inLocked] at hout hnw <;>
            simp only [rstep, hpcr, hpc] <;>
            simp [hrr, show (finish S q s).clocks = s.clocks from hclk,
                  show (finish S q s).gateOpen = s.gateOpen from hgate, hR]
        have h4 : ((finish S q s).setRes r R').lock = none := by
          simp [State.setRes, (finish_done S q s hl hqin).1]
        simp [astep, step, hrn, h1, h2, h3, aview_of_none S h4]

/-- **Serialisability.**  Every execution of the interleaved system is matched, action by action
(minus the actions inside sections), by an execution of the atomic reference system that ends in
the atomic view of the final state. -/
theorem sim_run {S : Sys} : ∀ (ls : List Label) (s s' : State), Mutex s → run S s ls = some s' →
    ∃ ls', ls'.Sublist ls ∧ arun S (aview S s) ls' = some (aview S s') := by
  intro ls
  induction ls with
  | nil =>
    intro s s' _ h
    simp [run] at h
    exact ⟨[], List.Sublist.refl _, by simp [arun, h]⟩
  | cons l ls ih =>
    intro s s' hm h
    simp only [run] at h
    split at h
    case h_2 => cases h
    rename_i s1 h1
    obtain ⟨ls', hsub, hrun⟩ := ih s1 s' (mutex_step hm h1) h
    rcases sim_step hm h1 with heq | hstep
    · exact ⟨ls', List.Sublist.cons _ hsub, by rw [← heq]; exact hrun⟩
    · exact ⟨l :: ls', List.Sublist.cons_cons _ hsub, by simp [arun, hstep, hrun]⟩

/-! ## Per-thread invariants (pause flag, published state, retain saves) -/

structure ResInv (R : Res) : Prop where
  paused_out : R.paused = true → R.pc.inCycle = false
  paused_state : R.paused = true → R.pc.isDone = false → R.state = .paused
  state_paused : R.state = .paused → R.paused = true
  early : (R.pc = .start ∨ R.pc = .gate) → R.paused = false ∧ R.execs = 0
  live : R.pc.isDone = false →
    R.saves = 0 ∧ R.saved = none ∧ R.state ≠ .stopped ∧ R.state ≠ .faulted
  doneGate : R.pc = .done .gate → R.state = .stopped ∧ R.saves = 0 ∧ R.execs = 0
  doneStopped : R.pc = .done .stopped → R.state = .stopped ∧ R.saves = 1 ∧ R.saved.isSome
  doneFaulted : R.pc = .done .faulted → R.state = .faulted ∧ R.saves = 0 ∧ R.lastErr.isSome

theorem resInv_init (st : Store) : ResInv { store := st } := by
  constructor <;> simp [Pc.inCycle, Pc.isDone]

theorem resInv_local {cfg : Cfg} {clk : Clock} {g : Bool} {R R' : Res} (hi : ResInv R)
    (h : localStep cfg clk g R = some R') : ResInv R' := by
  obtain ⟨h1, h2, h3, h4, h5, h6, h7, h8⟩ := hi
  cases hpc : R.pc <;> simp only [localStep, hpc] at h
  case start =>
    simp [hpc, Pc.isDone] at h4 h5
    split at h <;> cases h <;> constructor <;> simp_all [Pc.inCycle, Pc.isDone]
  case gate =>
    simp [hpc, Pc.isDone] at h4 h5
    split at h
    · cases h; constructor <;> simp_all [Pc.inCycle, Pc.isDone]
    · split at h
      · cases h; constructor <;> simp_all [Pc.inCycle, Pc.isDone]
      · cases h
  case top =>
    simp [hpc, Pc.isDone, Pc.inCycle] at h1 h2 h4 h5 h6 h7 h8
    split at h <;> cases h <;> constructor <;> simp_all [Pc.inCycle, Pc.isDone]
  case drain =>
    simp [hpc, Pc.isDone, Pc.inCycle] at h1 h2 h4 h5 h6 h7 h8
    split at h
    · cases h; constructor <;> simp_all [Pc.inCycle, Pc.isDone]
    · cases h
      rename_i c q hq
      cases c <;> constructor <;> simp_all [Pc.inCycle, Pc.isDone, applyCmd]
  case pauseChk =>
    simp [hpc, Pc.isDone, Pc.inCycle] at h1 h2 h4 h5 h6 h7 h8
    split at h
    · split at h <;> cases h <;> constructor <;> simp_all [Pc.inCycle, Pc.isDone]
    · cases h; constructor <;> simp_all [Pc.inCycle, Pc.isDone]
  case sleep d =>
    simp [hpc, Pc.isDone, Pc.inCycle] at h1 h2 h4 h5 h6 h7 h8
    split at h
    · cases h; constructor <;> simp_all [Pc.inCycle, Pc.isDone]
    · cases h
  all_goals cases h

theorem resInv_acq {R : Res} (hi : ResInv R) (hpc : R.pc = .lockWait) :
    ResInv { R with pc := .locked0 } := by
  obtain ⟨h1, h2, h3, h4, h5, h6, h7, h8⟩ := hi
  simp [hpc, Pc.isDone, Pc.inCycle] at h1 h2 h4 h5 h6 h7 h8
  constructor <;> simp_all [Pc.inCycle, Pc.isDone]

theorem resInv_sec (S : Sys) (r : Nat) {R : Res} (sh : Store) (hi : ResInv R)
    (hin : R.pc.inLocked = true) : ResInv (secStep S r R sh).1 := by
  obtain ⟨h1, h2, h3, h4, h5, h6, h7, h8⟩ := hi
  cases hpc : R.pc <;> simp [hpc, Pc.inLocked] at hin <;>
    simp [hpc, Pc.isDone, Pc.inCycle] at h1 h2 h4 h5 h6 h7 h8
  · simp only [secStep, hpc]
    split <;> constructor <;> simp_all [Pc.inCycle, Pc.isDone]
  · simp only [secStep, hpc]
    constructor <;> simp_all [Pc.inCycle, Pc.isDone]
  · simp only [secStep, hpc]
    split <;> constructor <;> simp_all [Pc.inCycle, Pc.isDone]
  · simp only [secStep, hpc, post]
    repeat' split
    all_goals constructor <;> simp_all [Pc.inCycle, Pc.isDone]

/-- The per-thread invariant holds for every thread in every reachable state. -/
def AllInv (s : State) : Prop := ∀ r, ResInv (s.res r)

theorem allInv_init (S : Sys) : AllInv (init S) := fun r => resInv_init (S.initStore r)

theorem allInv_step {S : Sys} {s s' : State} {l : Label} (hi : AllInv s)
    (h : step S s l = some s') : AllInv s' := by
  cases l with
  | env e =>
    simp only [step] at h
    cases h
    intro q
    have := hi q
    cases e with
    | send r c =>
      by_cases hq : q = r
      · subst hq
        obtain ⟨h1, h2, h3, h4, h5, h6, h7, h8⟩ := this
        simp only [estep, State.setRes, upd_same]
        constructor <;> simp_all
      · simpa [estep, State.setRes, hq] using this
    | setStop r =>
      by_cases hq : q = r
      · subst hq
        obtain ⟨h1, h2, h3, h4, h5, h6, h7, h8⟩ := this
        simp only [estep, State.setRes, upd_same]
        constructor <;> simp_all
      · simpa [estep, State.setRes, hq] using this
    | interrupt c => simpa [estep] using this
    | advance c dt => simpa [estep] using this
    | openGate => simpa [estep] using this
  | res r =>
    simp only [step] at h
    split at h
    case isFalse => cases h
    intro q
    rcases rstep_cases h with ⟨hpc, _, rfl⟩ | ⟨hin, rfl⟩ | ⟨_, _, R', hR, rfl⟩
    · by_cases hq : q = r
      · subst hq; simpa [acqState] using resInv_acq (hi q) hpc
      · simpa [acqState, hq] using hi q
    · by_cases hq : q = r
      · subst hq; simpa [secState] using resInv_sec S q s.shared (hi q) hin
      · simpa [secState, hq] using hi q
    · by_cases hq : q = r
      · subst hq; simpa [State.setRes] using resInv_local (hi q) hR
      · simpa [State.setRes, hq] using hi q

theorem allInv_reachable {S : Sys} {s : State} (h : Reachable S s) : AllInv s := by
  obtain ⟨ls, h⟩ := h
  exact run_induct (fun _ _ _ hp hs => allInv_step hp hs) ls _ _ (allInv_init S) h

theorem run_append {S : Sys} : ∀ (ls ms : List Label) (s s' s'' : State),
    run S s ls = some s' → run S s' ms = some s'' → run S s (ls ++ ms) = some s'' := by
  intro ls
  induction ls with
  | nil => intro ms s s' s'' h1 h2; simp [run] at h1; subst h1; simpa using h2
  | cons l ls ih =>
    intro ms s s' s'' h1 h2
    simp only [run] at h1
    split at h1
    · rename_i s1 hs1
      simp only [List.cons_append, run, hs1]
      exact ih ms s1 s' s'' h1 h2
    · cases h1

theorem reachable_run {S : Sys} {s s' : State} {ls : List Label} (h : Reachable S s)
    (hr : run S s ls = some s') : Reachable S s' := by
  obtain ⟨ks, hk⟩ := h
  exact ⟨ks ++ ls, run_append ks ls _ _ _ hk hr⟩

/-! ## Termination measure once `stop` is set and the clock is interrupted -/

theorem stop_local {cfg : Cfg} {clk : Clock} {g : Bool} {R : Res} (hs : R.stop = true)
    (hc : clk.intr = true) (hpc : R.pc.inCycle = false) (hd : R.pc.isDone = false) :
    ∃ R', localStep cfg clk g R = some R' ∧ stopFuel R' < stopFuel R ∧ R'.stop = true := by
  cases hp : R.pc <;> simp [hp, Pc.inCycle, Pc.isDone] at hpc hd
  case start =>
    simp only [localStep, hp]
    split <;> exact ⟨_, rfl, by simp [stopFuel, hp], hs⟩
  case gate =>
    simp only [localStep, hp]
    split
    · exact ⟨_, rfl, by simp [stopFuel, hp], hs⟩
    · simp only [hs]; exact ⟨_, rfl, by simp [stopFuel, hp], rfl⟩
  case top =>
    simp only [localStep, hp, hs, if_true]
    exact ⟨_, rfl, by simp [stopFuel, hp], rfl⟩
  case drain =>
    simp only [localStep, hp]
    split
    · exact ⟨_, rfl, by simp [stopFuel, hp], hs⟩
    · rename_i c q hq
      refine ⟨_, rfl, ?_, ?_⟩
      · cases c <;> simp [stopFuel, applyCmd, hp, hq]
      · cases c <;> simp [applyCmd, hs]
  case pauseChk =>
    simp only [localStep, hp]
    split
    · split <;> exact ⟨_, rfl, by simp [stopFuel, hp], hs⟩
    · exact ⟨_, rfl, by simp [stopFuel, hp], hs⟩
  case sleep d =>
    simp only [localStep, hp, hc, Bool.true_or, if_true]
    exact ⟨_, rfl, by simp [stopFuel, hp], hs⟩

theorem stop_sec (S : Sys) (r : Nat) (R : Res) (sh : Store) (hin : R.pc.inLocked = true) :
    stopFuel (secStep S r R sh).1 < stopFuel R := by
  cases hp : R.pc <;> simp [hp, Pc.inLocked] at hin
  · simp only [secStep, hp]; split <;> simp [stopFuel, hp]
  · simp [secStep, hp, stopFuel]
  · simp only [secStep, hp]; split <;> simp [stopFuel, hp]
  · simp only [secStep, hp, post]
    repeat' split
    all_goals simp [stopFuel, hp]

/-- With `stop` set and its clock interrupted, a thread that has not ended can always act, unless
it waits for a mutex that another thread holds; and every action of its own brings it closer
to its end. -/
theorem stop_rstep {S : Sys} {r : Nat} {s : State} (hs : (s.res r).stop = true)
    (hc : (s.clocks (S.cfg r).clk).intr = true) :
    (∃ s', rstep S r s = some s' ∧ stopFuel (s'.res r) < stopFuel (s.res r) ∧
        (s'.res r).stop = true ∧ s'.clocks = s.clocks) ∨
      (s.res r).pc.isDone = true ∨ ((s.res r).pc = .lockWait ∧ s.lock ≠ none) := by
  by_cases hin : (s.res r).pc.inLocked = true
  · left
    refine ⟨_, rstep_locked hin, ?_, ?_, ?_⟩
    · simpa [secState] using stop_sec S r (s.res r) s.shared hin
    · simp [secState, (secStep_keeps S r (s.res r) s.shared).2, hs]
    · simp [secState]
  · by_cases hw : (s.res r).pc = .lockWait
    · cases hl : s.lock with
      | some q => right; right; exact ⟨hw, by simp⟩
      | none =>
        left
        refine ⟨acqState r s, by simp [rstep, hw, hl, acqState], ?_, ?_, ?_⟩
        · simp [acqState, stopFuel, hw]
        · simpa [acqState] using hs
        · simp [acqState]
    · by_cases hd : (s.res r).pc.isDone = true
      · right; left; exact hd
      · left
        have hcyc : (s.res r).pc.inCycle = false := by
          cases hp : (s.res r).pc <;> simp_all [Pc.inCycle, Pc.inLocked]
        obtain ⟨R', hR, hf, hs'⟩ := stop_local (cfg := S.cfg r) (g := s.gateOpen) hs hc hcyc
          (by simpa using hd)
        refine ⟨s.setRes r R', ?_, by simpa [State.setRes] using hf, by simpa [State.setRes] using hs',
          by simp [State.setRes]⟩
        cases hp : (s.res r).pc <;> simp_all [rstep, Pc.inLocked]

/-- A thread action changes nothing of another thread, of the clocks or of the gate. -/
theorem rstep_frame {S : Sys} {q : Nat} {s s' : State} (h : rstep S q s = some s') :
    (∀ r, r ≠ q → s'.res r = s.res r) ∧ s'.clocks = s.clocks ∧ s'.gateOpen = s.gateOpen := by
  rcases rstep_cases h with ⟨_, _, rfl⟩ | ⟨_, rfl⟩ | ⟨_, _, R', _, rfl⟩
  · exact ⟨fun r hr => by simp [acqState, hr], rfl, rfl⟩
  · exact ⟨fun r hr => by simp [secState, hr], rfl, rfl⟩
  · exact ⟨fun r hr => by simp [State.setRes, hr], rfl, rfl⟩

theorem stop_estep (S : Sys) (r : Nat) (e : Env) (s : State) (hs : (s.res r).stop = true)
    (hc : (s.clocks (S.cfg r).clk).intr = true) :
    ((estep e s).res r).stop = true ∧ ((estep e s).clocks (S.cfg r).clk).intr = true ∧
    stopFuel ((estep e s).res r) ≤ stopFuel (s.res r) + (if (Label.env e).isSend r then 1 else 0) := by
  cases e with
  | send q c =>
    by_cases hq : q = r
    · subst hq
      refine ⟨by simpa [estep, State.setRes] using hs, by simpa [estep, State.setRes] using hc, ?_⟩
      simp only [estep, State.setRes, upd_same, Label.isSend, beq_self_eq_true, if_true]
      cases hp : (s.res q).pc <;> simp [stopFuel, hp]
    · have hq' : r ≠ q := fun e => hq e.symm
      simp [estep, State.setRes, hq', hs, hc, Label.isSend, hq]
  | setStop q =>
    by_cases hq : r = q
    · subst hq
      refine ⟨by simp [estep, State.setRes], by simpa [estep, State.setRes] using hc, ?_⟩
      simp only [estep, State.setRes, upd_same, Label.isSend]
      cases hp : (s.res r).pc <;> simp [stopFuel, hp]
    · simp [estep, State.setRes, hq, hs, hc, Label.isSend]
  | interrupt c =>
    refine ⟨by simpa [estep] using hs, ?_, by simp [estep, Label.isSend]⟩
    by_cases h : (S.cfg r).clk = c
    · simp [estep, h]
    · simp [estep, h, hc]
  | advance c dt =>
    refine ⟨by simpa [estep] using hs, ?_, by simp [estep, Label.isSend]⟩
    by_cases h : (S.cfg r).clk = c
    · subst h; simpa [estep] using hc
    · simp [estep, h, hc]
  | openGate => exact ⟨by simpa [estep] using hs, by simpa [estep] using hc, by simp [estep, Label.isSend]⟩

/-- **Stop terminates.**  From a state in which `stop` is set for `r` and its clock is
interrupted: along every execution, (what is left of the measure) + (actions `r` has taken) is
bounded by the initial measure + the commands sent to `r` meanwhile; both flags stay set. -/
theorem stop_run {S : Sys} (r : Nat) : ∀ (ls : List Label) (s s' : State),
    (s.res r).stop = true → (s.clocks (S.cfg r).clk).intr = true → run S s ls = some s' →
    (s'.res r).stop = true ∧ (s'.clocks (S.cfg r).clk).intr = true ∧
    stopFuel (s'.res r) + ls.countP (Label.isRes r) ≤
      stopFuel (s.res r) + ls.countP (Label.isSend r) := by
  intro ls
  induction ls with
  | nil => intro s s' hs hc h; simp [run] at h; subst h; simp [hs, hc]
  | cons l ls ih =>
    intro s s' hs hc h
    simp only [run] at h
    split at h
    case h_2 => cases h
    rename_i s1 h1
    cases l with
    | env e =>
      simp only [step] at h1
      cases h1
      obtain ⟨a, b, c⟩ := stop_estep S r e s hs hc
      obtain ⟨a', b', c'⟩ := ih _ _ a b h
      refine ⟨a', b', ?_⟩
      have hnr : (Label.env e).isRes r = false := rfl
      simp only [List.countP_cons, hnr]
      cases hb : (Label.env e).isSend r <;> simp [hb] at c ⊢ <;> omega
    | res q =>
      simp only [step] at h1
      split at h1
      case isFalse => cases h1
      by_cases hq : q = r
      · subst hq
        rcases stop_rstep (S := S) hs hc with ⟨s2, h2, hf, hs2, hc2⟩ | hd | ⟨hw, hl⟩
        · rw [h2] at h1; cases h1
          obtain ⟨a', b', c'⟩ := ih _ _ hs2 (by rw [hc2]; exact hc) h
          refine ⟨a', b', ?_⟩
          simp only [List.countP_cons, Label.isRes, Label.isSend, beq_self_eq_true, if_true]
          simp at c' ⊢
          omega
        · -- a thread that has ended takes no action
          cases hp : (s.res q).pc <;> simp [hp, Pc.isDone] at hd
          simp [rstep, hp, localStep] at h1
        · cases hl' : s.lock with
          | none => exact absurd hl' hl
          | some x => simp [rstep, hw, hl'] at h1
      · obtain ⟨f1, f2, _⟩ := rstep_frame h1
        have hr : s1.res r = s.res r := f1 r (fun e => hq e.symm)
        obtain ⟨a', b', c'⟩ := ih s1 s' (by rw [hr]; exact hs) (by rw [f2]; exact hc) h
        refine ⟨a', b', ?_⟩
        simp only [List.countP_cons, Label.isRes, Label.isSend]
        simp [hq] at c' ⊢
        rw [hr] at c'
        exact c'

theorem stopFuel_zero {R : Res} (h : stopFuel R = 0) : R.pc.isDone = true := by
  cases hp : R.pc <;> simp [stopFuel, hp, Pc.isDone] at h ⊢

/-! ## A paused thread executes no cycle until it processes `Resume` -/

theorem paused_local {cfg : Cfg} {clk : Clock} {g : Bool} {R R' : Res}
    (h : localStep cfg clk g R = some R') (hp : R.paused = true) (hq : Cmd.resume ∉ R.queue) :
    R'.paused = true ∧ R'.execs = R.execs ∧ Cmd.resume ∉ R'.queue := by
  cases hpc : R.pc <;> simp only [localStep, hpc] at h
  case start => split at h <;> cases h <;> simp_all
  case gate =>
    split at h
    · cases h; simp_all
    · split at h <;> cases h; simp_all
  case top => split at h <;> cases h <;> simp_all
  case drain =>
    split at h
    · cases h; simp_all
    · cases h
      rename_i c q hcq
      rw [hcq] at hq
      cases c <;> simp_all [applyCmd]
  case pauseChk =>
    simp only [hp, if_true] at h
    split at h <;> cases h <;> simp_all
  case sleep d => split at h <;> cases h; simp_all
  all_goals cases h

theorem paused_run {S : Sys} (r : Nat) : ∀ (ls : List Label) (s s' : State), AllInv s →
    (s.res r).paused = true → Cmd.resume ∉ (s.res r).queue →
    (∀ l ∈ ls, l ≠ Label.env (.send r .resume)) → run S s ls = some s' →
    (s'.res r).paused = true ∧ (s'.res r).execs = (s.res r).execs ∧
      Cmd.resume ∉ (s'.res r).queue := by
  intro ls
  induction ls with
  | nil => intro s s' _ hp hq _ h; simp [run] at h; subst h; exact ⟨hp, rfl, hq⟩
  | cons l ls ih =>
    intro s s' hi hp hq hl h
    simp only [run] at h
    split at h
    case h_2 => cases h
    rename_i s1 h1
    have hi1 := allInv_step hi h1
    have hl' : ∀ l ∈ ls, l ≠ Label.env (.send r .resume) := fun l hl0 => hl l (by simp [hl0])
    have key : (s1.res r).paused = true ∧ (s1.res r).execs = (s.res r).execs ∧
        Cmd.resume ∉ (s1.res r).queue := by
      cases l with
      | env e =>
        simp only [step] at h1
        cases h1
        cases e with
        | send q c =>
          by_cases hqr : q = r
          · subst hqr
            have hc : c ≠ .resume := by
              intro e; subst e; exact hl _ (by simp) rfl
            simp [estep, State.setRes, hp, hq]
            exact fun e => hc e.symm
          · have : r ≠ q := fun e => hqr e.symm
            simp [estep, State.setRes, this, hp, hq]
        | setStop q =>
          by_cases hqr : r = q
          · subst hqr; simp [estep, State.setRes, hp, hq]
          · simp [estep, State.setRes, hqr, hp, hq]
        | interrupt c => simp [estep, hp, hq]
        | advance c dt => simp [estep, hp, hq]
        | openGate => simp [estep, hp, hq]
      | res q =>
        simp only [step] at h1
        split at h1
        case isFalse => cases h1
        by_cases hqr : q = r
        · subst hqr
          have hout := (hi q).paused_out hp
          rcases rstep_cases h1 with ⟨hpc, _, _⟩ | ⟨hin, _⟩ | ⟨_, _, R', hR, rfl⟩
          · simp [hpc, Pc.inCycle] at hout
          · cases hpc : (s.res q).pc <;> simp_all [Pc.inCycle, Pc.inLocked]
          · simpa [State.setRes] using paused_local hR hp hq
        · obtain ⟨f1, _, _⟩ := rstep_frame h1
          rw [f1 r (fun e => hqr e.symm)]
          exact ⟨hp, rfl, hq⟩
    obtain ⟨a, b, c⟩ := ih s1 s' hi1 key.1 key.2.2 hl' h
    exact ⟨a, by rw [b, key.2.1], c⟩

/-! ## Reasoning in the atomic view -/

theorem finishN_crit (S : Sys) (q : Nat) : ∀ (k : Nat) (s : State),
    (finishN S q k s).res q = (critN S q k (s.res q) s.shared).1 ∧
    (finishN S q k s).shared = (critN S q k (s.res q) s.shared).2 := by
  intro k
  induction k with
  | zero => intro s; simp [finishN, critN]
  | succ k ih =>
    intro s
    cases hb : (s.res q).pc.inLocked
    · rw [finishN_out S q _ _ hb]; simp [critN, hb]
    · rw [finishN_in S q _ _ hb]
      obtain ⟨h1, h2⟩ := ih (secState S q s)
      rw [h1, h2]
      simp [critN, hb, secState]

theorem mutex_aview (S : Sys) {s : State} (hm : Mutex s) : Mutex (aview S s) := by
  cases hl : s.lock with
  | none => rw [aview_of_none S hl]; exact hm
  | some q =>
    have hqin := (hm q).2 hl
    have hv : aview S s = finish S q s := by simp [aview, hl]
    obtain ⟨h1, h2⟩ := finish_done S q s hl hqin
    obtain ⟨f1, _, _⟩ := finishN_frame S q 4 s
    intro r
    rw [hv, h1]
    by_cases hr : r = q
    · subst hr; simp [h2]
    · have : (finish S q s).res r = s.res r := f1 r hr
      rw [this]
      have := hm r
      simp [hl] at this
      simp
      cases hb : (s.res r).pc.inLocked
      · rfl
      · exact absurd (this.1 hb).symm hr

/-- Induction over the atomic view: a property that holds initially and is preserved by every
action of the atomic reference system (started in a state without a section in progress) holds
in the atomic view of every reachable state. -/
theorem aview_induct {S : Sys} {P : State → Prop} (h0 : P (init S))
    (hstep : ∀ s l s', Mutex s → s.lock = none → P s → astep S s l = some s' → P s') :
    ∀ {s : State}, Reachable S s → P (aview S s) := by
  intro s ⟨ls, hrun⟩
  have : ∀ (ls : List Label) (s s' : State), Mutex s → P (aview S s) → run S s ls = some s' →
      P (aview S s') := by
    intro ls
    induction ls with
    | nil => intro s s' _ hp h; simp [run] at h; subst h; exact hp
    | cons l ls ih =>
      intro s s' hm hp h
      simp only [run] at h
      split at h
      case h_2 => cases h
      rename_i s1 h1
      refine ih s1 s' (mutex_step hm h1) ?_ h
      rcases sim_step hm h1 with heq | hst
      · rw [heq]; exact hp
      · exact hstep _ _ _ (mutex_aview S hm) (aview_lock_none S hm) hp hst
  have hi : aview S (init S) = init S := aview_of_none S rfl
  exact this ls _ _ (mutex_init S) (by rw [hi]; exact h0) hrun

/-- What an action of the atomic reference system is, from a state without a section in
progress: a whole locked closure of `r`, a local action of `r`, or an environment action. -/
theorem astep_cases {S : Sys} {s s' : State} {l : Label} (hm : Mutex s) (hl : s.lock = none)
    (h : astep S s l = some s') :
    (∃ r, l = .res r ∧ r < S.n ∧ (s.res r).pc = .lockWait ∧
        s'.res r = (crit S r (s.res r) s.shared).1 ∧ s'.shared = (crit S r (s.res r) s.shared).2 ∧
        (∀ q, q ≠ r → s'.res q = s.res q) ∧ s'.clocks = s.clocks ∧ s'.gateOpen = s.gateOpen) ∨
    (∃ r R', l = .res r ∧ r < S.n ∧ (s.res r).pc.inCycle = false ∧
        localStep (S.cfg r) (s.clocks (S.cfg r).clk) s.gateOpen (s.res r) = some R' ∧
        s' = s.setRes r R') ∨
    (∃ e, l = .env e ∧ s' = estep e s) := by
  cases l with
  | env e =>
    right; right
    simp only [astep, step, Option.map_some, Option.some.injEq] at h
    have : (estep e s).lock = none := by cases e <;> simp [estep, State.setRes, hl]
    rw [aview_of_none S this] at h
    exact ⟨e, rfl, h.symm⟩
  | res r =>
    simp only [astep, step] at h
    split at h
    case isFalse => simp at h
    rename_i hrn
    cases hr : rstep S r s with
    | none => simp [hr] at h
    | some s1 =>
      simp only [hr, Option.map_some, Option.some.injEq] at h
      rcases rstep_cases hr with ⟨hpc, _, rfl⟩ | ⟨hin, _⟩ | ⟨hnw, hout, R', hR, rfl⟩
      · left
        have hv : aview S (acqState r s) = finish S r (acqState r s) := by simp [aview, acqState]
        rw [hv] at h
        subst h
        obtain ⟨c1, c2⟩ := finishN_crit S r 4 (acqState r s)
        obtain ⟨f1, f2, f3⟩ := finishN_frame S r 4 (acqState r s)
        refine ⟨r, rfl, hrn, hpc, ?_, ?_, ?_, ?_, ?_⟩
        · simpa [finish, crit, acqState] using c1
        · simpa [finish, crit, acqState] using c2
        · intro q hq; rw [show (finish S r (acqState r s)).res q = _ from f1 q hq]; simp [acqState, hq]
        · exact f2
        · exact f3
      · have := (hm r).1 hin
        simp [hl] at this
      · right; left
        have : (s.setRes r R').lock = none := by simp [State.setRes, hl]
        rw [aview_of_none S this] at h
        refine ⟨r, R', rfl, hrn, ?_, hR, h.symm⟩
        cases hpc : (s.res r).pc <;> simp_all [Pc.inCycle, Pc.inLocked]

theorem critN_out (S : Sys) (r : Nat) (k : Nat) (R : Res) (sh : Store)
    (h : R.pc.inLocked = false) : critN S r k R sh = (R, sh) := by
  cases k <;> simp [critN, h]

theorem critN_in (S : Sys) (r : Nat) (k : Nat) (R : Res) (sh : Store)
    (h : R.pc.inLocked = true) :
    critN S r (k + 1) R sh = critN S r k (secStep S r R sh).1 (secStep S r R sh).2.1 := by
  simp [critN, h]

theorem critN_post (S : Sys) (r : Nat) (k : Nat) (o : Outcome) (R : Res) (sh : Store) :
    critN S r k (post S r o R) sh = (post S r o R, sh) := critN_out S r k _ sh (post_pc S r o R)

/-- Closed form of the locked closure: `sync_into`, `execute_cycle`, and `sync_from` only if the
cycle returned `Ok`. -/
theorem crit_eq (S : Sys) (r : Nat) (R : Res) (sh : Store) :
    crit S r R sh =
      if (syncInto S.names sh R.store).2 = true then
        if (S.cycle r (syncInto S.names sh R.store).1 (S.input r R.execs) R.curTime).2 = true then
          (post S r (if (syncFrom S.names (S.cycle r (syncInto S.names sh R.store).1 (S.input r R.execs) R.curTime).1 sh).2 then .ok else .undefined)
            { R with
              store := (S.cycle r (syncInto S.names sh R.store).1 (S.input r R.execs) R.curTime).1,
              execs := R.execs + 1,
              oks := R.oks + 1,
              pc := .locked3 (if (syncFrom S.names (S.cycle r (syncInto S.names sh R.store).1 (S.input r R.execs) R.curTime).1 sh).2 then .ok else .undefined) },
           (syncFrom S.names (S.cycle r (syncInto S.names sh R.store).1 (S.input r R.execs) R.curTime).1 sh).1)
        else
          (post S r .fault
            { R with
              store := (S.cycle r (syncInto S.names sh R.store).1 (S.input r R.execs) R.curTime).1,
              execs := R.execs + 1,
              oks := R.oks,
              pc := .locked3 .fault },
           sh)
      else
        (post S r .undefined { R with store := (syncInto S.names sh R.store).1, pc := .locked3 .undefined },
         sh) := by
  unfold crit
  rw [critN_in S r 3 _ sh rfl]
  cases hp : (syncInto S.names sh R.store).2
  · have e1 : secStep S r { R with pc := .locked0 } sh =
        ({ R with store := (syncInto S.names sh R.store).1, pc := .locked3 .undefined }, sh, false) := by
      simp [secStep, hp]
    rw [e1, critN_in S r 2 _ sh rfl]
    simp only [secStep, critN_post]
    simp
  · have e1 : secStep S r { R with pc := .locked0 } sh =
        ({ R with store := (syncInto S.names sh R.store).1, pc := .locked1 }, sh, false) := by
      simp [secStep, hp]
    rw [e1, critN_in S r 2 _ sh rfl]
    simp only [secStep]
    rw [critN_in S r 1 _ sh rfl]
    cases hc : (S.cycle r (syncInto S.names sh R.store).1 (S.input r R.execs) R.curTime).2
    · simp only [secStep]
      rw [critN_in S r 0 _ _ rfl]
      simp only [secStep]
      simp [critN_post]
    · simp only [secStep]
      rw [critN_in S r 0 _ _ rfl]
      simp only [secStep]
      simp [critN_post]

/-! ## The shared map -/

theorem estep_shared (e : Env) (s : State) : (estep e s).shared = s.shared := by
  cases e <;> simp [estep, State.setRes]

/-- Any property of the shared map that every whole locked closure preserves holds in the atomic
view of every reachable state. -/
theorem shared_inv {S : Sys} (I : Store → Prop) (h0 : I S.initShared)
    (hc : ∀ r R sh, I sh → I (crit S r R sh).2) {s : State} (h : Reachable S s) :
    I (aview S s).shared := by
  refine aview_induct (P := fun s => I s.shared) h0 ?_ h
  intro s l s' hm hl hp hst
  rcases astep_cases hm hl hst with ⟨r, _, _, _, _, hsh, _⟩ | ⟨r, R', _, _, _, _, rfl⟩ | ⟨e, _, rfl⟩
  · rw [hsh]; exact hc _ _ _ hp
  · exact hp
  · rw [estep_shared]; exact hp

theorem syncInto_other : ∀ (ns : List Nat) (sh st : Store) (m : Nat), m ∉ ns →
    (syncInto ns sh st).1 m = st m := by
  intro ns
  induction ns with
  | nil => intro sh st m _; rfl
  | cons n ns ih =>
    intro sh st m hm
    simp only [List.mem_cons, not_or] at hm
    simp only [syncInto]
    split
    · rfl
    · rw [ih _ _ _ hm.2]; simp [Store.set, hm.1]

/-- After a successful `sync_into` the runtime agrees with the shared map on every shared name. -/
theorem syncInto_agrees : ∀ (ns : List Nat) (sh st : Store), (syncInto ns sh st).2 = true →
    ∀ m ∈ ns, (syncInto ns sh st).1 m = sh m := by
  intro ns
  induction ns with
  | nil => intro sh st _ m hm; cases hm
  | cons n ns ih =>
    intro sh st hok m hm
    simp only [syncInto] at hok ⊢
    split at hok
    · cases hok
    · rename_i v hv
      try simp only [hv]
      by_cases hmn : m ∈ ns
      · exact ih sh _ hok m hmn
      · have : m = n := by simpa [hmn] using hm
        subst this
        rw [syncInto_other ns sh _ m hmn]
        simp [Store.set, hv]

/-- While a thread owns the mutex no other thread changes the shared map. -/
theorem lock_protects {S : Sys} {s s' : State} {q r : Nat} (hm : Mutex s) (hl : s.lock = some r)
    (hq : q ≠ r) (h : rstep S q s = some s') : s'.shared = s.shared := by
  rcases rstep_cases h with ⟨_, hn, _⟩ | ⟨hin, _⟩ | ⟨_, _, R', _, rfl⟩
  · simp [hl] at hn
  · have := (hm q).1 hin
    simp [hl] at this
    exact absurd this.symm hq
  · rfl

/-- `execute_cycle` runs on a runtime whose shared names carry exactly the current shared map. -/
def SnapInv (S : Sys) (s : State) : Prop :=
  ∀ r, (s.res r).pc = .locked1 → ∀ n ∈ S.names, (s.res r).store n = s.shared n

theorem snap_step {S : Sys} {s s' : State} {l : Label} (hm : Mutex s) (hi : SnapInv S s)
    (h : step S s l = some s') : SnapInv S s' := by
  cases l with
  | env e =>
    simp only [step] at h
    cases h
    intro r hpc n hn
    rw [estep_shared]
    cases e with
    | send q c =>
      by_cases hq : r = q
      · subst hq; simp [estep, State.setRes] at hpc ⊢; exact hi r hpc n hn
      · simp [estep, State.setRes, hq] at hpc ⊢; exact hi r hpc n hn
    | setStop q =>
      by_cases hq : r = q
      · subst hq; simp [estep, State.setRes] at hpc ⊢; exact hi r hpc n hn
      · simp [estep, State.setRes, hq] at hpc ⊢; exact hi r hpc n hn
    | interrupt c => exact hi r hpc n hn
    | advance c dt => exact hi r hpc n hn
    | openGate => exact hi r hpc n hn
  | res q =>
    simp only [step] at h
    split at h
    case isFalse => cases h
    rcases rstep_cases h with ⟨hpc, hn, rfl⟩ | ⟨hin, rfl⟩ | ⟨_, _, R', hR, rfl⟩
    · intro r hr n hnm
      by_cases hrq : r = q
      · subst hrq; simp [acqState] at hr
      · simp [acqState, hrq] at hr ⊢; exact hi r hr n hnm
    · intro r hr n hnm
      have hlq : s.lock = some q := (hm q).1 hin
      by_cases hrq : r = q
      · subst hrq
        simp only [secState, upd_same] at hr ⊢
        cases hpc : (s.res r).pc <;> simp [hpc, Pc.inLocked] at hin <;>
          simp only [secStep, hpc] at hr ⊢
        · -- locked0 → locked1 after a successful sync_into
          cases hok : (syncInto S.names s.shared (s.res r).store).2
          · simp [hok] at hr
          · exact syncInto_agrees S.names s.shared _ hok n hnm
        · cases hr
        · split at hr <;> cases hr
        · have := post_pc S r ‹_› (s.res r)
          rw [hr] at this
          simp [Pc.inLocked] at this
      · simp only [secState, upd_other _ _ _ _ hrq] at hr ⊢
        have : (s.res r).pc.inLocked = true := by rw [hr]; rfl
        have := (hm r).1 this
        simp [hlq] at this
        exact absurd this.symm hrq
    · intro r hr n hnm
      by_cases hrq : r = q
      · subst hrq
        simp [State.setRes] at hr
        have := (localStep_pc hR).2
        rw [hr] at this
        simp [Pc.inLocked] at this
      · simp [State.setRes, hrq] at hr ⊢; exact hi r hr n hnm

theorem snap_reachable {S : Sys} {s : State} (h : Reachable S s) : SnapInv S s := by
  obtain ⟨ls, h⟩ := h
  have := run_induct (S := S) (P := fun s => Mutex s ∧ SnapInv S s)
    (fun _ _ _ hp hs => ⟨mutex_step hp.1 hs, snap_step hp.1 hp.2 hs⟩) ls _ _
    ⟨mutex_init S, fun r hr => by simp [init] at hr⟩ h
  exact this.2

/-! ## The counter programs of the correspondence run -/

theorem post_execs (S : Sys) (r : Nat) (o : Outcome) (R : Res) : (post S r o R).execs = R.execs := by
  unfold post
  repeat' split
  all_goals rfl

theorem localStep_execs {cfg : Cfg} {clk : Clock} {g : Bool} {R R' : Res}
    (h : localStep cfg clk g R = some R') : R'.execs = R.execs := by
  cases hpc : R.pc <;> simp only [localStep, hpc] at h
  case start => split at h <;> cases h <;> rfl
  case gate =>
    split at h
    · cases h; rfl
    · split at h <;> cases h; rfl
  case top => split at h <;> cases h <;> rfl
  case drain =>
    split at h
    · cases h; rfl
    · cases h; rename_i c q _; cases c <;> rfl
  case pauseChk =>
    split at h
    · split at h <;> cases h <;> rfl
    · cases h; rfl
  case sleep d => split at h <;> cases h; rfl
  all_goals cases h

/-- The shared map after a whole cycle of the counter program: a cycle that faults (at either
fault point) leaves it as it was. -/
theorem counter_crit (n : Nat) (inc : Nat → Int) (input : Nat → Nat → Int) (cfg : Nat → Cfg)
    (c0 p0 : Int) (r : Nat) (R : Res) (sh : Store) (c p q : Int)
    (h0 : sh 0 = some c) (h1 : sh 1 = some p) (h2 : sh 2 = some q) :
    (crit (counterSys n inc input cfg c0 p0) r R sh).1.execs = R.execs + 1 ∧
    (crit (counterSys n inc input cfg c0 p0) r R sh).2 =
      if input r R.execs = 1 ∨ input r R.execs = 2 then sh
      else ((sh.set 0 (c + inc r)).set 1 (p + 1)).set 2 (q + 1) := by
  rw [crit_eq]
  simp only [counterSys, syncInto, syncFrom, h0, h1, h2]
  by_cases e1 : input r R.execs = 1
  · simp [counterCycle, e1, post_execs]
  · by_cases e2 : input r R.execs = 2
    · simp [counterCycle, e2, post_execs]
    · simp [counterCycle, e1, e2, Store.set, post_execs]

theorem sumTo_zero : ∀ n, sumTo (fun _ => 0) n = 0 := by
  intro n
  induction n with
  | zero => rfl
  | succ n ih => simp [sumTo, ih]

theorem sumTo_congr (f g : Nat → Int) : ∀ n, (∀ q, q < n → f q = g q) → sumTo f n = sumTo g n := by
  intro n
  induction n with
  | zero => intro _; rfl
  | succ n ih =>
    intro h
    simp only [sumTo]
    rw [ih (fun q hq => h q (by omega)), h n (by omega)]

theorem sumTo_bump (f g : Nat → Int) (r : Nat) (d : Int) : ∀ n, r < n → g r = f r + d →
    (∀ q, q ≠ r → g q = f q) → sumTo g n = sumTo f n + d := by
  intro n
  induction n with
  | zero => intro h; omega
  | succ n ih =>
    intro hr hg ho
    simp only [sumTo]
    by_cases hrn : r = n
    · subst hrn
      rw [sumTo_congr g f r (fun q hq => ho q (by omega)), hg]
      omega
    · rw [ih (by omega) hg ho, ho n (fun e => hrn e.symm)]
      omega

end TrustVerif.C20
