import TrustVerif.Model.StCore
import TrustVerif.Model.C02

/-!
Arithmetic lemmas behind C01/C02/C03: the dynamically dispatched operators of `eval/ops.rs`
(`i128`/`u128` intermediate, `try_from` narrowing) agree with exact arithmetic followed by a range
check of the static result type, and never reach a panic site.
-/
namespace TrustVerif.StCore

/-- The reference fault an implementation stop corresponds to (`none`: no counterpart — a
static-class error, a panic, the latch). -/
def Stop.toS : Stop → Option SFault
  | .fault .DivisionByZero _ => some .divZero
  | .fault .ModuloByZero _ => some .modZero
  | .fault .Overflow _ => some .overflow
  | .fault .ForStepZero _ => some .forStepZero
  | .fault .ExecutionTimeout _ => some .budget
  | .fault .IndexOutOfBounds _ => some .indexOut
  | _ => none

theorem Stop.toS_valueDependent {s : Stop} {f : SFault} (h : s.toS = some f) : s.valueDependent = true := by
  cases s with
  | panic site => simp [Stop.toS] at h
  | fault e site =>
    cases e <;> simp [Stop.toS] at h <;> simp [Stop.valueDependent, RustErr.cls]

/-- Result relation between the implementation model and the reference for an expression of
static type `T`: same value with runtime tag `T`, or corresponding faults. -/
def RelV (T : Ty) : M Val → Except SFault SV → Prop
  | .ok v, .ok w => v.hasTy T = true ∧ erase v = w
  | .error s, .error f => s.toS = some f
  | _, _ => False

theorem mul_bound (B x y : Int) (hB : 0 ≤ B) (hx1 : -B ≤ x) (hx2 : x ≤ B) (hy1 : -B ≤ y) (hy2 : y ≤ B) :
    -(B * B) ≤ x * y ∧ x * y ≤ B * B := by
  have h1 : (x * y).natAbs ≤ B.natAbs * B.natAbs := by
    rw [Int.natAbs_mul]
    apply Nat.mul_le_mul <;> omega
  have h2 : (B.natAbs * B.natAbs : Nat) = (B * B).natAbs := by rw [Int.natAbs_mul]
  have h3 : 0 ≤ B * B := Int.mul_nonneg hB hB
  omega

theorem mul_bound_nonneg (B x y : Int) (hx1 : 0 ≤ x) (hx2 : x ≤ B) (hy1 : 0 ≤ y) (hy2 : y ≤ B) :
    0 ≤ x * y ∧ x * y ≤ B * B := by
  constructor
  · exact Int.mul_nonneg hx1 hy1
  · exact Int.mul_le_mul hx2 hy2 hy1 (by omega)

theorem tdiv_bound (x y : Int) : -(x.natAbs : Int) ≤ Int.tdiv x y ∧ Int.tdiv x y ≤ x.natAbs := by
  have := Int.natAbs_tdiv_le_natAbs x y
  omega

theorem IKind.inRange_iff (k : IKind) (x : Int) : k.inRange x = true ↔ k.lo ≤ x ∧ x ≤ k.hi := by
  simp [IKind.inRange]

/-- Range facts of the carriers. -/
theorem IKind.range_i64 {k : IKind} {x : Int} (hs : k.signed = true) (h : k.inRange x = true) :
    -9223372036854775808 ≤ x ∧ x ≤ 9223372036854775807 := by
  rw [IKind.inRange_iff] at h
  cases k <;> simp [IKind.signed] at hs <;> simp [IKind.lo, IKind.hi] at h <;> omega

theorem IKind.range_u64 {k : IKind} {x : Int} (hs : k.signed = false) (h : k.inRange x = true) :
    0 ≤ x ∧ x ≤ 18446744073709551615 := by
  rw [IKind.inRange_iff] at h
  cases k <;> simp [IKind.signed] at hs <;> simp [IKind.lo, IKind.hi] at h <;> omega

/-- `to_i64` is exact on signed kinds. -/
theorem toI64_signed {k : IKind} {x : Int} (hs : k.signed = true) : toI64 (.i k x) = .ok x := by
  cases k <;> simp [IKind.signed] at hs <;> rfl

/-- `to_u64` is exact on unsigned kinds and on non-negative signed values. -/
theorem toU64_ok {k : IKind} {x : Int} (h : k.signed = false ∨ 0 ≤ x) : toU64 (.i k x) = .ok x := by
  unfold toU64
  cases h with
  | inl h => simp [h, pure, Except.pure]
  | inr h =>
    have : ¬ x < 0 := by omega
    simp [this, pure, Except.pure]

/-- The five arithmetic operators of the reference. -/
def BinOp.isSpecArith : BinOp → Bool
  | .add | .sub | .mul | .div | .mod => true
  | _ => false

theorem narrow_rel (t : IKind) (r : Int) : RelV (.int t) (narrow t r) (Spec.inType t r) := by
  unfold narrow Spec.inType
  by_cases hr : t.inRange r = true
  · simp [hr, RelV, pure, Except.pure, Val.hasTy, erase]
  · simp [hr, RelV, fault, Stop.toS]

/-- Signed arm: `i128` arithmetic on `i64`-ranged operands never panics and equals exact
arithmetic; narrowing = range check of the result type. -/
theorem signed_arm (op : BinOp) (hop : op.isSpecArith = true) (t : IKind) (x y : Int)
    (hx : -9223372036854775808 ≤ x ∧ x ≤ 9223372036854775807)
    (hy : -9223372036854775808 ≤ y ∧ y ≤ 9223372036854775807) :
    RelV (.int t) (signedOp op x y >>= narrow t) (Spec.arith op x y >>= Spec.inType t) := by
  have hmul := mul_bound 9223372036854775808 x y (by omega) (by omega) (by omega) (by omega) (by omega)
  have hdiv := tdiv_bound x y
  cases op <;> simp [BinOp.isSpecArith] at hop
  · -- add
    have h : i128Min ≤ x + y ∧ x + y ≤ i128Max := by simp [i128Min, i128Max]; omega
    simp only [signedOp, i128, h, and_self, if_true, Spec.arith, pure, Except.pure, bind, Except.bind]
    exact narrow_rel t (x + y)
  · -- sub
    have h : i128Min ≤ x - y ∧ x - y ≤ i128Max := by simp [i128Min, i128Max]; omega
    simp only [signedOp, i128, h, and_self, if_true, Spec.arith, pure, Except.pure, bind, Except.bind]
    exact narrow_rel t (x - y)
  · -- mul
    have h : i128Min ≤ x * y ∧ x * y ≤ i128Max := by simp [i128Min, i128Max]; omega
    simp only [signedOp, i128, h, and_self, if_true, Spec.arith, pure, Except.pure, bind, Except.bind]
    exact narrow_rel t (x * y)
  · -- div
    by_cases hy0 : y = 0
    · simp [signedOp, Spec.arith, hy0, RelV, fault, Stop.toS, bind, Except.bind]
    · have h : i128Min ≤ Int.tdiv x y ∧ Int.tdiv x y ≤ i128Max := by simp [i128Min, i128Max]; omega
      simp only [signedOp, hy0, if_false, i128, h, and_self, if_true, Spec.arith, pure, Except.pure, bind, Except.bind]
      exact narrow_rel t (Int.tdiv x y)
  · -- mod
    by_cases hy0 : y = 0
    · simp [signedOp, Spec.arith, hy0, RelV, fault, Stop.toS, bind, Except.bind]
    · simp only [signedOp, hy0, if_false, Spec.arith, pure, Except.pure, bind, Except.bind]
      exact narrow_rel t (Int.tmod x y)

/-- Unsigned arm: `u128` arithmetic on `u64`-ranged operands never panics; `checked_sub`
failing = the exact difference is negative, hence outside every unsigned kind. -/
theorem unsigned_arm (op : BinOp) (hop : op.isSpecArith = true) (t : IKind) (ht : t.signed = false) (x y : Int)
    (hx : 0 ≤ x ∧ x ≤ 18446744073709551615) (hy : 0 ≤ y ∧ y ≤ 18446744073709551615) :
    RelV (.int t) (unsignedOp op x y >>= narrow t) (Spec.arith op x y >>= Spec.inType t) := by
  have hmul := mul_bound_nonneg 18446744073709551615 x y hx.1 hx.2 hy.1 hy.2
  cases op <;> simp [BinOp.isSpecArith] at hop
  · have h : 0 ≤ x + y ∧ x + y ≤ u128Max := by simp [u128Max]; omega
    simp only [unsignedOp, u128, h, and_self, if_true, Spec.arith, pure, Except.pure, bind, Except.bind]
    exact narrow_rel t (x + y)
  · by_cases hlt : x < y
    · have hr : t.inRange (x - y) = false := by
        cases h : t.inRange (x - y) with
        | false => rfl
        | true =>
          have := IKind.range_u64 ht h
          omega
      simp [unsignedOp, hlt, Spec.arith, Spec.inType, hr, RelV, fault, Stop.toS, bind, Except.bind, pure, Except.pure]
    · simp only [unsignedOp, hlt, if_false, Spec.arith, pure, Except.pure, bind, Except.bind]
      exact narrow_rel t (x - y)
  · have h : 0 ≤ x * y ∧ x * y ≤ u128Max := by simp [u128Max]; omega
    simp only [unsignedOp, u128, h, and_self, if_true, Spec.arith, pure, Except.pure, bind, Except.bind]
    exact narrow_rel t (x * y)
  · by_cases hy0 : y = 0
    · simp [unsignedOp, Spec.arith, hy0, RelV, fault, Stop.toS, bind, Except.bind]
    · simp only [unsignedOp, hy0, if_false, Spec.arith, pure, Except.pure, bind, Except.bind]
      rw [Int.tdiv_eq_ediv_of_nonneg hx.1]
      exact narrow_rel t (x / y)
  · by_cases hy0 : y = 0
    · simp [unsignedOp, Spec.arith, hy0, RelV, fault, Stop.toS, bind, Except.bind]
    · simp only [unsignedOp, hy0, if_false, Spec.arith, pure, Except.pure, bind, Except.bind]
      rw [Int.tmod_eq_emod_of_nonneg hx.1]
      exact narrow_rel t (x % y)

/-- `numeric_arith` on two integers whose dynamic kinds combine (by `wider_numeric`) to the static
result kind `t`: same chain, or an unsigned `t` with a non-negative signed operand. -/
theorem arith_rel (op : BinOp) (hop : op.isSpecArith = true) (a b t : IKind) (x y : Int)
    (ht : wider a b = t) (hx : a.inRange x = true) (hy : b.inRange y = true)
    (hs : t.signed = true → a.signed = true ∧ b.signed = true)
    (hu : t.signed = false → (a.signed = false ∨ 0 ≤ x) ∧ (b.signed = false ∨ 0 ≤ y)) :
    RelV (.int t) (numericArith op (.i a x) (.i b y)) (Spec.arith op x y >>= Spec.inType t) := by
  unfold numericArith
  simp only [ht]
  cases hts : t.signed with
  | true =>
    obtain ⟨ha, hb⟩ := hs hts
    simp only [if_true, toI64_signed ha, toI64_signed hb, bind, Except.bind]
    exact signed_arm op hop t x y (IKind.range_i64 ha hx) (IKind.range_i64 hb hy)
  | false =>
    obtain ⟨ha, hb⟩ := hu hts
    simp only [Bool.false_eq_true, if_false, toU64_ok ha, toU64_ok hb, bind, Except.bind]
    have rx : 0 ≤ x ∧ x ≤ 18446744073709551615 := by
      cases has : a.signed with
      | false => exact IKind.range_u64 has hx
      | true =>
        have := IKind.range_i64 has hx
        cases ha with
        | inl h => simp [h] at has
        | inr h => omega
    have ry : 0 ≤ y ∧ y ≤ 18446744073709551615 := by
      cases hbs : b.signed with
      | false => exact IKind.range_u64 hbs hy
      | true =>
        have := IKind.range_i64 hbs hy
        cases hb with
        | inl h => simp [h] at hbs
        | inr h => omega
    exact unsigned_arm op hop t hts x y rx ry

end TrustVerif.StCore
