import TrustVerif.Model.StArray

/-!
`array_offset` (Model/StArray.lean) computes exactly the row-major position: it succeeds iff every
subscript lies within ITS OWN dimension, the offset is the row-major one, it addresses an existing
element, and different subscript tuples address different elements.
-/
namespace TrustVerif.StArray

theorem loop_append (l : List Pair) (d : Pair) (acc : Int × Int) :
    loop (l ++ [d]) acc = (match loop l acc with | .error e => .error e | .ok a => step a d) := by
  induction l generalizing acc with
  | nil =>
    simp only [List.nil_append, loop]
    cases step acc d <;> rfl
  | cons x rest ih =>
    simp only [List.cons_append, loop]
    cases step acc x with
    | error e => rfl
    | ok a => exact ih a

theorem InBounds.tail {d : Pair} {rest : List Pair} (h : InBounds (d :: rest)) : InBounds rest :=
  fun x hx => h x (List.mem_cons_of_mem _ hx)

theorem InBounds.head {d : Pair} {rest : List Pair} (h : InBounds (d :: rest)) : d.1.1 ≤ d.2 ∧ d.2 ≤ d.1.2 :=
  h d List.mem_cons_self

/-- All subscripts in range: the loop ends with the row-major offset and the element count. -/
theorem loop_reverse_ok (ps : List Pair) (h : InBounds ps) :
    loop ps.reverse (0, 1) = .ok (rowMajor ps, size ps) := by
  induction ps with
  | nil => rfl
  | cons d rest ih =>
    have hd := h.head
    rw [List.reverse_cons, loop_append, ih h.tail]
    have hnot : ¬ (d.2 < d.1.1 ∨ d.2 > d.1.2) := by omega
    simp only [step, hnot, if_false, rowMajor, size]
    congr 1
    rw [Int.add_comm, Int.mul_comm (size rest)]

/-- Some subscript outside its dimension: `IndexOutOfBounds` naming one such subscript. -/
theorem loop_reverse_err (ps : List Pair) (h : ¬ InBounds ps) :
    ∃ d ∈ ps, (d.2 < d.1.1 ∨ d.2 > d.1.2) ∧
      loop ps.reverse (0, 1) = .error (.outOfBounds d.2 d.1.1 d.1.2) := by
  induction ps with
  | nil => exact absurd (fun _ hx => by cases hx) h
  | cons d rest ih =>
    rw [List.reverse_cons, loop_append]
    by_cases hr : InBounds rest
    · rw [loop_reverse_ok rest hr]
      have hd : d.2 < d.1.1 ∨ d.2 > d.1.2 := by
        apply Classical.byContradiction
        intro hn
        apply h
        intro x hx
        cases hx with
        | head => omega
        | tail _ hx => exact hr x hx
      exact ⟨d, List.mem_cons_self, hd, by simp [step, hd]⟩
    · obtain ⟨x, hx, hb, he⟩ := ih hr
      exact ⟨x, List.mem_cons_of_mem _ hx, hb, by rw [he]⟩

/-- In range: the row-major position is a valid element position. -/
theorem rowMajor_bounds (ps : List Pair) (h : InBounds ps) :
    0 ≤ rowMajor ps ∧ rowMajor ps < size ps ∧ 0 < size ps := by
  induction ps with
  | nil => simp [rowMajor, size]
  | cons d rest ih =>
    obtain ⟨h0, h1, h2⟩ := ih h.tail
    have hd := h.head
    simp only [rowMajor, size]
    have ha : 0 ≤ d.2 - d.1.1 := by omega
    have hal : d.2 - d.1.1 ≤ d.1.2 - d.1.1 + 1 - 1 := by omega
    have p1 : 0 ≤ (d.2 - d.1.1) * size rest := Int.mul_nonneg ha (Int.le_of_lt h2)
    have p2 : (d.2 - d.1.1) * size rest ≤ (d.1.2 - d.1.1 + 1 - 1) * size rest :=
      Int.mul_le_mul_of_nonneg_right hal (Int.le_of_lt h2)
    have p3 : (d.1.2 - d.1.1 + 1 - 1) * size rest = (d.1.2 - d.1.1 + 1) * size rest - size rest := by
      rw [Int.sub_mul, Int.one_mul]
    have p4 : 0 < (d.1.2 - d.1.1 + 1) * size rest := Int.mul_pos (by omega) h2
    omega

/-- Uniqueness of quotient and remainder. -/
theorem euclid_unique (S a1 a2 r1 r2 : Int) (hS : 0 < S) (h1 : 0 ≤ r1) (h1' : r1 < S) (h2 : 0 ≤ r2)
    (h2' : r2 < S) (h : a1 * S + r1 = a2 * S + r2) : a1 = a2 ∧ r1 = r2 := by
  have key : ∀ (a b ra rb : Int), 0 ≤ ra → ra < S → 0 ≤ rb → rb < S → a * S + ra = b * S + rb → ¬ a < b := by
    intro a b ra rb _ hra hrb _ he hlt
    have p : (a + 1) * S ≤ b * S := Int.mul_le_mul_of_nonneg_right (by omega) (Int.le_of_lt hS)
    rw [Int.add_mul, Int.one_mul] at p
    omega
  have e : a1 = a2 := by
    rcases Int.lt_trichotomy a1 a2 with hlt | heq | hgt
    · exact absurd hlt (key a1 a2 r1 r2 h1 h1' h2 h2' h)
    · exact heq
    · exact absurd hgt (key a2 a1 r2 r1 h2 h2' h1 h1' h.symm)
  subst e
  exact ⟨rfl, by omega⟩

/-- The element count depends on the dimensions only. -/
theorem size_zip : ∀ (dims : List (Int × Int)) (i1 i2 : List Int), i1.length = dims.length →
    i2.length = dims.length → size (dims.zip i1) = size (dims.zip i2)
  | [], _, _, _, _ => by simp [size]
  | d :: ds, [], _, h, _ => by simp at h
  | d :: ds, _ :: _, [], _, h => by simp at h
  | d :: ds, a :: as, b :: bs, h1, h2 => by
    simp only [List.zip_cons_cons, size]
    rw [size_zip ds as bs (by simpa using h1) (by simpa using h2)]

/-- Row-major order is injective on the in-range subscript tuples. -/
theorem rowMajor_inj : ∀ (dims : List (Int × Int)) (i1 i2 : List Int), i1.length = dims.length →
    i2.length = dims.length → InBounds (dims.zip i1) → InBounds (dims.zip i2) →
    rowMajor (dims.zip i1) = rowMajor (dims.zip i2) → i1 = i2
  | [], [], [], _, _, _, _, _ => rfl
  | [], _ :: _, _, h, _, _, _, _ => by simp at h
  | [], [], _ :: _, _, h, _, _, _ => by simp at h
  | d :: ds, [], _, h, _, _, _, _ => by simp at h
  | d :: ds, _ :: _, [], _, h, _, _, _ => by simp at h
  | d :: ds, a :: as, b :: bs, h1, h2, b1, b2, he => by
    simp only [List.zip_cons_cons] at b1 b2 he
    have l1 : as.length = ds.length := by simpa using h1
    have l2 : bs.length = ds.length := by simpa using h2
    obtain ⟨r0, r1, s0⟩ := rowMajor_bounds _ b1.tail
    obtain ⟨q0, q1, _⟩ := rowMajor_bounds _ b2.tail
    simp only [rowMajor] at he
    rw [size_zip ds bs as l2 l1] at he q1
    obtain ⟨e1, e2⟩ := euclid_unique _ _ _ _ _ s0 r0 r1 q0 q1 he
    have : a = b := by omega
    subst this
    rw [rowMajor_inj ds as bs l1 l2 b1.tail b2.tail e2]

end TrustVerif.StArray
