import TrustVerif.Lemmas.StExpr

/-!
Statement-level simulation behind C01/C02/C03: `exec_rel`.  For every recursion budget the
implementation model (`Cfg.real`: the code as it is) and the reference semantics run in lockstep on
programs inside the guard `Strict`, starting from a well-typed store: the store stays well typed
(C03), the call stack is untouched and only value-dependent faults occur (C01), and values, control
flow and faults are those of the reference (C02).
-/
namespace TrustVerif.StCore

theorem lookup_insert_same (x : String) (v : Val) (e : Env) (h : (lookup x e).isSome = true) :
    lookup x (insert x v e) = some v := by
  induction e with
  | nil => simp [lookup] at h
  | cons p rest ih =>
    obtain ⟨y, w⟩ := p
    by_cases hxy : x = y
    · simp [insert, lookup, hxy]
    · simp only [lookup, hxy, if_false] at h
      simp [insert, lookup, hxy, ih h]

theorem lookup_insert_other (x y : String) (v : Val) (e : Env) (h : y ≠ x) :
    lookup y (insert x v e) = lookup y e := by
  induction e with
  | nil => simp [insert, lookup, h]
  | cons p rest ih =>
    obtain ⟨z, w⟩ := p
    by_cases hxz : x = z
    · subst hxz; simp [insert, lookup, h]
    · by_cases hyz : y = z
      · simp [insert, lookup, hxz, hyz]
      · simp [insert, lookup, hxz, hyz, ih]

/-- Writing a well-typed value into a declared variable keeps the store well typed, updates the
instance variables (not the globals) and leaves the call stack alone. -/
theorem StoreWT.write {Γ : Ctx} {σ : Store} (hσ : StoreWT Γ σ) {x : String} {t : Ty} {v : Val}
    (hx : Γ.lookup x = some t) (hv : v.hasTy t = true) :
    StoreWT Γ (writeName σ x v) ∧ (writeName σ x v).vars = insert x v σ.vars ∧
      (writeName σ x v).frames = σ.frames := by
  obtain ⟨v0, hv0, _⟩ := hσ.vars x t hx
  have hw : writeName σ x v = { σ with vars := insert x v σ.vars } := by
    simp [writeName, hv0]
  rw [hw]
  refine ⟨⟨?_, hσ.aggs, hσ.ctx⟩, rfl, rfl⟩
  intro y ty hy
  by_cases hyx : y = x
  · subst hyx
    rw [hx] at hy
    injection hy with hy
    subst hy
    exact ⟨v, lookup_insert_same y v σ.vars (by simp [hv0]), hv⟩
  · obtain ⟨w, hw1, hw2⟩ := hσ.vars y ty hy
    exact ⟨w, by simp [lookup_insert_other x y v σ.vars hyx, hw1], hw2⟩

@[simp] theorem writeVal_real (σ : Store) (x : String) (v : Val) : writeVal .real σ x v = (writeName σ x v, none) := rfl

/-- Outside a loop a statement list ends by running to completion or by `RETURN`. -/
def FlowOK (inLoop : Bool) (f : Flow) : Prop := inLoop = false → f = .cont ∨ f = .ret

def RelR (Γ : Ctx) (σ : Store) (inLoop : Bool) (a : Res) (b : Spec.SRes) : Prop :=
  StoreWT Γ a.1 ∧ b.1 = eraseEnv a.1.vars ∧ a.1.frames = σ.frames ∧
  match a.2, b.2 with
  | .ok f, .ok g => f = g ∧ FlowOK inLoop f
  | .error s, .error g => s.toS = some g
  | _, _ => False

theorem RelR.elim {Γ : Ctx} {σ : Store} {inLoop : Bool} {a : Res} {b : Spec.SRes} (h : RelR Γ σ inLoop a b) :
    StoreWT Γ a.1 ∧ b.1 = eraseEnv a.1.vars ∧ a.1.frames = σ.frames ∧
    ((∃ f, a.2 = .ok f ∧ b.2 = .ok f ∧ FlowOK inLoop f) ∨
     (∃ s g, a.2 = .error s ∧ b.2 = .error g ∧ s.toS = some g)) := by
  obtain ⟨h1, h2, h3, h4⟩ := h
  refine ⟨h1, h2, h3, ?_⟩
  obtain ⟨σ1, r1⟩ := a
  obtain ⟨σ2, r2⟩ := b
  cases r1 with
  | ok f =>
    cases r2 with
    | ok g => simp at h4; exact .inl ⟨f, rfl, by simp [h4.1], h4.2⟩
    | error g => simp at h4
  | error s =>
    cases r2 with
    | ok g => simp at h4
    | error g => simp at h4; exact .inr ⟨s, g, rfl, rfl, h4⟩

theorem RelR.mk_err {Γ : Ctx} {σ σ1 : Store} {inLoop : Bool} {s : Stop} {g : SFault}
    (h1 : StoreWT Γ σ1) (h3 : σ1.frames = σ.frames) (h4 : s.toS = some g) :
    RelR Γ σ inLoop (σ1, .error s) (eraseEnv σ1.vars, .error g) := ⟨h1, rfl, h3, h4⟩

theorem RelR.mk_ok {Γ : Ctx} {σ σ1 : Store} {inLoop : Bool} {f : Flow}
    (h1 : StoreWT Γ σ1) (h3 : σ1.frames = σ.frames) (h4 : FlowOK inLoop f) :
    RelR Γ σ inLoop (σ1, .ok f) (eraseEnv σ1.vars, .ok f) := ⟨h1, rfl, h3, rfl, h4⟩

/-- Re-anchor the frame component. -/
theorem RelR.trans_frames {Γ : Ctx} {σ σ1 : Store} {inLoop : Bool} {a : Res} {b : Spec.SRes}
    (h : RelR Γ σ1 inLoop a b) (hf : σ1.frames = σ.frames) : RelR Γ σ inLoop a b := by
  obtain ⟨h1, h2, h3, h4⟩ := h
  exact ⟨h1, h2, by rw [h3, hf], h4⟩

theorem RelR.weaken {Γ : Ctx} {σ : Store} {a : Res} {b : Spec.SRes}
    (h : RelR Γ σ false a b) (inLoop : Bool) : RelR Γ σ inLoop a b := by
  obtain ⟨h1, h2, h3, h4⟩ := h
  refine ⟨h1, h2, h3, ?_⟩
  obtain ⟨σ1, r1⟩ := a
  obtain ⟨σ2, r2⟩ := b
  cases r1 <;> cases r2 <;> simp at h4 ⊢
  · exact h4
  · obtain ⟨h5, h7⟩ := h4
    refine ⟨h5, ?_⟩
    intro _; exact h7 rfl

section
variable (Γ : Ctx)

def PStmt (fuel : Nat) : Prop :=
  ∀ ld σ s R inLoop, StoreWT Γ σ → Spec.typedStmt Γ R inLoop s = true → strictStmt Γ s = true →
    (inLoop = true → ld ≠ 0) →
    RelR Γ σ inLoop (execStmt .real fuel ld σ s) (Spec.execStmt Γ fuel (eraseEnv σ.vars) s)

def PBlock (fuel : Nat) : Prop :=
  ∀ ld σ b R inLoop, StoreWT Γ σ → Spec.typedBlock Γ R inLoop b = true → strictBlock Γ b = true →
    (inLoop = true → ld ≠ 0) →
    RelR Γ σ inLoop (execBlock .real fuel ld σ b) (Spec.execBlock Γ fuel (eraseEnv σ.vars) b)

theorem timeout_toS : ∃ s, timeout = Except.error s ∧ s.toS = some .budget :=
  ⟨_, rfl, rfl⟩

theorem block_step {fuel : Nat} (hS : PStmt Γ fuel) (hB : PBlock Γ fuel) : PBlock Γ (fuel + 1) := by
  intro ld σ b R inLoop hσ ht hs hld
  cases b with
  | nil =>
    simp only [execBlock, Spec.execBlock]
    exact RelR.mk_ok hσ rfl (fun _ => .inl rfl)
  | cons s rest =>
    simp only [Spec.typedBlock, strictBlock, Bool.and_eq_true] at ht hs
    have h1 := hS ld σ s R inLoop hσ ht.1 hs.1 hld
    simp only [execBlock, Spec.execBlock]
    rcases hA : execStmt .real fuel ld σ s with ⟨σ1, r1⟩
    rcases hB' : Spec.execStmt Γ fuel (eraseEnv σ.vars) s with ⟨σ2, r2⟩
    rw [hA, hB'] at h1
    obtain ⟨w1, w2, w3, w4⟩ := h1.elim
    simp only at w1 w2 w3 w4
    subst w2
    rcases w4 with ⟨f, rfl, rfl, hf⟩ | ⟨st, g, rfl, rfl, hg⟩
    · cases f with
      | cont =>
        simp only
        exact (hB ld σ1 rest R inLoop w1 ht.2 hs.2 hld).trans_frames w3
      | ret => exact RelR.mk_ok w1 w3 hf
      | exit => exact RelR.mk_ok w1 w3 hf
      | loopCont => exact RelR.mk_ok w1 w3 hf
    · exact RelR.mk_err w1 w3 hg


theorem evalBool_rel {σ : Store} (hσ : StoreWT Γ σ) {c : Expr} (hi : Spec.infer Γ c = some .bool)
    (hnd : noDriftE Γ c = true) :
    (∃ x, evalBool .real σ c = .ok x ∧ Spec.evalBool Γ (eraseEnv σ.vars) c = .ok x) ∨
    (∃ s g, evalBool .real σ c = .error s ∧ Spec.evalBool Γ (eraseEnv σ.vars) c = .error g ∧
      s.toS = some g) := by
  rcases operand_bool Γ σ (eval_rel Γ σ hσ c) hi hnd with ⟨x, e1, s1⟩ | ⟨s, g, e1, s1, hs⟩
  · exact .inl ⟨x, by simp [evalBool, e1, pure, Except.pure], s1⟩
  · exact .inr ⟨s, g, by simp [evalBool, e1], s1, hs⟩

def PElifs (fuel : Nat) : Prop :=
  ∀ ld σ es el R inLoop, StoreWT Γ σ → Spec.typedElifs Γ R inLoop es = true →
    Spec.typedBlock Γ R inLoop el = true → strictElifs Γ es = true → strictBlock Γ el = true →
    (inLoop = true → ld ≠ 0) →
    RelR Γ σ inLoop (execElifs .real fuel ld σ es el) (Spec.execElifs Γ fuel (eraseEnv σ.vars) es el)

theorem elifs_step {fuel : Nat} (hB : PBlock Γ fuel) (hE : PElifs Γ fuel) : PElifs Γ (fuel + 1) := by
  intro ld σ es el R inLoop hσ ht htl hs hsl hld
  cases es with
  | nil =>
    simp only [execElifs, Spec.execElifs]
    exact hB ld σ el R inLoop hσ htl hsl hld
  | cons c b rest =>
    simp only [Spec.typedElifs, strictElifs, Bool.and_eq_true, decide_eq_true_eq] at ht hs
    obtain ⟨⟨hc, htb⟩, htr⟩ := ht
    obtain ⟨⟨hnc, hsb⟩, hsr⟩ := hs
    simp only [execElifs, Spec.execElifs]
    rcases evalBool_rel Γ hσ hc hnc with ⟨x, e1, s1⟩ | ⟨s, g, e1, s1, hg⟩
    · rw [e1, s1]
      cases x with
      | true => exact hB ld σ b R inLoop hσ htb hsb hld
      | false => exact hE ld σ rest el R inLoop hσ htr htl hsr hsl hld
    · rw [e1, s1]
      exact RelR.mk_err hσ rfl hg

def PWhile (fuel : Nat) : Prop :=
  ∀ ld σ c body R, StoreWT Γ σ → Spec.infer Γ c = some .bool → noDriftE Γ c = true →
    Spec.typedBlock Γ R true body = true → strictBlock Γ body = true →
    RelR Γ σ false (whileLoop .real fuel ld σ c body) (Spec.whileLoop Γ fuel (eraseEnv σ.vars) c body)

theorem while_step {fuel : Nat} (hB : PBlock Γ fuel) (hW : PWhile Γ fuel) : PWhile Γ (fuel + 1) := by
  intro ld σ c body R hσ hc hnc htb hsb
  simp only [whileLoop, Spec.whileLoop]
  rcases evalBool_rel Γ hσ hc hnc with ⟨x, e1, s1⟩ | ⟨s, g, e1, s1, hg⟩
  · rw [e1, s1]
    cases x with
    | false => exact RelR.mk_ok hσ rfl (fun _ => .inl rfl)
    | true =>
      simp only
      have h1 := hB (ld + 1) σ body R true hσ htb hsb (fun _ => by omega)
      rcases hA : execBlock .real fuel (ld + 1) σ body with ⟨σ1, r1⟩
      rcases hB' : Spec.execBlock Γ fuel (eraseEnv σ.vars) body with ⟨σ2, r2⟩
      rw [hA, hB'] at h1
      obtain ⟨w1, w2, w3, w4⟩ := h1.elim
      simp only at w1 w2 w3 w4
      subst w2
      rcases w4 with ⟨f, rfl, rfl, hf⟩ | ⟨st, g, rfl, rfl, hg⟩
      · cases f with
        | cont => exact (hW ld σ1 c body R w1 hc hnc htb hsb).trans_frames w3
        | loopCont => exact (hW ld σ1 c body R w1 hc hnc htb hsb).trans_frames w3
        | exit => exact RelR.mk_ok w1 w3 (fun _ => .inl rfl)
        | ret => exact RelR.mk_ok w1 w3 (fun _ => .inr rfl)
      · exact RelR.mk_err w1 w3 hg
  · rw [e1, s1]
    exact RelR.mk_err hσ rfl hg

def PRepeat (fuel : Nat) : Prop :=
  ∀ ld σ c body R, StoreWT Γ σ → Spec.infer Γ c = some .bool → noDriftE Γ c = true →
    Spec.typedBlock Γ R true body = true → strictBlock Γ body = true →
    RelR Γ σ false (repeatLoop .real fuel ld σ body c) (Spec.repeatLoop Γ fuel (eraseEnv σ.vars) body c)

theorem repeat_step {fuel : Nat} (hB : PBlock Γ fuel) (hR : PRepeat Γ fuel) : PRepeat Γ (fuel + 1) := by
  intro ld σ c body R hσ hc hnc htb hsb
  simp only [repeatLoop, Spec.repeatLoop]
  have h1 := hB (ld + 1) σ body R true hσ htb hsb (fun _ => by omega)
  rcases hA : execBlock .real fuel (ld + 1) σ body with ⟨σ1, r1⟩
  rcases hB' : Spec.execBlock Γ fuel (eraseEnv σ.vars) body with ⟨σ2, r2⟩
  rw [hA, hB'] at h1
  obtain ⟨w1, w2, w3, w4⟩ := h1.elim
  simp only at w1 w2 w3 w4
  subst w2
  have after : RelR Γ σ false
      (match evalBool .real σ1 c with
        | .error st => (σ1, .error st)
        | .ok true => (σ1, .ok .cont)
        | .ok false => repeatLoop .real fuel ld σ1 body c)
      (match Spec.evalBool Γ (eraseEnv σ1.vars) c with
        | .error f => (eraseEnv σ1.vars, .error f)
        | .ok true => (eraseEnv σ1.vars, .ok .cont)
        | .ok false => Spec.repeatLoop Γ fuel (eraseEnv σ1.vars) body c) := by
    rcases evalBool_rel Γ w1 hc hnc with ⟨x, e1, s1⟩ | ⟨s, g, e1, s1, hg⟩
    · rw [e1, s1]
      cases x with
      | true => exact RelR.mk_ok w1 w3 (fun _ => .inl rfl)
      | false => exact (hR ld σ1 c body R w1 hc hnc htb hsb).trans_frames w3
    · rw [e1, s1]
      exact RelR.mk_err w1 w3 hg
  rcases w4 with ⟨f, rfl, rfl, hf⟩ | ⟨st, g, rfl, rfl, hg⟩
  · cases f with
    | cont => exact after
    | loopCont => exact after
    | exit => exact RelR.mk_ok w1 w3 (fun _ => .inl rfl)
    | ret => exact RelR.mk_ok w1 w3 (fun _ => .inr rfl)
  · exact RelR.mk_err w1 w3 hg


theorem IKind.range_in_i64 {k : IKind} {n : Int} (hk : k ≠ .ulint) (h : k.inRange n = true) :
    -9223372036854775808 ≤ n ∧ n ≤ 9223372036854775807 := by
  rw [IKind.inRange_iff] at h
  cases k <;> simp [IKind.lo, IKind.hi] at h <;> first | omega | exact absurd rfl hk

/-- The increment step of `Stmt::For`: checked `i64` addition followed by `coerce_loop_value`
is a range check in the control variable's kind (for a kind other than ULINT, and never a
negative value into an unsigned kind). -/
theorem for_next_ok {k : IKind} {c next : Int} (hk : k ≠ .ulint) (hr : k.inRange next = true) :
    ¬ (next < i64Min ∨ next > i64Max) ∧ coerceLoopValue (.i k c) next = .ok (.i k next) := by
  have hb := IKind.range_in_i64 hk hr
  constructor
  · simp [i64Min, i64Max]; omega
  · unfold coerceLoopValue
    cases hs : k.signed with
    | true => simp [hs, hr, pure, Except.pure]
    | false =>
      have := (IKind.range_u64 hs hr).1
      have hn : ¬ next < 0 := by omega
      simp [hs, hr, hn, pure, Except.pure]

theorem for_next_bad {k : IKind} {c next : Int} (hpos : k.signed = false → 0 ≤ next)
    (hr : k.inRange next = false) :
    ∃ s, coerceLoopValue (.i k c) next = .error s ∧ s.toS = some .overflow := by
  unfold coerceLoopValue
  cases hs : k.signed with
  | true => simp [hs, hr, fault, Stop.toS]
  | false =>
    have hn : ¬ next < 0 := by have := hpos hs; omega
    simp [hs, hr, hn, fault, Stop.toS]

def PFor (fuel : Nat) : Prop :=
  ∀ ld σ x k c cur fin st body R, StoreWT Γ σ → Γ.lookup x = some (.int k) → k ≠ .ulint →
    k.inRange cur = true → (k.signed = false → 0 < st) →
    Spec.typedBlock Γ R true body = true → strictBlock Γ body = true →
    RelR Γ σ false (forLoop .real fuel ld σ x (.i k c) cur fin st body)
      (Spec.forLoop Γ fuel (eraseEnv σ.vars) x k cur fin st body)

theorem for_step {fuel : Nat} (hB : PBlock Γ fuel) (hF : PFor Γ fuel) : PFor Γ (fuel + 1) := by
  intro ld σ x k c cur fin st body R hσ hx hk hcur hst htb hsb
  simp only [forLoop, Spec.forLoop]
  by_cases hdone : (st > 0 ∧ cur > fin) ∨ (st < 0 ∧ cur < fin)
  · simp only [hdone, if_true]
    exact RelR.mk_ok hσ rfl (fun _ => .inl rfl)
  · simp only [hdone, if_false]
    have h1 := hB (ld + 1) σ body R true hσ htb hsb (fun _ => by omega)
    rcases hA : execBlock .real fuel (ld + 1) σ body with ⟨σ1, r1⟩
    rcases hB' : Spec.execBlock Γ fuel (eraseEnv σ.vars) body with ⟨σ2, r2⟩
    rw [hA, hB'] at h1
    obtain ⟨w1, w2, w3, w4⟩ := h1.elim
    simp only at w1 w2 w3 w4
    subst w2
    have after : RelR Γ σ false
        (if !Cfg.real.forExact ∧ (cur + st < i64Min ∨ cur + st > i64Max) then (σ1, fault .Overflow .forIncrement)
         else match coerceLoopValue (.i k c) (cur + st) with
          | .error s => (σ1, .error s)
          | .ok v => forLoop .real fuel ld (writeName σ1 x v) x (.i k c) (cur + st) fin st body)
        (if k.inRange (cur + st) = true then
            Spec.forLoop Γ fuel (sinsert x (.n (cur + st)) (eraseEnv σ1.vars)) x k (cur + st) fin st body
         else (eraseEnv σ1.vars, .error .overflow)) := by
      have hfe : Cfg.real.forExact = false := rfl
      simp only [hfe, Bool.not_false, true_and]
      cases hr : k.inRange (cur + st) with
      | true =>
        obtain ⟨n1, n2⟩ := for_next_ok (c := c) hk hr
        simp only [n1, if_false, n2, if_true]
        have hv : (Val.i k (cur + st)).hasTy (.int k) = true := by simp [Val.hasTy, hr]
        obtain ⟨u1, u2, u3⟩ := w1.write hx hv
        have := hF ld (writeName σ1 x (.i k (cur + st))) x k c (cur + st) fin st body R u1 hx hk hr hst htb hsb
        rw [u2, ← sinsert_erase] at this
        exact this.trans_frames (by rw [u3, w3])
      | false =>
        simp only [Bool.false_eq_true, if_false]
        by_cases hov : cur + st < i64Min ∨ cur + st > i64Max
        · simp only [hov, if_true]
          exact RelR.mk_err w1 w3 rfl
        · simp only [hov, if_false]
          have hpos : k.signed = false → 0 ≤ cur + st := by
            intro hs
            have := (IKind.range_u64 hs hcur).1
            have := hst hs
            omega
          obtain ⟨s, e1, e2⟩ := for_next_bad (c := c) hpos hr
          rw [e1]
          exact RelR.mk_err w1 w3 e2
    rcases w4 with ⟨f, rfl, rfl, hf⟩ | ⟨s, g, rfl, rfl, hg⟩
    · cases f with
      | cont => exact after
      | loopCont => exact after
      | exit => exact RelR.mk_ok w1 w3 (fun _ => .inl rfl)
      | ret => exact RelR.mk_ok w1 w3 (fun _ => .inr rfl)
    · exact RelR.mk_err w1 w3 hg


theorem intValue_real {k : IKind} (hk : k ≠ .ulint) (n : Int) : intValue .real (.i k n) = .ok n := by
  cases k <;> first | rfl | exact absurd rfl hk

theorem Spec.boundVal_eq (Γ : Ctx) (σ' : SEnv) (e : Expr) : Spec.boundVal Γ σ' e = Spec.operandVal Γ σ' e := rfl

/-- A FOR bound: same integer on both sides, inside the control variable's kind. -/
theorem bound_rel {σ : Store} (hσ : StoreWT Γ σ) {k : IKind} (hk : k ≠ .ulint) {e : Expr}
    (ht : Spec.boundTyped Γ k e = true) (hs : strictBound Γ e = true) :
    (∃ v n, evalExpr .real σ e = .ok v ∧ intValue .real v = .ok n ∧
        Spec.boundVal Γ (eraseEnv σ.vars) e = .ok n ∧ k.inRange n = true) ∨
    (∃ s g, evalExpr .real σ e = .error s ∧ Spec.boundVal Γ (eraseEnv σ.vars) e = .error g ∧
        s.toS = some g) := by
  unfold strictBound at hs
  unfold Spec.boundTyped at ht
  cases ha : Spec.atomVal e with
  | some m =>
    simp only [ha] at ht
    obtain ⟨e1, _, e3⟩ := operand_atom Γ σ ha hs
    exact .inl ⟨_, m, e1, rfl, by rw [Spec.boundVal_eq]; exact e3, ht⟩
  | none =>
    simp only [ha, decide_eq_true_eq] at ht
    rcases operand_infer Γ σ (eval_rel Γ σ hσ e) ht hs with ⟨n, e1, hn, e3⟩ | ⟨s, g, e1, e3, hg⟩
    · exact .inl ⟨_, n, e1, intValue_real hk n, by rw [Spec.boundVal_eq]; exact e3, hn⟩
    · exact .inr ⟨s, g, e1, by rw [Spec.boundVal_eq]; exact e3, hg⟩

/-- The FOR prologue on both sides. -/
theorem forPre_rel {σ : Store} (hσ : StoreWT Γ σ) {x : String} {k : IKind} {c : Int}
    (hx : Γ.lookup x = some (.int k)) (hc : lookup x σ.vars = some (.i k c)) (hk : k ≠ .ulint)
    {s e : Expr} {step : Option Expr}
    (hts : Spec.boundTyped Γ k s = true) (hss : strictBound Γ s = true)
    (hte : Spec.boundTyped Γ k e = true) (hse : strictBound Γ e = true)
    (htst : ∀ st, step = some st → Spec.boundTyped Γ k st = true)
    (hsst : ∀ st, step = some st → strictBound Γ st = true) :
    (∃ a b st, forPre .real σ x s e (stepExpr step) = .ok (a, b, st, .i k a) ∧
        Spec.forPre Γ (eraseEnv σ.vars) s e step = .ok (a, b, st) ∧ k.inRange a = true ∧
        (k.signed = false → 0 < st)) ∨
    (∃ st g, forPre .real σ x s e (stepExpr step) = .error st ∧
        Spec.forPre Γ (eraseEnv σ.vars) s e step = .error g ∧ st.toS = some g) := by
  have hstep :
      (∃ v n, evalExpr .real σ (stepExpr step) = .ok v ∧ intValue .real v = .ok n ∧
          Spec.stepVal Γ (eraseEnv σ.vars) step = .ok n ∧ (k.signed = false → 0 ≤ n)) ∨
      (∃ st g, evalExpr .real σ (stepExpr step) = .error st ∧
          Spec.stepVal Γ (eraseEnv σ.vars) step = .error g ∧ st.toS = some g) := by
    cases step with
    | none =>
      exact .inl ⟨.i .int 1, 1, by simp [stepExpr, evalExpr, litVal, pure, Except.pure], rfl, rfl, fun _ => by omega⟩
    | some se =>
      rcases bound_rel Γ hσ hk (htst se rfl) (hsst se rfl) with ⟨v, n, a1, a2, a3, a4⟩ | ⟨st, g, a1, a3, hg⟩
      · exact .inl ⟨v, n, a1, a2, a3, fun h => (IKind.range_u64 h a4).1⟩
      · exact .inr ⟨st, g, a1, a3, hg⟩
  unfold forPre Spec.forPre
  rcases bound_rel Γ hσ hk hts hss with ⟨v1, n1, a1, a2, a3, a4⟩ | ⟨s1, g1, a1, a3, hg⟩
  · rcases bound_rel Γ hσ hk hte hse with ⟨v2, n2, b1, b2, b3, b4⟩ | ⟨s2, g2, b1, b3, hg⟩
    · rcases hstep with ⟨v3, n3, c1, c2, c3, c4⟩ | ⟨s3, g3, c1, c3, hg⟩
      · simp only [a1, a2, a3, b1, b2, b3, c1, c2, c3, bind, Except.bind]
        by_cases hz : n3 = 0
        · simp only [hz, if_true]
          exact .inr ⟨_, _, rfl, rfl, rfl⟩
        · simp only [hz, if_false]
          have hneg : ((Val.i k c).isUnsignedInt && decide (n3 < 0)) = false := by
            cases hsg : k.signed with
            | true => simp [Val.isUnsignedInt, hsg]
            | false =>
              have := c4 hsg
              have : ¬ n3 < 0 := by omega
              simp [Val.isUnsignedInt, hsg, this]
          obtain ⟨_, hco⟩ := for_next_ok (c := c) hk a4
          simp only [readName, hc, pure, Except.pure, hneg, Bool.false_eq_true, if_false, hco]
          exact .inl ⟨n1, n2, n3, rfl, rfl, a4, fun h => by have := c4 h; omega⟩
      · simp only [a1, a2, a3, b1, b2, b3, c1, c3, bind, Except.bind]
        exact .inr ⟨_, _, rfl, rfl, hg⟩
    · simp only [a1, a2, a3, b1, b3, bind, Except.bind]
      exact .inr ⟨_, _, rfl, rfl, hg⟩
  · simp only [a1, a3, bind, Except.bind]
    exact .inr ⟨_, _, rfl, rfl, hg⟩

theorem for_stmt_rel {fuel : Nat} (hF : PFor Γ fuel) {ld : Nat} {σ : Store} {x : String} {s e : Expr}
    {step : Option Expr} {body : Block} {R : List String} {inLoop : Bool} (hσ : StoreWT Γ σ)
    (ht : Spec.typedStmt Γ R inLoop (.for x s e step body) = true)
    (hs : strictStmt Γ (.for x s e step body) = true) :
    RelR Γ σ inLoop (execStmt .real (fuel + 1) ld σ (.for x s e step body))
      (Spec.execStmt Γ (fuel + 1) (eraseEnv σ.vars) (.for x s e step body)) := by
  simp only [Spec.typedStmt] at ht
  cases hx : Γ.lookup x with
  | none => simp [hx] at ht
  | some t =>
    cases t with
    | bool => simp [hx] at ht
    | int k =>
      simp only [hx, Bool.and_eq_true] at ht
      obtain ⟨⟨⟨⟨_, hts⟩, hte⟩, htst⟩, htb⟩ := ht
      simp only [strictStmt, hx, Bool.and_eq_true, bne_iff_ne, ne_eq] at hs
      obtain ⟨⟨⟨⟨hk0, hss⟩, hse⟩, hsst⟩, hsb⟩ := hs
      have hk : k ≠ .ulint := by intro h; subst h; exact hk0 rfl
      obtain ⟨c0, hc0, hc0t⟩ := hσ.vars x _ hx
      obtain ⟨c, rfl, _⟩ := hasTy_int hc0t
      simp only [execStmt, Spec.execStmt, hx]
      have htst' : ∀ st, step = some st → Spec.boundTyped Γ k st = true := by
        intro st h; subst h; exact htst
      have hsst' : ∀ st, step = some st → strictBound Γ st = true := by
        intro st h; subst h; exact hsst
      rcases forPre_rel Γ hσ hx hc0 hk hts hss hte hse htst' hsst' with
        ⟨a, b, st, p1, p2, ha, hst⟩ | ⟨st, g, p1, p2, hg⟩
      · rw [p1, p2]
        simp only
        have hv : (Val.i k a).hasTy (.int k) = true := by simp [Val.hasTy, ha]
        obtain ⟨u1, u2, u3⟩ := hσ.write hx hv
        have := hF ld (writeName σ x (.i k a)) x k a a b st body _ u1 hx hk ha hst htb hsb
        rw [u2, ← sinsert_erase] at this
        exact (this.trans_frames u3).weaken inLoop
      · rw [p1, p2]
        exact RelR.mk_err hσ rfl hg


theorem matches_eq_selects (n : Int) (l : Label) : Label.matches n l = Spec.Label.selects n l := by
  cases l with
  | single a =>
    simp only [Label.matches, Spec.Label.selects, Spec.labelLo, Spec.labelHi]
    by_cases h : a.v = n
    · simp [h]
    · simp only [h, decide_false]
      by_cases h1 : a.v ≤ n
      · have h2 : ¬ n ≤ a.v := by omega
        simp [h1, h2]
      · simp [h1]
  | range a b => rfl

theorem findBranch_eq_select (n : Int) : ∀ (brs : Branches), findBranch n brs = Spec.select n brs
  | .nil => rfl
  | .cons ls b rest => by
    simp only [findBranch, Spec.select]
    have : ls.any (Label.matches n) = ls.any (Spec.Label.selects n) := by
      congr 1; funext l; exact matches_eq_selects n l
    rw [this, findBranch_eq_select n rest]

theorem select_typed {R : List String} {inLoop : Bool} {k : IKind} {n : Int} {b : Block} :
    ∀ (brs : Branches) (seen : List Label), Spec.typedBranches Γ R inLoop k seen brs = true →
      Spec.select n brs = some b → Spec.typedBlock Γ R inLoop b = true
  | .nil, _, _, h => by simp [Spec.select] at h
  | .cons ls b0 rest, seen, ht, h => by
    simp only [Spec.typedBranches] at ht
    split at ht
    · rename_i seen' _
      simp only [Bool.and_eq_true] at ht
      simp only [Spec.select] at h
      by_cases hm : ls.any (Spec.Label.selects n) = true
      · simp [hm] at h; subst h; exact ht.1.2
      · simp [hm] at h; exact select_typed rest seen' ht.2 h
    · simp at ht

theorem select_strict {n : Int} {b : Block} :
    ∀ (brs : Branches), strictBranches Γ brs = true → Spec.select n brs = some b → strictBlock Γ b = true
  | .nil, _, h => by simp [Spec.select] at h
  | .cons ls b0 rest, hs, h => by
    simp only [strictBranches, Bool.and_eq_true] at hs
    simp only [Spec.select] at h
    by_cases hm : ls.any (Spec.Label.selects n) = true
    · simp [hm] at h; subst h; exact hs.1.2
    · simp [hm] at h; exact select_strict rest hs.2 h

theorem strictLabLit_le (a : LabLit) (h : strictLabLit a = true) : a.v ≤ 9223372036854775807 := by
  unfold strictLabLit at h
  cases hty : a.ty with
  | none => simp [hty] at h; simp [i32Max] at h; omega
  | some k => simp [hty] at h; simp [i64Max] at h; omega

/-- No label reaches an unsigned selector above `i64::MAX` (labels are `i64` constants). -/
theorem select_big {n : Int} (hn : 9223372036854775807 < n) :
    ∀ (brs : Branches), strictBranches Γ brs = true → Spec.select n brs = none
  | .nil, _ => rfl
  | .cons ls b0 rest, hs => by
    simp only [strictBranches, Bool.and_eq_true] at hs
    simp only [Spec.select]
    have hm : ls.any (Spec.Label.selects n) = false := by
      rw [List.any_eq_false]
      intro l hl
      have hsl := (List.all_eq_true.mp hs.1.1) l hl
      cases l with
      | single a =>
        have := strictLabLit_le a (by simpa [strictLabel] using hsl)
        simp [Spec.Label.selects, Spec.labelLo, Spec.labelHi]
        intro _; exact decide_eq_false (by omega)
      | range a b =>
        simp only [strictLabel, Bool.and_eq_true] at hsl
        have := strictLabLit_le b hsl.2
        simp [Spec.Label.selects, Spec.labelLo, Spec.labelHi]
        intro _; exact decide_eq_false (by omega)
    simp [hm, select_big hn rest hs.2]


/-- The right-hand side of a strict assignment to a target of type `t`. -/
theorem value_rel {σ : Store} (hσ : StoreWT Γ σ) {t : Ty} {e : Expr} (hs : strictAssign Γ t e = true) :
    (∃ v, evalExpr .real σ e = .ok v ∧ Spec.valueOf Γ (eraseEnv σ.vars) e = .ok (erase v) ∧
        v.hasTy t = true) ∨
    (∃ s f, evalExpr .real σ e = .error s ∧ Spec.valueOf Γ (eraseEnv σ.vars) e = .error f ∧
        s.toS = some f) := by
  simp only [strictAssign, Bool.and_eq_true] at hs
  obtain ⟨hnd, hty⟩ := hs
  cases ha : Spec.atomVal e with
  | some m =>
    simp only [ha] at hty
    simp at hty
    subst hty
    obtain ⟨h1, h2, h3⟩ := atom_eval (σ := σ) ha hnd
    refine .inl ⟨.i .dint m, h1, by simp [Spec.valueOf, ha, erase, pure, Except.pure], ?_⟩
    simp [Val.hasTy]; rw [IKind.inRange_iff]; simp [IKind.lo, IKind.hi]; omega
  | none =>
    simp only [ha] at hty
    simp at hty
    rcases (eval_rel Γ σ hσ e t hty hnd).elim with ⟨v, e1, e2, e3⟩ | ⟨s, f, e1, e2, e3⟩
    · exact .inl ⟨v, e1, by simp [Spec.valueOf, ha, e2], e3⟩
    · exact .inr ⟨s, f, e1, by simp [Spec.valueOf, ha, e2], e3⟩

theorem assign_rel {fuel ld : Nat} {σ : Store} {x : String} {e : Expr} {inLoop : Bool}
    (hσ : StoreWT Γ σ) (hs : strictStmt Γ (.assign x e) = true) :
    RelR Γ σ inLoop (execStmt .real (fuel + 1) ld σ (.assign x e))
      (Spec.execStmt Γ (fuel + 1) (eraseEnv σ.vars) (.assign x e)) := by
  simp only [execStmt, Spec.execStmt]
  simp only [strictStmt] at hs
  cases hx : Γ.lookup x with
  | none => simp [hx] at hs
  | some t =>
    simp only [hx] at hs
    rcases value_rel Γ hσ hs with ⟨v, e1, e2, e3⟩ | ⟨s, f, e1, e2, e3⟩
    · obtain ⟨w1, w2, w3⟩ := hσ.write hx e3
      simp only [e1, e2, writeVal_real]
      refine ⟨w1, ?_, w3, ?_⟩
      · simp [w2, ← sinsert_erase]
      · simp [FlowOK]
    · simp only [e1, e2]
      exact ⟨hσ, rfl, rfl, e3⟩

theorem assignFld_rel {fuel ld : Nat} {σ : Store} {s f : String} {e : Expr} {inLoop : Bool}
    (hσ : StoreWT Γ σ) (hs : strictStmt Γ (.assignFld s f e) = true) :
    RelR Γ σ inLoop (execStmt .real (fuel + 1) ld σ (.assignFld s f e))
      (Spec.execStmt Γ (fuel + 1) (eraseEnv σ.vars) (.assignFld s f e)) := by
  simp only [execStmt, Spec.execStmt]
  simp only [strictStmt] at hs
  cases hT : Spec.infer Γ (.fld s f) with
  | none => simp [hT] at hs
  | some t =>
    simp only [hT] at hs
    simp only [Spec.infer] at hT
    split at hT
    · rename_i tn fields hag
      have hσa : σ.aggs.lookup s = some (.str tn fields) := by rw [hσ.aggs]; exact hag
      cases hf : findFld fields f with
      | none => simp [hf] at hT
      | some q =>
        obtain ⟨g0, t0⟩ := q
        simp [hf] at hT
        subst hT
        have hslot := aggOK_fld hσ.ctx hag hf
        obtain ⟨v0, hv0, _⟩ := hσ.vars _ _ hslot
        rcases value_rel Γ hσ hs with ⟨v, e1, e2, e3⟩ | ⟨st, g, e1, e2, e3⟩
        · obtain ⟨w1, w2, w3⟩ := hσ.write hslot e3
          simp only [e1, e2, hσa, hag, hf, writeSlot, hv0, writeVal_real]
          refine ⟨w1, ?_, w3, ?_⟩
          · simp [w2, ← sinsert_erase]
          · simp [FlowOK]
        · simp only [e1, e2]
          exact ⟨hσ, rfl, rfl, e3⟩
    · simp at hT

theorem assignIdx_rel {fuel ld : Nat} {σ : Store} {a : String} {i e : Expr} {inLoop : Bool}
    (hσ : StoreWT Γ σ) (hs : strictStmt Γ (.assignIdx a i e) = true) :
    RelR Γ σ inLoop (execStmt .real (fuel + 1) ld σ (.assignIdx a i e))
      (Spec.execStmt Γ (fuel + 1) (eraseEnv σ.vars) (.assignIdx a i e)) := by
  simp only [execStmt, Spec.execStmt]
  simp only [strictStmt, Bool.and_eq_true] at hs
  obtain ⟨hndI, hs⟩ := hs
  cases hT : Spec.infer Γ (.idx a i) with
  | none => simp [hT] at hs
  | some t =>
    simp only [hT] at hs
    obtain ⟨lo, hi, hag, hi'⟩ := Spec.infer_idx hT
    have hσa : σ.aggs.lookup a = some (.arr lo hi t) := by rw [hσ.aggs]; exact hag
    have ndi : noDriftE Γ i = true ∧ (Spec.infer Γ i ≠ some (.int .ulint) ∨ hi < 9223372036854775807) := by
      simpa [noDriftE, arrHiOK, hag] using hndI
    have hty : (∃ m, Spec.atomVal i = some m) ∨ (∃ k, Spec.infer Γ i = some (.int k)) := by
      rcases hi' with ⟨m, hm, _⟩ | ⟨_, k, hk⟩
      · exact .inl ⟨m, hm⟩
      · exact .inr ⟨k, hk⟩
    simp only [hag]
    rcases value_rel Γ hσ hs with ⟨v, e1, e2, e3⟩ | ⟨st, g, e1, e2, e3⟩
    · simp only [e1, e2, hσa]
      rcases index_rel Γ σ (eval_rel Γ σ hσ i) lo hi hty ndi.1 ndi.2 with
        ⟨n, h1, h2, h3, h4⟩ | ⟨n, s, h1, h2, h3, h4⟩ | ⟨s, f, h1, h2, h3⟩
      · have hslot := aggOK_arr hσ.ctx hag h3 h4
        obtain ⟨v0, hv0, _⟩ := hσ.vars _ _ hslot
        obtain ⟨w1, w2, w3⟩ := hσ.write hslot e3
        have hb : ¬ (n < lo ∨ n > hi) := by omega
        rw [h1, h2]
        simp only [hb, if_false, writeSlot, hv0, writeVal_real]
        refine ⟨w1, ?_, w3, ?_⟩
        · simp [w2, ← sinsert_erase]
        · simp [FlowOK]
      · rw [h1, h2]
        simp only [h3, if_true]
        exact RelR.mk_err hσ rfl h4
      · rw [h1, h2]
        exact RelR.mk_err hσ rfl h3
    · simp only [e1, e2]
      exact ⟨hσ, rfl, rfl, e3⟩

theorem selectorInt_int (k : IKind) (x : Int) :
    selectorInt (.i k x) = .ok (if k = .ulint ∧ ¬ x ≤ i64Max then none else some x) := by
  cases k <;> simp [selectorInt, pure, Except.pure]
  by_cases h : x ≤ i64Max <;> simp [h]

theorem stmt_step {fuel : Nat} (hB : PBlock Γ fuel) (hE : PElifs Γ fuel) (hF : PFor Γ fuel)
    (hW : PWhile Γ fuel) (hR : PRepeat Γ fuel) : PStmt Γ (fuel + 1) := by
  intro ld σ s R inLoop hσ ht hs hld
  cases s with
  | assign x e => exact assign_rel Γ hσ hs
  | assignIdx a i e => exact assignIdx_rel Γ hσ hs
  | assignFld s f e => exact assignFld_rel Γ hσ hs
  | ite c t elifs el =>
    simp only [Spec.typedStmt, strictStmt, Bool.and_eq_true, decide_eq_true_eq] at ht hs
    obtain ⟨⟨⟨hc, htt⟩, hte⟩, htl⟩ := ht
    obtain ⟨⟨⟨hnc, hst⟩, hse⟩, hsl⟩ := hs
    simp only [execStmt, Spec.execStmt]
    rcases evalBool_rel Γ hσ hc hnc with ⟨x, e1, s1⟩ | ⟨s, g, e1, s1, hg⟩
    · rw [e1, s1]
      cases x with
      | true => exact hB ld σ t R inLoop hσ htt hst hld
      | false => exact hE ld σ elifs el R inLoop hσ hte htl hse hsl hld
    · rw [e1, s1]
      exact RelR.mk_err hσ rfl hg
  | case sel brs el =>
    simp only [Spec.typedStmt] at ht
    split at ht
    · rename_i k hik
      simp only [Bool.and_eq_true] at ht
      simp only [strictStmt, Bool.and_eq_true] at hs
      obtain ⟨⟨hnd, hsb⟩, hsl⟩ := hs
      simp only [execStmt, Spec.execStmt]
      rcases (eval_rel Γ σ hσ sel _ hik hnd).elim with ⟨v, e1, e2, e3⟩ | ⟨s, g, e1, e2, e3⟩
      · obtain ⟨x, rfl, hx⟩ := hasTy_int e3
        simp only [e1, e2, bind, Except.bind, erase, Spec.asInt, pure, Except.pure, selectorInt_int]
        by_cases hbig : k = .ulint ∧ ¬ x ≤ i64Max
        · simp only [hbig, not_false_eq_true, and_self, if_true]
          have : Spec.select x brs = none := select_big Γ (by simp [i64Max] at hbig; omega) brs hsb
          rw [this]
          exact hB ld σ el R inLoop hσ ht.2 hsl hld
        · simp only [hbig, if_false, findBranch_eq_select]
          cases hsel : Spec.select x brs with
          | none => exact hB ld σ el R inLoop hσ ht.2 hsl hld
          | some b =>
            exact hB ld σ b R inLoop hσ (select_typed Γ brs [] ht.1 hsel) (select_strict Γ brs hsb hsel) hld
      · simp only [e1, e2, bind, Except.bind]
        exact RelR.mk_err hσ rfl e3
    · simp at ht
  | «for» x s e step body => exact for_stmt_rel Γ hF hσ ht hs
  | «while» c body =>
    simp only [Spec.typedStmt, strictStmt, Bool.and_eq_true, decide_eq_true_eq] at ht hs
    simp only [execStmt, Spec.execStmt]
    exact (hW ld σ c body R hσ ht.1 hs.1 ht.2 hs.2).weaken inLoop
  | «repeat» body c =>
    simp only [Spec.typedStmt, strictStmt, Bool.and_eq_true, decide_eq_true_eq] at ht hs
    simp only [execStmt, Spec.execStmt]
    exact (hR ld σ c body R hσ ht.1 hs.2 ht.2 hs.1).weaken inLoop
  | exit =>
    simp only [Spec.typedStmt] at ht
    have : ld ≠ 0 := hld ht
    simp only [execStmt, Spec.execStmt, this, if_false]
    exact RelR.mk_ok hσ rfl (fun h => by simp [ht] at h)
  | «continue» =>
    simp only [Spec.typedStmt] at ht
    have : ld ≠ 0 := hld ht
    simp only [execStmt, Spec.execStmt, this, if_false]
    exact RelR.mk_ok hσ rfl (fun h => by simp [ht] at h)
  | ret =>
    simp only [execStmt, Spec.execStmt]
    exact RelR.mk_ok hσ rfl (fun _ => .inr rfl)

/-- **The simulation**: for every recursion budget, the implementation model (code as it is) and
the reference run in lockstep on programs inside the guard, from well-typed stores, keeping the
store well typed, leaving the call stack alone and raising only corresponding faults. -/
theorem exec_rel : ∀ fuel, PStmt Γ fuel ∧ PBlock Γ fuel ∧ PElifs Γ fuel ∧ PFor Γ fuel ∧ PWhile Γ fuel ∧ PRepeat Γ fuel := by
  intro fuel
  induction fuel with
  | zero =>
    refine ⟨?_, ?_, ?_, ?_, ?_, ?_⟩
    · intro ld σ s R inLoop hσ _ _ _
      simp only [execStmt, Spec.execStmt]
      exact RelR.mk_err hσ rfl rfl
    · intro ld σ b R inLoop hσ _ _ _
      simp only [execBlock, Spec.execBlock]
      exact RelR.mk_err hσ rfl rfl
    · intro ld σ es el R inLoop hσ _ _ _ _ _
      simp only [execElifs, Spec.execElifs]
      exact RelR.mk_err hσ rfl rfl
    · intro ld σ x k c cur fin st body R hσ _ _ _ _ _ _
      simp only [forLoop, Spec.forLoop]
      exact RelR.mk_err hσ rfl rfl
    · intro ld σ c body R hσ _ _ _ _
      simp only [whileLoop, Spec.whileLoop]
      exact RelR.mk_err hσ rfl rfl
    · intro ld σ c body R hσ _ _ _ _
      simp only [repeatLoop, Spec.repeatLoop]
      exact RelR.mk_err hσ rfl rfl
  | succ n ih =>
    obtain ⟨hS, hB, hE, hF, hW, hR⟩ := ih
    exact ⟨stmt_step Γ hB hE hF hW hR, block_step Γ hS hB, elifs_step Γ hB hE, for_step Γ hB hF,
      while_step Γ hB hW, repeat_step Γ hB hR⟩

end
theorem StoreWT.frames_irrel {Γ : Ctx} {σ : Store} (h : StoreWT Γ σ) (fr : List String) :
    StoreWT Γ { σ with frames := fr } := ⟨h.vars, h.aggs, h.ctx⟩

/-- One scan cycle inside the guard, from any well-typed store. -/
theorem cycle_rel (p : Program) (hS : Strict p = true) (σ : Store) (hσ : StoreWT p.ctx σ) (fuel : Nat) :
    StoreWT p.ctx (cycle .real p fuel { store := σ }).1.store ∧
    (cycle .real p fuel { store := σ }).1.store.frames = σ.frames ∧
    (Spec.cycle p fuel (eraseEnv σ.vars)).1 = eraseEnv (cycle .real p fuel { store := σ }).1.store.vars ∧
    (match (cycle .real p fuel { store := σ }).2, (Spec.cycle p fuel (eraseEnv σ.vars)).2 with
      | none, none => (cycle .real p fuel { store := σ }).1.faulted = false
      | some st, some g => st.toS = some g ∧ (cycle .real p fuel { store := σ }).1.faulted = true
      | _, _ => False) := by
  simp only [Strict, Spec.typed, Bool.and_eq_true] at hS
  obtain ⟨⟨⟨_, _⟩, htb⟩, hsb⟩ := hS.1
  have hrel := (exec_rel p.ctx fuel).2.1 0 { σ with frames := p.name :: σ.frames } p.body [] false
    (hσ.frames_irrel _) htb hsb (by simp)
  simp only [cycle, Spec.cycle, Bool.false_eq_true, if_false]
  rcases hA : execBlock .real fuel 0 { σ with frames := p.name :: σ.frames } p.body with ⟨σ1, r1⟩
  rcases hB : Spec.execBlock p.ctx fuel (eraseEnv σ.vars) p.body with ⟨σ2, r2⟩
  rw [hA] at hrel
  simp only at hrel
  rw [hB] at hrel
  obtain ⟨w1, w2, w3, w4⟩ := hrel.elim
  simp only at w1 w2 w3 w4
  subst w2
  rcases w4 with ⟨f, rfl, rfl, hf⟩ | ⟨st, g, rfl, rfl, hg⟩
  · rcases hf rfl with rfl | rfl
    · exact ⟨w1.frames_irrel _, by simp [w3], rfl, rfl⟩
    · exact ⟨w1.frames_irrel _, by simp [w3], rfl, rfl⟩
  · exact ⟨w1.frames_irrel _, by simp [w3], rfl, hg, rfl⟩

/-- Every input write puts a value of the declared type into a declared variable. -/
def InputsWT (Γ : Ctx) (ins : Inputs) : Prop :=
  ∀ k x v, (x, v) ∈ ins k → ∃ t, Γ.lookup x = some t ∧ v.hasTy t = true

theorem StoreWT.insert {Γ : Ctx} {σ : Store} (hσ : StoreWT Γ σ) {x : String} {t : Ty} {v : Val}
    (hx : Γ.lookup x = some t) (hv : v.hasTy t = true) :
    StoreWT Γ { σ with vars := insert x v σ.vars } := by
  obtain ⟨v0, hv0, _⟩ := hσ.vars x t hx
  refine ⟨?_, hσ.aggs, hσ.ctx⟩
  intro y ty hy
  by_cases hyx : y = x
  · subst hyx
    rw [hx] at hy
    injection hy with hy
    subst hy
    exact ⟨v, lookup_insert_same y v σ.vars (by simp [hv0]), hv⟩
  · obtain ⟨w, hw1, hw2⟩ := hσ.vars y ty hy
    exact ⟨w, by simp [lookup_insert_other x y v σ.vars hyx, hw1], hw2⟩

theorem withInputs_WT {Γ : Ctx} (ws : List (String × Val))
    (hws : ∀ x v, (x, v) ∈ ws → ∃ t, Γ.lookup x = some t ∧ v.hasTy t = true) :
    ∀ (st : RunState), StoreWT Γ st.store → StoreWT Γ (st.withInputs ws).store := by
  induction ws with
  | nil => intro st h; exact h
  | cons w rest ih =>
    intro st h
    obtain ⟨x, v⟩ := w
    obtain ⟨t, hx, hv⟩ := hws x v (by simp)
    have h1 := h.insert hx hv
    have := ih (fun x v hm => hws x v (by simp [hm]))
      { st with store := { st.store with vars := insert x v st.store.vars } } h1
    exact this

theorem applyInputs_erase (ws : List (String × Val)) :
    ∀ (e : Env), Spec.applyInputs (eraseEnv e) ws = eraseEnv (applyInputs e ws) := by
  induction ws with
  | nil => intro e; rfl
  | cons w rest ih =>
    intro e
    obtain ⟨x, v⟩ := w
    simp only [Spec.applyInputs, applyInputs, List.foldl_cons]
    rw [sinsert_erase]
    exact ih (insert x v e)

theorem withInputs_frames (st : RunState) (ws : List (String × Val)) :
    (st.withInputs ws).store.frames = st.store.frames := rfl

theorem withInputs_faulted (st : RunState) (ws : List (String × Val)) :
    (st.withInputs ws).faulted = st.faulted := rfl

/-- A cycle of a latched resource changes nothing and reports `ResourceFaulted`. -/
theorem cycle_latched (cfg : Cfg) (p : Program) (fuel : Nat) (st : RunState) (h : st.faulted = true) :
    cycle cfg p fuel st = (st, some (.fault .ResourceFaulted .latched)) := by
  simp [cycle, h]

/-- `cycle_rel` for a run state that is not latched. -/
theorem cycle_rel' (p : Program) (hS : Strict p = true) (st : RunState) (hσ : StoreWT p.ctx st.store)
    (hf : st.faulted = false) (fuel : Nat) :
    StoreWT p.ctx (cycle .real p fuel st).1.store ∧
    (cycle .real p fuel st).1.store.frames = st.store.frames ∧
    (Spec.cycle p fuel (eraseEnv st.store.vars)).1 = eraseEnv (cycle .real p fuel st).1.store.vars ∧
    (match (cycle .real p fuel st).2, (Spec.cycle p fuel (eraseEnv st.store.vars)).2 with
      | none, none => (cycle .real p fuel st).1.faulted = false
      | some s, some g => s.toS = some g ∧ (cycle .real p fuel st).1.faulted = true
      | _, _ => False) := by
  have : st = { store := st.store } := by
    cases st; simp at hf; simp [hf]
  rw [this]
  exact cycle_rel p hS st.store hσ fuel


/-- The implementation's report of a cycle corresponds to the reference's. -/
def ReportRel (A : CycleOut) (B : Option SFault) : Prop :=
  match A, B with
  | none, none => True
  | some s, some g => s.toS = some g
  | _, _ => False

theorem report_weaken {A : CycleOut} {B : Option SFault} {P Q : Prop}
    (h : match A, B with
      | none, none => P
      | some s, some g => s.toS = some g ∧ Q
      | _, _ => False) : ReportRel A B := by
  unfold ReportRel
  cases A <;> cases B <;> simp_all

section
variable (p : Program) (hS : Strict p = true) (ins : Inputs) (hins : InputsWT p.ctx ins)
  (σ0 : Store) (hσ0 : StoreWT p.ctx σ0) (fuel : Nat)
include hS hins hσ0

/-- Invariant at every cycle boundary of every run inside the guard. -/
theorem run_inv : ∀ n,
    StoreWT p.ctx (runFrom .real p fuel ins n { store := σ0 }).store ∧
    (runFrom .real p fuel ins n { store := σ0 }).store.frames = σ0.frames ∧
    ((runFrom .real p fuel ins n { store := σ0 }).faulted = false →
      Spec.runFrom p fuel ins n (eraseEnv σ0.vars) =
        eraseEnv (runFrom .real p fuel ins n { store := σ0 }).store.vars) := by
  intro n
  induction n with
  | zero => exact ⟨hσ0, rfl, fun _ => rfl⟩
  | succ n ih =>
    obtain ⟨i1, i2, i3⟩ := ih
    simp only [runFrom, Spec.runFrom]
    have hwt := withInputs_WT (Γ := p.ctx) (ins n) (hins n) _ i1
    cases hf : (runFrom .real p fuel ins n { store := σ0 }).faulted with
    | true =>
      rw [cycle_latched .real p fuel _ (by rw [withInputs_faulted]; exact hf)]
      refine ⟨hwt, by rw [withInputs_frames]; exact i2, ?_⟩
      intro h
      rw [withInputs_faulted, hf] at h
      exact absurd h (by simp)
    | false =>
      obtain ⟨c1, c2, c3, c4⟩ := cycle_rel' p hS _ hwt (by rw [withInputs_faulted]; exact hf) fuel
      refine ⟨c1, by rw [c2, withInputs_frames]; exact i2, ?_⟩
      intro _
      rw [i3 hf, applyInputs_erase]
      exact c3

/-- What every cycle of every run inside the guard reports. -/
theorem run_report (n : Nat) :
    ((runFrom .real p fuel ins n { store := σ0 }).faulted = true →
      reportAt .real p fuel ins n { store := σ0 } = some (.fault .ResourceFaulted .latched)) ∧
    ((runFrom .real p fuel ins n { store := σ0 }).faulted = false →
      ReportRel (reportAt .real p fuel ins n { store := σ0 }) (Spec.reportAt p fuel ins n (eraseEnv σ0.vars))) := by
  obtain ⟨i1, i2, i3⟩ := run_inv p hS ins hins σ0 hσ0 fuel n
  have hwt := withInputs_WT (Γ := p.ctx) (ins n) (hins n) _ i1
  constructor
  · intro hf
    simp only [reportAt]
    rw [cycle_latched .real p fuel _ (by rw [withInputs_faulted]; exact hf)]
  · intro hf
    obtain ⟨c1, c2, c3, c4⟩ := cycle_rel' p hS _ hwt (by rw [withInputs_faulted]; exact hf) fuel
    simp only [reportAt, Spec.reportAt]
    rw [i3 hf, applyInputs_erase]
    exact report_weaken c4

end

theorem initVal_hasTy (d : VarDecl) (h : Spec.declTyped d = true) : d.initVal.hasTy d.ty = true := by
  unfold Spec.declTyped at h
  unfold VarDecl.initVal
  cases hty : d.ty with
  | bool => simp [Val.hasTy]
  | int k => simp [hty] at h; simp [Val.hasTy, h]

theorem init_WT_aux : ∀ (sl : List (String × Ty × Val)), (∀ q ∈ sl, q.2.2.hasTy q.2.1 = true) → ∀ x t,
    (sl.map fun (k, t, _) => (k, t)).lookup x = some t →
    ∃ v, lookup x (sl.map fun (k, _, v) => (k, v)) = some v ∧ v.hasTy t = true := by
  intro sl
  induction sl with
  | nil => intro _ x t h; simp [List.lookup] at h
  | cons d rest ih =>
    obtain ⟨k, t0, v0⟩ := d
    intro hall x t h
    simp only [List.map_cons, List.lookup] at h
    simp only [List.map_cons, lookup]
    by_cases hx : x = k
    · subst hx
      simp at h
      subst h
      exact ⟨v0, by simp, hall _ List.mem_cons_self⟩
    · have : (x == k) = false := by simp [hx]
      simp only [this] at h
      simp only [hx, if_false]
      exact ih (fun q hq => hall q (List.mem_cons_of_mem _ hq)) x t h

theorem default_hasTy (t : Ty) : t.default.hasTy t = true := by
  cases t with
  | bool => rfl
  | int k => cases k <;> decide

theorem slots_hasTy (p : Program) (h : p.decls.all Spec.declTyped = true) :
    ∀ q ∈ p.slots, q.2.2.hasTy q.2.1 = true := by
  intro q hq
  simp only [Program.slots, List.mem_append, List.mem_map] at hq
  rcases hq with ⟨d, hd, rfl⟩ | ⟨⟨k, t⟩, _, rfl⟩
  · rw [List.all_eq_true] at h
    exact initVal_hasTy d (h d hd)
  · exact default_hasTy t

/-- The initial store of a program of the typed core is well typed
(`coerce_value_to_type` on the initialisers, type defaults in the aggregates). -/
theorem init_WT (p : Program) (h : Spec.typed p = true) : StoreWT p.ctx p.initStore := by
  simp only [Spec.typed, Bool.and_eq_true] at h
  exact ⟨init_WT_aux p.slots (slots_hasTy p h.1.1.2), rfl, h.1.2⟩

end TrustVerif.StCore
