import TrustVerif.Lemmas.StArith

/-!
Expression lemma behind C01/C02/C03: on a well-typed store, an expression the reference types
(`Spec.infer`) and that satisfies `noDriftE` evaluates, in the implementation model, to a value
whose runtime tag is the static type and whose magnitude is the reference's value — or both
sides raise corresponding (value-dependent) faults.
-/
namespace TrustVerif.StCore

/-- The store-typing invariant of C03 on the program's variables. -/
structure StoreWT (Γ : Ctx) (σ : Store) : Prop where
  /-- every declared slot holds a value of its declared type -/
  vars : ∀ x t, Γ.lookup x = some t → ∃ v, lookup x σ.vars = some v ∧ v.hasTy t = true
  /-- the shapes of the aggregate values are the declared ones -/
  aggs : σ.aggs = Γ.aggs
  /-- the element / field slots are declared with the element / field types -/
  ctx : Spec.aggOK Γ = true

theorem slookup_erase (x : String) (e : Env) : slookup x (eraseEnv e) = (lookup x e).map erase := by
  induction e with
  | nil => rfl
  | cons p rest ih =>
    obtain ⟨y, v⟩ := p
    simp only [eraseEnv, List.map_cons, slookup, lookup]
    by_cases h : x = y
    · simp [h]
    · simp only [h, if_false]
      exact ih

theorem sinsert_erase (x : String) (v : Val) (e : Env) :
    sinsert x (erase v) (eraseEnv e) = eraseEnv (insert x v e) := by
  induction e with
  | nil => rfl
  | cons p rest ih =>
    obtain ⟨y, w⟩ := p
    simp only [eraseEnv, List.map_cons, sinsert, insert]
    by_cases h : x = y
    · simp [h]
    · simp only [h, if_false, List.map_cons]
      congr 1

theorem hasTy_int {v : Val} {k : IKind} (h : v.hasTy (.int k) = true) : ∃ x, v = .i k x ∧ k.inRange x = true := by
  cases v with
  | b _ => simp [Val.hasTy] at h
  | i k' x =>
    simp [Val.hasTy] at h
    exact ⟨x, by rw [h.1], by rw [← h.1]; exact h.2⟩

theorem hasTy_bool {v : Val} (h : v.hasTy .bool = true) : ∃ x, v = .b x := by
  cases v with
  | b x => exact ⟨x, rfl⟩
  | i _ _ => simp [Val.hasTy] at h

/-- An expression with a type of its own is not a contextual constant. -/
theorem atom_none_of_infer {Γ : Ctx} {e : Expr} {T : Ty} (h : Spec.infer Γ e = some T) : Spec.atomVal e = none := by
  cases e with
  | lit ty v => cases ty <;> simp [Spec.infer] at h <;> rfl
  | blit _ => rfl
  | var _ => rfl
  | bin _ _ _ => rfl
  | idx _ _ => rfl
  | fld _ _ => rfl
  | un op e =>
    cases op with
    | not => rfl
    | neg =>
      cases e with
      | lit ty v =>
        cases ty with
        | none => simp [Spec.infer] at h
        | some k => rfl
      | _ => rfl

/-- A contextual constant evaluates to `DInt` (lowering of untyped literals; negation stays
inside DINT because the literal is at most `i32::MAX`). -/
theorem atom_eval {Γ : Ctx} {σ : Store} {e : Expr} {m : Int} (h : Spec.atomVal e = some m)
    (hnd : noDriftE Γ e = true) :
    evalExpr .real σ e = .ok (.i .dint m) ∧ -2147483647 ≤ m ∧ m ≤ 2147483647 := by
  cases e with
  | lit ty v =>
    cases ty with
    | some k => simp [Spec.atomVal] at h
    | none =>
      simp [Spec.atomVal] at h
      simp [noDriftE] at hnd
      simp [i32Max] at hnd
      subst h
      refine ⟨?_, by omega, by omega⟩
      simp [evalExpr, litVal, Cfg.real, pure, Except.pure]
  | blit _ => simp [Spec.atomVal] at h
  | var _ => simp [Spec.atomVal] at h
  | bin _ _ _ => simp [Spec.atomVal] at h
  | idx _ _ => simp [Spec.atomVal] at h
  | fld _ _ => simp [Spec.atomVal] at h
  | un op e =>
    cases op with
    | not => simp [Spec.atomVal] at h
    | neg =>
      cases e with
      | lit ty v =>
        cases ty with
        | some k => simp [Spec.atomVal] at h
        | none =>
          simp [Spec.atomVal] at h
          simp [noDriftE] at hnd
          simp [i32Max] at hnd
          subst h
          refine ⟨?_, by omega, by omega⟩
          have hr : IKind.dint.inRange (-v) = true := by
            rw [IKind.inRange_iff]; simp [IKind.lo, IKind.hi]; omega
          simp [evalExpr, litVal, Cfg.real, pure, Except.pure, bind, Except.bind, applyUnary, IKind.signed, hr]
      | _ => simp [Spec.atomVal] at h

theorem RelV.elim {T : Ty} {r1 : M Val} {r2 : Except SFault SV} (h : RelV T r1 r2) :
    (∃ v, r1 = .ok v ∧ r2 = .ok (erase v) ∧ v.hasTy T = true) ∨
    (∃ s f, r1 = .error s ∧ r2 = .error f ∧ s.toS = some f) := by
  cases r1 with
  | ok v =>
    cases r2 with
    | ok w => simp [RelV] at h; exact .inl ⟨v, rfl, by rw [h.2], h.1⟩
    | error f => simp [RelV] at h
  | error s =>
    cases r2 with
    | ok w => simp [RelV] at h
    | error f => simp [RelV] at h; exact .inr ⟨s, f, rfl, rfl, h⟩

def Spec.inferArith (Γ : Ctx) (l r : Expr) : Option Ty :=
  match Spec.infer Γ l, Spec.infer Γ r with
  | some (.int a), some (.int b) => (Spec.promote a b).map Ty.int
  | some (.int a), none =>
    match Spec.atomVal r with
    | some m => if a.inRange m then some (.int a) else none
    | none => none
  | none, some (.int b) =>
    match Spec.atomVal l with
    | some m => if b.inRange m then some (.int b) else none
    | none => none
  | _, _ => none

theorem Spec.infer_arith {Γ : Ctx} {op : BinOp} (hop : op.isSpecArith = true) (l r : Expr) :
    Spec.infer Γ (.bin op l r) = Spec.inferArith Γ l r := by
  cases op <;> simp [BinOp.isSpecArith] at hop <;> rfl

theorem Spec.eval_arith {Γ : Ctx} {σ : SEnv} {op : BinOp} (hop : op.isSpecArith = true) (l r : Expr) :
    Spec.eval Γ σ (.bin op l r) =
      match Spec.infer Γ (.bin op l r) with
      | some (.int k) => do
        let x ← Spec.operandVal Γ σ l
        let y ← Spec.operandVal Γ σ r
        let z ← Spec.arith op x y
        Spec.inType k z
      | _ => .error .stuck := by
  cases op <;> simp [BinOp.isSpecArith] at hop <;> rfl

theorem evalExpr_bin {cfg : Cfg} {σ : Store} {op : BinOp} (h1 : op ≠ .and) (h2 : op ≠ .or) (l r : Expr) :
    evalExpr cfg σ (.bin op l r) =
      (evalExpr cfg σ l >>= fun a => evalExpr cfg σ r >>= fun b => applyBinary op a b) := by
  cases op <;> first | rfl | exact absurd rfl h1 | exact absurd rfl h2


theorem wider_of_promote {a b t : IKind} (h : Spec.promote a b = some t) :
    wider a b = t ∧ a.signed = t.signed ∧ b.signed = t.signed := by
  unfold Spec.promote at h
  by_cases hs : a.signed = b.signed
  · simp [hs] at h
    by_cases hr : b.rank ≤ a.rank
    · simp [hr] at h; subst h; exact ⟨by simp [wider, hr], rfl, hs.symm⟩
    · simp [hr] at h; subst h; exact ⟨by simp [wider, hr], hs, rfl⟩
  · simp [hs] at h

/-- `wider_numeric` with a DINT operand keeps a kind that ranks at least DINT. -/
theorem wider_dint_right {a : IKind} (h : IKind.dint.rank ≤ a.rank) : wider a .dint = a := by
  unfold wider; simp [h]

theorem wider_dint_left {a : IKind} (h : IKind.dint.rank ≤ a.rank) : wider .dint a = a := by
  unfold wider
  by_cases h2 : a.rank ≤ IKind.dint.rank
  · have : a = .dint := by cases a <;> simp [IKind.rank] at h h2 ⊢
    simp [this]
  · simp [h2]

theorem signed_rank_ge_dint {a : IKind} (h : IKind.dint.rank ≤ a.rank) (hs : a.signed = true) :
    a = .dint ∨ a = .lint := by
  cases a <;> simp [IKind.rank, IKind.signed] at h hs ⊢

theorem noDriftE_bin {Γ : Ctx} {op : BinOp} {l r : Expr} (h : noDriftE Γ (.bin op l r) = true) :
    noDriftE Γ l = true ∧ noDriftE Γ r = true ∧ op ≠ .pow ∧
    (op.isArith = true →
      (∀ m, Spec.atomVal r = some m → ∃ a, Spec.infer Γ l = some (.int a) ∧ IKind.dint.rank ≤ a.rank) ∧
      (∀ m, Spec.atomVal l = some m → ∃ b, Spec.infer Γ r = some (.int b) ∧ IKind.dint.rank ≤ b.rank)) := by
  simp only [noDriftE, Bool.and_eq_true, bne_iff_ne, ne_eq] at h
  obtain ⟨⟨⟨h1, h2⟩, h3⟩, h4⟩ := h
  refine ⟨h1, h2, h3, ?_⟩
  intro ha
  simp only [ha, if_true, Bool.and_eq_true] at h4
  obtain ⟨h5, h6⟩ := h4
  constructor
  · intro m hm
    rw [hm] at h5
    split at h5
    · rename_i a _ heq
      exact ⟨a, heq, by simpa using h5⟩
    · simp at h5
    · rename_i heq; simp at heq
  · intro m hm
    rw [hm] at h6
    split at h6
    · rename_i a _ heq
      exact ⟨a, heq, by simpa using h6⟩
    · simp at h6
    · rename_i heq; simp at heq

/-! ### Aggregates (stage S3) -/

theorem mem_of_lookup {α β : Type} [BEq α] [LawfulBEq α] {a : α} {b : β} {l : List (α × β)}
    (h : l.lookup a = some b) : (a, b) ∈ l := by
  induction l with
  | nil => simp [List.lookup] at h
  | cons p rest ih =>
    obtain ⟨x, y⟩ := p
    simp only [List.lookup] at h
    split at h
    · rename_i heq
      have : a = x := by simpa using heq
      simp at h
      subst h; subst this
      exact List.mem_cons_self
    · exact List.mem_cons_of_mem _ (ih h)

theorem mem_intRange {lo hi n : Int} (h1 : lo ≤ n) (h2 : n ≤ hi) : n ∈ intRange lo hi := by
  unfold intRange
  rw [List.mem_map]
  refine ⟨(n - lo).toNat, ?_, by omega⟩
  rw [List.mem_range]
  omega

/-- An element slot is declared with the element type. -/
theorem aggOK_arr {Γ : Ctx} (h : Spec.aggOK Γ = true) {a : String} {lo hi : Int} {t : Ty}
    (ha : Γ.aggs.lookup a = some (.arr lo hi t)) {n : Int} (h1 : lo ≤ n) (h2 : n ≤ hi) :
    Γ.lookup (elemName a n) = some t := by
  unfold Spec.aggOK at h
  rw [List.all_eq_true] at h
  have h3 := h _ (mem_of_lookup ha)
  simp only at h3
  rw [List.all_eq_true] at h3
  simpa using h3 n (mem_intRange h1 h2)

/-- A field slot is declared with the field type. -/
theorem aggOK_fld {Γ : Ctx} (h : Spec.aggOK Γ = true) {s tn : String} {fields : List (String × Ty)}
    (ha : Γ.aggs.lookup s = some (.str tn fields)) {f g : String} {t : Ty} (hf : findFld fields f = some (g, t)) :
    Γ.lookup (fldName s g) = some t := by
  unfold Spec.aggOK at h
  rw [List.all_eq_true] at h
  have h3 := h _ (mem_of_lookup ha)
  simp only at h3
  rw [List.all_eq_true] at h3
  simpa using h3 _ (List.mem_of_find?_eq_some hf)

theorem indexToI64_ok {k : IKind} (hk : k ≠ .ulint) (x : Int) : indexToI64 .real (.i k x) = .ok x := by
  cases k <;> first | rfl | exact absurd rfl hk

section
variable (Γ : Ctx) (σ : Store)

/-- The induction hypothesis for a subexpression. -/
def EvalIH (e : Expr) : Prop :=
  ∀ T, Spec.infer Γ e = some T → noDriftE Γ e = true →
    RelV T (evalExpr .real σ e) (Spec.eval Γ (eraseEnv σ.vars) e)

theorem operand_infer {e : Expr} {k : IKind} (ih : EvalIH Γ σ e) (hi : Spec.infer Γ e = some (.int k))
    (hnd : noDriftE Γ e = true) :
    (∃ x, evalExpr .real σ e = .ok (.i k x) ∧ k.inRange x = true ∧
        Spec.operandVal Γ (eraseEnv σ.vars) e = .ok x) ∨
    (∃ s f, evalExpr .real σ e = .error s ∧ Spec.operandVal Γ (eraseEnv σ.vars) e = .error f ∧ s.toS = some f) := by
  have hat := atom_none_of_infer hi
  rcases (ih _ hi hnd).elim with ⟨v, h1, h2, h3⟩ | ⟨s, f, h1, h2, h3⟩
  · obtain ⟨x, rfl, hx⟩ := hasTy_int h3
    exact .inl ⟨x, h1, hx, by simp [Spec.operandVal, hat, h2, erase, bind, Except.bind, Spec.asInt, pure, Except.pure]⟩
  · exact .inr ⟨s, f, h1, by simp [Spec.operandVal, hat, h2, bind, Except.bind], h3⟩

theorem operand_atom {e : Expr} {m : Int} (ha : Spec.atomVal e = some m) (hnd : noDriftE Γ e = true) :
    evalExpr .real σ e = .ok (.i .dint m) ∧ IKind.dint.inRange m = true ∧
      Spec.operandVal Γ (eraseEnv σ.vars) e = .ok m := by
  obtain ⟨h1, h2, h3⟩ := atom_eval (σ := σ) ha hnd
  refine ⟨h1, ?_, by simp [Spec.operandVal, ha, pure, Except.pure]⟩
  rw [IKind.inRange_iff]; simp [IKind.lo, IKind.hi]; omega


/-- A subscript: both sides compute the same checked index, both report the bounds fault, or the
subscript expression faults on both sides. -/
theorem index_rel {i : Expr} (ih : EvalIH Γ σ i) (lo hi : Int)
    (hty : (∃ m, Spec.atomVal i = some m) ∨ (∃ k, Spec.infer Γ i = some (.int k)))
    (hnd : noDriftE Γ i = true)
    (hu : Spec.infer Γ i ≠ some (.int .ulint) ∨ hi < 9223372036854775807) :
    (∃ n, (evalExpr .real σ i >>= arrayIndex .real lo hi) = .ok n ∧
        Spec.operandVal Γ (eraseEnv σ.vars) i = .ok n ∧ lo ≤ n ∧ n ≤ hi) ∨
    (∃ n s, (evalExpr .real σ i >>= arrayIndex .real lo hi) = .error s ∧
        Spec.operandVal Γ (eraseEnv σ.vars) i = .ok n ∧ (n < lo ∨ n > hi) ∧ s.toS = some .indexOut) ∨
    (∃ s f, (evalExpr .real σ i >>= arrayIndex .real lo hi) = .error s ∧
        Spec.operandVal Γ (eraseEnv σ.vars) i = .error f ∧ s.toS = some f) := by
  have key : ∀ (k : IKind) (x y : Int), indexToI64 .real (.i k x) = .ok y → (y = x ∨ (hi < x ∧ hi < y)) →
      evalExpr .real σ i = .ok (.i k x) →
      Spec.operandVal Γ (eraseEnv σ.vars) i = .ok x →
      (∃ n, (evalExpr .real σ i >>= arrayIndex .real lo hi) = .ok n ∧
          Spec.operandVal Γ (eraseEnv σ.vars) i = .ok n ∧ lo ≤ n ∧ n ≤ hi) ∨
      (∃ n s, (evalExpr .real σ i >>= arrayIndex .real lo hi) = .error s ∧
          Spec.operandVal Γ (eraseEnv σ.vars) i = .ok n ∧ (n < lo ∨ n > hi) ∧ s.toS = some .indexOut) := by
    intro k x y hy hxy h1 h2
    by_cases hb : y < lo ∨ y > hi
    · refine .inr ⟨x, .fault .IndexOutOfBounds .indexBounds, ?_, h2, by omega, rfl⟩
      simp [h1, bind, Except.bind, arrayIndex, hy, hb, fault]
    · refine .inl ⟨x, ?_, h2, by omega, by omega⟩
      have : y = x := by omega
      subst this
      simp [h1, bind, Except.bind, arrayIndex, hy, hb, pure, Except.pure]
  rcases hty with ⟨m, ha⟩ | ⟨k, hi'⟩
  · obtain ⟨h1, _, h2⟩ := operand_atom Γ σ ha hnd
    rcases key .dint m m rfl (.inl rfl) h1 h2 with h | h
    · exact .inl h
    · exact .inr (.inl h)
  · rcases operand_infer Γ σ ih hi' hnd with ⟨x, h1, hx, h2⟩ | ⟨s, f, h1, h2, h3⟩
    · by_cases hk : k = .ulint
      · subst hk
        have hhi : hi < 9223372036854775807 := by
          rcases hu with hu | hu
          · exact absurd hi' hu
          · exact hu
        by_cases hbig : x ≤ i64Max
        · have hy : indexToI64 .real (.i .ulint x) = .ok x := by
            simp [indexToI64, Cfg.real, hbig, pure, Except.pure]
          rcases key .ulint x x hy (.inl rfl) h1 h2 with h | h
          · exact .inl h
          · exact .inr (.inl h)
        · have hy : indexToI64 .real (.i .ulint x) = .ok i64Max := by
            simp [indexToI64, Cfg.real, hbig, pure, Except.pure]
          have hb2 : hi < x ∧ hi < i64Max := by
            simp [i64Max] at hbig ⊢
            omega
          rcases key .ulint x i64Max hy (.inr hb2) h1 h2 with h | h
          · exact .inl h
          · exact .inr (.inl h)
      · rcases key k x x (indexToI64_ok hk x) (.inl rfl) h1 h2 with h | h
        · exact .inl h
        · exact .inr (.inl h)
    · exact .inr (.inr ⟨s, f, by simp [h1, bind, Except.bind], h2, h3⟩)

theorem Spec.eval_idx (Γ : Ctx) (σ' : SEnv) (a : String) (i : Expr) :
    Spec.eval Γ σ' (.idx a i) =
      match Γ.aggs.lookup a with
      | some (.arr lo hi _) =>
        Spec.operandVal Γ σ' i >>= fun n =>
          if n < lo ∨ n > hi then .error .indexOut else
            match slookup (elemName a n) σ' with
            | some v => pure v
            | none => .error .stuck
      | _ => .error .stuck := by
  rfl

/-- What `Spec.infer` says about a subscripted variable. -/
theorem Spec.infer_idx {Γ : Ctx} {a : String} {i : Expr} {T : Ty} (h : Spec.infer Γ (.idx a i) = some T) :
    ∃ lo hi, Γ.aggs.lookup a = some (.arr lo hi T) ∧
      ((∃ m, Spec.atomVal i = some m ∧ lo ≤ m ∧ m ≤ hi) ∨
       (Spec.atomVal i = none ∧ ∃ k, Spec.infer Γ i = some (.int k))) := by
  simp only [Spec.infer] at h
  split at h
  · rename_i lo hi t hag
    refine ⟨lo, hi, ?_⟩
    split at h
    · rename_i m hm
      by_cases hb : lo ≤ m ∧ m ≤ hi
      · simp [hb] at h; subst h
        exact ⟨hag, .inl ⟨m, hm, hb.1, hb.2⟩⟩
      · simp [hb] at h
    · rename_i hm
      split at h
      · rename_i k hk
        simp at h; subst h
        exact ⟨hag, .inr ⟨hm, k, hk⟩⟩
      · simp at h
  · simp at h

theorem applyBinary_arith {op : BinOp} (hop : op.isSpecArith = true) (a b : Val) :
    applyBinary op a b = numericArith op a b := by
  cases op <;> simp [BinOp.isSpecArith] at hop <;> rfl

theorem isArith_of_spec {op : BinOp} (hop : op.isSpecArith = true) : op.isArith = true := by
  cases op <;> simp [BinOp.isSpecArith] at hop <;> rfl

theorem bin_arith_rel {op : BinOp} (hop : op.isSpecArith = true) {l r : Expr} {T : Ty}
    (ihl : EvalIH Γ σ l) (ihr : EvalIH Γ σ r)
    (hT : Spec.infer Γ (.bin op l r) = some T) (hnd : noDriftE Γ (.bin op l r) = true) :
    RelV T (evalExpr .real σ (.bin op l r)) (Spec.eval Γ (eraseEnv σ.vars) (.bin op l r)) := by
  have hne1 : op ≠ .and := by intro h; subst h; simp [BinOp.isSpecArith] at hop
  have hne2 : op ≠ .or := by intro h; subst h; simp [BinOp.isSpecArith] at hop
  obtain ⟨ndl, ndr, _, hat⟩ := noDriftE_bin hnd
  obtain ⟨hatr, hatl⟩ := hat (isArith_of_spec hop)
  rw [evalExpr_bin hne1 hne2, Spec.eval_arith hop, hT]
  rw [Spec.infer_arith hop] at hT
  unfold Spec.inferArith at hT
  -- the three typing cases of an arithmetic node
  split at hT
  · -- both operands have a type of their own
    rename_i a b hil hir
    cases hp : Spec.promote a b with
    | none => simp [hp] at hT
    | some t =>
      simp [hp] at hT
      subst hT
      obtain ⟨hw, hsa, hsb⟩ := wider_of_promote hp
      rcases operand_infer Γ σ ihl hil ndl with ⟨x, e1, hx, s1⟩ | ⟨s, f, e1, s1, hs⟩
      · rcases operand_infer Γ σ ihr hir ndr with ⟨y, e2, hy, s2⟩ | ⟨s, f, e2, s2, hs⟩
        · simp only [e1, e2, s1, s2, bind, Except.bind, applyBinary_arith hop]
          exact arith_rel op hop a b t x y hw hx hy
            (fun h => ⟨by rw [hsa]; exact h, by rw [hsb]; exact h⟩)
            (fun h => ⟨.inl (by rw [hsa]; exact h), .inl (by rw [hsb]; exact h)⟩)
        · simp only [e1, e2, s1, s2, bind, Except.bind, RelV, hs]
      · simp only [e1, s1, bind, Except.bind, RelV, hs]
  · -- right operand is a contextual constant
    rename_i a hil hir
    cases har : Spec.atomVal r with
    | none => simp [har] at hT
    | some m =>
      simp only [har] at hT
      by_cases hfit : a.inRange m = true
      · simp [hfit] at hT
        subst hT
        obtain ⟨a', hil', hrk⟩ := hatr m har
        rw [hil] at hil'
        injection hil' with hil'
        injection hil' with hil'
        subst hil'
        obtain ⟨e2, hy, s2⟩ := operand_atom Γ σ har ndr
        rcases operand_infer Γ σ ihl hil ndl with ⟨x, e1, hx, s1⟩ | ⟨s, f, e1, s1, hs⟩
        · simp only [e1, e2, s1, s2, bind, Except.bind, applyBinary_arith hop]
          refine arith_rel op hop a .dint a x m (wider_dint_right hrk) hx hy (fun h => ⟨h, rfl⟩) (fun h => ⟨.inl h, .inr ?_⟩)
          exact (IKind.range_u64 h hfit).1
        · simp only [e1, s1, bind, Except.bind, RelV, hs]
      · simp [hfit] at hT
  · -- left operand is a contextual constant
    rename_i b hil hir
    cases hal : Spec.atomVal l with
    | none => simp [hal] at hT
    | some m =>
      simp only [hal] at hT
      by_cases hfit : b.inRange m = true
      · simp [hfit] at hT
        subst hT
        obtain ⟨b', hir', hrk⟩ := hatl m hal
        rw [hir] at hir'
        injection hir' with hir'
        injection hir' with hir'
        subst hir'
        obtain ⟨e1, hx, s1⟩ := operand_atom Γ σ hal ndl
        rcases operand_infer Γ σ ihr hir ndr with ⟨y, e2, hy, s2⟩ | ⟨s, f, e2, s2, hs⟩
        · simp only [e1, e2, s1, s2, bind, Except.bind, applyBinary_arith hop]
          refine arith_rel op hop .dint b b m y (wider_dint_left hrk) hx hy (fun h => ⟨rfl, h⟩) (fun h => ⟨.inr ?_, .inl h⟩)
          exact (IKind.range_u64 h hfit).1
        · simp only [e1, e2, s1, s2, bind, Except.bind, RelV, hs]
      · simp [hfit] at hT
  · simp at hT


theorem cmp_int {op : BinOp} (hop : op.isCmp = true) (a b : IKind) (x y : Int)
    (hs : (wider a b).signed = true → a.signed = true ∧ b.signed = true)
    (hu : (wider a b).signed = false → (a.signed = false ∨ 0 ≤ x) ∧ (b.signed = false ∨ 0 ≤ y)) :
    applyBinary op (.i a x) (.i b y) = .ok (.b (Spec.compare op x y)) := by
  cases hts : (wider a b).signed with
  | true =>
    obtain ⟨ha, hb⟩ := hs hts
    cases op <;> simp [BinOp.isCmp] at hop <;>
      simp [applyBinary, numericEq, numericCmp, hts, toI64_signed ha, toI64_signed hb, bind, Except.bind,
        pure, Except.pure, cmpInt, Spec.compare]
  | false =>
    obtain ⟨ha, hb⟩ := hu hts
    cases op <;> simp [BinOp.isCmp] at hop <;>
      simp [applyBinary, numericEq, numericCmp, hts, toU64_ok ha, toU64_ok hb, bind, Except.bind,
        pure, Except.pure, cmpInt, Spec.compare]

def Spec.inferCmp (Γ : Ctx) (op : BinOp) (l r : Expr) : Option Ty :=
  match Spec.infer Γ l, Spec.infer Γ r with
  | some .bool, some .bool => if op = .eq ∨ op = .ne then some .bool else none
  | some (.int a), some (.int b) => if a.signed = b.signed then some .bool else none
  | some (.int a), none =>
    match Spec.atomVal r with
    | some m => if a.inRange m then some .bool else none
    | none => none
  | none, some (.int b) =>
    match Spec.atomVal l with
    | some m => if b.inRange m then some .bool else none
    | none => none
  | _, _ => none

theorem Spec.infer_cmp {Γ : Ctx} {op : BinOp} (hop : op.isCmp = true) (l r : Expr) :
    Spec.infer Γ (.bin op l r) = Spec.inferCmp Γ op l r := by
  cases op <;> simp [BinOp.isCmp] at hop <;> rfl

theorem Spec.eval_cmp {Γ : Ctx} {σ : SEnv} {op : BinOp} (hop : op.isCmp = true) (l r : Expr) :
    Spec.eval Γ σ (.bin op l r) =
      (match Spec.infer Γ l, Spec.infer Γ r with
      | some .bool, some .bool =>
        Spec.evalBool Γ σ l >>= fun a => Spec.evalBool Γ σ r >>= fun b =>
          pure (.b (if op = .eq then a == b else a != b))
      | _, _ =>
        Spec.operandVal Γ σ l >>= fun x => Spec.operandVal Γ σ r >>= fun y =>
          pure (.b (Spec.compare op x y))) := by
  cases op <;> simp [BinOp.isCmp] at hop <;> rfl

theorem operand_bool {e : Expr} (ih : EvalIH Γ σ e) (hi : Spec.infer Γ e = some .bool)
    (hnd : noDriftE Γ e = true) :
    (∃ x, evalExpr .real σ e = .ok (.b x) ∧ Spec.evalBool Γ (eraseEnv σ.vars) e = .ok x) ∨
    (∃ s f, evalExpr .real σ e = .error s ∧
        Spec.evalBool Γ (eraseEnv σ.vars) e = .error f ∧ s.toS = some f) := by
  rcases (ih _ hi hnd).elim with ⟨v, h1, h2, h3⟩ | ⟨s, f, h1, h2, h3⟩
  · obtain ⟨x, rfl⟩ := hasTy_bool h3
    exact .inl ⟨x, h1, by simp [Spec.evalBool, h2, erase, bind, Except.bind, Spec.asBool, pure, Except.pure]⟩
  · exact .inr ⟨s, f, h1, by simp [Spec.evalBool, h2, bind, Except.bind], h3⟩

theorem bin_cmp_rel {op : BinOp} (hop : op.isCmp = true) {l r : Expr} {T : Ty}
    (ihl : EvalIH Γ σ l) (ihr : EvalIH Γ σ r)
    (hT : Spec.infer Γ (.bin op l r) = some T) (hnd : noDriftE Γ (.bin op l r) = true) :
    RelV T (evalExpr .real σ (.bin op l r)) (Spec.eval Γ (eraseEnv σ.vars) (.bin op l r)) := by
  have hne1 : op ≠ .and := by intro h; subst h; simp [BinOp.isCmp] at hop
  have hne2 : op ≠ .or := by intro h; subst h; simp [BinOp.isCmp] at hop
  obtain ⟨ndl, ndr, _, _⟩ := noDriftE_bin hnd
  rw [evalExpr_bin hne1 hne2, Spec.eval_cmp hop]
  rw [Spec.infer_cmp hop] at hT
  unfold Spec.inferCmp at hT
  split at hT
  · -- BOOL = BOOL / BOOL <> BOOL
    rename_i hil hir
    by_cases hq : op = .eq ∨ op = .ne
    · simp [hq] at hT
      subst hT
      simp only [hil, hir]
      rcases operand_bool Γ σ ihl hil ndl with ⟨x, e1, s1⟩ | ⟨s, f, e1, s1, hs⟩
      · rcases operand_bool Γ σ ihr hir ndr with ⟨y, e2, s2⟩ | ⟨s, f, e2, s2, hs⟩
        · simp only [e1, e2, s1, s2, bind, Except.bind]
          rcases hq with rfl | rfl
          · simp [applyBinary, numericEq, RelV, pure, Except.pure, Val.hasTy, erase]
            cases x <;> cases y <;> rfl
          · simp [applyBinary, numericEq, RelV, pure, Except.pure, Val.hasTy, erase]
            cases x <;> cases y <;> rfl
        · simp only [e1, e2, s1, s2, bind, Except.bind, RelV, hs]
      · simp only [e1, s1, bind, Except.bind, RelV, hs]
    · simp [hq] at hT
  · -- two integers of the same chain
    rename_i a b hil hir
    by_cases hsg : a.signed = b.signed
    · simp [hsg] at hT
      subst hT
      simp only [hil, hir]
      rcases operand_infer Γ σ ihl hil ndl with ⟨x, e1, hx, s1⟩ | ⟨s, f, e1, s1, hs⟩
      · rcases operand_infer Γ σ ihr hir ndr with ⟨y, e2, hy, s2⟩ | ⟨s, f, e2, s2, hs⟩
        · simp only [e1, e2, s1, s2, bind, Except.bind]
          rw [cmp_int hop a b x y]
          · simp [RelV, pure, Except.pure, Val.hasTy, erase]
          · intro h
            unfold wider at h
            by_cases hr : b.rank ≤ a.rank
            · simp [hr] at h; exact ⟨h, by rw [← hsg]; exact h⟩
            · simp [hr] at h; exact ⟨by rw [hsg]; exact h, h⟩
          · intro h
            unfold wider at h
            by_cases hr : b.rank ≤ a.rank
            · simp [hr] at h; exact ⟨.inl h, .inl (by rw [← hsg]; exact h)⟩
            · simp [hr] at h; exact ⟨.inl (by rw [hsg]; exact h), .inl h⟩
        · simp only [e1, e2, s1, s2, bind, Except.bind, RelV, hs]
      · simp only [e1, s1, bind, Except.bind, RelV, hs]
    · simp [hsg] at hT
  · -- integer compared with a contextual constant on the right
    rename_i a hil hir
    cases har : Spec.atomVal r with
    | none => simp [har] at hT
    | some m =>
      simp only [har] at hT
      by_cases hfit : a.inRange m = true
      · simp [hfit] at hT
        subst hT
        simp only [hil, hir]
        obtain ⟨e2, hy, s2⟩ := operand_atom Γ σ har ndr
        rcases operand_infer Γ σ ihl hil ndl with ⟨x, e1, hx, s1⟩ | ⟨s, f, e1, s1, hs⟩
        · simp only [e1, e2, s1, s2, bind, Except.bind]
          rw [cmp_int hop a .dint x m]
          · simp [RelV, pure, Except.pure, Val.hasTy, erase]
          · intro h
            unfold wider at h
            by_cases hr : IKind.dint.rank ≤ a.rank
            · simp [hr] at h; exact ⟨h, rfl⟩
            · have : a.signed = true := by cases a <;> simp [IKind.rank] at hr <;> rfl
              exact ⟨this, rfl⟩
          · intro h
            unfold wider at h
            by_cases hr : IKind.dint.rank ≤ a.rank
            · simp [hr] at h; exact ⟨.inl h, .inr (IKind.range_u64 h hfit).1⟩
            · simp [hr, IKind.signed] at h
        · simp only [e1, s1, bind, Except.bind, RelV, hs]
      · simp [hfit] at hT
  · -- contextual constant on the left
    rename_i b hil hir
    cases hal : Spec.atomVal l with
    | none => simp [hal] at hT
    | some m =>
      simp only [hal] at hT
      by_cases hfit : b.inRange m = true
      · simp [hfit] at hT
        subst hT
        simp only [hil, hir]
        obtain ⟨e1, hx, s1⟩ := operand_atom Γ σ hal ndl
        rcases operand_infer Γ σ ihr hir ndr with ⟨y, e2, hy, s2⟩ | ⟨s, f, e2, s2, hs⟩
        · simp only [e1, e2, s1, s2, bind, Except.bind]
          rw [cmp_int hop .dint b m y]
          · simp [RelV, pure, Except.pure, Val.hasTy, erase]
          · intro h
            unfold wider at h
            by_cases hr : b.rank ≤ IKind.dint.rank
            · have : b.signed = true := by cases b <;> simp [IKind.rank] at hr <;> rfl
              exact ⟨rfl, this⟩
            · simp [hr] at h; exact ⟨rfl, h⟩
          · intro h
            unfold wider at h
            by_cases hr : b.rank ≤ IKind.dint.rank
            · simp [hr, IKind.signed] at h
            · simp [hr] at h; exact ⟨.inr (IKind.range_u64 h hfit).1, .inl h⟩
        · simp only [e1, e2, s1, s2, bind, Except.bind, RelV, hs]
      · simp [hfit] at hT
  · simp at hT


theorem Spec.eval_and (Γ : Ctx) (σ' : SEnv) (l r : Expr) :
    Spec.eval Γ σ' (.bin .and l r) =
      (Spec.evalBool Γ σ' l >>= fun a =>
        if a = false then pure (.b false) else Spec.evalBool Γ σ' r >>= fun b => pure (.b b)) := rfl

theorem Spec.eval_or (Γ : Ctx) (σ' : SEnv) (l r : Expr) :
    Spec.eval Γ σ' (.bin .or l r) =
      (Spec.evalBool Γ σ' l >>= fun a =>
        if a = true then pure (.b true) else Spec.evalBool Γ σ' r >>= fun b => pure (.b b)) := rfl

theorem Spec.eval_xor (Γ : Ctx) (σ' : SEnv) (l r : Expr) :
    Spec.eval Γ σ' (.bin .xor l r) =
      (Spec.evalBool Γ σ' l >>= fun a => Spec.evalBool Γ σ' r >>= fun b => pure (.b (a != b))) := rfl

theorem bin_logic_rel {op : BinOp} (hop : op.isLogic = true) {l r : Expr} {T : Ty}
    (ihl : EvalIH Γ σ l) (ihr : EvalIH Γ σ r)
    (hT : Spec.infer Γ (.bin op l r) = some T) (hnd : noDriftE Γ (.bin op l r) = true) :
    RelV T (evalExpr .real σ (.bin op l r)) (Spec.eval Γ (eraseEnv σ.vars) (.bin op l r)) := by
  obtain ⟨ndl, ndr, _, _⟩ := noDriftE_bin hnd
  have hboth : Spec.infer Γ l = some .bool ∧ Spec.infer Γ r = some .bool ∧ T = .bool := by
    cases op <;> simp [BinOp.isLogic] at hop <;>
      (simp only [Spec.infer] at hT
       split at hT
       · rename_i h1 h2; simp at hT; exact ⟨h1, h2, hT.symm⟩
       · simp at hT)
  obtain ⟨hil, hir, rfl⟩ := hboth
  cases op <;> simp [BinOp.isLogic] at hop
  · -- AND
    rw [Spec.eval_and]
    rcases operand_bool Γ σ ihl hil ndl with ⟨x, e1, s1⟩ | ⟨s, f, e1, s1, hs⟩
    · rcases operand_bool Γ σ ihr hir ndr with ⟨y, e2, s2⟩ | ⟨s, f, e2, s2, hs⟩
      · cases x <;>
          simp [evalExpr, e1, e2, s1, s2, bind, Except.bind, pure, Except.pure,
            applyBinary, logical, RelV, Val.hasTy, erase]
      · cases x <;>
          simp [evalExpr, e1, e2, s1, s2, bind, Except.bind, pure, Except.pure, RelV, Val.hasTy, erase, hs]
    · simp [evalExpr, e1, s1, bind, Except.bind, RelV, hs]
  · -- OR
    rw [Spec.eval_or]
    rcases operand_bool Γ σ ihl hil ndl with ⟨x, e1, s1⟩ | ⟨s, f, e1, s1, hs⟩
    · rcases operand_bool Γ σ ihr hir ndr with ⟨y, e2, s2⟩ | ⟨s, f, e2, s2, hs⟩
      · cases x <;>
          simp [evalExpr, e1, e2, s1, s2, bind, Except.bind, pure, Except.pure,
            applyBinary, logical, RelV, Val.hasTy, erase]
      · cases x <;>
          simp [evalExpr, e1, e2, s1, s2, bind, Except.bind, pure, Except.pure, RelV, Val.hasTy, erase, hs]
    · simp [evalExpr, e1, s1, bind, Except.bind, RelV, hs]
  · -- XOR
    rw [Spec.eval_xor]
    rcases operand_bool Γ σ ihl hil ndl with ⟨x, e1, s1⟩ | ⟨s, f, e1, s1, hs⟩
    · rcases operand_bool Γ σ ihr hir ndr with ⟨y, e2, s2⟩ | ⟨s, f, e2, s2, hs⟩
      · simp [evalExpr, e1, e2, s1, s2, bind, Except.bind, pure, Except.pure,
            applyBinary, logical, RelV, Val.hasTy, erase]
      · simp [evalExpr, e1, e2, s1, s2, bind, Except.bind, pure, Except.pure, RelV, hs]
    · simp [evalExpr, e1, s1, bind, Except.bind, RelV, hs]


theorem eval_rel (hσ : StoreWT Γ σ) (e : Expr) : EvalIH Γ σ e := by
  induction e with
  | lit ty v =>
    intro T hT hnd
    cases ty with
    | none => simp [Spec.infer] at hT
    | some k =>
      simp only [Spec.infer] at hT
      by_cases hr : k.inRange v = true
      · simp [hr] at hT
        subst hT
        simp [evalExpr, litVal, Spec.eval, RelV, pure, Except.pure, Val.hasTy, hr, erase]
      · simp [hr] at hT
  | blit v =>
    intro T hT hnd
    simp [Spec.infer] at hT
    subst hT
    simp [evalExpr, Spec.eval, RelV, pure, Except.pure, Val.hasTy, erase]
  | var x =>
    intro T hT hnd
    simp only [Spec.infer] at hT
    obtain ⟨v, hv, hty⟩ := hσ.vars x T hT
    simp [evalExpr, readName, hv, Spec.eval, slookup_erase, RelV, pure, Except.pure, hty]
  | un op e ih =>
    intro T hT hnd
    have nde : noDriftE Γ e = true := by simpa [noDriftE] using hnd
    cases op with
    | neg =>
      simp only [Spec.infer] at hT
      split at hT
      · rename_i k hik
        by_cases hs : k.signed = true
        · simp [hs] at hT
          subst hT
          rcases (ih _ hik nde).elim with ⟨v, h1, h2, h3⟩ | ⟨s, f, h1, h2, h3⟩
          · obtain ⟨x, rfl, hx⟩ := hasTy_int h3
            simp only [evalExpr, Spec.eval, hik, h1, h2, bind, Except.bind, erase, Spec.asInt, pure, Except.pure,
              applyUnary, hs, if_true]
            by_cases hr : k.inRange (-x) = true
            · simp [hr, RelV, Spec.inType, pure, Except.pure, Val.hasTy, erase]
            · simp [hr, RelV, Spec.inType, fault, Stop.toS]
          · simp [evalExpr, Spec.eval, hik, h1, h2, bind, Except.bind, RelV, h3]
        · simp [hs] at hT
      · simp at hT
    | not =>
      simp only [Spec.infer] at hT
      split at hT
      · rename_i hik
        simp at hT
        subst hT
        rcases (ih _ hik nde).elim with ⟨v, h1, h2, h3⟩ | ⟨s, f, h1, h2, h3⟩
        · obtain ⟨x, rfl⟩ := hasTy_bool h3
          simp [evalExpr, Spec.eval, h1, h2, bind, Except.bind, erase, Spec.asBool, pure, Except.pure,
            applyUnary, RelV, Val.hasTy]
        · simp [evalExpr, Spec.eval, h1, h2, bind, Except.bind, RelV, h3]
      · simp at hT
  | bin op l r ihl ihr =>
    intro T hT hnd
    by_cases h1 : op.isSpecArith = true
    · exact bin_arith_rel Γ σ h1 ihl ihr hT hnd
    · by_cases h2 : op.isCmp = true
      · exact bin_cmp_rel Γ σ h2 ihl ihr hT hnd
      · by_cases h3 : op.isLogic = true
        · exact bin_logic_rel Γ σ h3 ihl ihr hT hnd
        · cases op <;> simp [BinOp.isSpecArith, BinOp.isCmp, BinOp.isLogic] at h1 h2 h3
          simp [Spec.infer] at hT
  | idx a i ih =>
    intro T hT hnd
    obtain ⟨lo, hi, hag, hi'⟩ := Spec.infer_idx hT
    have hσa : σ.aggs.lookup a = some (.arr lo hi T) := by rw [hσ.aggs]; exact hag
    have ndi : noDriftE Γ i = true ∧ (Spec.infer Γ i ≠ some (.int .ulint) ∨ hi < 9223372036854775807) := by
      simpa [noDriftE, arrHiOK, hag] using hnd
    have hty : (∃ m, Spec.atomVal i = some m) ∨ (∃ k, Spec.infer Γ i = some (.int k)) := by
      rcases hi' with ⟨m, hm, _⟩ | ⟨_, k, hk⟩
      · exact .inl ⟨m, hm⟩
      · exact .inr ⟨k, hk⟩
    rw [Spec.eval_idx]
    simp only [evalExpr, hσa, hag]
    rcases index_rel Γ σ ih lo hi hty ndi.1 ndi.2 with ⟨n, h1, h2, h3, h4⟩ | ⟨n, s, h1, h2, h3, h4⟩ | ⟨s, f, h1, h2, h3⟩
    · obtain ⟨v, hv, hvt⟩ := hσ.vars _ _ (aggOK_arr hσ.ctx hag h3 h4)
      have hb : ¬ (n < lo ∨ n > hi) := by omega
      rw [h1, h2]
      simp [bind, Except.bind, hb, readSlot, hv, slookup_erase, RelV, pure, Except.pure, hvt]
    · rw [h1, h2]
      simp [bind, Except.bind, h3, RelV, h4]
    · rw [h1, h2]
      simp [bind, Except.bind, RelV, h3]
  | fld s f =>
    intro T hT hnd
    simp only [Spec.infer] at hT
    split at hT
    · rename_i tn fields hag
      have hσa : σ.aggs.lookup s = some (.str tn fields) := by rw [hσ.aggs]; exact hag
      cases hf : findFld fields f with
      | none => simp [hf] at hT
      | some q =>
        obtain ⟨g, t⟩ := q
        simp [hf] at hT
        subst hT
        obtain ⟨v, hv, hvt⟩ := hσ.vars _ _ (aggOK_fld hσ.ctx hag hf)
        simp [evalExpr, hσa, hag, hf, readSlot, hv, Spec.eval, slookup_erase, RelV, pure, Except.pure, hvt]
    · simp at hT

end
end TrustVerif.StCore
