import TrustVerif.Model.StExt

/-!
Frame balance of stage S4 (FUNCTION calls): every evaluation, binding, local initialisation, call
and statement execution returns with exactly as many frames as it started with — on every exit
path (completion, RETURN, EXIT/CONTINUE, a fault while binding arguments, while initialising
locals, inside the body, while collecting outputs, budget exhaustion).  No typing hypothesis.
-/
namespace TrustVerif.StExt
open TrustVerif.StCore

def Len (a b : XStore) : Prop := a.frames.length = b.frames.length

theorem Len.refl (a : XStore) : Len a a := rfl
theorem Len.trans {a b c : XStore} (h1 : Len a b) (h2 : Len b c) : Len a c := Eq.trans h1 h2

theorem setLocal_len (σ : XStore) (x : String) (v : Val) : Len (setLocal σ x v) σ := by
  unfold setLocal Len
  cases h : σ.frames <;> simp [h]

theorem setRet_len (σ : XStore) (v : Val) : Len (setRet σ v) σ := by
  unfold setRet Len
  cases h : σ.frames <;> simp [h]

theorem setInstVar_len (σ : XStore) (c x : String) (v : Val) : Len (setInstVar σ c x v) σ := rfl

theorem writeNameC_len (cur : Option String) (σ : XStore) (x : String) (v : Val) :
    Len (writeNameC cur σ x v) σ := by
  unfold writeNameC
  split
  · exact setLocal_len σ x v
  · split
    · split <;> exact rfl
    · exact rfl

theorem writeNameX_len (σ : XStore) (x : String) (v : Val) : Len (writeNameX σ x v) σ :=
  writeNameC_len none σ x v

theorem pushFrame_len (σ : XStore) (o : String) : (pushFrame σ o).frames.length = σ.frames.length + 1 := by
  simp [pushFrame]

theorem popFrame_len (σ : XStore) : (popFrame σ).frames.length = σ.frames.length - 1 := by
  simp [popFrame]

theorem foldl_setLocal_len (ws : List (String × Val)) :
    ∀ σ : XStore, Len (ws.foldl (fun σ (p : String × Val) => setLocal σ p.1 p.2) σ) σ := by
  induction ws with
  | nil => intro σ; rfl
  | cons w rest ih => intro σ; exact (ih _).trans (setLocal_len σ w.1 w.2)

theorem foldl_writeNameC_len (cur : Option String) (ws : List (String × Val)) :
    ∀ σ : XStore, Len (ws.foldl (fun σ (p : String × Val) => writeNameC cur σ p.1 p.2) σ) σ := by
  induction ws with
  | nil => intro σ; rfl
  | cons w rest ih => intro σ; exact (ih _).trans (writeNameC_len cur σ w.1 w.2)

theorem foldl_setInstVar_len (c : String) (ws : List (String × Val)) :
    ∀ σ : XStore, Len (ws.foldl (fun σ (p : String × Val) => setInstVar σ c p.1 p.2) σ) σ := by
  induction ws with
  | nil => intro σ; rfl
  | cons w rest ih => intro σ; exact (ih _).trans (setInstVar_len σ c w.1 w.2)

section
variable (fs : Defs)

def LEval (fuel : Nat) : Prop := ∀ ctl σ e, Len (evalX fs fuel ctl σ e).1 σ
def LBind (fuel : Nat) : Prop :=
  ∀ m ctl σ ps args pos idx acc, Len (bindParams fs m fuel ctl σ ps args pos idx acc).1 σ
def LFb (fuel : Nat) : Prop := ∀ ctl σ c fb args, Len (callFb fs fuel ctl σ c fb args).1 σ
def LInit (fuel : Nat) : Prop := ∀ ctl σ ls, Len (initLocals fs fuel ctl σ ls).1 σ
def LCall (fuel : Nat) : Prop := ∀ ctl σ fd args, Len (callFunction fs fuel ctl σ fd args).1 σ
def LStmt (fuel : Nat) : Prop := ∀ ctl σ s, Len (execXStmt fs fuel ctl σ s).1 σ
def LBlock (fuel : Nat) : Prop := ∀ ctl σ b, Len (execXBlock fs fuel ctl σ b).1 σ
def LElifs (fuel : Nat) : Prop := ∀ ctl σ es el, Len (execXElifs fs fuel ctl σ es el).1 σ
def LFor (fuel : Nat) : Prop :=
  ∀ ctl σ x t cur fin st body, Len (forXLoop fs fuel ctl σ x t cur fin st body).1 σ
def LWhile (fuel : Nat) : Prop := ∀ ctl σ c body, Len (whileXLoop fs fuel ctl σ c body).1 σ
def LRepeat (fuel : Nat) : Prop := ∀ ctl σ body c, Len (repeatXLoop fs fuel ctl σ body c).1 σ

theorem leval_step {fuel : Nat} (hE : LEval fs fuel) (hC : LCall fs fuel) : LEval fs (fuel + 1) := by
  intro ctl σ e
  cases e with
  | lit ty v => simp only [evalX]; rfl
  | blit v => simp only [evalX]; rfl
  | var x => simp only [evalX]; rfl
  | un op e =>
    simp only [evalX]
    have h := hE ctl σ e
    rcases hA : evalX fs fuel ctl σ e with ⟨σ1, r1⟩
    rw [hA] at h
    cases r1 <;> exact h
  | bin op l r =>
    simp only [evalX]
    have h := hE ctl σ l
    rcases hA : evalX fs fuel ctl σ l with ⟨σ1, r1⟩
    rw [hA] at h
    cases r1 with
    | error s => exact h
    | ok a =>
      simp only
      split
      · exact h
      · split
        · exact h
        · have h2 := hE ctl σ1 r
          rcases hB : evalX fs fuel ctl σ1 r with ⟨σ2, r2⟩
          rw [hB] at h2
          cases r2 <;> exact h2.trans h
  | fld c f =>
    simp only [evalX]
    split
    · split <;> rfl
    · rfl
    · split
      · split <;> rfl
      · split <;> rfl
  | idx a i =>
    simp only [evalX]
    split
    · have h := hE ctl σ i
      rcases hA : evalX fs fuel ctl σ i with ⟨σ1, r1⟩
      rw [hA] at h
      cases r1 with
      | error s => exact h
      | ok iv =>
        simp only
        split
        · exact h
        · split <;> exact h
    · rfl
    · split <;> rfl
  | call f args =>
    simp only [evalX]
    split
    · split <;> rfl
    · exact hC ctl σ _ args

theorem lbind_step {fuel : Nat} (hE : LEval fs fuel) (hB : LBind fs fuel) : LBind fs (fuel + 1) := by
  intro m ctl σ ps args pos idx acc
  cases ps with
  | nil => simp only [bindParams]; rfl
  | cons p rest =>
    simp only [bindParams]
    split
    · -- input
      split
      · exact hB m ctl σ rest args pos (idx + 1) _
      · rename_i a _
        have h := hE ctl σ a
        rcases hA : evalX fs fuel ctl σ a with ⟨σ1, r1⟩
        rw [hA] at h
        cases r1 with
        | error s => exact h
        | ok v => exact (hB m ctl σ1 rest args pos (idx + 1) _).trans h
    · -- output
      split
      · exact hB m ctl σ rest args pos (idx + 1) _
      · split
        · rfl
        · exact hB m ctl σ rest args pos (idx + 1) _
    · -- in-out
      split
      · exact hB m ctl σ rest args pos (idx + 1) _
      · split
        · rfl
        · split
          · rfl
          · exact hB m ctl σ rest args pos (idx + 1) _


theorem linit_step {fuel : Nat} (hE : LEval fs fuel) (hI : LInit fs fuel) : LInit fs (fuel + 1) := by
  intro ctl σ ls
  cases ls with
  | nil => simp only [initLocals]; rfl
  | cons l rest =>
    simp only [initLocals]
    split
    · exact (hI ctl _ rest).trans (setLocal_len σ l.name _)
    · rename_i e _
      have h := hE ctl σ e
      rcases hA : evalX fs fuel ctl σ e with ⟨σ1, r1⟩
      rw [hA] at h
      cases r1 with
      | error s => exact h
      | ok v => exact ((hI ctl _ rest).trans (setLocal_len σ1 l.name v)).trans h

/-- `call_function`: one push, and one pop on **every** path after it. -/
theorem lcall_step {fuel : Nat} (hB : LBind fs fuel) (hI : LInit fs fuel) (hK : LBlock fs fuel) :
    LCall fs (fuel + 1) := by
  intro ctl σ fd args
  simp only [callFunction]
  split
  · rfl
  · have h1 := hB false ctl σ fd.params args (decide (args.length ≠ 0) && args.allPositional) 0 {}
    rcases hA : bindParams fs false fuel ctl σ fd.params args (decide (args.length ≠ 0) && args.allPositional) 0 {} with ⟨σ1, r1⟩
    rw [hA] at h1
    cases r1 with
    | error s => exact h1
    | ok b =>
      simp only
      -- the store after the push and the parameter locals: one frame more than the caller's
      have h3 : (List.foldl (fun σ (p : String × Val) => setLocal σ p.1 p.2)
            (setLocal (pushFrame σ1 fd.name) fd.name fd.ret.default) b.paramValues).frames.length
          = σ.frames.length + 1 := by
        have a := foldl_setLocal_len b.paramValues (setLocal (pushFrame σ1 fd.name) fd.name fd.ret.default)
        have c := setLocal_len (pushFrame σ1 fd.name) fd.name fd.ret.default
        unfold Len at a c h1
        rw [a, c, pushFrame_len, h1]
      have h4 := hI { ctl with retName := some fd.name }
        (List.foldl (fun σ (p : String × Val) => setLocal σ p.1 p.2)
            (setLocal (pushFrame σ1 fd.name) fd.name fd.ret.default) b.paramValues) fd.locals
      rcases hC : initLocals fs fuel { ctl with retName := some fd.name }
        (List.foldl (fun σ (p : String × Val) => setLocal σ p.1 p.2)
            (setLocal (pushFrame σ1 fd.name) fd.name fd.ret.default) b.paramValues) fd.locals with ⟨σ4, r4⟩
      rw [hC] at h4
      have l4 : σ4.frames.length = σ.frames.length + 1 := by unfold Len at h4; rw [h4, h3]
      cases r4 with
      | error s => show Len (popFrame σ4) σ; unfold Len; rw [popFrame_len, l4]; omega
      | ok u =>
        simp only
        have h5 := hK { ctl with retName := some fd.name } σ4 fd.body
        rcases hD : execXBlock fs fuel { ctl with retName := some fd.name } σ4 fd.body with ⟨σ5, r5⟩
        rw [hD] at h5
        have l5 : σ5.frames.length = σ.frames.length + 1 := by unfold Len at h5; rw [h5, l4]
        have lp : Len (popFrame σ5) σ := by unfold Len; rw [popFrame_len, l5]; omega
        cases r5 with
        | error s => exact lp
        | ok flow =>
          simp only
          split
          · exact lp
          · exact (foldl_writeNameC_len _ _ (popFrame σ5)).trans lp


/-- `call_function_block`: one push, and one pop on every path after it. -/
theorem lfb_step {fuel : Nat} (hB : LBind fs fuel) (hK : LBlock fs fuel) : LFb fs (fuel + 1) := by
  intro ctl σ c fb args
  simp only [callFb]
  split
  · rfl
  · have h1 := hB true ctl σ fb.params args (decide (args.length ≠ 0) && args.allPositional) 0 {}
    rcases hA : bindParams fs true fuel ctl σ fb.params args (decide (args.length ≠ 0) && args.allPositional) 0 {} with ⟨σ1, r1⟩
    rw [hA] at h1
    cases r1 with
    | error s => exact h1
    | ok b =>
      simp only
      have h3 : (List.foldl (fun σ (p : String × Val) => setInstVar σ c p.1 p.2)
            (pushFrame σ1 fb.name) b.paramValues).frames.length = σ.frames.length + 1 := by
        have a := foldl_setInstVar_len c b.paramValues (pushFrame σ1 fb.name)
        unfold Len at a h1
        rw [a, pushFrame_len, h1]
      have h5 := hK { ctl with cur := some c }
        (List.foldl (fun σ (p : String × Val) => setInstVar σ c p.1 p.2) (pushFrame σ1 fb.name) b.paramValues) fb.body
      rcases hD : execXBlock fs fuel { ctl with cur := some c }
        (List.foldl (fun σ (p : String × Val) => setInstVar σ c p.1 p.2) (pushFrame σ1 fb.name) b.paramValues) fb.body
        with ⟨σ4, r4⟩
      rw [hD] at h5
      have l4 : σ4.frames.length = σ.frames.length + 1 := by unfold Len at h5; rw [h5, h3]
      have lp : Len (popFrame σ4) σ := by unfold Len; rw [popFrame_len, l4]; omega
      split <;> rename_i heq <;> injection heq with e1 e2 <;> subst e1
      · exact lp
      · exact lp
      · exact lp
      · split
        · exact lp
        · exact (foldl_writeNameC_len _ _ (popFrame σ4)).trans lp

theorem lblock_step {fuel : Nat} (hS : LStmt fs fuel) (hK : LBlock fs fuel) : LBlock fs (fuel + 1) := by
  intro ctl σ b
  cases b with
  | nil => simp only [execXBlock]; rfl
  | cons s rest =>
    simp only [execXBlock]
    have h1 := hS ctl σ s
    rcases hA : execXStmt fs fuel ctl σ s with ⟨σ1, r1⟩
    rw [hA] at h1
    split
    · rename_i σ' heq
      injection heq with e1 e2
      subst e1
      exact (hK ctl σ1 rest).trans h1
    · exact h1

theorem lelifs_step {fuel : Nat} (hE : LEval fs fuel) (hK : LBlock fs fuel) (hL : LElifs fs fuel) :
    LElifs fs (fuel + 1) := by
  intro ctl σ es el
  cases es with
  | nil => simp only [execXElifs]; exact hK ctl σ el
  | cons c b rest =>
    simp only [execXElifs]
    have h1 := hE ctl σ c
    rcases hA : evalX fs fuel ctl σ c with ⟨σ1, r1⟩
    rw [hA] at h1
    split <;> rename_i heq <;> injection heq with e1 e2 <;> subst e1
    · exact h1
    · exact (hK ctl σ1 b).trans h1
    · exact (hL ctl σ1 rest el).trans h1
    · exact h1

theorem lwhile_step {fuel : Nat} (hE : LEval fs fuel) (hK : LBlock fs fuel) (hW : LWhile fs fuel) :
    LWhile fs (fuel + 1) := by
  intro ctl σ c body
  simp only [whileXLoop]
  have h1 := hE ctl σ c
  rcases hA : evalX fs fuel ctl σ c with ⟨σ1, r1⟩
  rw [hA] at h1
  split <;> rename_i heq <;> injection heq with e1 e2 <;> subst e1
  · exact h1
  · exact h1
  · exact h1
  · have h2 := hK { ctl with ld := ctl.ld + 1 } σ1 body
    rcases hB : execXBlock fs fuel { ctl with ld := ctl.ld + 1 } σ1 body with ⟨σ2, r2⟩
    rw [hB] at h2
    split <;> rename_i heq2 <;> injection heq2 with f1 f2 <;> subst f1
    · exact h2.trans h1
    · exact h2.trans h1
    · exact h2.trans h1
    · exact ((hW ctl σ2 c body).trans h2).trans h1

theorem lrepeat_step {fuel : Nat} (hE : LEval fs fuel) (hK : LBlock fs fuel) (hR : LRepeat fs fuel) :
    LRepeat fs (fuel + 1) := by
  intro ctl σ body c
  simp only [repeatXLoop]
  have h2 := hK { ctl with ld := ctl.ld + 1 } σ body
  rcases hB : execXBlock fs fuel { ctl with ld := ctl.ld + 1 } σ body with ⟨σ2, r2⟩
  rw [hB] at h2
  split <;> rename_i heq2 <;> injection heq2 with f1 f2 <;> subst f1
  · exact h2
  · exact h2
  · exact h2
  · have h1 := hE ctl σ2 c
    rcases hA : evalX fs fuel ctl σ2 c with ⟨σ1, r1⟩
    rw [hA] at h1
    split <;> rename_i heq <;> injection heq with e1 e2 <;> subst e1
    · exact h1.trans h2
    · exact h1.trans h2
    · exact h1.trans h2
    · exact ((hR ctl σ1 body c).trans h1).trans h2

theorem lfor_step {fuel : Nat} (hK : LBlock fs fuel) (hF : LFor fs fuel) : LFor fs (fuel + 1) := by
  intro ctl σ x t cur fin st body
  simp only [forXLoop]
  split
  · rfl
  · have h2 := hK { ctl with ld := ctl.ld + 1 } σ body
    rcases hB : execXBlock fs fuel { ctl with ld := ctl.ld + 1 } σ body with ⟨σ2, r2⟩
    rw [hB] at h2
    split <;> rename_i heq2 <;> injection heq2 with f1 f2 <;> subst f1
    · exact h2
    · exact h2
    · exact h2
    · split
      · exact h2
      · split
        · exact h2
        · exact ((hF ctl _ x t _ fin st body).trans (writeNameC_len _ σ2 x _)).trans h2

theorem lstmt_step {fuel : Nat} (hE : LEval fs fuel) (hK : LBlock fs fuel) (hL : LElifs fs fuel)
    (hF : LFor fs fuel) (hW : LWhile fs fuel) (hR : LRepeat fs fuel) (hFb : LFb fs fuel) :
    LStmt fs (fuel + 1) := by
  intro ctl σ s
  cases s with
  | assign x e =>
    simp only [execXStmt]
    have h1 := hE ctl σ e
    rcases hA : evalX fs fuel ctl σ e with ⟨σ1, r1⟩
    rw [hA] at h1
    cases r1 with
    | error st => exact h1
    | ok v =>
      simp only
      have hw := (writeNameC_len ctl.cur σ1 x v).trans h1
      split
      · split
        · exact (setRet_len _ _).trans hw
        · exact hw
      · exact hw
  | expr e =>
    simp only [execXStmt]
    have h1 := hE ctl σ e
    rcases hA : evalX fs fuel ctl σ e with ⟨σ1, r1⟩
    rw [hA] at h1
    cases r1 <;> exact h1
  | fbcall c args =>
    simp only [execXStmt]
    split
    · split <;> rfl
    · exact hFb ctl σ c _ args
  | assignIdx a i e =>
    simp only [execXStmt]
    have h1 := hE ctl σ e
    rcases hA : evalX fs fuel ctl σ e with ⟨σ1, r1⟩
    rw [hA] at h1
    cases r1 with
    | error st => exact h1
    | ok v =>
      simp only
      split
      · have h2 := hE ctl σ1 i
        rcases hB : evalX fs fuel ctl σ1 i with ⟨σ2, r2⟩
        rw [hB] at h2
        cases r2 with
        | error st => exact h2.trans h1
        | ok iv =>
          simp only
          split
          · exact h2.trans h1
          · exact h2.trans h1
      · exact h1
      · split <;> exact h1
  | assignFld s f e =>
    simp only [execXStmt]
    have h1 := hE ctl σ e
    rcases hA : evalX fs fuel ctl σ e with ⟨σ1, r1⟩
    rw [hA] at h1
    cases r1 with
    | error st => exact h1
    | ok v =>
      simp only
      split
      · split <;> exact h1
      · exact h1
      · split <;> exact h1
  | ite c t elifs el =>
    simp only [execXStmt]
    have h1 := hE ctl σ c
    rcases hA : evalX fs fuel ctl σ c with ⟨σ1, r1⟩
    rw [hA] at h1
    split <;> rename_i heq <;> injection heq with e1 e2 <;> subst e1
    · exact h1
    · exact (hK ctl σ1 t).trans h1
    · exact (hL ctl σ1 elifs el).trans h1
    · exact h1
  | case sel brs el =>
    simp only [execXStmt]
    have h1 := hE ctl σ sel
    rcases hA : evalX fs fuel ctl σ sel with ⟨σ1, r1⟩
    rw [hA] at h1
    cases r1 with
    | error st => exact h1
    | ok v =>
      simp only
      split
      · exact h1
      · exact (hK ctl σ1 el).trans h1
      · split
        · exact (hK ctl σ1 _).trans h1
        · exact (hK ctl σ1 el).trans h1
  | «for» x s e step body =>
    simp only [execXStmt]
    have h1 := hE ctl σ s
    rcases hA : evalX fs fuel ctl σ s with ⟨σ1, r1⟩
    rw [hA] at h1
    cases r1 with
    | error st => exact h1
    | ok sv =>
      simp only
      have h2 := hE ctl σ1 e
      rcases hB : evalX fs fuel ctl σ1 e with ⟨σ2, r2⟩
      rw [hB] at h2
      cases r2 with
      | error st => exact h2.trans h1
      | ok ev =>
        simp only
        have h3 := hE ctl σ2 (stepXExpr step)
        rcases hC : evalX fs fuel ctl σ2 (stepXExpr step) with ⟨σ3, r3⟩
        rw [hC] at h3
        cases r3 with
        | error st => exact (h3.trans h2).trans h1
        | ok tv =>
          simp only
          split
          · exact (h3.trans h2).trans h1
          · exact (((hF ctl _ x _ _ _ _ body).trans (writeNameC_len _ σ3 x _)).trans h3).trans (h2.trans h1)
  | «while» c body => simp only [execXStmt]; exact hW ctl σ c body
  | «repeat» body c => simp only [execXStmt]; exact hR ctl σ body c
  | exit => simp only [execXStmt]; split <;> rfl
  | «continue» => simp only [execXStmt]; split <;> rfl
  | ret e =>
    cases e with
    | none => simp only [execXStmt]; rfl
    | some e =>
      simp only [execXStmt]
      have h1 := hE ctl σ e
      rcases hA : evalX fs fuel ctl σ e with ⟨σ1, r1⟩
      rw [hA] at h1
      cases r1 <;> exact h1

/-- **Frame balance of stage S4, unconditionally.** -/
theorem xexec_frames : ∀ fuel, LEval fs fuel ∧ LBind fs fuel ∧ LInit fs fuel ∧ LCall fs fuel ∧ LStmt fs fuel ∧
    LBlock fs fuel ∧ LElifs fs fuel ∧ LFor fs fuel ∧ LWhile fs fuel ∧ LRepeat fs fuel ∧ LFb fs fuel := by
  intro fuel
  induction fuel with
  | zero =>
    refine ⟨?_, ?_, ?_, ?_, ?_, ?_, ?_, ?_, ?_, ?_, ?_⟩
    · intro ctl σ e; simp only [evalX]; rfl
    · intro m ctl σ ps args pos idx acc; simp only [bindParams]; rfl
    · intro ctl σ ls; simp only [initLocals]; rfl
    · intro ctl σ fd args; simp only [callFunction]; rfl
    · intro ctl σ s; simp only [execXStmt]; rfl
    · intro ctl σ b; simp only [execXBlock]; rfl
    · intro ctl σ es el; simp only [execXElifs]; rfl
    · intro ctl σ x t cur fin st body; simp only [forXLoop]; rfl
    · intro ctl σ c body; simp only [whileXLoop]; rfl
    · intro ctl σ body c; simp only [repeatXLoop]; rfl
    · intro ctl σ c fb args; simp only [callFb]; rfl
  | succ n ih =>
    obtain ⟨hE, hB, hI, hC, hS, hK, hL, hF, hW, hR, hFb⟩ := ih
    exact ⟨leval_step fs hE hC, lbind_step fs hE hB, linit_step fs hE hI, lcall_step fs hB hI hK,
      lstmt_step fs hE hK hL hF hW hR hFb, lblock_step fs hS hK, lelifs_step fs hE hK hL, lfor_step fs hK hF,
      lwhile_step fs hE hK hW, lrepeat_step fs hE hK hR, lfb_step fs hB hK⟩

end

/-- The scan cycle of a program with FUNCTIONs leaves the frame stack as it found it. -/
theorem xcycle_frames (p : XProgram) (fuel : Nat) (st : XRunState) :
    (xcycle p fuel st).1.store.frames.length = st.store.frames.length := by
  unfold xcycle
  split
  · rfl
  · have h : (execXBlock p.defs fuel {} (pushFrame st.store p.name) p.body).1.frames.length
        = st.store.frames.length + 1 := by
      have := (xexec_frames p.defs fuel).2.2.2.2.2.1 {} (pushFrame st.store p.name) p.body
      unfold Len at this
      rw [this, pushFrame_len]
    simp only
    split <;> simp [popFrame_len, h]

end TrustVerif.StExt
