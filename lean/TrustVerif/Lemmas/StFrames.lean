import TrustVerif.Model.StCore

/-!
Frame balance of the statement interpreter and the scan cycle, for **every** program (no typing
hypothesis) and every repair configuration: C01's "no call frame is left behind".
-/
namespace TrustVerif.StCore

theorem writeName_frames (σ : Store) (x : String) (v : Val) : (writeName σ x v).frames = σ.frames := by
  unfold writeName; split <;> rfl

theorem writeVal_frames (cfg : Cfg) (σ : Store) (x : String) (v : Val) :
    (writeVal cfg σ x v).1.frames = σ.frames := by
  unfold writeVal
  split
  · exact writeName_frames σ x v
  · split
    · exact writeName_frames σ x v
    · split
      · exact writeName_frames σ x _
      · rfl

theorem writeSlot_frames (cfg : Cfg) (σ : Store) (k : String) (v : Val) :
    (writeSlot cfg σ k v).1.frames = σ.frames := by
  unfold writeSlot
  split
  · exact writeVal_frames cfg σ k v
  · rfl

section
variable (cfg : Cfg)

def FStmt (fuel : Nat) : Prop := ∀ ld σ s, (execStmt cfg fuel ld σ s).1.frames = σ.frames
def FBlock (fuel : Nat) : Prop := ∀ ld σ b, (execBlock cfg fuel ld σ b).1.frames = σ.frames
def FElifs (fuel : Nat) : Prop := ∀ ld σ es el, (execElifs cfg fuel ld σ es el).1.frames = σ.frames
def FFor (fuel : Nat) : Prop :=
  ∀ ld σ x t cur fin st body, (forLoop cfg fuel ld σ x t cur fin st body).1.frames = σ.frames
def FWhile (fuel : Nat) : Prop := ∀ ld σ c body, (whileLoop cfg fuel ld σ c body).1.frames = σ.frames
def FRepeat (fuel : Nat) : Prop := ∀ ld σ body c, (repeatLoop cfg fuel ld σ body c).1.frames = σ.frames

theorem fblock_step {fuel : Nat} (hS : FStmt cfg fuel) (hB : FBlock cfg fuel) : FBlock cfg (fuel + 1) := by
  intro ld σ b
  cases b with
  | nil => simp [execBlock]
  | cons s rest =>
    simp only [execBlock]
    have h1 := hS ld σ s
    rcases hA : execStmt cfg fuel ld σ s with ⟨σ1, r1⟩
    rw [hA] at h1
    simp only at h1
    split
    · rename_i σ' heq
      injection heq with e1 e2
      subst e1
      rw [hB ld σ1 rest, h1]
    · exact h1


theorem felifs_step {fuel : Nat} (hB : FBlock cfg fuel) (hE : FElifs cfg fuel) : FElifs cfg (fuel + 1) := by
  intro ld σ es el
  cases es with
  | nil => simp only [execElifs]; exact hB ld σ el
  | cons c b rest =>
    simp only [execElifs]
    split
    · exact hB ld σ b
    · exact hE ld σ rest el
    · rfl

theorem fwhile_step {fuel : Nat} (hB : FBlock cfg fuel) (hW : FWhile cfg fuel) : FWhile cfg (fuel + 1) := by
  intro ld σ c body
  simp only [whileLoop]
  split
  · rfl
  · rfl
  · have h1 := hB (ld + 1) σ body
    rcases hA : execBlock cfg fuel (ld + 1) σ body with ⟨σ1, r1⟩
    rw [hA] at h1
    simp only at h1
    split <;> rename_i heq <;> injection heq with e1 e2 <;> subst e1
    · exact h1
    · exact h1
    · exact h1
    · rw [hW ld σ1 c body, h1]

theorem frepeat_step {fuel : Nat} (hB : FBlock cfg fuel) (hR : FRepeat cfg fuel) : FRepeat cfg (fuel + 1) := by
  intro ld σ body c
  simp only [repeatLoop]
  have h1 := hB (ld + 1) σ body
  rcases hA : execBlock cfg fuel (ld + 1) σ body with ⟨σ1, r1⟩
  rw [hA] at h1
  simp only at h1
  split <;> rename_i heq <;> injection heq with e1 e2 <;> subst e1
  · exact h1
  · exact h1
  · exact h1
  · split
    · exact h1
    · exact h1
    · rw [hR ld σ1 body c, h1]

theorem ffor_step {fuel : Nat} (hB : FBlock cfg fuel) (hF : FFor cfg fuel) : FFor cfg (fuel + 1) := by
  intro ld σ x t cur fin st body
  simp only [forLoop]
  split
  · rfl
  · have h1 := hB (ld + 1) σ body
    rcases hA : execBlock cfg fuel (ld + 1) σ body with ⟨σ1, r1⟩
    rw [hA] at h1
    simp only at h1
    split <;> rename_i heq <;> injection heq with e1 e2 <;> subst e1
    · exact h1
    · exact h1
    · exact h1
    · split
      · exact h1
      · split
        · exact h1
        · rw [hF, writeName_frames, h1]

theorem fstmt_step {fuel : Nat} (hB : FBlock cfg fuel) (hE : FElifs cfg fuel) (hF : FFor cfg fuel)
    (hW : FWhile cfg fuel) (hR : FRepeat cfg fuel) : FStmt cfg (fuel + 1) := by
  intro ld σ s
  cases s with
  | assign x e =>
    simp only [execStmt]
    split
    · have := writeVal_frames cfg σ x ‹Val›
      split <;> rename_i heq <;> rw [heq] at this <;> exact this
    · rfl
  | assignIdx a i e =>
    simp only [execStmt]
    repeat' split
    all_goals first
      | rfl
      | (rename_i heq
         have := congrArg (fun r => r.1.frames) heq
         simp only [writeSlot_frames] at this
         exact this.symm)
  | assignFld s f e =>
    simp only [execStmt]
    repeat' split
    all_goals first
      | rfl
      | (rename_i heq
         have := congrArg (fun r => r.1.frames) heq
         simp only [writeSlot_frames] at this
         exact this.symm)
  | ite c t elifs el =>
    simp only [execStmt]
    split
    · exact hB ld σ t
    · exact hE ld σ elifs el
    · rfl
  | case sel brs el =>
    simp only [execStmt]
    split
    · split
      · exact hB ld σ _
      · exact hB ld σ el
    · exact hB ld σ el
    · rfl
  | «for» x s e step body =>
    simp only [execStmt]
    split
    · rfl
    · rw [hF, writeName_frames]
  | «while» c body => simp only [execStmt]; exact hW ld σ c body
  | «repeat» body c => simp only [execStmt]; exact hR ld σ body c
  | exit => simp only [execStmt]; split <;> rfl
  | «continue» => simp only [execStmt]; split <;> rfl
  | ret => simp only [execStmt]

/-- **Frame balance, unconditionally**: executing any statement of any program (accepted or not),
under any repair configuration, from any store, on every exit path (completion, EXIT, CONTINUE,
RETURN, fault, budget) leaves the call stack exactly as it found it. -/
theorem exec_frames : ∀ fuel, FStmt cfg fuel ∧ FBlock cfg fuel ∧ FElifs cfg fuel ∧ FFor cfg fuel ∧
    FWhile cfg fuel ∧ FRepeat cfg fuel := by
  intro fuel
  induction fuel with
  | zero =>
    refine ⟨?_, ?_, ?_, ?_, ?_, ?_⟩
    · intro ld σ s; simp [execStmt]
    · intro ld σ b; simp [execBlock]
    · intro ld σ es el; simp [execElifs]
    · intro ld σ x t cur fin st body; simp [forLoop]
    · intro ld σ c body; simp [whileLoop]
    · intro ld σ body c; simp [repeatLoop]
  | succ n ih =>
    obtain ⟨hS, hB, hE, hF, hW, hR⟩ := ih
    exact ⟨fstmt_step cfg hB hE hF hW hR, fblock_step cfg hS hB, felifs_step cfg hB hE, ffor_step cfg hB hF,
      fwhile_step cfg hB hW, frepeat_step cfg hB hR⟩

/-- The scan cycle pops the frame it pushed, whatever happens in between. -/
theorem cycle_frames (p : Program) (fuel : Nat) (st : RunState) :
    (cycle cfg p fuel st).1.store.frames = st.store.frames := by
  unfold cycle
  split
  · rfl
  · have h : (execBlock cfg fuel 0
        { st.store with frames := p.name :: st.store.frames } p.body).1.frames
        = p.name :: st.store.frames :=
      (exec_frames cfg fuel).2.1 0 _ p.body
    simp only
    split <;> (try split) <;> simp [h]

end
end TrustVerif.StCore
