import TrustVerif.Lemmas.StArith
import TrustVerif.Model.StCheck

/-!
No Rust panic site is reachable (stages S1+S2), for **every** program whose literals compile —
typed or not, accepted or not — from any store of well-formed values (payload inside the range of
its tag, which the Rust carrier types guarantee): the `i128`/`u128` intermediate arithmetic of
`eval/ops.rs: numeric_arith` cannot overflow on `i64`/`u64`-ranged operands, every other site is
checked arithmetic, and every value the interpreter produces is again well formed.
-/
namespace TrustVerif.StCore

/-- No Rust panic. -/
def Stop.isPanic : Stop → Bool
  | .panic _ => true
  | .fault _ _ => false

/-- A result that is neither a panic nor an ill-formed value. -/
def GoodV : M Val → Prop
  | .ok v => v.WF = true
  | .error s => s.isPanic = false

def GoodI (lo hi : Int) : M Int → Prop
  | .ok x => lo ≤ x ∧ x ≤ hi
  | .error s => s.isPanic = false

theorem toI64_good {v : Val} (h : v.WF = true) : GoodI (-9223372036854775808) 9223372036854775807 (toI64 v) := by
  cases v with
  | b x => simp [toI64, GoodI, fault, Stop.isPanic]
  | i k x =>
    simp only [Val.WF] at h
    rw [IKind.inRange_iff] at h
    cases k <;> simp only [toI64, IKind.lo, IKind.hi] at h ⊢ <;> try (simp [GoodI, pure, Except.pure]; omega)
    by_cases hx : x ≤ i64Max
    · simp only [hx, if_true, GoodI, pure, Except.pure]; simp [i64Max] at hx; omega
    · simp [hx, GoodI, fault, Stop.isPanic]

theorem toU64_good {v : Val} (h : v.WF = true) : GoodI 0 18446744073709551615 (toU64 v) := by
  cases v with
  | b x => simp [toU64, GoodI, fault, Stop.isPanic]
  | i k x =>
    simp only [Val.WF] at h
    rw [IKind.inRange_iff] at h
    unfold toU64
    by_cases hneg : (k.signed && decide (x < 0)) = true
    · simp [hneg, GoodI, fault, Stop.isPanic]
    · simp only [hneg, Bool.false_eq_true, if_false, GoodI, pure, Except.pure]
      cases k <;> simp [IKind.lo, IKind.hi, IKind.signed] at h hneg ⊢ <;> omega

theorem narrow_good (t : IKind) (r : Int) : GoodV (narrow t r) := by
  unfold narrow
  by_cases h : t.inRange r = true <;> simp [h, GoodV, pure, Except.pure, Val.WF, fault, Stop.isPanic]

theorem signedOp_nopanic (op : BinOp) (x y : Int)
    (hx : -9223372036854775808 ≤ x ∧ x ≤ 9223372036854775807)
    (hy : -9223372036854775808 ≤ y ∧ y ≤ 9223372036854775807) :
    ∀ s, signedOp op x y = .error s → s.isPanic = false := by
  intro s hs
  have hmul := mul_bound 9223372036854775808 x y (by omega) (by omega) (by omega) (by omega) (by omega)
  have hdiv := tdiv_bound x y
  have i1 : ∀ r, i128Min ≤ r → r ≤ i128Max → i128 r = .ok r := by
    intro r a b; simp [i128, a, b, pure, Except.pure]
  cases op <;> simp only [signedOp] at hs
  · rw [i1 _ (by simp [i128Min]; omega) (by simp [i128Max]; omega)] at hs; cases hs
  · rw [i1 _ (by simp [i128Min]; omega) (by simp [i128Max]; omega)] at hs; cases hs
  · rw [i1 _ (by simp [i128Min]; omega) (by simp [i128Max]; omega)] at hs; cases hs
  · split at hs
    · simp [fault] at hs; subst hs; rfl
    · rw [i1 _ (by simp [i128Min]; omega) (by simp [i128Max]; omega)] at hs; cases hs
  · split at hs
    · simp [fault] at hs; subst hs; rfl
    · simp [pure, Except.pure] at hs
  · split at hs
    · simp [fault] at hs; subst hs; rfl
    · split at hs
      · simp [fault] at hs; subst hs; rfl
      · split at hs
        · simp [pure, Except.pure] at hs
        · simp [fault] at hs; subst hs; rfl
  all_goals (simp [fault] at hs; subst hs; rfl)

theorem unsignedOp_nopanic (op : BinOp) (x y : Int)
    (hx : 0 ≤ x ∧ x ≤ 18446744073709551615) (hy : 0 ≤ y ∧ y ≤ 18446744073709551615) :
    ∀ s, unsignedOp op x y = .error s → s.isPanic = false := by
  intro s hs
  have hmul := mul_bound_nonneg 18446744073709551615 x y hx.1 hx.2 hy.1 hy.2
  have u1 : ∀ r, 0 ≤ r → r ≤ u128Max → u128 r = .ok r := by
    intro r a b; simp [u128, a, b, pure, Except.pure]
  cases op <;> simp only [unsignedOp] at hs
  · rw [u1 _ (by omega) (by simp [u128Max]; omega)] at hs; cases hs
  · split at hs
    · simp [fault] at hs; subst hs; rfl
    · simp [pure, Except.pure] at hs
  · rw [u1 _ (by omega) (by simp [u128Max]; omega)] at hs; cases hs
  · split at hs
    · simp [fault] at hs; subst hs; rfl
    · simp [pure, Except.pure] at hs
  · split at hs
    · simp [fault] at hs; subst hs; rfl
    · simp [pure, Except.pure] at hs
  · split at hs
    · simp [fault] at hs; subst hs; rfl
    · split at hs
      · simp [pure, Except.pure] at hs
      · simp [fault] at hs; subst hs; rfl
  all_goals (simp [fault] at hs; subst hs; rfl)


theorem GoodV.bind_int {lo hi : Int} {m : M Int} {f : Int → M Val} (hm : GoodI lo hi m)
    (hf : ∀ x, lo ≤ x → x ≤ hi → GoodV (f x)) : GoodV (m >>= f) := by
  cases m with
  | error s => exact hm
  | ok x => exact hf x hm.1 hm.2

theorem numericArith_good (op : BinOp) {a b : Val} (ha : a.WF = true) (hb : b.WF = true) :
    GoodV (numericArith op a b) := by
  cases a with
  | b x => cases b <;> simp [numericArith, GoodV, fault, Stop.isPanic]
  | i ka x =>
    cases b with
    | b y => simp [numericArith, GoodV, fault, Stop.isPanic]
    | i kb y =>
      simp only [numericArith]
      split
      · refine GoodV.bind_int (toI64_good ha) ?_
        intro x' hx1 hx2
        refine GoodV.bind_int (toI64_good hb) ?_
        intro y' hy1 hy2
        cases hr : signedOp op x' y' with
        | error s => exact signedOp_nopanic op x' y' ⟨hx1, hx2⟩ ⟨hy1, hy2⟩ s hr
        | ok r => exact narrow_good _ r
      · refine GoodV.bind_int (toU64_good ha) ?_
        intro x' hx1 hx2
        refine GoodV.bind_int (toU64_good hb) ?_
        intro y' hy1 hy2
        cases hr : unsignedOp op x' y' with
        | error s => exact unsignedOp_nopanic op x' y' ⟨hx1, hx2⟩ ⟨hy1, hy2⟩ s hr
        | ok r => exact narrow_good _ r

theorem GoodV.bind_int_bool {lo hi : Int} {m : M Int} {f : Int → M Val} (hm : GoodI lo hi m)
    (hf : ∀ x, GoodV (f x)) : GoodV (m >>= f) := by
  cases m with
  | error s => exact hm
  | ok x => exact hf x

theorem numericCmp_good (op : BinOp) {a b : Val} (ha : a.WF = true) (hb : b.WF = true) :
    GoodV (numericCmp op a b) := by
  cases a with
  | b x => cases b <;> simp [numericCmp, GoodV, fault, Stop.isPanic]
  | i ka x =>
    cases b with
    | b y => simp [numericCmp, GoodV, fault, Stop.isPanic]
    | i kb y =>
      simp only [numericCmp]
      split
      · exact GoodV.bind_int_bool (toI64_good ha) fun x' =>
          GoodV.bind_int_bool (toI64_good hb) fun y' => by simp [GoodV, pure, Except.pure, Val.WF]
      · exact GoodV.bind_int_bool (toU64_good ha) fun x' =>
          GoodV.bind_int_bool (toU64_good hb) fun y' => by simp [GoodV, pure, Except.pure, Val.WF]

theorem numericEq_good {a b : Val} (isEq : Bool) (ha : a.WF = true) (hb : b.WF = true) :
    GoodV (numericEq a b isEq) := by
  cases a with
  | b x => cases b <;> simp [numericEq, GoodV, pure, Except.pure, Val.WF]
  | i ka x =>
    cases b with
    | b y => simp [numericEq, GoodV, pure, Except.pure, Val.WF]
    | i kb y =>
      simp only [numericEq]
      split
      · exact GoodV.bind_int_bool (toI64_good ha) fun x' =>
          GoodV.bind_int_bool (toI64_good hb) fun y' => by simp [GoodV, pure, Except.pure, Val.WF]
      · exact GoodV.bind_int_bool (toU64_good ha) fun x' =>
          GoodV.bind_int_bool (toU64_good hb) fun y' => by simp [GoodV, pure, Except.pure, Val.WF]

theorem logical_good (op : BinOp) (a b : Val) : GoodV (logical op a b) := by
  cases a <;> cases b <;> simp only [logical] <;> try (simp [GoodV, fault, Stop.isPanic])
  cases op <;> simp [GoodV, pure, Except.pure, Val.WF, fault, Stop.isPanic]

theorem applyBinary_good (op : BinOp) {a b : Val} (ha : a.WF = true) (hb : b.WF = true) :
    GoodV (applyBinary op a b) := by
  cases op <;> simp only [applyBinary] <;>
    first
    | exact logical_good _ a b
    | exact numericEq_good _ ha hb
    | exact numericArith_good _ ha hb
    | (split
       · simp [GoodV, pure, Except.pure, Val.WF]
       · exact numericCmp_good _ ha hb)

theorem applyUnary_good (op : UnOp) {v : Val} (hv : v.WF = true) : GoodV (applyUnary op v) := by
  cases op <;> cases v <;> simp only [applyUnary]
  · simp [GoodV, fault, Stop.isPanic]
  · split
    · split
      · rename_i h; simp [GoodV, pure, Except.pure, Val.WF, h]
      · simp [GoodV, fault, Stop.isPanic]
    · simp [GoodV, fault, Stop.isPanic]
  · simp [GoodV, pure, Except.pure, Val.WF]
  · simp [GoodV, fault, Stop.isPanic]

/-- Every stored value is well formed (the Rust carrier types guarantee this). -/
def EnvWF (e : Env) : Prop := ∀ x v, lookup x e = some v → v.WF = true
def StoreWF (σ : Store) : Prop := EnvWF σ.vars ∧ EnvWF σ.globals

theorem readName_good {σ : Store} (hσ : StoreWF σ) (x : String) : GoodV (readName σ x) := by
  unfold readName
  split
  · exact hσ.1 x _ ‹_›
  · split
    · exact hσ.2 x _ ‹_›
    · simp [GoodV, fault, Stop.isPanic]

theorem GoodV.bind {m : M Val} {f : Val → M Val} (hm : GoodV m) (hf : ∀ v, v.WF = true → GoodV (f v)) :
    GoodV (m >>= f) := by
  cases m with
  | error s => exact hm
  | ok v => exact hf v hm

theorem readSlot_good {σ : Store} (hσ : StoreWF σ) (k : String) : GoodV (readSlot σ k) := by
  unfold readSlot
  split
  · exact hσ.1 k _ ‹_›
  · simp [GoodV, fault, Stop.isPanic]

theorem indexToI64_nopanic (v : Val) : ∀ s, indexToI64 .real v = .error s → s.isPanic = false := by
  intro s h
  cases v with
  | b _ => simp [indexToI64, fault] at h; subst h; rfl
  | i k x => cases k <;> simp [indexToI64, pure, Except.pure] at h

/-- The subscript computation (`index_to_i64`, `array_offset`) has no panic site. -/
theorem index_nopanic {σ : Store} {i : Expr} (g : GoodV (evalExpr .real σ i)) (lo hi : Int) :
    ∀ s, (evalExpr .real σ i >>= arrayIndex .real lo hi) = .error s → s.isPanic = false := by
  intro s h
  cases hv : evalExpr .real σ i with
  | error s' =>
    rw [hv] at g h
    simp [bind, Except.bind] at h
    subst h
    exact g
  | ok v =>
    rw [hv] at h
    simp only [bind, Except.bind, arrayIndex] at h
    cases hi' : indexToI64 .real v with
    | error s' =>
      rw [hi'] at h
      simp at h
      subst h
      exact indexToI64_nopanic v _ hi'
    | ok n =>
      rw [hi'] at h
      simp only at h
      split at h
      · simp [fault] at h; subst h; rfl
      · simp [pure, Except.pure] at h

/-- Expressions of a compilable program never panic and produce well-formed values. -/
theorem evalExpr_good {σ : Store} (hσ : StoreWF σ) : ∀ e : Expr, e.lowerable = true → GoodV (evalExpr .real σ e) := by
  intro e
  induction e with
  | lit ty v =>
    intro hl
    cases ty with
    | none =>
      simp [Expr.lowerable] at hl
      simp [i32Max] at hl
      have hlit : litVal .real none v = .i .dint v := rfl
      simp only [evalExpr, hlit, GoodV, pure, Except.pure, Val.WF]
      rw [IKind.inRange_iff]; simp [IKind.lo, IKind.hi]; omega
    | some k =>
      simp only [Expr.lowerable, Bool.and_eq_true] at hl
      simp [evalExpr, litVal, GoodV, pure, Except.pure, Val.WF, hl.1]
  | blit v => intro _; simp [evalExpr, GoodV, pure, Except.pure, Val.WF]
  | var x => intro _; exact readName_good hσ x
  | un op e ih =>
    intro hl
    simp only [Expr.lowerable] at hl
    simp only [evalExpr]
    exact (ih hl).bind fun v hv => applyUnary_good op hv
  | bin op l r ihl ihr =>
    intro hl
    simp only [Expr.lowerable, Bool.and_eq_true] at hl
    cases op <;> simp only [evalExpr] <;>
      first
      | exact (ihl hl.1).bind fun a ha => (ihr hl.2).bind fun b hb => applyBinary_good _ ha hb
      | (refine (ihl hl.1).bind fun a ha => ?_
         split
         · simp [GoodV, pure, Except.pure, Val.WF]
         · exact (ihr hl.2).bind fun b hb => applyBinary_good _ ha hb)
  | idx a i ih =>
    intro hl
    simp only [Expr.lowerable] at hl
    simp only [evalExpr]
    split
    · split
      · exact readSlot_good hσ _
      · rename_i st heq
        exact index_nopanic (ih hl) _ _ st heq
    · simp [GoodV, fault, Stop.isPanic]
    · exact (readName_good hσ a).bind fun _ _ => by simp [GoodV, fault, Stop.isPanic]
  | fld s f =>
    intro _
    simp only [evalExpr]
    split
    · split
      · exact readSlot_good hσ _
      · simp [GoodV, fault, Stop.isPanic]
    · simp [GoodV, fault, Stop.isPanic]
    · exact (readName_good hσ s).bind fun _ _ => by simp [GoodV, fault, Stop.isPanic]


theorem lookup_insert (x y : String) (v : Val) (e : Env) :
    lookup y (insert x v e) = some v ∨ lookup y (insert x v e) = lookup y e := by
  induction e with
  | nil =>
    by_cases h : y = x
    · left; simp [insert, lookup, h]
    · right; simp [insert, lookup, h]
  | cons p rest ih =>
    obtain ⟨z, w⟩ := p
    by_cases hxz : x = z
    · by_cases hyz : y = z
      · left; simp [insert, lookup, hxz, hyz]
      · right; simp [insert, lookup, hxz, hyz]
    · by_cases hyz : y = z
      · right; simp [insert, lookup, hxz, hyz]
      · simp only [insert, hxz, if_false, lookup, hyz]
        exact ih

theorem EnvWF.insert {e : Env} (h : EnvWF e) {x : String} {v : Val} (hv : v.WF = true) :
    EnvWF (insert x v e) := by
  intro y w hw
  rcases lookup_insert x y v e with h1 | h1
  · rw [h1] at hw; injection hw with hw; subst hw; exact hv
  · rw [h1] at hw; exact h y w hw

theorem StoreWF.write {σ : Store} (h : StoreWF σ) (x : String) {v : Val} (hv : v.WF = true) :
    StoreWF (writeName σ x v) := by
  unfold writeName
  split
  · exact ⟨h.1.insert hv, h.2⟩
  · exact ⟨h.1, h.2.insert hv⟩

theorem coerceLoopValue_good (t : Val) (n : Int) : GoodV (coerceLoopValue t n) := by
  unfold coerceLoopValue
  cases t with
  | b x => simp [GoodV, fault, Stop.isPanic]
  | i k c =>
    simp only
    split
    · split
      · rename_i h; simp [GoodV, pure, Except.pure, Val.WF, h]
      · simp [GoodV, fault, Stop.isPanic]
    · split
      · simp [GoodV, fault, Stop.isPanic]
      · split
        · rename_i h; simp [GoodV, pure, Except.pure, Val.WF, h]
        · simp [GoodV, fault, Stop.isPanic]

/-- Store stays well formed; no stop is a panic. -/
def GoodR (a : Res) : Prop := StoreWF a.1 ∧ ∀ s, a.2 = .error s → s.isPanic = false

theorem GoodR.of_fault {σ : Store} (h : StoreWF σ) (e : RustErr) (site : Site) {α} :
    StoreWF σ ∧ ∀ s, (fault e site : M α) = .error s → s.isPanic = false := by
  refine ⟨h, ?_⟩
  intro s hs; simp [fault] at hs; subst hs; rfl

theorem evalBool_good {σ : Store} (hσ : StoreWF σ) {c : Expr} (hl : c.lowerable = true) :
    ∀ s, evalBool .real σ c = .error s → s.isPanic = false := by
  intro s hs
  have := evalExpr_good hσ c hl
  unfold evalBool at hs
  split at hs
  · simp [pure, Except.pure] at hs
  · simp [fault] at hs; subst hs; rfl
  · rename_i st heq
    rw [heq] at this
    injection hs with hs; subst hs; exact this

mutual
/-- The literals of a statement survive the lowering (what `Program.accepted` requires of the whole body). -/
theorem lowerable_case_branch : ∀ (brs : Branches) (n : Int) (b : Block), brs.lowerable = true →
    findBranch n brs = some b → b.lowerable = true
  | .nil, _, _, _, h => by simp [findBranch] at h
  | .cons ls b0 rest, n, b, hl, h => by
    simp only [Branches.lowerable, Bool.and_eq_true] at hl
    simp only [findBranch] at h
    split at h
    · injection h with h; subst h; exact hl.1
    · exact lowerable_case_branch rest n b hl.2 h
end


theorem writeVal_real' (σ : Store) (x : String) (v : Val) : writeVal .real σ x v = (writeName σ x v, none) := rfl

theorem writeSlot_good {σ : Store} (hσ : StoreWF σ) (k : String) {v : Val} (hv : v.WF = true) :
    StoreWF (writeSlot .real σ k v).1 ∧ ∀ st, (writeSlot .real σ k v).2 = some st → st.isPanic = false := by
  unfold writeSlot
  split
  · simp only [writeVal_real']
    exact ⟨hσ.write k hv, fun st h => by cases h⟩
  · exact ⟨hσ, fun st h => by injection h with h; subst h; rfl⟩

theorem readName_nopanic {σ : Store} (hσ : StoreWF σ) (x : String) :
    ∀ s, readName σ x = .error s → s.isPanic = false := by
  intro s h
  have g := readName_good hσ x
  rw [h] at g
  exact g

def NStmt (fuel : Nat) : Prop :=
  ∀ ld σ s, StoreWF σ → s.lowerable = true → GoodR (execStmt .real fuel ld σ s)
def NBlock (fuel : Nat) : Prop :=
  ∀ ld σ b, StoreWF σ → b.lowerable = true → GoodR (execBlock .real fuel ld σ b)
def NElifs (fuel : Nat) : Prop :=
  ∀ ld σ es el, StoreWF σ → es.lowerable = true → el.lowerable = true → GoodR (execElifs .real fuel ld σ es el)
def NFor (fuel : Nat) : Prop :=
  ∀ ld σ x t cur fin st body, StoreWF σ → body.lowerable = true →
    GoodR (forLoop .real fuel ld σ x t cur fin st body)
def NWhile (fuel : Nat) : Prop :=
  ∀ ld σ c body, StoreWF σ → c.lowerable = true → body.lowerable = true → GoodR (whileLoop .real fuel ld σ c body)
def NRepeat (fuel : Nat) : Prop :=
  ∀ ld σ body c, StoreWF σ → c.lowerable = true → body.lowerable = true → GoodR (repeatLoop .real fuel ld σ body c)

theorem GoodR.err {σ : Store} (h : StoreWF σ) {s : Stop} (hs : s.isPanic = false) :
    GoodR (σ, (.error s : M Flow)) := ⟨h, fun s' e => by injection e with e; subst e; exact hs⟩

theorem GoodR.ok {σ : Store} (h : StoreWF σ) (f : Flow) : GoodR (σ, (.ok f : M Flow)) :=
  ⟨h, fun s' e => by cases e⟩

theorem GoodR.flt {σ : Store} (h : StoreWF σ) (e : RustErr) (site : Site) :
    GoodR (σ, (fault e site : M Flow)) := GoodR.err h rfl

theorem nblock_step {fuel : Nat} (hS : NStmt fuel) (hB : NBlock fuel) : NBlock (fuel + 1) := by
  intro ld σ b hσ hl
  cases b with
  | nil => simp only [execBlock]; exact GoodR.ok hσ _
  | cons s rest =>
    simp only [Block.lowerable, Bool.and_eq_true] at hl
    simp only [execBlock]
    have h1 := hS ld σ s hσ hl.1
    rcases hA : execStmt .real fuel ld σ s with ⟨σ1, r1⟩
    rw [hA] at h1
    split
    · rename_i σ' heq
      injection heq with e1 e2
      subst e1
      exact hB ld σ1 rest h1.1 hl.2
    · exact h1

theorem nelifs_step {fuel : Nat} (hB : NBlock fuel) (hE : NElifs fuel) : NElifs (fuel + 1) := by
  intro ld σ es el hσ hle hll
  cases es with
  | nil => simp only [execElifs]; exact hB ld σ el hσ hll
  | cons c b rest =>
    simp only [Elifs.lowerable, Bool.and_eq_true] at hle
    simp only [execElifs]
    split
    · exact hB ld σ b hσ hle.1.2
    · exact hE ld σ rest el hσ hle.2 hll
    · rename_i st heq; exact GoodR.err hσ (evalBool_good hσ hle.1.1 st heq)

theorem nwhile_step {fuel : Nat} (hB : NBlock fuel) (hW : NWhile fuel) : NWhile (fuel + 1) := by
  intro ld σ c body hσ hlc hlb
  simp only [whileLoop]
  split
  · rename_i st heq; exact GoodR.err hσ (evalBool_good hσ hlc st heq)
  · exact GoodR.ok hσ _
  · have h1 := hB (ld + 1) σ body hσ hlb
    rcases hA : execBlock .real fuel (ld + 1) σ body with ⟨σ1, r1⟩
    rw [hA] at h1
    split <;> rename_i heq <;> injection heq with e1 e2 <;> subst e1
    · exact GoodR.err h1.1 (h1.2 _ e2)
    · exact GoodR.ok h1.1 _
    · exact GoodR.ok h1.1 _
    · exact hW ld σ1 c body h1.1 hlc hlb

theorem nrepeat_step {fuel : Nat} (hB : NBlock fuel) (hR : NRepeat fuel) : NRepeat (fuel + 1) := by
  intro ld σ body c hσ hlc hlb
  simp only [repeatLoop]
  have h1 := hB (ld + 1) σ body hσ hlb
  rcases hA : execBlock .real fuel (ld + 1) σ body with ⟨σ1, r1⟩
  rw [hA] at h1
  split <;> rename_i heq <;> injection heq with e1 e2 <;> subst e1
  · exact GoodR.err h1.1 (h1.2 _ e2)
  · exact GoodR.ok h1.1 _
  · exact GoodR.ok h1.1 _
  · split
    · rename_i st heq; exact GoodR.err h1.1 (evalBool_good h1.1 hlc st heq)
    · exact GoodR.ok h1.1 _
    · exact hR ld σ1 body c h1.1 hlc hlb

theorem nfor_step {fuel : Nat} (hB : NBlock fuel) (hF : NFor fuel) : NFor (fuel + 1) := by
  intro ld σ x t cur fin st body hσ hlb
  simp only [forLoop]
  split
  · exact GoodR.ok hσ _
  · have h1 := hB (ld + 1) σ body hσ hlb
    rcases hA : execBlock .real fuel (ld + 1) σ body with ⟨σ1, r1⟩
    rw [hA] at h1
    split <;> rename_i heq <;> injection heq with e1 e2 <;> subst e1
    · exact GoodR.err h1.1 (h1.2 _ e2)
    · exact GoodR.ok h1.1 _
    · exact GoodR.ok h1.1 _
    · split
      · exact GoodR.flt h1.1 _ _
      · have hc := coerceLoopValue_good t (cur + st)
        split
        · rename_i s' heq; rw [heq] at hc; exact GoodR.err h1.1 hc
        · rename_i v heq; rw [heq] at hc
          exact hF ld _ x t _ fin st body (h1.1.write x hc) hlb


theorem intValue_good {v : Val} : ∀ s, intValue .real v = .error s → s.isPanic = false := by
  intro s hs
  cases v with
  | b x => simp [intValue, fault] at hs; subst hs; rfl
  | i k x => cases k <;> simp [intValue, pure, Except.pure] at hs

/-- The FOR prologue: no panic, and the first value is well formed. -/
theorem forPre_good {σ : Store} (hσ : StoreWF σ) (x : String) {s e st : Expr}
    (hs : s.lowerable = true) (he : e.lowerable = true) (ht : st.lowerable = true) :
    (∀ a b c first, forPre .real σ x s e st = .ok (a, b, c, first) → first.WF = true) ∧
    (∀ stop, forPre .real σ x s e st = .error stop → stop.isPanic = false) := by
  have g1 := evalExpr_good hσ s hs
  have g2 := evalExpr_good hσ e he
  have g3 := evalExpr_good hσ st ht
  have key : ∀ r, forPre .real σ x s e st = r →
      match r with
      | .ok (_, _, _, first) => first.WF = true
      | .error stop => stop.isPanic = false := by
    intro r hr
    unfold forPre at hr
    cases h1 : evalExpr .real σ s with
    | error s1 => rw [h1] at g1 hr; simp only [bind, Except.bind] at hr; subst hr; exact g1
    | ok sv =>
      cases h2 : evalExpr .real σ e with
      | error s2 => rw [h1, h2] at hr; rw [h2] at g2; simp only [bind, Except.bind] at hr; subst hr; exact g2
      | ok ev =>
        cases h3 : evalExpr .real σ st with
        | error s3 => rw [h1, h2, h3] at hr; rw [h3] at g3; simp only [bind, Except.bind] at hr; subst hr; exact g3
        | ok tv =>
          rw [h1, h2, h3] at hr
          simp only [bind, Except.bind] at hr
          cases h4 : intValue .real sv with
          | error s4 => rw [h4] at hr; simp only at hr; subst hr; exact intValue_good s4 h4
          | ok si =>
            cases h5 : intValue .real ev with
            | error s5 => rw [h4, h5] at hr; simp only at hr; subst hr; exact intValue_good s5 h5
            | ok ei =>
              cases h6 : intValue .real tv with
              | error s6 => rw [h4, h5, h6] at hr; simp only at hr; subst hr; exact intValue_good s6 h6
              | ok ti =>
                rw [h4, h5, h6] at hr
                simp only at hr
                by_cases hz : ti = 0
                · simp only [hz, if_true, fault] at hr; subst hr; rfl
                · simp only [hz, if_false] at hr
                  have g7 := readName_good hσ x
                  cases h7 : readName σ x with
                  | error s7 => rw [h7] at g7 hr; simp only at hr; subst hr; exact g7
                  | ok tmpl =>
                    rw [h7] at hr
                    simp only at hr
                    by_cases hu : (tmpl.isUnsignedInt && decide (ti < 0)) = true
                    · simp only [hu, if_true, fault] at hr; subst hr; rfl
                    · simp only [hu, Bool.false_eq_true, if_false] at hr
                      have g8 := coerceLoopValue_good tmpl si
                      cases h8 : coerceLoopValue tmpl si with
                      | error s8 => rw [h8] at g8 hr; simp only at hr; subst hr; exact g8
                      | ok first => rw [h8] at g8 hr; simp only [pure, Except.pure] at hr; subst hr; exact g8
  constructor
  · intro a b c first h; exact key _ h
  · intro stop h; exact key _ h

theorem stepExpr_lowerable (step : Option Expr)
    (h : (match step with | none => true | some st => st.lowerable) = true) : (stepExpr step).lowerable = true := by
  cases step with
  | none => simp [stepExpr, Expr.lowerable, IKind.inRange, IKind.lo, IKind.hi, writable, i64Max]
  | some st => exact h

theorem nstmt_step {fuel : Nat} (hB : NBlock fuel) (hE : NElifs fuel) (hF : NFor fuel)
    (hW : NWhile fuel) (hR : NRepeat fuel) : NStmt (fuel + 1) := by
  intro ld σ s hσ hl
  cases s with
  | assign x e =>
    simp only [Stmt.lowerable] at hl
    simp only [execStmt]
    have g := evalExpr_good hσ e hl
    split
    · rename_i v heq
      rw [heq] at g
      simp only [writeVal_real']
      exact GoodR.ok (hσ.write x g) _
    · rename_i st heq
      rw [heq] at g
      exact GoodR.err hσ g
  | assignIdx a i e =>
    simp only [Stmt.lowerable, Bool.and_eq_true] at hl
    simp only [execStmt]
    have g := evalExpr_good hσ e hl.2
    split
    · rename_i st heq
      rw [heq] at g
      exact GoodR.err hσ g
    · rename_i v heq
      rw [heq] at g
      split
      · split
        · rename_i st hst
          exact GoodR.err hσ (index_nopanic (evalExpr_good hσ i hl.1) _ _ st hst)
        · rename_i n _
          have w := writeSlot_good hσ (elemName a n) g
          split
          · rename_i σ' hw; rw [hw] at w; exact GoodR.ok w.1 _
          · rename_i σ' st hw; rw [hw] at w; exact GoodR.err w.1 (w.2 st rfl)
      · exact GoodR.flt hσ _ _
      · split
        · rename_i st hst; exact GoodR.err hσ (readName_nopanic hσ a st hst)
        · exact GoodR.flt hσ _ _
  | assignFld s f e =>
    simp only [Stmt.lowerable] at hl
    simp only [execStmt]
    have g := evalExpr_good hσ e hl
    split
    · rename_i st heq
      rw [heq] at g
      exact GoodR.err hσ g
    · rename_i v heq
      rw [heq] at g
      split
      · split
        · rename_i g0 _ _
          have w := writeSlot_good hσ (fldName s g0) g
          split
          · rename_i σ' hw; rw [hw] at w; exact GoodR.ok w.1 _
          · rename_i σ' st hw; rw [hw] at w; exact GoodR.err w.1 (w.2 st rfl)
        · exact GoodR.flt hσ _ _
      · exact GoodR.flt hσ _ _
      · split
        · rename_i st hst; exact GoodR.err hσ (readName_nopanic hσ s st hst)
        · exact GoodR.flt hσ _ _
  | ite c t elifs el =>
    simp only [Stmt.lowerable, Bool.and_eq_true] at hl
    simp only [execStmt]
    split
    · exact hB ld σ t hσ hl.1.1.2
    · exact hE ld σ elifs el hσ hl.1.2 hl.2
    · rename_i st heq; exact GoodR.err hσ (evalBool_good hσ hl.1.1.1 st heq)
  | case sel brs el =>
    simp only [Stmt.lowerable, Bool.and_eq_true] at hl
    simp only [execStmt]
    have g := evalExpr_good hσ sel hl.1.1
    split
    · split
      · rename_i b hb; exact hB ld σ b hσ (lowerable_case_branch brs _ b hl.1.2 hb)
      · exact hB ld σ el hσ hl.2
    · exact hB ld σ el hσ hl.2
    · rename_i st heq
      refine GoodR.err hσ ?_
      cases h1 : evalExpr .real σ sel with
      | error s1 =>
        rw [h1] at g heq
        simp [bind, Except.bind] at heq
        subst heq; exact g
      | ok v =>
        rw [h1] at heq
        simp only [bind, Except.bind] at heq
        cases v with
        | b x => simp [selectorInt, fault] at heq; subst heq; rfl
        | i k x => cases k <;> simp [selectorInt, pure, Except.pure] at heq
  | «for» x s e step body =>
    simp only [Stmt.lowerable, Bool.and_eq_true] at hl
    simp only [execStmt]
    obtain ⟨g1, g2⟩ := forPre_good hσ x hl.1.1.1 hl.1.1.2 (stepExpr_lowerable step hl.1.2)
    split
    · rename_i st heq; exact GoodR.err hσ (g2 st heq)
    · rename_i si ei ti first heq
      exact hF ld _ x first si ei ti body (hσ.write x (g1 si ei ti first heq)) hl.2
  | «while» c body =>
    simp only [Stmt.lowerable, Bool.and_eq_true] at hl
    simp only [execStmt]
    exact hW ld σ c body hσ hl.1 hl.2
  | «repeat» body c =>
    simp only [Stmt.lowerable, Bool.and_eq_true] at hl
    simp only [execStmt]
    exact hR ld σ body c hσ hl.2 hl.1
  | exit => simp only [execStmt]; split <;> first | exact GoodR.flt hσ _ _ | exact GoodR.ok hσ _
  | «continue» => simp only [execStmt]; split <;> first | exact GoodR.flt hσ _ _ | exact GoodR.ok hσ _
  | ret => simp only [execStmt]; exact GoodR.ok hσ _


/-- **No panic, unconditionally**: for every program whose literals compile (typed or not), from
any store of well-formed values, no statement reaches a Rust panic site, and the store stays
well formed. -/
theorem exec_nopanic : ∀ fuel, NStmt fuel ∧ NBlock fuel ∧ NElifs fuel ∧ NFor fuel ∧ NWhile fuel ∧ NRepeat fuel := by
  intro fuel
  induction fuel with
  | zero =>
    refine ⟨?_, ?_, ?_, ?_, ?_, ?_⟩
    · intro ld σ s hσ _; simp only [execStmt]; exact GoodR.flt hσ _ _
    · intro ld σ b hσ _; simp only [execBlock]; exact GoodR.flt hσ _ _
    · intro ld σ es el hσ _ _; simp only [execElifs]; exact GoodR.flt hσ _ _
    · intro ld σ x t cur fin st body hσ _; simp only [forLoop]; exact GoodR.flt hσ _ _
    · intro ld σ c body hσ _ _; simp only [whileLoop]; exact GoodR.flt hσ _ _
    · intro ld σ body c hσ _ _; simp only [repeatLoop]; exact GoodR.flt hσ _ _
  | succ n ih =>
    obtain ⟨hS, hB, hE, hF, hW, hR⟩ := ih
    exact ⟨nstmt_step hB hE hF hW hR, nblock_step hS hB, nelifs_step hB hE, nfor_step hB hF,
      nwhile_step hB hW, nrepeat_step hB hR⟩

/-- One scan cycle of any compilable program from any well-formed store: the report is never a
panic and the store stays well formed. -/
theorem cycle_nopanic (p : Program) (hl : p.body.lowerable = true) (fuel : Nat) (st : RunState)
    (hσ : StoreWF st.store) :
    StoreWF (cycle .real p fuel st).1.store ∧
    ∀ s, (cycle .real p fuel st).2 = some s → s.isPanic = false := by
  unfold cycle
  split
  · exact ⟨hσ, fun s h => by injection h with h; subst h; rfl⟩
  · have h := (exec_nopanic fuel).2.1 0
      { st.store with frames := p.name :: st.store.frames } p.body hσ hl
    rcases hA : execBlock .real fuel 0
      { st.store with frames := p.name :: st.store.frames } p.body with ⟨σ1, r1⟩
    rw [hA] at h
    simp only
    rw [hA]
    simp only
    have hw : StoreWF { σ1 with frames := σ1.frames.tail } := h.1
    split
    · exact ⟨hw, fun s e => by cases e⟩
    · exact ⟨hw, fun s e => by cases e⟩
    · exact ⟨hw, fun s e => by injection e with e; subst e; rfl⟩
    · rename_i s' heq
      exact ⟨hw, fun s e => by injection e with e; subst e; exact h.2 _ (by simpa using heq)⟩

end TrustVerif.StCore
