import TrustVerif.Model.StCore
import TrustVerif.Model.StCheck
import TrustVerif.Model.C02
import TrustVerif.Model.C03
import TrustVerif.Model.StExtCheck

/-!
Witness programs of the recorded findings (the same programs the harness replays against the
real compiler and runtime on every run: `harness/src/c01.rs: witnesses()`), as Lean terms.
-/
namespace TrustVerif.StCore.Wit

def block : List Stmt → Block
  | [] => .nil
  | s :: rest => .cons s (block rest)

def v (x : String) : Expr := .var x
def lit (n : Int) : Expr := if n < 0 then .un .neg (.lit none (-n)) else .lit none n
def decl (name : String) (ty : Ty) (init : Int := 0) : VarDecl := { name := name, ty := ty, init := init }

/-- `c : INT := 32766; c := c + 1;` -/
def driftIntLiteral : Program :=
  { decls := [decl "c" (.int .int) 32766],
    body := block [.assign "c" (.bin .add (v "c") (lit 1))] }

/-- `i : INT := -1; u : UINT := 3; b : BOOL; b := i < u;` -/
def mixedSignCompare : Program :=
  { decls := [decl "i" (.int .int) (-1), decl "u" (.int .uint) 3, decl "b" .bool],
    body := block [.assign "b" (.bin .lt (v "i") (v "u"))] }

/-- `u : UINT := 3; u := u + (-1);` -/
def mixedSignArith : Program :=
  { decls := [decl "u" (.int .uint) 3],
    body := block [.assign "u" (.bin .add (v "u") (lit (-1)))] }

/-- `u : UINT := 3; w : UINT; w := -u;` -/
def negUnsigned : Program :=
  { decls := [decl "u" (.int .uint) 3, decl "w" (.int .uint)],
    body := block [.assign "w" (.un .neg (v "u"))] }

/-- `x : DINT; x := 1; RETURN; x := 2;` -/
def returnInProgram : Program :=
  { decls := [decl "x" (.int .dint)],
    body := block [.assign "x" (lit 1), .ret, .assign "x" (lit 2)] }

/-- `x : DINT := 2; y : DINT := -1; x := x ** y;` -/
def powNegativeExponent : Program :=
  { decls := [decl "x" (.int .dint) 2, decl "y" (.int .dint) (-1)],
    body := block [.assign "x" (.bin .pow (v "x") (v "y"))] }

/-- `u : UINT; n : DINT; FOR u := 3 TO 0 BY -1 DO n := n + 1; END_FOR;` -/
def forUnsignedNegativeStep : Program :=
  { decls := [decl "u" (.int .uint), decl "n" (.int .dint)],
    body := block [.for "u" (lit 3) (lit 0) (some (lit (-1))) (block [.assign "n" (.bin .add (v "n") (lit 1))])] }

/-- `n : DINT; FOR zz := 1 TO 3 DO n := n + 1; END_FOR;` (zz undeclared) -/
def forUndeclaredControl : Program :=
  { decls := [decl "n" (.int .dint)],
    body := block [.for "zz" (lit 1) (lit 3) none (block [.assign "n" (.bin .add (v "n") (lit 1))])] }

/-- `d : DINT; CASE d OF 1: d := 2; ELSE d := TRUE; END_CASE;` -/
def caseElseStore : Program :=
  { decls := [decl "d" (.int .dint)],
    body := block [.case (v "d") (.cons [.single { ty := none, v := 1 }] (block [.assign "d" (lit 2)]) .nil)
      (block [.assign "d" (.blit true)])] }

/-- `d : DINT; CASE d OF 1: d := 2; ELSE IF d THEN d := 3; END_IF; END_CASE;` -/
def caseElseCondition : Program :=
  { decls := [decl "d" (.int .dint)],
    body := block [.case (v "d") (.cons [.single { ty := none, v := 1 }] (block [.assign "d" (lit 2)]) .nil)
      (block [.ite (v "d") (block [.assign "d" (lit 3)]) .nil .nil])] }

/-- `a : ULINT := 9223372036854775807; i : ULINT; n : DINT;
a := a + ULINT#10; FOR i := a TO a + ULINT#2 DO n := n + 1; END_FOR;` -/
def forUlintCast : Program :=
  { decls := [{ name := "a", ty := .int .ulint, init := 9223372036854775807, typedInit := true },
              decl "i" (.int .ulint), decl "n" (.int .dint)],
    body := block [.assign "a" (.bin .add (v "a") (.lit (some .ulint) 10)),
      .for "i" (v "a") (.bin .add (v "a") (.lit (some .ulint) 2)) none
        (block [.assign "n" (.bin .add (v "n") (lit 1))])] }

/-- `d : DINT; s : SINT := 3; d := s;` -/
def driftWidening : Program :=
  { decls := [decl "d" (.int .dint), decl "s" (.int .sint) 3],
    body := block [.assign "d" (v "s")] }

/-- `s : SINT; s := 1000;` -/
def driftLiteralRange : Program :=
  { decls := [decl "s" (.int .sint)],
    body := block [.assign "s" (lit 1000)] }

/-- A program inside the guard `Strict` (non-vacuity of the `_partial` theorems): typed literals,
a FOR loop with EXIT/CONTINUE, a WHILE loop, a CASE, division.
```
i : INT := 5; d : DINT := 7; u : UINT := 2; b : BOOL; g : DINT;
FOR i := INT#1 TO INT#4 DO
  IF i = INT#3 THEN CONTINUE; END_IF;
  d := d + 1;  u := u * UINT#2;
  IF d > 100 THEN EXIT; END_IF;
END_FOR;
WHILE g < 3 DO g := g + 1; END_WHILE;
CASE d OF 10: b := TRUE; 11..20: b := d / 2 > 4; ELSE b := FALSE; END_CASE;
```
-/
def strictSample : Program :=
  { decls := [decl "i" (.int .int) 5, decl "d" (.int .dint) 7, decl "u" (.int .uint) 2, decl "b" .bool,
              decl "g" (.int .dint)],
    body := block [
      .for "i" (.lit (some .int) 1) (.lit (some .int) 4) none (block [
        .ite (.bin .eq (v "i") (.lit (some .int) 3)) (block [.continue]) .nil .nil,
        .assign "d" (.bin .add (v "d") (lit 1)),
        .assign "u" (.bin .mul (v "u") (.lit (some .uint) 2)),
        .ite (.bin .gt (v "d") (lit 100)) (block [.exit]) .nil .nil]),
      .while (.bin .lt (v "g") (lit 3)) (block [.assign "g" (.bin .add (v "g") (lit 1))]),
      .case (v "d")
        (.cons [.single { ty := none, v := 10 }] (block [.assign "b" (.blit true)])
          (.cons [.range { ty := none, v := 11 } { ty := none, v := 20 }]
            (block [.assign "b" (.bin .gt (.bin .div (v "d") (lit 2)) (lit 4))]) .nil))
        (block [.assign "b" (.blit false)])] }

/-- Stage S3, inside the guard: an array filled in a FOR loop, a computed subscript, struct fields.
```
ar : ARRAY[0..3] OF INT; sv : Rec0 (f0 : DINT; f1 : BOOL); i : INT; d : DINT := 2;
FOR i := INT#0 TO INT#3 DO ar[i] := i * INT#2; END_FOR;
sv.f0 := d + 5;
sv.f1 := ar[i - INT#1] = INT#6;
d := sv.f0 + DINT#1;
ar[-0] := ar[3];
```
-/
def s3Sample : Program :=
  { decls := [decl "i" (.int .int), decl "d" (.int .dint) 2],
    aggs := [("ar", .arr 0 3 (.int .int)), ("sv", .str "Rec0" [("f0", .int .dint), ("f1", .bool)])],
    body := block [
      .for "i" (.lit (some .int) 0) (.lit (some .int) 3) none (block [
        .assignIdx "ar" (v "i") (.bin .mul (v "i") (.lit (some .int) 2))]),
      .assignFld "sv" "f0" (.bin .add (v "d") (lit 5)),
      .assignFld "sv" "f1" (.bin .eq (.idx "ar" (.bin .sub (v "i") (.lit (some .int) 1))) (.lit (some .int) 6)),
      .assign "d" (.bin .add (.fld "sv" "f0") (.lit (some .dint) 1)),
      .assignIdx "ar" (.un .neg (.lit none 0)) (.idx "ar" (lit 3))] }

/-- Stage S3, inside the guard, one past the end: `FOR i := INT#0 TO INT#4 DO ar[i] := i; END_FOR;` -/
def s3OutOfBounds : Program :=
  { decls := [decl "i" (.int .int)],
    aggs := [("ar", .arr 0 3 (.int .int))],
    body := block [
      .for "i" (.lit (some .int) 0) (.lit (some .int) 4) none (block [.assignIdx "ar" (v "i") (v "i")])] }

/-- `u : ULINT := 9223372036854775807; x : DINT; ar : ARRAY[-2..2] OF DINT;
u := u * ULINT#2; ar[u] := DINT#7; x := ar[u];` -/
def indexUlintCast : Program :=
  { decls := [{ name := "u", ty := .int .ulint, init := 9223372036854775807, typedInit := true },
              decl "x" (.int .dint)],
    aggs := [("ar", .arr (-2) 2 (.int .dint))],
    body := block [.assign "u" (.bin .mul (v "u") (.lit (some .ulint) 2)),
      .assignIdx "ar" (v "u") (.lit (some .dint) 7),
      .assign "x" (.idx "ar" (v "u"))] }

/-- `p : Pt (x : INT; y : DINT); v : INT;  p.X := INT#5;  v := p.x + p.X;` — the field is named
with another spelling than its declaration. -/
def structFieldCase : Program :=
  { decls := [decl "v" (.int .int)],
    aggs := [("p", .str "Pt" [("x", .int .int), ("y", .int .dint)])],
    body := block [.assignFld "p" "X" (.lit (some .int) 5),
      .assign "v" (.bin .add (.fld "p" "x") (.fld "p" "X"))] }

def init (p : Program) : RunState := { store := p.initStore }

/-- Outcome and variables after the first cycle from the initial store. -/
def firstCycle (p : Program) : CycleOut × Env :=
  let r := cycle .real p 100 (init p)
  (r.2, r.1.store.vars)


/-! Stage S4 witnesses -/
open TrustVerif.StExt in
/-- `FUNCTION F0 : DINT VAR_INPUT pa0 : DINT := 5; END_VAR F0 := pa0; END_FUNCTION`
`PROGRAM P VAR d : DINT; END_VAR d := F0(); END_PROGRAM` -/
def callEmptyArgs : StExt.XProgram :=
  { funcs := [{ name := "F0", ret := .int .dint,
                params := [{ name := "pa0", ty := .int .dint, dir := .inp, default := some (.lit none 5) }],
                locals := [], body := .cons (.assign "F0" (.var "pa0")) .nil }],
    decls := [decl "d" (.int .dint)],
    body := .cons (.assign "d" (.call "F0" .nil)) .nil }

open TrustVerif.StExt in
/-- The same function called properly: `d := F0(pa0 := 7);` and `d := d + F0(8);` -/
def callSample : StExt.XProgram :=
  { callEmptyArgs with
    body := .cons (.assign "d" (.call "F0" (.cons (some "pa0") false (.lit none 7) .nil)))
      (.cons (.assign "d" (.bin .add (.var "d") (.call "F0" (.cons none false (.lit none 8) .nil)))) .nil) }

open TrustVerif.StExt in
/-- `FUNCTION F0 : DINT VAR_INPUT pa0 : DINT; END_VAR VAR lt0 : DINT := nosuch; END_VAR F0 := pa0; END_FUNCTION`
`PROGRAM P VAR d : DINT; END_VAR d := F0(pa0 := 1); END_PROGRAM` -/
def localInitUndefined : StExt.XProgram :=
  { funcs := [{ name := "F0", ret := .int .dint,
                params := [{ name := "pa0", ty := .int .dint, dir := .inp }],
                locals := [{ name := "lt0", ty := .int .dint, init := some (.var "nosuch") }],
                body := .cons (.assign "F0" (.var "pa0")) .nil }],
    decls := [decl "d" (.int .dint)],
    body := .cons (.assign "d" (.call "F0" (.cons (some "pa0") false (.lit none 1) .nil))) .nil }

open TrustVerif.StExt in
/-- `FUNCTION F0 : INT VAR_INPUT pa0 : INT; END_VAR VAR lt0 : INT := TRUE; END_VAR F0 := lt0; END_FUNCTION`
`PROGRAM P VAR d : INT; END_VAR d := F0(pa0 := INT#1); END_PROGRAM` -/
def localInitFamily : StExt.XProgram :=
  { funcs := [{ name := "F0", ret := .int .int,
                params := [{ name := "pa0", ty := .int .int, dir := .inp }],
                locals := [{ name := "lt0", ty := .int .int, init := some (.blit true) }],
                body := .cons (.assign "F0" (.var "lt0")) .nil }],
    decls := [decl "d" (.int .int)],
    body := .cons (.assign "d" (.call "F0" (.cons (some "pa0") false (.lit (some .int) 1) .nil))) .nil }

def firstXCycle (p : StExt.XProgram) : CycleOut × Env × Nat :=
  let r := StExt.xcycle p 100 { store := p.initStore }
  (r.2, r.1.store.vars, r.1.store.frames.length)

end TrustVerif.StCore.Wit
