import TrustVerif.Model.StCore

/-!
# C02 — the independent IEC reference for ST-core (`Spec`) and the guard `Strict`

`Spec` is written from `docs/specs/05-expressions.md`, `06-statements.md` and IEC 61131-3, **not**
from the Rust code: a *statically typed* big-step semantics over untagged values.

* result type of an arithmetic operator = the wider operand type of the same chain
  (SINT → INT → DINT → LINT, USINT → UINT → UDINT → ULINT; 05 §"Promotion Rules"); signed and
  unsigned operands are never mixed implicitly;
* an untyped integer literal takes the type of its context (the other operand, the assignment
  target, the FOR control variable, the CASE selector) and must fit it (05 §5.2.1);
* arithmetic is exact in ℤ followed by a range check of the result type (`overflow`);
  `/` truncates toward zero, `MOD` has the sign of the dividend, `/0` and `MOD 0` fault;
* `AND` / `OR` short-circuit (the property statement fixes the implementer-specific choice);
* FOR evaluates initial value, final value and increment once, tests before each iteration,
  faults on increment 0, and the control variable may not be assigned in the body (06 §9);
* `RETURN` in a PROGRAM is an early exit (06 §6);  EXIT/CONTINUE act on the innermost loop;
* stage S3: a one-dimensional array `ARRAY[lo..hi] OF T` has one element of type `T` per index
  in `lo..hi`, a subscript is any integer expression, a subscript outside the bounds is a fault
  (`indexOut`), a constant subscript outside the bounds is a static error; a struct has one
  component per declared field.  The reference keeps one slot per element / field
  (`elemName`, `fldName`); in `a[i] := e` the value is evaluated before the subscript.

`Strict` = `Spec.typed` plus the decidable guard that excludes exactly the region of the known
finding "untyped literal lowered to DINT, assignment stores the value as is" (NoDrift), the
`ULINT as i64` cast of FOR bounds.
-/
namespace TrustVerif.StCore

/-- Untagged value of the reference semantics. -/
inductive SV
  | b (v : Bool)
  | n (v : Int)
  deriving DecidableEq, Repr, Inhabited

def erase : Val → SV
  | .b v => .b v
  | .i _ v => .n v

abbrev SEnv := List (String × SV)

def eraseEnv (e : Env) : SEnv := e.map fun (x, v) => (x, erase v)

def slookup (x : String) : SEnv → Option SV
  | [] => none
  | (y, v) :: rest => if x = y then some v else slookup x rest

def sinsert (x : String) (v : SV) : SEnv → SEnv
  | [] => [(x, v)]
  | (y, w) :: rest => if x = y then (y, v) :: rest else (y, w) :: sinsert x v rest

/-- Faults of the reference semantics. -/
inductive SFault
  | divZero | modZero | overflow | forStepZero | budget | indexOut
  | stuck        -- the reference has no rule (ill-typed program); never reached from `Spec.typed`
  deriving DecidableEq, Repr, Inhabited

def SFault.name : SFault → String
  | .divZero => "DivisionByZero"
  | .modZero => "ModuloByZero"
  | .overflow => "Overflow"
  | .forStepZero => "ForStepZero"
  | .budget => "ExecutionTimeout"
  | .indexOut => "IndexOutOfBounds"
  | .stuck => "stuck"

namespace Spec

/-- Common type of two integer operands: the wider kind of the same chain. -/
def promote (a b : IKind) : Option IKind :=
  if a.signed = b.signed then some (if b.rank ≤ a.rank then a else b) else none

/-- An untyped literal, possibly negated: a constant whose type comes from the context. -/
def atomVal : Expr → Option Int
  | .lit none v => some v
  | .un .neg (.lit none v) => some (-v)
  | _ => none

/-- Static type of an expression that has one without context. -/
def infer (Γ : Ctx) : Expr → Option Ty
  | .lit none _ => none
  | .lit (some k) v => if k.inRange v then some (.int k) else none
  | .blit _ => some .bool
  | .var x => Γ.lookup x
  | .un .neg e =>
    match infer Γ e with
    | some (.int k) => if k.signed then some (.int k) else none
    | _ => none
  | .un .not e =>
    match infer Γ e with
    | some .bool => some .bool
    | _ => none
  | .bin op l r =>
    match op with
    | .add | .sub | .mul | .div | .mod =>
      match infer Γ l, infer Γ r with
      | some (.int a), some (.int b) => (promote a b).map Ty.int
      | some (.int a), none =>
        match atomVal r with
        | some m => if a.inRange m then some (.int a) else none
        | none => none
      | none, some (.int b) =>
        match atomVal l with
        | some m => if b.inRange m then some (.int b) else none
        | none => none
      | _, _ => none
    | .pow => none
    | .eq | .ne | .lt | .le | .gt | .ge =>
      match infer Γ l, infer Γ r with
      | some .bool, some .bool => if op = .eq ∨ op = .ne then some .bool else none
      | some (.int a), some (.int b) => if a.signed = b.signed then some .bool else none
      | some (.int a), none =>
        match atomVal r with
        | some m => if a.inRange m then some .bool else none
        | none => none
      | none, some (.int b) =>
        match atomVal l with
        | some m => if b.inRange m then some .bool else none
        | none => none
      | _, _ => none
    | .and | .or | .xor =>
      match infer Γ l, infer Γ r with
      | some .bool, some .bool => some .bool
      | _, _ => none
  | .idx a i =>
    match Γ.aggs.lookup a with
    | some (.arr lo hi t) =>
      match atomVal i with
      | some m => if lo ≤ m ∧ m ≤ hi then some t else none     -- constant subscript: checked statically
      | none =>
        match infer Γ i with
        | some (.int _) => some t
        | _ => none
    | _ => none
  | .fld s f =>
    -- identifiers are case-insensitive (IEC 61131-3 §6.1.2): `p.X` names the field `x`
    match Γ.aggs.lookup s with
    | some (.str _ fields) => (findFld fields f).map (·.2)
    | _ => none

/-- Exact integer arithmetic of the reference. -/
def arith (op : BinOp) (x y : Int) : Except SFault Int :=
  match op with
  | .add => pure (x + y)
  | .sub => pure (x - y)
  | .mul => pure (x * y)
  | .div => if y = 0 then .error .divZero else pure (Int.tdiv x y)
  | .mod => if y = 0 then .error .modZero else pure (Int.tmod x y)
  | _ => .error .stuck

def inType (k : IKind) (r : Int) : Except SFault SV :=
  if k.inRange r then pure (.n r) else .error .overflow

def compare (op : BinOp) (x y : Int) : Bool :=
  match op with
  | .eq => decide (x = y)
  | .ne => decide (x ≠ y)
  | .lt => decide (x < y)
  | .le => decide (x ≤ y)
  | .gt => decide (x > y)
  | .ge => decide (x ≥ y)
  | _ => false

def asInt : SV → Except SFault Int
  | .n v => pure v
  | .b _ => .error .stuck

def asBool : SV → Except SFault Bool
  | .b v => pure v
  | .n _ => .error .stuck

/-- Value of an operand: an expression with a type of its own, or a contextual constant. -/
def operand (ev : Expr → Except SFault SV) (e : Expr) : Except SFault Int :=
  match atomVal e with
  | some m => pure m
  | none => ev e >>= asInt

/-- Big-step evaluation of a well-typed expression (left operand first). -/
def eval (Γ : Ctx) (σ : SEnv) : Expr → Except SFault SV
  | .lit _ v => pure (.n v)
  | .blit v => pure (.b v)
  | .var x =>
    match slookup x σ with
    | some v => pure v
    | none => .error .stuck
  | .un .neg e =>
    match infer Γ e with
    | some (.int k) => do
      let v ← eval Γ σ e >>= asInt
      inType k (-v)
    | _ => .error .stuck
  | .un .not e => do
    let v ← eval Γ σ e >>= asBool
    pure (.b (!v))
  | .bin op l r =>
    match op with
    | .and => do
      let a ← eval Γ σ l >>= asBool
      if a = false then pure (.b false) else do
        let b ← eval Γ σ r >>= asBool
        pure (.b b)
    | .or => do
      let a ← eval Γ σ l >>= asBool
      if a = true then pure (.b true) else do
        let b ← eval Γ σ r >>= asBool
        pure (.b b)
    | .xor => do
      let a ← eval Γ σ l >>= asBool
      let b ← eval Γ σ r >>= asBool
      pure (.b (a != b))
    | .add | .sub | .mul | .div | .mod =>
      match infer Γ (.bin op l r) with
      | some (.int k) => do
        let x ← (match atomVal l with | some m => pure m | none => eval Γ σ l >>= asInt)
        let y ← (match atomVal r with | some m => pure m | none => eval Γ σ r >>= asInt)
        let z ← arith op x y
        inType k z
      | _ => .error .stuck
    | .pow => .error .stuck
    | .eq | .ne | .lt | .le | .gt | .ge =>
      match infer Γ l, infer Γ r with
      | some .bool, some .bool => do
        let a ← eval Γ σ l >>= asBool
        let b ← eval Γ σ r >>= asBool
        pure (.b (if op = .eq then a == b else a != b))
      | _, _ => do
        let x ← (match atomVal l with | some m => pure m | none => eval Γ σ l >>= asInt)
        let y ← (match atomVal r with | some m => pure m | none => eval Γ σ r >>= asInt)
        pure (.b (compare op x y))
  | .idx a i =>
    match Γ.aggs.lookup a with
    | some (.arr lo hi _) => do
      let n ← (match atomVal i with | some m => pure m | none => eval Γ σ i >>= asInt)
      if n < lo ∨ n > hi then .error .indexOut else
        match slookup (elemName a n) σ with
        | some v => pure v
        | none => .error .stuck
    | _ => .error .stuck
  | .fld s f =>
    match Γ.aggs.lookup s with
    | some (.str _ fields) =>
      match findFld fields f with
      | some (g, _) =>
        match slookup (fldName s g) σ with
        | some v => pure v
        | none => .error .stuck
      | none => .error .stuck
    | _ => .error .stuck

/-- Operand value: a contextual constant or an evaluated integer. -/
def operandVal (Γ : Ctx) (σ : SEnv) (e : Expr) : Except SFault Int :=
  match atomVal e with
  | some m => pure m
  | none => eval Γ σ e >>= asInt

/-- Value of the right-hand side of an assignment: a contextual constant or an evaluated expression. -/
def valueOf (Γ : Ctx) (σ : SEnv) (e : Expr) : Except SFault SV :=
  match atomVal e with
  | some m => pure (SV.n m)
  | none => eval Γ σ e

/-! ### Statements -/

/-- The source is assignment-compatible with a target of type `t`: a contextual constant that
fits, or an expression of the same type or of a narrower type of the same chain. -/
def assignTyped (Γ : Ctx) (t : Ty) (e : Expr) : Bool :=
  match atomVal e with
  | some m =>
    match t with
    | .int k => k.inRange m
    | .bool => false
  | none =>
    match infer Γ e, t with
    | some .bool, .bool => true
    | some (.int s), .int k => decide (s.signed = k.signed) && decide (s.rank ≤ k.rank)
    | _, _ => false

/-- A FOR bound for a control variable of kind `k`. -/
def boundTyped (Γ : Ctx) (k : IKind) (e : Expr) : Bool :=
  match atomVal e with
  | some m => k.inRange m
  | none => infer Γ e = some (.int k)

def labelLo : Label → Int
  | .single a => a.v
  | .range a _ => a.v

def labelHi : Label → Int
  | .single a => a.v
  | .range _ b => b.v

def LabLit.typed (k : IKind) (a : LabLit) : Bool :=
  k.inRange a.v &&
    match a.ty with
    | none => true
    | some t => decide (t.signed = k.signed) && decide (t.rank ≤ k.rank) && t.inRange a.v

def labelTyped (k : IKind) : Label → Bool
  | .single a => LabLit.typed k a
  | .range a b => LabLit.typed k a && LabLit.typed k b && decide (a.v ≤ b.v)

/-- Labels are pairwise disjoint (IEC: a value may select at most one statement list). -/
def disjointFrom (l : Label) (seen : List Label) : Bool :=
  seen.all fun s => decide (labelHi l < labelLo s) || decide (labelHi s < labelLo l)

def labelsTyped (k : IKind) : List Label → List Label → Option (List Label)
  | seen, [] => some seen
  | seen, l :: ls =>
    if labelTyped k l && disjointFrom l seen then labelsTyped k (l :: seen) ls else none

def simpleVar : Expr → List String
  | .var x => [x]
  | _ => []

mutual
def typedStmt (Γ : Ctx) (restricted : List String) (inLoop : Bool) : Stmt → Bool
  | .assign x e =>
    match Γ.lookup x with
    | some t => !restricted.contains x && assignTyped Γ t e
    | none => false
  | .assignIdx a i e =>
    match infer Γ (.idx a i) with
    | some t => assignTyped Γ t e
    | none => false
  | .assignFld s f e =>
    match infer Γ (.fld s f) with
    | some t => assignTyped Γ t e
    | none => false
  | .ite c t elifs el =>
    infer Γ c = some .bool && typedBlock Γ restricted inLoop t
      && typedElifs Γ restricted inLoop elifs && typedBlock Γ restricted inLoop el
  | .case sel brs el =>
    match infer Γ sel with
    | some (.int k) => (typedBranches Γ restricted inLoop k [] brs) && typedBlock Γ restricted inLoop el
    | _ => false
  | .for x s e step body =>
    match Γ.lookup x with
    | some (.int k) =>
      !restricted.contains x && boundTyped Γ k s && boundTyped Γ k e
        && (match step with | none => true | some st => boundTyped Γ k st)
        && typedBlock Γ (x :: simpleVar s ++ simpleVar e ++ restricted) true body
    | _ => false
  | .while c body => infer Γ c = some .bool && typedBlock Γ restricted true body
  | .repeat body c => infer Γ c = some .bool && typedBlock Γ restricted true body
  | .exit => inLoop
  | .continue => inLoop
  | .ret => true

def typedBlock (Γ : Ctx) (restricted : List String) (inLoop : Bool) : Block → Bool
  | .nil => true
  | .cons s rest => typedStmt Γ restricted inLoop s && typedBlock Γ restricted inLoop rest

def typedElifs (Γ : Ctx) (restricted : List String) (inLoop : Bool) : Elifs → Bool
  | .nil => true
  | .cons c b rest =>
    infer Γ c = some .bool && typedBlock Γ restricted inLoop b && typedElifs Γ restricted inLoop rest

def typedBranches (Γ : Ctx) (restricted : List String) (inLoop : Bool) (k : IKind) :
    List Label → Branches → Bool
  | _, .nil => true
  | seen, .cons ls b rest =>
    match labelsTyped k seen ls with
    | some seen' =>
      !ls.isEmpty && typedBlock Γ restricted inLoop b && typedBranches Γ restricted inLoop k seen' rest
    | none => false
end

abbrev SRes := SEnv × Except SFault Flow

def evalBool (Γ : Ctx) (σ : SEnv) (e : Expr) : Except SFault Bool := eval Γ σ e >>= asBool

/-- Value of a FOR bound. -/
def boundVal (Γ : Ctx) (σ : SEnv) (e : Expr) : Except SFault Int :=
  match atomVal e with
  | some m => pure m
  | none => eval Γ σ e >>= asInt

/-- Increment of a FOR statement (1 when `BY` is omitted). -/
def stepVal (Γ : Ctx) (σ : SEnv) (step : Option Expr) : Except SFault Int :=
  match step with
  | some se => boundVal Γ σ se
  | none => pure 1

/-- FOR prologue: initial value, final value and increment are evaluated once, in this order;
an increment of 0 is a fault. -/
def forPre (Γ : Ctx) (σ : SEnv) (s e : Expr) (step : Option Expr) : Except SFault (Int × Int × Int) := do
  let a ← boundVal Γ σ s
  let b ← boundVal Γ σ e
  let st ← stepVal Γ σ step
  if st = 0 then .error .forStepZero else pure (a, b, st)

def Label.selects (n : Int) (l : Label) : Bool := decide (labelLo l ≤ n) && decide (n ≤ labelHi l)

def select (n : Int) : Branches → Option Block
  | .nil => none
  | .cons ls b rest => if ls.any (Label.selects n) then some b else select n rest

mutual
/-- Big-step execution; `fuel` is the execution budget (same discipline as the implementation
model, so that "budget exhausted" is comparable). -/
def execStmt (Γ : Ctx) : Nat → SEnv → Stmt → SRes
  | 0, σ, _ => (σ, .error .budget)
  | fuel + 1, σ, s =>
    match s with
    | .assign x e =>
      match valueOf Γ σ e with
      | .ok v => (sinsert x v σ, .ok .cont)
      | .error f => (σ, .error f)
    | .assignIdx a i e =>
      match Γ.aggs.lookup a with
      | some (.arr lo hi _) =>
        match valueOf Γ σ e with
        | .error f => (σ, .error f)
        | .ok v =>
          match operandVal Γ σ i with
          | .error f => (σ, .error f)
          | .ok n =>
            if n < lo ∨ n > hi then (σ, .error .indexOut)
            else (sinsert (elemName a n) v σ, .ok .cont)
      | _ => (σ, .error .stuck)
    | .assignFld s f e =>
      match valueOf Γ σ e with
      | .ok v =>
        match Γ.aggs.lookup s with
        | some (.str _ fields) =>
          match findFld fields f with
          | some (g, _) => (sinsert (fldName s g) v σ, .ok .cont)
          | none => (σ, .error .stuck)
        | _ => (σ, .error .stuck)
      | .error f => (σ, .error f)
    | .ite c t elifs el =>
      match evalBool Γ σ c with
      | .ok true => execBlock Γ fuel σ t
      | .ok false => execElifs Γ fuel σ elifs el
      | .error f => (σ, .error f)
    | .case sel brs el =>
      match eval Γ σ sel >>= asInt with
      | .ok n =>
        match select n brs with
        | some b => execBlock Γ fuel σ b
        | none => execBlock Γ fuel σ el
      | .error f => (σ, .error f)
    | .for x s e step body =>
      match Γ.lookup x with
      | some (.int k) =>
        match forPre Γ σ s e step with
        | .ok (a, b, st) => forLoop Γ fuel (sinsert x (.n a) σ) x k a b st body
        | .error f => (σ, .error f)
      | _ => (σ, .error .stuck)
    | .while c body => whileLoop Γ fuel σ c body
    | .repeat body c => repeatLoop Γ fuel σ body c
    | .exit => (σ, .ok .exit)
    | .continue => (σ, .ok .loopCont)
    | .ret => (σ, .ok .ret)

def execBlock (Γ : Ctx) : Nat → SEnv → Block → SRes
  | 0, σ, _ => (σ, .error .budget)
  | _ + 1, σ, .nil => (σ, .ok .cont)
  | fuel + 1, σ, .cons s rest =>
    match execStmt Γ fuel σ s with
    | (σ', .ok .cont) => execBlock Γ fuel σ' rest
    | r => r

def execElifs (Γ : Ctx) : Nat → SEnv → Elifs → Block → SRes
  | 0, σ, _, _ => (σ, .error .budget)
  | fuel + 1, σ, .nil, el => execBlock Γ fuel σ el
  | fuel + 1, σ, .cons c b rest, el =>
    match evalBool Γ σ c with
    | .ok true => execBlock Γ fuel σ b
    | .ok false => execElifs Γ fuel σ rest el
    | .error f => (σ, .error f)

/-- FOR: the control variable takes the values `a, a+st, a+2·st, …` (arithmetic in its kind `k`,
fault on overflow); the test precedes each iteration. -/
def forLoop (Γ : Ctx) : Nat → SEnv → String → IKind → Int → Int → Int → Block → SRes
  | 0, σ, _, _, _, _, _, _ => (σ, .error .budget)
  | fuel + 1, σ, x, k, cur, fin, st, body =>
    if (st > 0 ∧ cur > fin) ∨ (st < 0 ∧ cur < fin) then (σ, .ok .cont) else
    match execBlock Γ fuel σ body with
    | (σ', .error f) => (σ', .error f)
    | (σ', .ok .exit) => (σ', .ok .cont)
    | (σ', .ok .ret) => (σ', .ok .ret)
    | (σ', .ok _) =>
      if k.inRange (cur + st) then forLoop Γ fuel (sinsert x (.n (cur + st)) σ') x k (cur + st) fin st body
      else (σ', .error .overflow)

def whileLoop (Γ : Ctx) : Nat → SEnv → Expr → Block → SRes
  | 0, σ, _, _ => (σ, .error .budget)
  | fuel + 1, σ, c, body =>
    match evalBool Γ σ c with
    | .error f => (σ, .error f)
    | .ok false => (σ, .ok .cont)
    | .ok true =>
      match execBlock Γ fuel σ body with
      | (σ', .error f) => (σ', .error f)
      | (σ', .ok .exit) => (σ', .ok .cont)
      | (σ', .ok .ret) => (σ', .ok .ret)
      | (σ', .ok _) => whileLoop Γ fuel σ' c body

def repeatLoop (Γ : Ctx) : Nat → SEnv → Block → Expr → SRes
  | 0, σ, _, _ => (σ, .error .budget)
  | fuel + 1, σ, body, c =>
    match execBlock Γ fuel σ body with
    | (σ', .error f) => (σ', .error f)
    | (σ', .ok .exit) => (σ', .ok .cont)
    | (σ', .ok .ret) => (σ', .ok .ret)
    | (σ', .ok _) =>
      match evalBool Γ σ' c with
      | .error f => (σ', .error f)
      | .ok true => (σ', .ok .cont)
      | .ok false => repeatLoop Γ fuel σ' body c
end

/-- A declaration of the reference: the initial value lies in the declared type. -/
def declTyped (d : VarDecl) : Bool :=
  match d.ty with
  | .bool => d.init = 0 || d.init = 1
  | .int k => k.inRange d.init

def distinct : List String → Bool
  | [] => true
  | x :: xs => !xs.contains x && distinct xs

/-- The slots of the aggregates are declared with the element / field types: no elementary
variable and no other aggregate occupies the name of an element or field slot.  (Always true of
a parsed program with distinct variable names — an identifier contains neither `[` nor `.` —
but the theorems quantify over syntax trees.) -/
def aggOK (Γ : Ctx) : Bool :=
  Γ.aggs.all fun (a, d) =>
    match d with
    | .arr lo hi t => (intRange lo hi).all fun n => Γ.lookup (elemName a n) == some t
    | .str _ fields => fields.all fun (f, t) => Γ.lookup (fldName a f) == some t

/-- The program belongs to the typed ST core of the reference. -/
def typed (p : Program) : Bool :=
  distinct (p.decls.map (·.name) ++ p.aggs.map (·.1)) && p.decls.all declTyped && aggOK p.ctx
    && typedBlock p.ctx [] false p.body

def initEnv (p : Program) : SEnv :=
  (p.decls.map fun d => (d.name, match d.ty with | .bool => SV.b (d.init != 0) | .int _ => SV.n d.init)) ++
  -- elements and fields start at the default initial value of their type (FALSE / 0)
  (aggSlots p.aggs).map fun (k, t) => (k, match t with | .bool => SV.b false | .int _ => SV.n 0)

/-- One scan cycle of the reference: the body runs to completion, to a RETURN (early exit) or
to a fault. -/
def cycle (p : Program) (fuel : Nat) (σ : SEnv) : SEnv × Option SFault :=
  match execBlock p.ctx fuel σ p.body with
  | (σ', .ok _) => (σ', none)
  | (σ', .error f) => (σ', some f)

def applyInputs (σ : SEnv) (ws : List (String × Val)) : SEnv :=
  ws.foldl (fun σ (x, v) => sinsert x (erase v) σ) σ

/-- Reference state after `n` cycles (meaningful as long as no cycle faulted). -/
def runFrom (p : Program) (fuel : Nat) (ins : Inputs) : Nat → SEnv → SEnv
  | 0, σ => σ
  | n + 1, σ => (cycle p fuel (applyInputs (runFrom p fuel ins n σ) (ins n))).1

def reportAt (p : Program) (fuel : Nat) (ins : Inputs) (n : Nat) (σ : SEnv) : Option SFault :=
  (cycle p fuel (applyInputs (runFrom p fuel ins n σ) (ins n))).2

end Spec

/-! ## The guard `Strict` -/

/-- The array's upper bound is below `i64::MAX`. -/
def arrHiOK (Γ : Ctx) (a : String) : Bool :=
  match Γ.aggs.lookup a with
  | some (.arr _ hi _) => decide (hi < 9223372036854775807)
  | _ => false

/-- NoDrift for expressions: wherever an untyped literal is an operand of an arithmetic
operator, the other operand's kind ranks at least DINT (so that the dynamically chosen
`wider_numeric` kind is the static result type), there is no `**`, and every untyped literal
survives the lowering. -/
def noDriftE (Γ : Ctx) : Expr → Bool
  | .lit none v => decide (0 ≤ v) && decide (v ≤ i32Max)
  | .lit (some _) v => decide (-i64Max ≤ v) && decide (v ≤ i64Max)   -- writable at all (literal parser: i64)
  | .blit _ => true
  | .var _ => true
  | .un _ e => noDriftE Γ e
  | .bin op l r =>
    noDriftE Γ l && noDriftE Γ r && op != .pow &&
      (if op.isArith then
        (match Spec.atomVal r, Spec.infer Γ l with
          | some _, some (.int a) => decide (IKind.dint.rank ≤ a.rank)
          | some _, _ => false
          | none, _ => true) &&
        (match Spec.atomVal l, Spec.infer Γ r with
          | some _, some (.int b) => decide (IKind.dint.rank ≤ b.rank)
          | some _, _ => false
          | none, _ => true)
      else true)
  | .idx a i =>
    -- a ULINT subscript above `i64::MAX` saturates to `i64::MAX` (`index_to_i64`, c336de3): out of
    -- bounds like in the reference unless the array's upper bound is `i64::MAX` itself
    noDriftE Γ i && (Spec.infer Γ i != some (.int .ulint) || arrHiOK Γ a)
  | .fld _ _ => true

/-- Strict assignment: exactly the declared type (no widening: the narrower tag would be stored),
a bare untyped constant only into DINT (it is lowered to DINT). -/
def strictAssign (Γ : Ctx) (t : Ty) (e : Expr) : Bool :=
  noDriftE Γ e &&
    match Spec.atomVal e with
    | some _ => t = .int .dint
    | none => Spec.infer Γ e = some t

def strictBound (Γ : Ctx) (e : Expr) : Bool := noDriftE Γ e

/-- A label literal can be written and lowered (`const_int_from_node`). -/
def strictLabLit (a : LabLit) : Bool :=
  match a.ty with
  | none => decide (-i32Max ≤ a.v) && decide (a.v ≤ i32Max)
  | some _ => decide (-i64Max ≤ a.v) && decide (a.v ≤ i64Max)

def strictLabel : Label → Bool
  | .single a => strictLabLit a
  | .range a b => strictLabLit a && strictLabLit b

mutual
def strictStmt (Γ : Ctx) : Stmt → Bool
  | .assign x e =>
    match Γ.lookup x with
    | some t => strictAssign Γ t e
    | none => false
  | .assignIdx a i e =>
    noDriftE Γ (.idx a i) &&
      match Spec.infer Γ (.idx a i) with
      | some t => strictAssign Γ t e
      | none => false
  | .assignFld s f e =>
    match Spec.infer Γ (.fld s f) with
    | some t => strictAssign Γ t e
    | none => false
  | .ite c t elifs el => noDriftE Γ c && strictBlock Γ t && strictElifs Γ elifs && strictBlock Γ el
  | .case sel brs el => noDriftE Γ sel && strictBranches Γ brs && strictBlock Γ el
  | .for x s e step body =>
    Γ.lookup x != some (.int .ulint) && strictBound Γ s && strictBound Γ e
      && (match step with | none => true | some st => strictBound Γ st) && strictBlock Γ body
  | .while c body => noDriftE Γ c && strictBlock Γ body
  | .repeat body c => strictBlock Γ body && noDriftE Γ c
  | .exit => true
  | .continue => true
  | .ret => true           -- RETURN in a PROGRAM: early exit (fixed in f3b5b76)

def strictBlock (Γ : Ctx) : Block → Bool
  | .nil => true
  | .cons s rest => strictStmt Γ s && strictBlock Γ rest

def strictElifs (Γ : Ctx) : Elifs → Bool
  | .nil => true
  | .cons c b rest => noDriftE Γ c && strictBlock Γ b && strictElifs Γ rest

def strictBranches (Γ : Ctx) : Branches → Bool
  | .nil => true
  | .cons ls b rest => ls.all strictLabel && strictBlock Γ b && strictBranches Γ rest
end

/-- The initialiser can be written and lowered: typed literals go through `i64`, untyped ones
through `i32` (`lower_literal`). -/
def strictDecl (d : VarDecl) : Bool :=
  match d.ty with
  | .bool => true
  | .int _ =>
    if d.typedInit then decide (-i64Max ≤ d.init) && decide (d.init ≤ i64Max)
    else decide (-i32Max ≤ d.init) && decide (d.init ≤ i32Max)

/-- The guard of the `_partial` theorems: the program is in the reference's typed core and
outside the region of the recorded findings. -/
def Strict (p : Program) : Bool :=
  Spec.typed p && strictBlock p.ctx p.body && p.decls.all strictDecl

end TrustVerif.StCore
