import TrustVerif.Model.StCore

/-!
# C03 — store typing: executable form of the invariant and the slot classifier of the oracle
-/
namespace TrustVerif.StCore

/-- `StoreWT Γ σ` as a Boolean: every declared variable holds a value whose runtime tag is the
declared type and whose magnitude lies in that type's range. -/
def envWT (Γ : Ctx) (e : Env) : Bool :=
  Γ.vars.all fun (x, t) =>
    match lookup x e with
    | some v => v.hasTy t
    | none => false

/-- What the oracle says about one storage slot. -/
inductive SlotClass
  | ok
  /-- an integer of another kind in an integer slot (`inRange` = it would fit the declared kind):
  the signature of the recorded finding "untyped literal lowered to DINT / value stored as is" -/
  | intKindDrift (declared stored : IKind) (inRange : Bool)
  /-- BOOL in an integer slot or an integer in a BOOL slot -/
  | family
  /-- right tag, magnitude outside the tag's range (impossible for a Rust carrier) -/
  | range
  | missing
  deriving DecidableEq, Repr

def slotClass (t : Ty) : Option Val → SlotClass
  | none => .missing
  | some (.b _) => if t = .bool then .ok else .family
  | some (.i k v) =>
    match t with
    | .bool => .family
    | .int d =>
      if k = d then (if k.inRange v then .ok else .range)
      else .intKindDrift d k (d.inRange v)

def SlotClass.sig : SlotClass → String
  | .ok => "ok"
  | .intKindDrift _ _ _ => "drift:int-kind"
  | .family => "family"
  | .range => "range"
  | .missing => "missing"

/-- First slot of the store that is not well typed, with its class. -/
def firstBadSlot (Γ : Ctx) (e : Env) : Option (String × SlotClass) :=
  Γ.vars.findSome? fun (x, t) =>
    let c := slotClass t (lookup x e)
    if c = .ok then none else some (x, c)

end TrustVerif.StCore
