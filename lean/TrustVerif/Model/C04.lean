/-
Model of the standard function blocks of trust-runtime (property C04).

Mirrors, function by function:
  crates/trust-runtime/src/stdlib/fbs/timers.rs    `Ton/Tof/Tp::step`, `normalize_duration`,
                                                   `elapsed_since`, `exec_ton/exec_tof/exec_tp`
  crates/trust-runtime/src/stdlib/fbs/counters.rs  `Ctu/Ctd/Ctud::step`, the six `counter_*!` macros,
                                                   `exec_ctu/exec_ctd/exec_ctud`
  crates/trust-runtime/src/stdlib/fbs/triggers.rs  `RTrig/FTrig::step`, `exec_r_trig/exec_f_trig`
  crates/trust-runtime/src/stdlib/fbs/bistable.rs  `Sr/Rs::step`, `exec_sr/exec_rs`
  crates/trust-runtime/src/stdlib/fbs/instance.rs  `read_bool`, `get_or_init_bool` (defaults)
  crates/trust-runtime/src/stdlib/fbs/state.rs     the hidden per-instance variables
  crates/trust-runtime/src/memory.rs               `set_instance_var/get_instance_var` (instance store)

Two routes are modelled:
  * the pub structs (`Ton::step(input, pt, delta)` ...), state = the struct's private fields;
  * the `exec_*` wrappers, state = the instance variables (`Q`, `ET`, `CV`, `__ST_*`), which
    REBUILD the timer structs from the instance variables on every call and store the *reported*
    (clamped) ET back.

`Spec` holds the history-level IEC 61131-3 definitions (closed forms over the sampled trace, "the
time between two calls is attributed to the input seen at the later call").

Durations are `i64` nanoseconds in Rust; here they are `Int`, and the places where the Rust code
performs a plain `+`/`-` on `i64` are reported by the `*Ovf` predicates (dev profile: panic).

Import-free (core Lean only) so that the driver links as a `lean_exe`.
-/
namespace TrustVerif.C04

def i64Max : Int := 9223372036854775807
def i64Min : Int := -9223372036854775808

/-- The exact result of an `i64` operation fits. -/
def inI64 (x : Int) : Bool := decide (i64Min ≤ x) && decide (x ≤ i64Max)

/-! ## Timers — pub structs -/

/-- One call `step(input, pt, delta)` of a timer struct. -/
structure TCall where
  inp : Bool
  pt : Int
  dt : Int
deriving Repr, DecidableEq

/-- `TimerOutput`. -/
structure TOut where
  q : Bool
  et : Int
deriving Repr, DecidableEq

/-- `normalize_duration`: negative presets count as zero. -/
def normPt (pt : Int) : Int := if pt < 0 then 0 else pt

/-- `struct Ton { et, q }`. -/
structure TonS where
  et : Int := 0
  q : Bool := false
deriving Repr, DecidableEq

/-- `Ton::step`.  The struct keeps the *unclamped* accumulator; only the reported ET is clamped. -/
def tonStep (s : TonS) (c : TCall) : TonS × TOut :=
  let pt := normPt c.pt
  let s1 : TonS :=
    if c.inp then { et := s.et + c.dt, q := decide (s.et + c.dt ≥ pt) }
    else { et := 0, q := false }
  (s1, { q := s1.q, et := if s1.et ≥ pt then pt else s1.et })

/-- The `i64` addition executed by `Ton::step` overflows (dev profile: panic). -/
def tonOvf (s : TonS) (c : TCall) : Bool := c.inp && !inI64 (s.et + c.dt)

/-- `struct Tof { et, q, prev_in, timing }`. -/
structure TofS where
  et : Int := 0
  q : Bool := false
  prevIn : Bool := false
  timing : Bool := false
deriving Repr, DecidableEq

/-- `Tof::step`. -/
def tofStep (s : TofS) (c : TCall) : TofS × TOut :=
  let pt := normPt c.pt
  let s1 : TofS :=
    if c.inp then { s with q := true, et := 0, timing := false }
    else
      -- `if self.prev_in { timing = true; et = 0 }`
      let timing := s.prevIn || s.timing
      let et0 := if s.prevIn then 0 else s.et
      if timing then
        if et0 + c.dt ≥ pt then { s with et := et0 + c.dt, q := false, timing := false }
        else { s with et := et0 + c.dt, q := true, timing := true }
      else { s with q := false, et := 0, timing := false }
  let s2 : TofS := { s1 with prevIn := c.inp }
  (s2, { q := s2.q, et := if s2.et ≥ pt then pt else s2.et })

def tofOvf (s : TofS) (c : TCall) : Bool :=
  !c.inp && (s.prevIn || s.timing) && !inI64 ((if s.prevIn then 0 else s.et) + c.dt)

/-- `struct Tp { et, q, prev_in, active }`. -/
structure TpS where
  et : Int := 0
  q : Bool := false
  prevIn : Bool := false
  active : Bool := false
deriving Repr, DecidableEq

/-- `Tp::step`.  A rising edge of IN is accepted only while no pulse is running
(`if rising && !self.active`): the pulse is not retriggerable. -/
def tpStep (s : TpS) (c : TCall) : TpS × TOut :=
  let pt := normPt c.pt
  let rising := !s.prevIn && c.inp
  let start := rising && !s.active
  let active0 := start || s.active
  let et0 := if start then 0 else s.et
  let s2 : TpS :=
    if active0 then
      if et0 + c.dt ≥ pt then { s with active := false, et := pt }
      else { s with active := true, et := et0 + c.dt }
    else { s with active := false, et := et0 }
  let s3 : TpS := { s2 with q := s2.active, prevIn := c.inp }
  (s3, { q := s3.q, et := if s3.active then s3.et else 0 })

def tpOvf (s : TpS) (c : TCall) : Bool :=
  ((!s.prevIn && c.inp && !s.active) || s.active) &&
    !inI64 ((if (!s.prevIn && c.inp && !s.active) = true then 0 else s.et) + c.dt)

/-! ## Timers — `exec_*` wrappers over instance variables -/

/-- One call of a timer instance through the runtime: inputs and `EvalContext.now`. -/
structure XCall where
  inp : Bool
  pt : Int
  now : Int
deriving Repr, DecidableEq

/-- The instance variables of a timer as the wrappers read them.  The defaults are the values the
readers substitute for an unset variable (`read_bool`: FALSE, `read_time_value`: ZERO,
`get_or_init_bool(.., false)`), `last = none` is an unset `__ST_LAST_TIME`
(`get_or_init_duration(.., ctx.now)`). -/
structure TimerInst where
  q : Bool := false
  et : Int := 0
  prevIn : Bool := false
  timing : Bool := false
  active : Bool := false
  last : Option Int := none
deriving Repr, DecidableEq

/-- `elapsed_since`: the delta handed to the struct (negative clock steps count as zero). -/
def elapsed (last : Option Int) (now : Int) : Int :=
  let d := now - last.getD now
  if d ≤ 0 then 0 else d

/-- The `i64` subtraction in `elapsed_since` overflows. -/
def elapsedOvf (last : Option Int) (now : Int) : Bool := !inI64 (now - last.getD now)

def XCall.toT (c : XCall) (last : Option Int) : TCall :=
  { inp := c.inp, pt := c.pt, dt := elapsed last c.now }

/-- `exec_ton`: `Ton { et: ET, q: Q }.step(..)`, then `Q := out.q`, `ET := out.et` (the clamped value). -/
def execTon (i : TimerInst) (c : XCall) : TimerInst × TOut :=
  let out := (tonStep { et := i.et, q := i.q } (c.toT i.last)).2
  ({ i with q := out.q, et := out.et, last := some c.now }, out)

def execTonOvf (i : TimerInst) (c : XCall) : Bool :=
  elapsedOvf i.last c.now || tonOvf { et := i.et, q := i.q } (c.toT i.last)

/-- `exec_tof`. -/
def execTof (i : TimerInst) (c : XCall) : TimerInst × TOut :=
  let r := tofStep { et := i.et, q := i.q, prevIn := i.prevIn, timing := i.timing } (c.toT i.last)
  ({ i with q := r.2.q, et := r.2.et, prevIn := r.1.prevIn, timing := r.1.timing, last := some c.now }, r.2)

def execTofOvf (i : TimerInst) (c : XCall) : Bool :=
  elapsedOvf i.last c.now ||
    tofOvf { et := i.et, q := i.q, prevIn := i.prevIn, timing := i.timing } (c.toT i.last)

/-- `exec_tp`. -/
def execTp (i : TimerInst) (c : XCall) : TimerInst × TOut :=
  let r := tpStep { et := i.et, q := i.q, prevIn := i.prevIn, active := i.active } (c.toT i.last)
  ({ i with q := r.2.q, et := r.2.et, prevIn := r.1.prevIn, active := r.1.active, last := some c.now }, r.2)

def execTpOvf (i : TimerInst) (c : XCall) : Bool :=
  elapsedOvf i.last c.now ||
    tpOvf { et := i.et, q := i.q, prevIn := i.prevIn, active := i.active } (c.toT i.last)

/-! ## Counters -/

/-- An integer kind of the runtime (`Value::SInt` … `Value::ULInt`): its range. -/
structure IntKind where
  lo : Int
  hi : Int
  signed : Bool
deriving Repr, DecidableEq

def IntKind.sint : IntKind := ⟨-128, 127, true⟩
def IntKind.int : IntKind := ⟨-32768, 32767, true⟩
def IntKind.dint : IntKind := ⟨-2147483648, 2147483647, true⟩
def IntKind.lint : IntKind := ⟨-9223372036854775808, 9223372036854775807, true⟩
def IntKind.usint : IntKind := ⟨0, 255, false⟩
def IntKind.uint : IntKind := ⟨0, 65535, false⟩
def IntKind.udint : IntKind := ⟨0, 4294967295, false⟩
def IntKind.ulint : IntKind := ⟨0, 18446744073709551615, false⟩

/-- All eight kinds the `exec_ct*` wrappers dispatch on. -/
def IntKind.all : List IntKind :=
  [.sint, .int, .dint, .lint, .usint, .uint, .udint, .ulint]

def IntKind.contains (k : IntKind) (v : Int) : Bool := decide (k.lo ≤ v) && decide (v ≤ k.hi)

/-- Counter state: `cv` (struct field / instance variable `CV`, unset ⇒ 0) and the edge memories
(`prev_cu`, `prev_cd` / `__ST_PREV_CU`, `__ST_PREV_CD`, unset ⇒ FALSE). -/
structure CState where
  cv : Int := 0
  prevCu : Bool := false
  prevCd : Bool := false
deriving Repr, DecidableEq

structure CtuCall where
  cu : Bool
  r : Bool
  pv : Int
deriving Repr, DecidableEq

structure CtdCall where
  cd : Bool
  ld : Bool
  pv : Int
deriving Repr, DecidableEq

structure CtudCall where
  cu : Bool
  cd : Bool
  r : Bool
  ld : Bool
  pv : Int
deriving Repr, DecidableEq

/-- `CounterOutput`. -/
structure COut where
  q : Bool
  cv : Int
deriving Repr, DecidableEq

/-- `CounterUpDownOutput`. -/
structure CudOut where
  qu : Bool
  qd : Bool
  cv : Int
deriving Repr, DecidableEq

/-- `Ctu::step` (kind `int`) and `counter_up_signed!/counter_up_unsigned!` in `exec_ctu`. -/
def ctuStep (k : IntKind) (s : CState) (c : CtuCall) : CState × COut :=
  let rising := c.cu && !s.prevCu
  let cv := if c.r then 0 else if rising && decide (s.cv < k.hi) then s.cv + 1 else s.cv
  ({ s with cv := cv, prevCu := c.cu }, { q := decide (cv ≥ c.pv), cv := cv })

/-- The down-count floor: `cv > <$ty>::MIN` (signed) / `cv > 0` (unsigned). -/
def IntKind.floor (k : IntKind) : Int := if k.signed then k.lo else 0

/-- `q = cv <= 0` (signed) / `q = cv == 0` (unsigned). -/
def IntKind.atZero (k : IntKind) (cv : Int) : Bool := if k.signed then decide (cv ≤ 0) else decide (cv = 0)

/-- `Ctd::step` and `counter_down_signed!/counter_down_unsigned!` in `exec_ctd`. -/
def ctdStep (k : IntKind) (s : CState) (c : CtdCall) : CState × COut :=
  let rising := c.cd && !s.prevCd
  let cv := if c.ld then c.pv else if rising && decide (s.cv > k.floor) then s.cv - 1 else s.cv
  ({ s with cv := cv, prevCd := c.cd }, { q := k.atZero cv, cv := cv })

/-- `Ctud::step` and `counter_up_down_signed!/counter_up_down_unsigned!` in `exec_ctud`. -/
def ctudStep (k : IntKind) (s : CState) (c : CtudCall) : CState × CudOut :=
  let risingCu := c.cu && !s.prevCu
  let risingCd := c.cd && !s.prevCd
  let cv :=
    if c.r then 0
    else if c.ld then c.pv
    else if !(risingCu && risingCd) then
      if risingCu && decide (s.cv < k.hi) then s.cv + 1
      else if risingCd && decide (s.cv > k.floor) then s.cv - 1
      else s.cv
    else s.cv
  ({ cv := cv, prevCu := c.cu, prevCd := c.cd },
   { qu := decide (cv ≥ c.pv), qd := k.atZero cv, cv := cv })

/-! ## Edge detectors and bistables -/

/-- `RTrig::step` / `exec_r_trig`: state = `prev` / `__ST_TRIG_M`. -/
def rtrigStep (m : Bool) (clk : Bool) : Bool × Bool := (clk, clk && !m)

/-- `FTrig::step` / `exec_f_trig`: the literal IEC body, `M := NOT CLK`. -/
def ftrigStep (m : Bool) (clk : Bool) : Bool × Bool := (!clk, !clk && !m)

/-- `Sr::step` / `exec_sr` (set dominant). -/
def srStep (q : Bool) (s1 r : Bool) : Bool := if s1 then true else if r then false else q

/-- `Rs::step` / `exec_rs` (reset dominant). -/
def rsStep (q : Bool) (s r1 : Bool) : Bool := if r1 then false else if s then true else q

/-! ## The instance store (`VariableStorage.instances`) and `execute_builtin` -/

/-- The variables of one FB instance (union over the ten kinds; a kind only touches its own). -/
structure Inst where
  timer : TimerInst := {}
  ctr : CState := {}
  cq : Bool := false      -- counter output `Q` / `QU`
  cqd : Bool := false     -- counter output `QD`
  m : Bool := false       -- `__ST_TRIG_M`
  tq : Bool := false      -- edge detector output `Q`
  q1 : Bool := false      -- bistable output `Q1`
deriving Repr, DecidableEq

/-- A call of `execute_builtin(ctx, instance, kind)` with the inputs found in the instance. -/
inductive Call where
  | ton (c : XCall)
  | tof (c : XCall)
  | tp (c : XCall)
  | ctu (k : IntKind) (c : CtuCall)
  | ctd (k : IntKind) (c : CtdCall)
  | ctud (k : IntKind) (c : CtudCall)
  | rtrig (clk : Bool)
  | ftrig (clk : Bool)
  | sr (s1 r : Bool)
  | rs (s r1 : Bool)
deriving Repr, DecidableEq

inductive Out where
  | timer (o : TOut)
  | ctr (o : COut)
  | ctud (o : CudOut)
  | bit (q : Bool)
deriving Repr, DecidableEq

/-- `execute_builtin` on the variables of one instance. -/
def execStep (i : Inst) : Call → Inst × Out
  | .ton c => let r := execTon i.timer c; ({ i with timer := r.1 }, .timer r.2)
  | .tof c => let r := execTof i.timer c; ({ i with timer := r.1 }, .timer r.2)
  | .tp c => let r := execTp i.timer c; ({ i with timer := r.1 }, .timer r.2)
  | .ctu k c => let r := ctuStep k i.ctr c; ({ i with ctr := r.1, cq := r.2.q }, .ctr r.2)
  | .ctd k c => let r := ctdStep k i.ctr c; ({ i with ctr := r.1, cq := r.2.q }, .ctr r.2)
  | .ctud k c =>
    let r := ctudStep k i.ctr c
    ({ i with ctr := r.1, cq := r.2.qu, cqd := r.2.qd }, .ctud r.2)
  | .rtrig clk => let r := rtrigStep i.m clk; ({ i with m := r.1, tq := r.2 }, .bit r.2)
  | .ftrig clk => let r := ftrigStep i.m clk; ({ i with m := r.1, tq := r.2 }, .bit r.2)
  | .sr s r => let q := srStep i.q1 s r; ({ i with q1 := q }, .bit q)
  | .rs s r => let q := rsStep i.q1 s r; ({ i with q1 := q }, .bit q)

/-- The wrapper panics on an `i64` overflow (dev profile). -/
def execOvf (i : Inst) : Call → Bool
  | .ton c => execTonOvf i.timer c
  | .tof c => execTofOvf i.timer c
  | .tp c => execTpOvf i.timer c
  | _ => false

/-- The instance store: instance ids are positions. -/
abbrev Store := List Inst

def Store.get (st : Store) (id : Nat) : Inst := st.getD id {}

/-- One FB call statement: only the addressed instance's variables are read and written. -/
def Store.call (st : Store) (id : Nat) (c : Call) : Store × Out :=
  let r := execStep (st.get id) c
  (st.set id r.1, r.2)

/-- A global trace: which instance is called with what, in execution order. -/
def Store.run (st : Store) (g : List (Nat × Call)) : Store :=
  g.foldl (fun s p => (s.call p.1 p.2).1) st

/-- The calls addressed to instance `j`, in order. -/
def subTrace (g : List (Nat × Call)) (j : Nat) : List Call :=
  (g.filter (fun p => p.1 == j)).map (·.2)

/-- An instance run alone. -/
def instRun (i : Inst) (tr : List Call) : Inst := tr.foldl (fun i c => (execStep i c).1) i

/-! ## Runs of the struct route -/

def tonRun (tr : List TCall) : TonS := tr.foldl (fun s c => (tonStep s c).1) {}
def tofRun (tr : List TCall) : TofS := tr.foldl (fun s c => (tofStep s c).1) {}
def tpRun (tr : List TCall) : TpS := tr.foldl (fun s c => (tpStep s c).1) {}
def ctuRun (k : IntKind) (tr : List CtuCall) : CState := tr.foldl (fun s c => (ctuStep k s c).1) {}
def ctdRun (k : IntKind) (tr : List CtdCall) : CState := tr.foldl (fun s c => (ctdStep k s c).1) {}
def ctudRun (k : IntKind) (tr : List CtudCall) : CState := tr.foldl (fun s c => (ctudStep k s c).1) {}
def rtrigRun (tr : List Bool) : Bool := tr.foldl (fun m c => (rtrigStep m c).1) false
def ftrigRun (tr : List Bool) : Bool := tr.foldl (fun m c => (ftrigStep m c).1) false
def srRun (tr : List (Bool × Bool)) : Bool := tr.foldl (fun q c => srStep q c.1 c.2) false
def rsRun (tr : List (Bool × Bool)) : Bool := tr.foldl (fun q c => rsStep q c.1 c.2) false

/-- Runs of the `exec_*` route on a fresh instance. -/
def execTonRun (tr : List XCall) : TimerInst := tr.foldl (fun i c => (execTon i c).1) {}
def execTofRun (tr : List XCall) : TimerInst := tr.foldl (fun i c => (execTof i c).1) {}
def execTpRun (tr : List XCall) : TimerInst := tr.foldl (fun i c => (execTp i c).1) {}

/-- The whole output sequence of a step function (one output per call). -/
def outputs {σ α β : Type} (step : σ → α → σ × β) : σ → List α → List β
  | _, [] => []
  | s, c :: tr => (step s c).2 :: outputs step (step s c).1 tr

/-- The non-empty prefixes of a trace, shortest first. -/
def prefixes {α : Type} : List α → List (List α)
  | [] => []
  | c :: tr => [c] :: (prefixes tr).map (c :: ·)

/-! ## Specification: IEC 61131-3 definitions over the sampled history

Histories are lists of calls, **most recent call first** (`h = c_k :: c_{k-1} :: … :: c_1`); the
`Spec.*` entry points take the trace in call order and reverse it. -/
namespace Spec

/-- Sum of the deltas of a run of calls. -/
def sumDt : List TCall → Int
  | [] => 0
  | c :: r => sumDt r + c.dt

/-- IN at the most recent call (FALSE before the first call). -/
def lastIn : List TCall → Bool
  | [] => false
  | c :: _ => c.inp

/-- TON: time accumulated over the maximal run of consecutive calls with IN = TRUE that ends at
the most recent call (each call contributes the time since the previous call). -/
def tonAcc : List TCall → Int
  | [] => 0
  | c :: h => if c.inp then tonAcc h + c.dt else 0

/-- TON at the most recent call: `Q ↔ IN ∧ acc ≥ PT`, `ET = min acc PT` (PT < 0 counts as 0). -/
def tonR : List TCall → TOut
  | [] => { q := false, et := 0 }
  | c :: h =>
    let acc := tonAcc (c :: h)
    { q := c.inp && decide (acc ≥ normPt c.pt), et := if acc ≥ normPt c.pt then normPt c.pt else acc }

def ton (tr : List TCall) : TOut := tonR tr.reverse

/-- TOF: the calls since IN was last TRUE (most recent first); `none` if IN has never been TRUE. -/
def sinceFall : List TCall → Option (List TCall)
  | [] => none
  | c :: h => if c.inp then some [] else (sinceFall h).map (c :: ·)

/-- At every call of the run the time accumulated since the fall was still below that call's PT. -/
def allBelow : List TCall → Bool
  | [] => true
  | c :: r => decide (sumDt (c :: r) < normPt c.pt) && allBelow r

/-- TOF at the most recent call.  Q is TRUE while IN is TRUE and, after IN fell, until the time
accumulated since the fall reaches PT.  ET counts that time, shows PT at the call on which it is
reached, and is zero otherwise (the runtime's documented diagram, docs/specs/08 §5: ET returns to
zero once the delay has expired). -/
def tofR (h : List TCall) : TOut :=
  match sinceFall h with
  | none => { q := false, et := 0 }
  | some [] => { q := true, et := 0 }
  | some (c :: r) =>
    if allBelow (c :: r) then { q := true, et := sumDt (c :: r) }
    else if allBelow r then { q := false, et := normPt c.pt }
    else { q := false, et := 0 }

def tof (tr : List TCall) : TOut := tofR tr.reverse

/-- TP (IEC, **non-retriggerable**): the time accumulated by the pulse that is running after the
calls `h`, if any.  A pulse starts on a rising edge of IN seen while no pulse is running; while it
runs IN is ignored; it ends at the first call at which its accumulated time reaches PT. -/
def tpRunning : List TCall → Option Int
  | [] => none
  | c :: h =>
    match tpRunning h with
    | some a => if a + c.dt ≥ normPt c.pt then none else some (a + c.dt)
    | none =>
      if c.inp && !lastIn h then (if c.dt ≥ normPt c.pt then none else some c.dt) else none

/-- TP at the most recent call: Q while a pulse runs, ET its accumulated time (zero otherwise). -/
def tpR (h : List TCall) : TOut :=
  match tpRunning h with
  | some a => { q := true, et := a }
  | none => { q := false, et := 0 }

def tp (tr : List TCall) : TOut := tpR tr.reverse

/-- A rising edge of IN arrives while a pulse is running somewhere in the history (the region in
which a retriggerable implementation would deviate; used to show that the traces covered by the
TP theorems include it). -/
def retriggered : List TCall → Bool
  | [] => false
  | c :: h => (c.inp && !lastIn h && (tpRunning h).isSome) || retriggered h

/-- The `exec_*` route sees clock values; the delta of a call is the time since the previous call
of the same instance (zero at the first call and when the clock steps back). -/
def lastNow : List XCall → Option Int
  | [] => none
  | c :: _ => some c.now

def toT : List XCall → List TCall
  | [] => []
  | c :: h => c.toT (lastNow h) :: toT h

/-- The clock of the instance is a non-negative `i64` and never steps back. -/
def clockOk : List XCall → Bool
  | [] => true
  | c :: h =>
    decide (0 ≤ c.now) && decide (c.now ≤ i64Max) && decide ((lastNow h).getD 0 ≤ c.now) && clockOk h

/-- PT does not rise between two consecutive calls with IN = TRUE (in particular: PT constant
during each timing run). -/
def ptSteady : List TCall → Bool
  | [] => true
  | [_] => true
  | c :: p :: h => (!(c.inp && p.inp) || decide (normPt c.pt ≤ normPt p.pt)) && ptSteady (p :: h)

/-- Entry points for the runtime route (traces of clock-stamped calls, in call order). -/
def tonX (tr : List XCall) : TOut := tonR (toT tr.reverse)
def tofX (tr : List XCall) : TOut := tofR (toT tr.reverse)
def tpX (tr : List XCall) : TOut := tpR (toT tr.reverse)
def steadyX (tr : List XCall) : Bool := ptSteady (toT tr.reverse)
def retriggeredX (tr : List XCall) : Bool := retriggered (toT tr.reverse)
def clockOkX (tr : List XCall) : Bool := clockOk tr.reverse
def retriggeredT (tr : List TCall) : Bool := retriggered tr.reverse

/-! ### Counters -/

def lastCu : List CtuCall → Bool
  | [] => false
  | c :: _ => c.cu

/-- Number of rising edges of CU since the most recent call with R = TRUE. -/
def risingSinceReset : List CtuCall → Int
  | [] => 0
  | c :: h => if c.r then 0 else risingSinceReset h + (if c.cu && !lastCu h then 1 else 0)

/-- CTU: `CV` = number of rising edges since the last reset, saturated at the type's maximum. -/
def ctuR (k : IntKind) : List CtuCall → COut
  | [] => { q := false, cv := 0 }
  | c :: h =>
    let n := risingSinceReset (c :: h)
    let cv := if n ≥ k.hi then k.hi else n
    { q := decide (cv ≥ c.pv), cv := cv }

def ctu (k : IntKind) (tr : List CtuCall) : COut := ctuR k tr.reverse

def lastCd : List CtdCall → Bool
  | [] => false
  | c :: _ => c.cd

/-- Value loaded by the most recent call with LD = TRUE (0 if there was none). -/
def loaded : List CtdCall → Int
  | [] => 0
  | c :: h => if c.ld then c.pv else loaded h

/-- Number of rising edges of CD since the most recent load. -/
def risingSinceLoad : List CtdCall → Int
  | [] => 0
  | c :: h => if c.ld then 0 else risingSinceLoad h + (if c.cd && !lastCd h then 1 else 0)

/-- CTD: `CV` = loaded value minus the rising edges since the load, saturated at the minimum. -/
def ctdR (k : IntKind) : List CtdCall → COut
  | [] => { q := true, cv := 0 }
  | c :: h =>
    let x := loaded (c :: h) - risingSinceLoad (c :: h)
    let cv := if x ≤ k.lo then k.lo else x
    { q := decide (cv ≤ 0), cv := cv }

def ctd (k : IntKind) (tr : List CtdCall) : COut := ctdR k tr.reverse

/-- Saturation = exact arithmetic followed by clamping into the type's range. -/
def clamp (k : IntKind) (x : Int) : Int := if x < k.lo then k.lo else if x > k.hi then k.hi else x

def lastCuUd : List CtudCall → Bool
  | [] => false
  | c :: _ => c.cu

def lastCdUd : List CtudCall → Bool
  | [] => false
  | c :: _ => c.cd

/-- CTUD (IEC body over exact integers, clamped): R wins over LD; simultaneous rising edges of CU
and CD cancel; otherwise a rising CU adds one, a rising CD subtracts one. -/
def ctudCv (k : IntKind) : List CtudCall → Int
  | [] => 0
  | c :: h =>
    let up := c.cu && !lastCuUd h
    let down := c.cd && !lastCdUd h
    if c.r then 0
    else if c.ld then c.pv
    else if up && !down then clamp k (ctudCv k h + 1)
    else if down && !up then clamp k (ctudCv k h - 1)
    else ctudCv k h

def ctudR (k : IntKind) : List CtudCall → CudOut
  | [] => { qu := true, qd := true, cv := 0 }
  | c :: h =>
    let cv := ctudCv k (c :: h)
    { qu := decide (cv ≥ c.pv), qd := decide (cv ≤ 0), cv := cv }

def ctud (k : IntKind) (tr : List CtudCall) : CudOut := ctudR k tr.reverse

/-! ### Edge detectors and bistables -/

/-- R_TRIG: `Q_k = CLK_k ∧ ¬CLK_{k-1}`, with `CLK_0 = FALSE`. -/
def rtrigR : List Bool → Bool
  | [] => false
  | c :: h => c && !(h.headD false)

def rtrig (tr : List Bool) : Bool := rtrigR tr.reverse

/-- F_TRIG: `Q_k = ¬CLK_k ∧ CLK_{k-1}`, with `CLK_0 = TRUE` (the IEC body with `M` initially FALSE:
the block fires on a first call with CLK = FALSE; docs/specs/08 §3). -/
def ftrigR : List Bool → Bool
  | [] => false
  | c :: h => !c && h.headD true

def ftrig (tr : List Bool) : Bool := ftrigR tr.reverse

/-- SR: `Q1_k = S1_k ∨ (¬R_k ∧ Q1_{k-1})`, `Q1_0 = FALSE`. -/
def srR : List (Bool × Bool) → Bool
  | [] => false
  | c :: h => c.1 || (!c.2 && srR h)

def sr (tr : List (Bool × Bool)) : Bool := srR tr.reverse

/-- RS: `Q1_k = ¬R1_k ∧ (S_k ∨ Q1_{k-1})`, `Q1_0 = FALSE`. -/
def rsR : List (Bool × Bool) → Bool
  | [] => false
  | c :: h => !c.2 && (c.1 || rsR h)

def rs (tr : List (Bool × Bool)) : Bool := rsR tr.reverse

end Spec

/-! ## The recorded witness of the (fixed) finding C04-tp-retrigger, kept as a regression case -/

/-- PT = 10; IN rises at call 1, falls at call 2 and rises again at call 3, inside the pulse. -/
def tpWitness : List TCall :=
  [⟨true, 10, 0⟩, ⟨false, 10, 4⟩, ⟨true, 10, 4⟩, ⟨true, 10, 4⟩, ⟨true, 10, 4⟩, ⟨true, 10, 4⟩]

/-- The same trace as the runtime sees it (clock values instead of deltas). -/
def tpWitnessX : List XCall :=
  [⟨true, 10, 0⟩, ⟨false, 10, 4⟩, ⟨true, 10, 8⟩, ⟨true, 10, 12⟩, ⟨true, 10, 16⟩, ⟨true, 10, 20⟩]

end TrustVerif.C04
