/-
Model for property C05 (deterministic, reproducible compilation and execution).

The only source of process-randomness in the anchored code is the iteration order of
`std::collections::HashMap/HashSet` (`RandomState` is seeded per process and per map).  This file
models

  1. a hash map whose *internal order is a parameter* (`Layout`): an association list with
     distinct keys that an arbitrary, step-dependent permutation re-arranges after every mutation
     (random placement, rehash on growth);
  2. *lookup-only client code* as a free monad `Prog` over the operations
     `get / insert / remove / len` (Rust: `get`, `get_mut`, `contains`, `contains_key`, `insert`,
     `entry(..).or_insert_with`, `remove`, `len`, `is_empty`), over a family of maps;
  3. the Rust functions of the bytecode encoder that keep such maps, written in that monad:
       crates/trust-runtime/src/bytecode/encoder/mod.rs    `StringInterner::{intern,into_table}`,
                                                          `PouIdMap::{build,alloc,program_id,
                                                          function_block_id,function_id,class_id,
                                                          class_like_id,method_id}`
       crates/trust-runtime/src/bytecode/encoder/pou.rs    `method_table_for` (vtable layout with the
                                                          `method_tables` cache and the local
                                                          `name_to_slot` map),
                                                          the emission order of
                                                          `build_pou_index_and_bodies`
       crates/trust-runtime/src/bytecode/encoder/locals.rs `alloc_for_temp_pairs`, `unique_temp_name`
                                                          (the `used` HashSet)
       crates/trust-runtime/src/bytecode/encoder/types.rs  `type_index`, `collect_decl_types` (`type_map`)
       crates/trust-runtime/src/bytecode/encoder/refs.rs   `ref_index_for` (`ref_map` + `strings`)
       crates/trust-runtime/src/bytecode/encoder/debug.rs  `file_path_index` (`file_path_indices` +
                                                          `debug_strings`)
       crates/trust-runtime/src/harness/build.rs           the four duplicate-name `HashSet`s
       crates/trust-runtime/src/io.rs                      `IoInterface::{read,write}` on `hierarchical`
       crates/trust-runtime/src/harness/config.rs          the reviewed loop of
                                                          `apply_program_retain_overrides`
  4. the classification `orderFree` of the operations the translator finds applied to hash-typed
     bindings (`Generated/HashUses.lean`);
  5. the executable statement of the property on observed process outputs (`agree`), and the
     trace semantics used to lift per-cycle environment independence to whole traces.

Import-free (core Lean only) so that the driver links as a `lean_exe`.
-/
namespace TrustVerif.C05

/-! ## 1. Hash maps with arbitrary internal order -/

section Maps
variable {ι κ ν α β : Type}

/-- `HashMap::get` on the bucket list: first pair with the key. -/
def lookup [DecidableEq κ] (k : κ) : List (κ × ν) → Option ν
  | [] => none
  | (k', v) :: m => if k' = k then some v else lookup k m

/-- All pairs except those with key `k` (`HashMap::remove`, and the first half of `insert`). -/
def eraseKey [DecidableEq κ] (k : κ) (m : List (κ × ν)) : List (κ × ν) :=
  m.filter (fun p => !decide (p.1 = k))

/-- The internal order of a hash table: after the `n`-th mutation the table may be re-arranged by
any permutation whatsoever (`RandomState`, growth, memory layout).  Nothing else is assumed. -/
structure Layout (κ ν : Type) where
  shuffle : Nat → List (κ × ν) → List (κ × ν)
  perm : ∀ n l, (shuffle n l).Perm l

/-- Insertion order is kept (what an `IndexMap` does). -/
def Layout.keep : Layout κ ν := ⟨fun _ l => l, fun _ _ => List.Perm.refl _⟩

/-- Every mutation reverses the table. -/
def Layout.flip : Layout κ ν := ⟨fun _ l => l.reverse, fun _ l => List.reverse_perm l⟩

/-- Rotate by a step-dependent amount. -/
def Layout.spin (seed : Nat) : Layout κ ν :=
  ⟨fun n l => l.drop ((seed + 7 * n) % (l.length + 1)) ++ l.take ((seed + 7 * n) % (l.length + 1)),
   fun n l => by
    have h := List.perm_append_comm (l₁ := l.drop ((seed + 7 * n) % (l.length + 1)))
      (l₂ := l.take ((seed + 7 * n) % (l.length + 1)))
    rw [List.take_append_drop] at h
    exact h⟩

/-- A family of hash tables indexed by `ι` plus the mutation counter fed to the layout. -/
structure Heap (ι κ ν : Type) where
  tbl : ι → List (κ × ν)
  step : Nat

def Heap.empty : Heap ι κ ν := ⟨fun _ => [], 0⟩

def Heap.set [DecidableEq ι] (h : Heap ι κ ν) (i : ι) (l : List (κ × ν)) : Heap ι κ ν :=
  ⟨fun j => if j = i then l else h.tbl j, h.step + 1⟩

/-- Client code whose only access to the maps is through order-free operations.  The
continuations are arbitrary Lean functions, so this captures every terminating deterministic
computation over `get/insert/remove/len` results. -/
inductive Prog (ι κ ν : Type) (α : Type) : Type where
  | ret : α → Prog ι κ ν α
  /-- `map.get(k)` / `contains_key` / `contains` / `get_mut` (read part) -/
  | get : ι → κ → (Option ν → Prog ι κ ν α) → Prog ι κ ν α
  /-- `map.insert(k, v)`: returns the previous value -/
  | insert : ι → κ → ν → (Option ν → Prog ι κ ν α) → Prog ι κ ν α
  /-- `map.remove(k)` -/
  | remove : ι → κ → (Option ν → Prog ι κ ν α) → Prog ι κ ν α
  /-- `map.len()` / `is_empty` -/
  | len : ι → (Nat → Prog ι κ ν α) → Prog ι κ ν α

def Prog.bind : Prog ι κ ν α → (α → Prog ι κ ν β) → Prog ι κ ν β
  | .ret a, f => f a
  | .get i k c, f => .get i k (fun o => (c o).bind f)
  | .insert i k v c, f => .insert i k v (fun o => (c o).bind f)
  | .remove i k c, f => .remove i k (fun o => (c o).bind f)
  | .len i c, f => .len i (fun n => (c n).bind f)

instance : Monad (Prog ι κ ν) where
  pure := .ret
  bind := Prog.bind

def Prog.getM (i : ι) (k : κ) : Prog ι κ ν (Option ν) := .get i k .ret
def Prog.insertM (i : ι) (k : κ) (v : ν) : Prog ι κ ν (Option ν) := .insert i k v .ret
def Prog.removeM (i : ι) (k : κ) : Prog ι κ ν (Option ν) := .remove i k .ret
def Prog.lenM (i : ι) : Prog ι κ ν Nat := .len i .ret
/-- `map.contains_key(k)` / `set.contains(k)` -/
def Prog.containsM (i : ι) (k : κ) : Prog ι κ ν Bool := .get i k (fun o => .ret o.isSome)
/-- `map.entry(k).or_insert_with(|| v)` -/
def Prog.entryOrInsertM (i : ι) (k : κ) (v : ν) : Prog ι κ ν Unit :=
  .get i k (fun o => match o with
    | some _ => .ret ()
    | none => .insert i k v (fun _ => .ret ()))

/-- Execute client code on hash tables laid out by `L`. -/
def run [DecidableEq ι] [DecidableEq κ] (L : Layout κ ν) :
    Prog ι κ ν α → Heap ι κ ν → α × Heap ι κ ν
  | .ret a, h => (a, h)
  | .get i k c, h => run L (c (lookup k (h.tbl i))) h
  | .insert i k v c, h =>
    run L (c (lookup k (h.tbl i))) (h.set i (L.shuffle h.step ((k, v) :: eraseKey k (h.tbl i))))
  | .remove i k c, h =>
    run L (c (lookup k (h.tbl i))) (h.set i (L.shuffle h.step (eraseKey k (h.tbl i))))
  | .len i c, h => run L (c (h.tbl i).length) h

/-- Result of client code started on empty maps. -/
def exec [DecidableEq ι] [DecidableEq κ] (L : Layout κ ν) (p : Prog ι κ ν α) : α :=
  (run L p Heap.empty).1

/-- Order-free reference semantics: the maps are *functions* `key → Option value` together with
their sizes.  Nothing in this state has an order, so nothing computed from it can depend on one. -/
structure AMap (ι κ ν : Type) where
  f : ι → κ → Option ν
  n : ι → Nat

def AMap.empty : AMap ι κ ν := ⟨fun _ _ => none, fun _ => 0⟩

def AMap.put [DecidableEq ι] [DecidableEq κ] (a : AMap ι κ ν) (i : ι) (k : κ) (v : Option ν) (n : Nat) :
    AMap ι κ ν :=
  ⟨fun j k' => if j = i then (if k = k' then v else a.f j k') else a.f j k',
   fun j => if j = i then n else a.n j⟩

/-- Denotation of client code over the order-free maps. -/
def den [DecidableEq ι] [DecidableEq κ] : Prog ι κ ν α → AMap ι κ ν → α × AMap ι κ ν
  | .ret a, m => (a, m)
  | .get i k c, m => den (c (m.f i k)) m
  | .insert i k v c, m =>
    den (c (m.f i k)) (m.put i k (some v) (if (m.f i k).isSome then m.n i else m.n i + 1))
  | .remove i k c, m =>
    den (c (m.f i k)) (m.put i k none (if (m.f i k).isSome then m.n i - 1 else m.n i))
  | .len i c, m => den (c (m.n i)) m

/-- Abstraction of a concrete heap of hash tables. -/
def Heap.abs [DecidableEq κ] (h : Heap ι κ ν) : AMap ι κ ν :=
  ⟨fun i k => lookup k (h.tbl i), fun i => (h.tbl i).length⟩

/-- Client code that may additionally *iterate* (`iter`, `keys`, `values`, `drain`, `for … in`):
the continuation sees the table in its internal order. -/
inductive ProgI (ι κ ν : Type) (α : Type) : Type where
  | ret : α → ProgI ι κ ν α
  | insert : ι → κ → ν → (Option ν → ProgI ι κ ν α) → ProgI ι κ ν α
  | iter : ι → (List (κ × ν) → ProgI ι κ ν α) → ProgI ι κ ν α

def runI [DecidableEq ι] [DecidableEq κ] (L : Layout κ ν) :
    ProgI ι κ ν α → Heap ι κ ν → α
  | .ret a, _ => a
  | .insert i k v c, h =>
    runI L (c (lookup k (h.tbl i))) (h.set i (L.shuffle h.step ((k, v) :: eraseKey k (h.tbl i))))
  | .iter i c, h => runI L (c (h.tbl i)) h

end Maps

/-! ## 2. `StringInterner` (encoder/mod.rs:52-75) -/

section Interner
variable {σ : Type}

/-- `StringInterner::intern`: `entries` is the `Vec`, the map `()` is `index`. -/
def internP (entries : List σ) (value : σ) : Prog Unit σ Nat (Nat × List σ) :=
  .get () value fun
    | some idx => .ret (idx, entries)
    | none =>
      let idx := entries.length
      .insert () value idx fun _ => .ret (idx, entries ++ [value])

/-- A sequence of `intern` calls; returns the indices handed out and the final `entries`
(`into_table`). -/
def internAllP : List σ → List σ → Prog Unit σ Nat (List Nat × List σ)
  | entries, [] => .ret ([], entries)
  | entries, r :: rs =>
    (internP entries r).bind fun (i, entries') =>
      (internAllP entries' rs).bind fun (is, final) => .ret (i :: is, final)

/-- Position of the first occurrence. -/
def idxOf? [DecidableEq σ] (x : σ) : List σ → Option Nat
  | [] => none
  | y :: ys => if y = x then some 0 else (idxOf? x ys).map (· + 1)

/-- Specification: distinct requests in first-seen order, continuing from `acc`. -/
def dedupFrom [DecidableEq σ] : List σ → List σ → List σ
  | acc, [] => acc
  | acc, r :: rs => if r ∈ acc then dedupFrom acc rs else dedupFrom (acc ++ [r]) rs

/-- Distinct requests in first-seen order. -/
def dedupFirstSeen [DecidableEq σ] (reqs : List σ) : List σ := dedupFrom [] reqs

end Interner

/-! ## 3. `PouIdMap` (encoder/mod.rs:92-184) and the POU emission order (encoder/pou.rs) -/

inductive PouMap | programs | functionBlocks | functions | classes | methods
deriving DecidableEq, Repr

def u32Max : Nat := 4294967295

/-- `PouIdMap::alloc`: `next_id.saturating_add(1)` on `u32`. -/
def allocId (next : Nat) : Nat × Nat := (next, if next + 1 > u32Max then u32Max else next + 1)

/-- Keys: `(owner, name)` after `normalize_name`; the owner is `""` for the four name maps. -/
abbrev PouKey := String × String

/-- `for name in xs.keys() { let key = normalize_name(name); let id = map.alloc(); m.insert(key, id) }` -/
def insertNamesP (norm : String → String) (m : PouMap) :
    List String → Nat → Prog PouMap PouKey Nat Nat
  | [], next => .ret next
  | n :: ns, next =>
    let (id, next') := allocId next
    .insert m ("", norm n) id fun _ => insertNamesP norm m ns next'

/-- `for method in &def.methods { MethodKey::new(owner, &method.name) … }` -/
def insertMethodsP (norm : String → String) (owner : String) :
    List String → Nat → Prog PouMap PouKey Nat Nat
  | [], next => .ret next
  | n :: ns, next =>
    let (id, next') := allocId next
    .insert .methods (norm owner, norm n) id fun _ => insertMethodsP norm owner ns next'

def insertOwnersP (norm : String → String) :
    List (String × List String) → Nat → Prog PouMap PouKey Nat Nat
  | [], next => .ret next
  | (owner, ms) :: rest, next =>
    (insertMethodsP norm owner ms next).bind fun next' => insertOwnersP norm rest next'

/-- What `PouIdMap::build` reads from the runtime: the keys of the four `IndexMap`s in their
iteration order, and the method names of every function block / class. -/
structure PouNames where
  programs : List String
  functionBlocks : List (String × List String)
  functions : List String
  classes : List (String × List String)
deriving Repr

/-- `PouIdMap::build`. -/
def buildP (norm : String → String) (r : PouNames) : Prog PouMap PouKey Nat Nat :=
  (insertNamesP norm .programs r.programs 0).bind fun n1 =>
  (insertNamesP norm .functionBlocks (r.functionBlocks.map (·.1)) n1).bind fun n2 =>
  (insertNamesP norm .functions r.functions n2).bind fun n3 =>
  (insertNamesP norm .classes (r.classes.map (·.1)) n3).bind fun n4 =>
  (insertOwnersP norm r.functionBlocks n4).bind fun n5 =>
  insertOwnersP norm r.classes n5

/-- `program_id`, `function_block_id`, `function_id`, `class_id`. -/
def nameIdP (norm : String → String) (m : PouMap) (name : String) : Prog PouMap PouKey Nat (Option Nat) :=
  .get m ("", norm name) .ret

/-- `method_id`. -/
def methodIdP (norm : String → String) (owner name : String) : Prog PouMap PouKey Nat (Option Nat) :=
  .get .methods (norm owner, norm name) .ret

/-- `class_like_id`: `function_block_id(name).or_else(|| class_id(name))`. -/
def classLikeIdP (norm : String → String) (name : String) : Prog PouMap PouKey Nat (Option Nat) :=
  .get .functionBlocks ("", norm name) fun
    | some id => .ret (some id)
    | none => .get .classes ("", norm name) .ret

/-- One row of the emitted POU index: kind (0 program, 1 function block, 2 function, 3 class,
4 method as in `PouKind`), name, id, owner id. -/
structure PouRow where
  kind : Nat
  name : String
  id : Option Nat
  owner : Option Nat
deriving Repr, DecidableEq

def rowsNamesP (norm : String → String) (kind : Nat) (m : PouMap) :
    List String → Prog PouMap PouKey Nat (List PouRow)
  | [] => .ret []
  | n :: ns =>
    (nameIdP norm m n).bind fun id =>
    (rowsNamesP norm kind m ns).bind fun rest => .ret (⟨kind, n, id, none⟩ :: rest)

def rowsMethodsP (norm : String → String) (ownerMap : PouMap) (owner : String) :
    List String → Prog PouMap PouKey Nat (List PouRow)
  | [] => .ret []
  | n :: ns =>
    (nameIdP norm ownerMap owner).bind fun oid =>
    (methodIdP norm owner n).bind fun id =>
    (rowsMethodsP norm ownerMap owner ns).bind fun rest => .ret (⟨4, n, id, oid⟩ :: rest)

def rowsOwnersP (norm : String → String) (ownerMap : PouMap) :
    List (String × List String) → Prog PouMap PouKey Nat (List PouRow)
  | [] => .ret []
  | (owner, ms) :: rest =>
    (rowsMethodsP norm ownerMap owner ms).bind fun a =>
    (rowsOwnersP norm ownerMap rest).bind fun b => .ret (a ++ b)

/-- The order and ids of `build_pou_index_and_bodies`: programs, function blocks, functions,
classes, function-block methods, class methods, each in `IndexMap` order, ids by lookup. -/
def pouIndexP (norm : String → String) (r : PouNames) : Prog PouMap PouKey Nat (List PouRow) :=
  (buildP norm r).bind fun _ =>
  (rowsNamesP norm 0 .programs r.programs).bind fun a =>
  (rowsNamesP norm 1 .functionBlocks (r.functionBlocks.map (·.1))).bind fun b =>
  (rowsNamesP norm 2 .functions r.functions).bind fun c =>
  (rowsNamesP norm 3 .classes (r.classes.map (·.1))).bind fun d =>
  (rowsOwnersP norm .functionBlocks r.functionBlocks).bind fun e =>
  (rowsOwnersP norm .classes r.classes).bind fun f => .ret (a ++ b ++ c ++ d ++ e ++ f)

/-- Allocation order of `PouIdMap::build`: one `(map, key)` pair per `alloc()`, in the order the
ids are handed out. -/
def allKeys (norm : String → String) (r : PouNames) : List (PouMap × PouKey) :=
  r.programs.map (fun n => (PouMap.programs, ("", norm n))) ++
  r.functionBlocks.map (fun o => (PouMap.functionBlocks, ("", norm o.1))) ++
  r.functions.map (fun n => (PouMap.functions, ("", norm n))) ++
  r.classes.map (fun o => (PouMap.classes, ("", norm o.1))) ++
  r.functionBlocks.flatMap (fun o => o.2.map fun n => (PouMap.methods, (norm o.1, norm n))) ++
  r.classes.flatMap (fun o => o.2.map fun n => (PouMap.methods, (norm o.1, norm n)))

/-- Generic form of the six insertion loops: keys get consecutive ids. -/
def insertAllP : List (PouMap × PouKey) → Nat → Prog PouMap PouKey Nat Nat
  | [], next => .ret next
  | (m, k) :: ks, next =>
    let (id, next') := allocId next
    .insert m k id fun _ => insertAllP ks next'

/-- Specification of the emitted POU index: the emission order of
`build_pou_index_and_bodies` (programs, function blocks, functions, classes, function-block
methods, class methods; each in `IndexMap` order) with ids supplied by `id`. -/
def rowsPure (norm : String → String) (r : PouNames) (id : PouMap → PouKey → Option Nat) : List PouRow :=
  r.programs.map (fun n => (⟨0, n, id .programs ("", norm n), none⟩ : PouRow)) ++
  (r.functionBlocks.map (·.1)).map (fun n => (⟨1, n, id .functionBlocks ("", norm n), none⟩ : PouRow)) ++
  r.functions.map (fun n => (⟨2, n, id .functions ("", norm n), none⟩ : PouRow)) ++
  (r.classes.map (·.1)).map (fun n => (⟨3, n, id .classes ("", norm n), none⟩ : PouRow)) ++
  r.functionBlocks.flatMap (fun o => o.2.map fun n =>
    (⟨4, n, id .methods (norm o.1, norm n), id .functionBlocks ("", norm o.1)⟩ : PouRow)) ++
  r.classes.flatMap (fun o => o.2.map fun n =>
    (⟨4, n, id .methods (norm o.1, norm n), id .classes ("", norm o.1)⟩ : PouRow))

/-! ## 3b. `method_table_for` (encoder/pou.rs:423-488): vtable layout -/

/-- `MethodEntry` with the name instead of its string index. -/
structure MEntry where
  name : String
  pouId : Nat
  slot : Nat
deriving Repr, DecidableEq

/-- Values of the two kinds of maps involved: `method_tables : HashMap<SmolStr, Vec<MethodEntry>>`
(map index `none`) and the local `name_to_slot : HashMap<SmolStr, usize>` of the invocation that
computes the table of `key` (map index `some key`; that invocation runs at most once per key
because its result is cached in `method_tables`). -/
inductive VtVal
  | table (t : List MEntry)
  | slot (n : Nat)
deriving Repr, DecidableEq

inductive VtErr | circular | unknownClassLike | methodIdMissing | fuel | corrupt
deriving Repr, DecidableEq

abbrev VtProg := Prog (Option String) String VtVal

/-- `for entry in &base_table { name_to_slot.insert(normalize_name(name), entry.vtable_slot); table.push(entry) }` -/
def seedSlotsP (norm : String → String) (key : String) : List MEntry → VtProg Unit
  | [] => .ret ()
  | e :: es => .insert (some key) (norm e.name) (.slot e.slot) fun _ => seedSlotsP norm key es

/-- `table[slot] = entry` -/
def setAt (t : List MEntry) (i : Nat) (e : MEntry) : List MEntry := t.set i e

/-- The `for method in &methods` loop. -/
def ownMethodsP (norm : String → String) (methodId : String → String → Option Nat) (key owner : String) :
    List String → List MEntry → VtProg (Except VtErr (List MEntry))
  | [], table => .ret (.ok table)
  | name :: rest, table =>
    match methodId owner name with
    | none => .ret (.error .methodIdMissing)
    | some pouId =>
      .get (some key) (norm name) fun
        | some (.slot slot) =>
          ownMethodsP norm methodId key owner rest (setAt table slot ⟨name, pouId, slot⟩)
        | some (.table _) => .ret (.error .corrupt)
        | none =>
          let slot := table.length
          .insert (some key) (norm name) (.slot slot) fun _ =>
            ownMethodsP norm methodId key owner rest (table ++ [⟨name, pouId, slot⟩])

/-- `method_table_for(owner)`.  `classLike key` is `class_like_def` (function blocks first, then
classes; an `IndexMap` lookup): base name and declared method names.  `stack` is `method_stack`.
`fuel` bounds the recursion over the inheritance chain (the stack check ends it after at most
one visit per definition). -/
def methodTableForP (norm : String → String)
    (classLike : String → Option (Option String × List String))
    (methodId : String → String → Option Nat) :
    Nat → List String → String → VtProg (Except VtErr (List MEntry))
  | 0, _, _ => .ret (.error .fuel)
  | fuel + 1, stack, owner =>
    let key := norm owner
    .get none key fun
      | some (.table t) => .ret (.ok t)
      | some (.slot _) => .ret (.error .corrupt)
      | none =>
        if stack.contains key then .ret (.error .circular) else
        match classLike key with
        | none => .ret (.error .unknownClassLike)
        | some (base, methods) =>
          let baseP : VtProg (Except VtErr (List MEntry)) :=
            match base with
            | none => .ret (.ok [])
            | some b => methodTableForP norm classLike methodId fuel (stack ++ [key]) b
          baseP.bind fun
            | .error e => .ret (.error e)
            | .ok baseTable =>
              (seedSlotsP norm key baseTable).bind fun _ =>
              (ownMethodsP norm methodId key owner methods baseTable).bind fun
                | .error e => .ret (.error e)
                | .ok table => .insert none key (.table table) fun _ => .ret (.ok table)

/-- Tables of a sequence of owners computed by one encoder (shared `method_tables` cache). -/
def methodTablesP (norm : String → String)
    (classLike : String → Option (Option String × List String))
    (methodId : String → String → Option Nat) (fuel : Nat) :
    List String → VtProg (List (Except VtErr (List MEntry)))
  | [] => .ret []
  | o :: os =>
    (methodTableForP norm classLike methodId fuel [] o).bind fun t =>
    (methodTablesP norm classLike methodId fuel os).bind fun ts => .ret (t :: ts)

/-! ## 4. `alloc_for_temp_pairs` / `unique_temp_name` (encoder/locals.rs:49-80): the `used` HashSet -/

/-- `unique_temp_name`: first of `prefix_idx`, `prefix_idx_1`, `prefix_idx_2`, … whose normalised
form is not in `used`; inserts it.  `fuel` bounds the `loop` (it terminates after at most
`used.len() + 1` attempts). -/
def uniqueTempNameP (norm : String → String) (pfx : String) (idx : Nat) :
    Nat → Nat → Prog Unit String Unit (Option String)
  | 0, _ => .ret none
  | fuel + 1, attempt =>
    let name := if attempt = 0 then s!"{pfx}_{idx}" else s!"{pfx}_{idx}_{attempt}"
    .get () (norm name) fun
      | none => .insert () (norm name) () fun _ => .ret (some name)
      | some _ => uniqueTempNameP norm pfx idx fuel (attempt + 1)

def insertSetP : List String → Prog Unit String Unit Unit
  | [] => .ret ()
  | n :: ns => .insert () n () fun _ => insertSetP ns

def tempPairsLoopP (norm : String → String) (fuel : Nat) :
    Nat → Nat → Prog Unit String Unit (List (Option String × Option String))
  | 0, _ => .ret []
  | count + 1, idx =>
    (uniqueTempNameP norm "__st_rt_for_end" idx fuel 0).bind fun e =>
    (uniqueTempNameP norm "__st_rt_for_step" idx fuel 0).bind fun s =>
    (tempPairsLoopP norm fuel count (idx + 1)).bind fun rest => .ret ((e, s) :: rest)

/-- `alloc_for_temp_pairs(existing, count)`. -/
def allocForTempPairsP (norm : String → String) (existing : List String) (count : Nat) :
    Prog Unit String Unit (List (Option String × Option String)) :=
  (insertSetP (existing.map norm)).bind fun _ =>
    tempPairsLoopP norm (existing.length + 2 * count + 2) count 0

/-! ## 4b. The remaining hash maps of the anchored files, as lookup-only client code -/

/-- One `TypeEntry`: the registry id it encodes and the table indices of the types it refers to. -/
structure TEntry where
  tid : Nat
  refs : List Nat
deriving Repr, DecidableEq

mutual
/-- `type_index` (encoder/types.rs:78-101): look up `type_map`; otherwise reserve the next slot
(`type_map.insert(type_id, idx)` *before* descending, so recursive types terminate), encode the
entry — which calls `type_index` for every referenced type (`children`) — and fill the slot. -/
def typeIndexP (children : Nat → List Nat) :
    Nat → Nat → List TEntry → Prog Unit Nat Nat (Option (Nat × List TEntry))
  | 0, _, _ => .ret none
  | fuel + 1, tid, types =>
    .get () tid fun
      | some idx => .ret (some (idx, types))
      | none =>
        let idx := types.length
        .insert () tid idx fun _ =>
          (typeIndexListP children fuel (children tid) (types ++ [⟨tid, []⟩])).bind fun
            | none => .ret none
            | some (cidx, types') => .ret (some (idx, types'.set idx ⟨tid, cidx⟩))
termination_by fuel _ _ => (fuel, 0)

def typeIndexListP (children : Nat → List Nat) :
    Nat → List Nat → List TEntry → Prog Unit Nat Nat (Option (List Nat × List TEntry))
  | _, [], types => .ret (some ([], types))
  | fuel, c :: cs, types =>
    (typeIndexP children fuel c types).bind fun
      | none => .ret none
      | some (i, types') =>
        (typeIndexListP children fuel cs types').bind fun
          | none => .ret none
          | some (is, types'') => .ret (some (i :: is, types''))
termination_by fuel cs _ => (fuel, cs.length + 1)
end

/-- `collect_decl_types`: `type_index` for every declared type id, in declaration order. -/
def collectTypesP (children : Nat → List Nat) (fuel : Nat) :
    List Nat → List TEntry → Prog Unit Nat Nat (Option (List TEntry))
  | [], types => .ret (some types)
  | t :: ts, types =>
    (typeIndexP children fuel t types).bind fun
      | none => .ret none
      | some (_, types') => collectTypesP children fuel ts types'

/-- A `ValueRef`: location tag, owner id, offset, path of field names / index lists. -/
structure VRef where
  loc : Nat
  owner : Nat
  offset : Nat
  path : List (String ⊕ List Int)
deriving DecidableEq

/-- Keys of the encoder's reference and string maps, in one type. -/
inductive EKey
  | ref (r : VRef)
  | str (s : String)
  | file (id : Nat)
deriving DecidableEq

inductive EMap | refMap | strings | debugStrings | filePaths
deriving DecidableEq

/-- Encoder state that is *not* a hash map: the emitted tables. -/
structure EncTables where
  refEntries : List (Nat × Nat × Nat × List (Nat ⊕ List Int)) := []
  strings : List String := []
  debugStrings : List String := []

/-- `StringInterner::intern` on the `strings` / `debug_strings` interner of the encoder. -/
def internStrP (m : EMap) (entries : List String) (v : String) : Prog EMap EKey Nat (Nat × List String) :=
  .get m (.str v) fun
    | some idx => .ret (idx, entries)
    | none => .insert m (.str v) entries.length fun _ => .ret (entries.length, entries ++ [v])

/-- Field segments intern their name (`ref_index_for`, refs.rs:113-124). -/
def segmentsP : List (String ⊕ List Int) → List String →
    Prog EMap EKey Nat (List (Nat ⊕ List Int) × List String)
  | [], strs => .ret ([], strs)
  | .inl name :: rest, strs =>
    (internStrP .strings strs name).bind fun (i, strs') =>
    (segmentsP rest strs').bind fun (segs, strs'') => .ret (.inl i :: segs, strs'')
  | .inr idx :: rest, strs =>
    (segmentsP rest strs).bind fun (segs, strs') => .ret (.inr idx :: segs, strs')

/-- `ref_index_for` (refs.rs:93-134). -/
def refIndexForP (t : EncTables) (r : VRef) : Prog EMap EKey Nat (Nat × EncTables) :=
  .get .refMap (.ref r) fun
    | some idx => .ret (idx, t)
    | none =>
      (segmentsP r.path t.strings).bind fun (segs, strs) =>
        let idx := t.refEntries.length
        .insert .refMap (.ref r) idx fun _ =>
          .ret (idx, { t with refEntries := t.refEntries ++ [(r.loc, r.owner, r.offset, segs)], strings := strs })

/-- `file_path_index` (debug.rs:6-21): cache in `file_path_indices`, label interned in `debug_strings`. -/
def filePathIndexP (label : Nat → String) (t : EncTables) (fileId : Nat) : Prog EMap EKey Nat (Nat × EncTables) :=
  .get .filePaths (.file fileId) fun
    | some idx => .ret (idx, t)
    | none =>
      (internStrP .debugStrings t.debugStrings (label fileId)).bind fun (idx, ds) =>
        .insert .filePaths (.file fileId) idx fun _ => .ret (idx, { t with debugStrings := ds })

/-- A mixed sequence of encoder requests. -/
inductive EncReq
  | ref (r : VRef)
  | str (s : String)
  | file (id : Nat)

def encRequestsP (label : Nat → String) : List EncReq → EncTables → Prog EMap EKey Nat (List Nat × EncTables)
  | [], t => .ret ([], t)
  | q :: qs, t =>
    (match q with
      | .ref r => refIndexForP t r
      | .str s => (internStrP .strings t.strings s).bind fun (i, strs) => .ret (i, { t with strings := strs })
      | .file id => filePathIndexP label t id).bind fun (i, t') =>
    (encRequestsP label qs t').bind fun (is, t'') => .ret (i :: is, t'')

/-- harness/build.rs:90-176: `if !names.insert(key) { return Err(duplicate) }` over the lowered
definitions: the first name whose normalised key was already present. -/
def firstDuplicateP (norm : String → String) : List String → Prog Unit String Unit (Option String)
  | [] => .ret none
  | n :: ns => .insert () (norm n) () fun
    | some _ => .ret (some n)
    | none => firstDuplicateP norm ns

/-- io.rs `IoInterface::{read,write}` on hierarchical addresses (`hierarchical` map). -/
inductive HierOp
  | write (key : List Nat) (v : Int)
  | read (key : List Nat)

def hierP : List HierOp → Prog Unit (List Nat) Int (List (Option Int))
  | [] => .ret []
  | .write k v :: ops => .insert () k v fun _ => hierP ops
  | .read k :: ops => .get () k fun o => (hierP ops).bind fun rest => .ret (o :: rest)

/-! ## 5. Classification of the operations found on hash-typed bindings -/

/-- Hasher of a binding: `std` is `RandomState` (per-process random), `fx` is `rustc_hash`
(no seed: iteration order is a function of the operation history only). -/
inductive Hasher | std | fx
deriving DecidableEq, Repr

/-- Every way the scanned Rust files touch a `HashMap`/`HashSet` binding.  The translator maps
method names and syntactic contexts to these constructors and everything it does not recognise
to `unknown`. -/
inductive HashOp
  /- order-free -/
  | new | withCapacity | get | getMut | contains | containsKey | insert | entry | remove
  | len | isEmpty | clear | reserve | clone
  /-- built by `.collect()` / `FromIterator` (the *result* is a map: nothing observable yet) -/
  | collectInto
  /-- moved or borrowed into a struct field, a local or a return value of hash type that is
      itself in the scanned table -/
  | moveTo
  /-- passed (by value or reference) to a function of the scanned files whose parameter is
      declared `HashMap`/`HashSet`, i.e. is itself a scanned binding -/
  | passToScanned
  /-- declaration site (field, `let`, parameter, return type) -/
  | declare
  /-- `x.f` where `f` is also the name of a hash-typed field but the receiver `x` could not be
      typed and other, non-hash structs of the crate declare a field `f` too, *in an order-free
      context* (a lookup, an insertion, a move): harmless whichever struct it is; every such row is
      listed in the evidence -/
  | ambiguousForeign
  /-- the same in an order-exposing context (iteration): fails closed -/
  | ambiguousExposing
  /- order-exposing -/
  | iter | iterMut | intoIter | keys | values | valuesMut | intoKeys | intoValues | drain
  | retain | extendFrom | forIn | debugFmt | eqCompare
  /-- passed to a function that is not a scanned hash-typed parameter (e.g. `vec.extend(map)`) -/
  | passToUnknown
  | unknown
deriving DecidableEq, Repr

/-- Operations whose result cannot depend on the table's internal order (each is an instance of
`Prog`'s `get/insert/remove/len`, or moves the table without looking at it). -/
def orderFree : HashOp → Bool
  | .new | .withCapacity | .get | .getMut | .contains | .containsKey | .insert | .entry | .remove
  | .len | .isEmpty | .clear | .reserve | .clone | .collectInto | .moveTo | .passToScanned
  | .declare | .ambiguousForeign => true
  | .iter | .iterMut | .intoIter | .keys | .values | .valuesMut | .intoKeys | .intoValues | .drain
  | .retain | .extendFrom | .forIn | .debugFmt | .eqCompare | .passToUnknown | .unknown
  | .ambiguousExposing => false

/-- One row of the generated table. -/
structure HashUse where
  file : String
  line : Nat
  binding : String
  hasher : Hasher
  op : HashOp
  text : String
deriving Repr

/-- An order-exposing use that was reviewed by hand and is harmless *for a stated reason*.  Keyed by
file, binding and operation (not by line, so that unrelated edits do not invalidate it); at most
`max` rows of the generated table may match an entry, so a second such use of the same binding is
not excused. -/
structure Reviewed where
  file : String
  binding : String
  op : HashOp
  max : Nat
  why : String
deriving Repr

def reviewedBenign : List Reviewed := [
  ⟨"harness/config.rs", "apply_program_retain_overrides::retain_by_type", .forIn, 1,
   "the loop body updates `program_defs[upper(type_name)].vars` only; the map keys are the canonical \
    declared names returned by `resolve_program_type_name`, so distinct keys touch distinct programs and \
    the updates commute (`c05_reviewed_retain_overrides_order_free`)"⟩,
  ⟨"debug/control.rs", "DebugState.frame_locations", .retain, 1,
   "`retain` with the side-effect-free predicate `frames.iter().any(|f| f.id == *id)`: the retained \
    set does not depend on the visiting order (`c05_reviewed_retain_pure_order_free`)"⟩
]

def Reviewed.matchesUse (r : Reviewed) (u : HashUse) : Bool :=
  r.file == u.file && r.binding == u.binding && decide (r.op = u.op)

/-- The check applied to the generated table: every use of a `std` hash container is order-free
or matches a reviewed entry, and no reviewed entry is matched more often than it allows. -/
def usesOk (us : List HashUse) : Bool :=
  (us.all fun u => u.hasher != .std || orderFree u.op || reviewedBenign.any (·.matchesUse u)) &&
  (reviewedBenign.all fun r => decide ((us.filter r.matchesUse).length ≤ r.max))

/-! ### Environment inputs other than hash seeds -/

/-- Kinds of syntactic sites through which the process, the machine, the file system, the clock,
other threads or the memory layout can reach the compile/execute path. -/
inductive EnvKind
  | threadLocal | staticMut | staticInterior | addressUse | envRead | fsAccess | wallClock
  | processId | threadId | threadSpawn | randomness | machineInfo
deriving DecidableEq, Repr

/-- One row of the second generated table. -/
structure EnvUse where
  file : String
  line : Nat
  kind : EnvKind
  fn : String
  text : String
deriving Repr

/-- A reviewed environment input: file, enclosing function, kind, how many rows it may excuse, and
why it cannot influence container bytes or cycle results. -/
structure EnvReviewed where
  file : String
  fn : String
  kind : EnvKind
  max : Nat
  why : String
deriving Repr

def reviewedEnv : List EnvReviewed := [
  ⟨"trust-hir/src/db/queries/salsa_backend.rs", "default", .envRead, 2,
   "TRUST_HIR_SALSA_EVENT_LOG / _METRICS only switch event logging of the query database"⟩,
  ⟨"trust-hir/src/project.rs", "normalize_path", .fsAccess, 1,
   "`SourceKey::from_path` canonicalises when the file exists: the key is used for identity inside the \
    `Project` only; it must never be written into the container (checked by the runs with different \
    working directories and directory contents)"⟩,
  ⟨"trust-runtime/src/debug/trace.rs", "trace_enabled", .staticInterior, 1, "debug trace switch, read once"⟩,
  ⟨"trust-runtime/src/debug/trace.rs", "trace_enabled", .envRead, 1, "ST_DEBUG_TRACE only enables a log"⟩,
  ⟨"trust-runtime/src/debug/trace.rs", "trace_log_file", .staticInterior, 1, "handle of the debug log file"⟩,
  ⟨"trust-runtime/src/debug/trace.rs", "trace_log_file", .envRead, 2, "path of the debug log file"⟩,
  ⟨"trust-runtime/src/debug/trace.rs", "trace_log_file", .fsAccess, 1, "opens the debug log file for appending"⟩,
  ⟨"trust-runtime/src/eval/stmt.rs", "check_execution_budget", .wallClock, 1,
   "compares against `execution_deadline`, which is `None` unless the `trust-runtime test` command sets it \
    (stated assumption)"⟩,
  ⟨"trust-runtime/src/retain.rs", "write_bytes", .fsAccess, 2, "file retain store, only when one is attached (assumption)"⟩,
  ⟨"trust-runtime/src/retain.rs", "read_bytes", .fsAccess, 1, "file retain store, only when one is attached (assumption)"⟩,
  ⟨"trust-runtime/src/retain.rs", "load", .fsAccess, 1, "file retain store, only when one is attached (assumption)"⟩,
  ⟨"trust-runtime/src/runtime/cycle.rs", "execute_cycle", .wallClock, 2, "`elapsed()` of a metrics timer, fed to the metrics sink only"⟩,
  ⟨"trust-runtime/src/runtime/cycle.rs", "execute_program_by_name", .wallClock, 1, "metrics timer, fed to the metrics sink only"⟩,
  ⟨"trust-runtime/src/runtime/cycle.rs", "execute_function_block_ref", .wallClock, 1, "metrics timer, fed to the metrics sink only"⟩,
  ⟨"trust-runtime/src/runtime/metrics_subsystem.rs", "start_timer", .wallClock, 1,
   "`Instant::now()` only when a metrics sink is attached; the value goes to the sink"⟩
]

def EnvReviewed.matchesUse (r : EnvReviewed) (u : EnvUse) : Bool :=
  r.file == u.file && r.fn == u.fn && decide (r.kind = u.kind)

/-- Every environment input is reviewed, and no review excuses more rows than it names. -/
def envUsesOk (us : List EnvUse) : Bool :=
  (us.all fun u => reviewedEnv.any (·.matchesUse u)) &&
  (reviewedEnv.all fun r => decide ((us.filter r.matchesUse).length ≤ r.max))

/-- Model of the reviewed loop of `apply_program_retain_overrides` (harness/config.rs:189-199):
program definitions as a function from the upper-cased type name to the retain policies of its
variables (`none` = `Unspecified`); one iteration sets the unspecified ones of one program. -/
def applyRetain (norm : String → String) (defs : String → Option (List (Option Nat)))
    (e : String × Nat) : String → Option (List (Option Nat)) :=
  fun key =>
    if key = norm e.1 then (defs key).map (·.map fun r => match r with | none => some e.2 | some p => some p)
    else defs key

/-- The loop, visiting the table in its internal order. -/
def applyRetainAll (norm : String → String) (defs : String → Option (List (Option Nat)))
    (table : List (String × Nat)) : String → Option (List (Option Nat)) :=
  table.foldl (applyRetain norm) defs

/-! ## 7. Import lists (`collect_using_directives`, harness/util.rs) and named arguments
(`bind_stdlib_named_args_variadic`, eval/expr/call.rs)

Two orders that the SOURCES fix: the list of imported namespaces that the first-match-wins lookups
of the lowering and of the evaluator walk, and the order in which the argument expressions of a
formal call are evaluated.  Neither function keeps a hash container (the scanned table pins that);
the models below say what a clean-up / a slot table may do with one without exposing its order,
and what exposes it. -/

/-- `collect_using_directives`: the USING names of the enclosing scopes, outermost scope first,
each scope in source order; nothing is dropped or re-ordered. -/
def collectUsing {σ : Type} (chain : List (List σ)) : List σ := chain.flatten

/-- `resolve_type_name` / `resolve_named_type` (harness/compiler/types.rs) and
`resolve_using_function` (eval/expr/call.rs): the first imported namespace that declares the name. -/
def resolveUsing {σ : Type} (declares : σ → Bool) (imports : List σ) : Option σ := imports.find? declares

/-- A clean-up of repeated imports that rebuilds the list from a hash SET
(`set.into_iter().collect()`): insert every name, then iterate. -/
def dedupUsingIterP {σ : Type} : List σ → ProgI Unit σ Nat (List σ)
  | [] => .iter () fun tbl => .ret (tbl.map Prod.fst)
  | n :: ns => .insert () n 0 fun _ => dedupUsingIterP ns

/-- One named argument of a formal call: the slot it binds and its expression — a state
transformer that may fault (the state reached when it faults is kept: storage is changed in place). -/
structure NArg (σ ε ν : Type) where
  slot : Nat
  eval : σ → Except ε ν × σ

/-- Read slots `i, i+1, …` (`n` of them) of the slot table. -/
def readSlotsK {ν α : Type} : Nat → Nat → (List (Option ν) → Prog Unit Nat ν α) → Prog Unit Nat ν α
  | 0, _, k => k []
  | n + 1, i, k => .get () i fun v => readSlotsK n (i + 1) fun vs => k (v :: vs)

/-- `bind_stdlib_named_args_variadic`: the arguments are evaluated in the order in which they are
WRITTEN, each value is stored under its slot, the first fault ends the call; at the end the slots
`0 .. count-1` are read.  The slot table is modelled as a hash map that is only inserted into and
looked up (the `Vec<Option<Value>>` of the code is the insertion-order special case). -/
def bindNamedArgsP {σ ε ν : Type} (count : Nat) :
    List (NArg σ ε ν) → σ → Prog Unit Nat ν (Except ε (List (Option ν)) × σ)
  | [], s => readSlotsK count 0 fun vs => .ret (.ok vs, s)
  | a :: rest, s =>
    match a.eval s with
    | (.error e, s') => .ret (.error e, s')
    | (.ok v, s') => .insert () a.slot v fun _ => bindNamedArgsP count rest s'

/-- The state after the call: the effects of the arguments in written order, up to and including
the first one that faults. -/
def effectsInWrittenOrder {σ ε ν : Type} : List (NArg σ ε ν) → σ → σ
  | [], s => s
  | a :: rest, s =>
    match a.eval s with
    | (.error _, s') => s'
    | (.ok _, s') => effectsInWrittenOrder rest s'

/-- The variant that first files the arguments under their slots and then evaluates them while
ITERATING the slot table; `effect d` is the side effect of the argument stored as `d`. -/
def evalArgsIterP {σ : Type} (effect : Nat → σ → σ) : List (Nat × Nat) → σ → ProgI Unit Nat Nat σ
  | [], s => .iter () fun tbl => .ret (tbl.foldl (fun st kv => effect kv.2 st) s)
  | (slot, d) :: rest, s => .insert () slot d fun _ => evalArgsIterP effect rest s

/-! ## 8. The property on observed runs -/

/-- Executable statement of the property on the observations of one artefact (container bytes,
or the dump of one cycle) made by several independent processes: the common value if all
processes observed the same, `none` otherwise. -/
def agree {δ : Type} [DecidableEq δ] : List δ → Option δ
  | [] => none
  | d :: ds => if ds.all (fun x => decide (x = d)) then some d else none

/-- A run of a cyclic program: `step env state input = (state', output)`.  `env` stands for
everything that must not matter (process, hash seeds, memory layout, wall clock); it may change
from cycle to cycle. -/
def trace {ε σ ι ω : Type} (step : ε → σ → ι → σ × ω) : (Nat → ε) → Nat → σ → List ι → List ω
  | _, _, _, [] => []
  | env, k, s, i :: is =>
    let r := step (env k) s i
    r.2 :: trace step env (k + 1) r.1 is

end TrustVerif.C05
