/-
Model of the task scheduler of trust-runtime (property C06).

Mirrors, function by function:
  crates/trust-runtime/src/runtime/core.rs   `register_task`
  crates/trust-runtime/src/runtime/cycle.rs  `collect_ready_tasks`, the `sort_by_key` in
                                             `execute_cycle`, `execute_task`,
                                             `execute_background_programs`
Import-free (core Lean only) so that the driver links as a `lean_exe`.
-/
namespace TrustVerif.C06

def i64Max : Int := 9223372036854775807
def i64Min : Int := -9223372036854775808
def u64Max : Nat := 18446744073709551615

/-- Rust `i64::saturating_add/sub` applied to an exact result. -/
def sat64 (x : Int) : Int :=
  if x > i64Max then i64Max else if x < i64Min then i64Min else x

/-- `TaskConfig` (names replaced by indices; `single` indexes the observed BOOL globals). -/
structure Task where
  interval : Int
  single : Option Nat
  priority : Nat
  programs : List Nat
deriving Repr, DecidableEq

/-- `TaskState`. -/
structure TState where
  lastSingle : Bool
  lastRun : Int
  overruns : Nat
deriving Repr, DecidableEq

/-- `ReadyTask` plus the priority used in the sort key. -/
structure Ready where
  index : Nat
  dueAt : Int
  priority : Nat
deriving Repr, DecidableEq

/-- `register_task`: `TaskState::new(current_time)`, `last_single` seeded from the current value
of the SINGLE variable when it is a BOOL global. -/
def register (now : Int) (singleAtReg : Bool) : TState :=
  { lastSingle := singleAtReg, lastRun := now, overruns := 0 }

/-- Value of the task's SINGLE variable (`None => false`). -/
def singleNow (tk : Task) (sv : Nat → Bool) : Bool :=
  match tk.single with
  | some i => sv i
  | none => false

/-- Result of one task's share of `collect_ready_tasks`. -/
structure StepOut where
  st : TState
  due : Option Int
  missed : Nat
deriving Repr, DecidableEq

/-- The body of the `for (idx, task)` loop of `collect_ready_tasks` for one task. -/
def stepTask (iv : Int) (st : TState) (now : Int) (single : Bool) : StepOut :=
  let eventDue := !st.lastSingle && single
  let elapsed := sat64 (now - st.lastRun)
  let periodicDue := decide (iv > 0) && !single && decide (elapsed ≥ iv)
  let due0 : Option Int := if eventDue then some now else none
  if periodicDue then
    let intervals := elapsed / iv
    let missed : Nat := if intervals > 1 then (intervals - 1).toNat else 0
    let dueTime := sat64 (st.lastRun + iv)
    let due := match due0 with
      | some e => if e ≤ dueTime then e else dueTime
      | none => dueTime
    { st := { lastSingle := single, lastRun := now, overruns := min (st.overruns + missed) u64Max },
      due := some due, missed := missed }
  else
    { st := { lastSingle := single, lastRun := st.lastRun, overruns := st.overruns },
      due := due0, missed := 0 }

/-- `collect_ready_tasks`: tasks in declaration order, starting at index `i`. -/
def collectAux (sv : Nat → Bool) (now : Int) : Nat → List (Task × TState) → List TState × List Ready
  | _, [] => ([], [])
  | i, (tk, st) :: rest =>
    let o := stepTask tk.interval st now (singleNow tk sv)
    let r := collectAux sv now (i + 1) rest
    (o.st :: r.1,
      match o.due with
      | some d => { index := i, dueAt := d, priority := tk.priority } :: r.2
      | none => r.2)

def collect (tasks : List Task) (sts : List TState) (sv : Nat → Bool) (now : Int) :
    List TState × List Ready :=
  collectAux sv now 0 (tasks.zip sts)

/-- The sort key `(task.priority, entry.due_at.as_nanos(), entry.index)`, compared
lexicographically as Rust tuples are. -/
def keyLe (a b : Ready) : Bool :=
  decide (a.priority < b.priority) ||
  (a.priority == b.priority &&
    (decide (a.dueAt < b.dueAt) || (a.dueAt == b.dueAt && decide (a.index ≤ b.index))))

/-- `ready.sort_by_key(..)`. -/
def order (ready : List Ready) : List Ready := ready.mergeSort keyLe

/-- Programs named by some task (`scheduled` in `execute_background_programs`). -/
def scheduled (tasks : List Task) : List Nat := tasks.flatMap (·.programs)

/-- Programs that belong to no task, in registration order. -/
def background (tasks : List Task) (nprogs : Nat) : List Nat :=
  (List.range nprogs).filter (fun p => !(scheduled tasks).contains p)

def programsOf (tasks : List Task) (i : Nat) : List Nat :=
  match tasks[i]? with
  | some tk => tk.programs
  | none => []

/-- Observable result of one cycle: executed task indices, executed program indices,
overrun events `(task, missed)` in emission order, and overrun counters afterwards. -/
structure CycleOut where
  tasks : List Nat
  programs : List Nat
  overrunEvents : List (Nat × Nat)
  overrunCounts : List Nat
deriving Repr, DecidableEq

def overrunEventsAux (sv : Nat → Bool) (now : Int) : Nat → List (Task × TState) → List (Nat × Nat)
  | _, [] => []
  | i, (tk, st) :: rest =>
    let o := stepTask tk.interval st now (singleNow tk sv)
    if o.missed > 0 then (i, o.missed) :: overrunEventsAux sv now (i + 1) rest
    else overrunEventsAux sv now (i + 1) rest

/-- One scheduler cycle. -/
def cycle (tasks : List Task) (nprogs : Nat) (sts : List TState) (sv : Nat → Bool) (now : Int) :
    List TState × CycleOut :=
  let c := collect tasks sts sv now
  let ex := order c.2
  (c.1,
    { tasks := ex.map (·.index),
      programs := ex.flatMap (fun r => programsOf tasks r.index) ++ background tasks nprogs,
      overrunEvents := overrunEventsAux sv now 0 (tasks.zip sts),
      overrunCounts := c.1.map (·.overruns) })

/-! ### History-level IEC specification (per task, over infinite streams) -/

/-- Specification state of one task over the timeline `t`, `s` (clock and SINGLE value at the
start of cycle `k`), with registration time `t0` and SINGLE value `s0` at registration. -/
structure Spec where
  iv : Int
  t0 : Int
  s0 : Bool
  t : Nat → Int
  s : Nat → Bool

namespace Spec

/-- SINGLE value seen by the previous cycle (`s_{k-1}`, registration value for `k = 0`). -/
def sPrev (sp : Spec) : Nat → Bool
  | 0 => sp.s0
  | k + 1 => sp.s k

/-- Time of the latest periodic activation before cycle `k` (registration time if none). -/
def lastP (sp : Spec) : Nat → Int
  | 0 => sp.t0
  | k + 1 =>
    if decide (sp.iv > 0) && !sp.s k && decide (sp.t k - sp.lastP k ≥ sp.iv) then sp.t k
    else sp.lastP k

def periodicAt (sp : Spec) (k : Nat) : Bool :=
  decide (sp.iv > 0) && !sp.s k && decide (sp.t k - sp.lastP k ≥ sp.iv)

def eventAt (sp : Spec) (k : Nat) : Bool := !sp.sPrev k && sp.s k

def dueAt (sp : Spec) (k : Nat) : Bool := sp.eventAt k || sp.periodicAt k

/-- Missed periodic activations detected in cycle `k`. -/
def missedAt (sp : Spec) (k : Nat) : Nat :=
  if sp.periodicAt k then
    let n := (sp.t k - sp.lastP k) / sp.iv
    if n > 1 then (n - 1).toNat else 0
  else 0

/-- Total overruns before cycle `k` (saturating like the `u64` counter). -/
def overrunsBefore (sp : Spec) : Nat → Nat
  | 0 => 0
  | k + 1 => min (sp.overrunsBefore k + sp.missedAt k) u64Max

/-- Due time used as the second sort key. -/
def dueTime (sp : Spec) (k : Nat) : Int :=
  let pd := sat64 (sp.lastP k + sp.iv)
  if sp.periodicAt k then
    if sp.eventAt k then (if sp.t k ≤ pd then sp.t k else pd) else pd
  else sp.t k

/-- Specification state before cycle `k`. -/
def stateAt (sp : Spec) (k : Nat) : TState :=
  { lastSingle := sp.sPrev k, lastRun := sp.lastP k, overruns := sp.overrunsBefore k }

end Spec

/-- Implementation state of one task before cycle `k` of the timeline. -/
def implState (sp : Spec) : Nat → TState
  | 0 => register sp.t0 sp.s0
  | k + 1 => (stepTask sp.iv (implState sp k) (sp.t k) (sp.s k)).st

/-- The specification instance of one task of a configuration: registration at `t0` with BOOL
globals `sv0`, cycle `k` starting at clock `t k` with BOOL globals `sv k`. -/
def specOf (tk : Task) (t0 : Int) (sv0 : Nat → Bool) (t : Nat → Int) (sv : Nat → Nat → Bool) : Spec :=
  { iv := tk.interval, t0 := t0, s0 := singleNow tk sv0, t := t,
    s := fun k => singleNow tk (sv k) }

/-- Scheduler state of the whole configuration before cycle `k`. -/
def runStates (tasks : List Task) (t0 : Int) (sv0 : Nat → Bool) (t : Nat → Int)
    (sv : Nat → Nat → Bool) : Nat → List TState
  | 0 => tasks.map (fun tk => register t0 (singleNow tk sv0))
  | k + 1 => (collect tasks (runStates tasks t0 sv0 t sv k) (sv k) (t k)).1

end TrustVerif.C06
