/-
Model of the process image of trust-runtime (property C07).

Mirrors, function by function:
  crates/trust-runtime/src/io.rs                 `IoInterface::{read, write, read_inputs, write_outputs}`,
                                                 `ensure_len`, `IoAddressKey`, `expected_size_for_type`,
                                                 `coerce_from_io`, `coerce_to_io`
  crates/trust-runtime/src/numeric.rs            `to_i64`, `to_u64` (used by `coerce_to_io`)
  crates/trust-runtime/src/runtime/cycle.rs      `execute_cycle`, `read_cycle_inputs`, `write_cycle_outputs`,
                                                 `apply_forced_values` (I/O part), `execute_task`,
                                                 `execute_background_programs` (order only)
  crates/trust-runtime/src/runtime/core.rs       `apply_fault` for the default policy (Halt: no safe state)
  crates/trust-runtime/src/debug/control.rs      `force_io`, `release_io`
  crates/trust-runtime/src/value/partial_access.rs  `read_partial_access`, `write_partial_access`
  crates/trust-runtime/src/harness/io.rs         `collect_io_bindings`, `offset_address`, `io_size_for_type`
                                                 (elementary types, 1-D arrays, flat structures; flat base)
  crates/trust-runtime/src/value/size.rs         `size_of_type` for those types

Conventions: a byte is a `Nat` below 256, an image is a `List Nat`; fixed-width Rust integers are
`Nat`/`Int` payloads whose range is the invariant `Value.WF` (guaranteed by the Rust types).
`u16::from_le_bytes`/`to_le_bytes` (Rust std) are `fromLe`/`toLe`.  Floats are raw bit patterns.
Import-free (core Lean only) so that the driver links as a `lean_exe`.
-/
namespace TrustVerif.C07

/-! ## Bytes, images, little-endian codec -/

/-- `buffer.get(i).copied().unwrap_or(0)`. -/
def getB (img : List Nat) (i : Nat) : Nat := img.getD i 0

/-- `ensure_len(buffer, index)`: grow with zeroes so that `index` is valid. -/
def ensureLen (img : List Nat) (index : Nat) : List Nat :=
  if img.length ≤ index then img ++ List.replicate (index + 1 - img.length) 0 else img

/-- `uN::to_le_bytes` for `k` bytes. -/
def toLe : Nat → Nat → List Nat
  | 0, _ => []
  | k + 1, v => v % 256 :: toLe k (v / 256)

/-- `uN::from_le_bytes`. -/
def fromLe : List Nat → Nat
  | [] => 0
  | b :: bs => b + 256 * fromLe bs

/-- The `k` bytes starting at `byte`, missing ones read as 0
(`for idx in 0..k { buffer.get(byte + idx).copied().unwrap_or(0) }`). -/
def readSpan (img : List Nat) (byte : Nat) : Nat → List Nat
  | 0 => []
  | k + 1 => getB img byte :: readSpan img (byte + 1) k

/-- `for (idx, b) in bytes.iter().enumerate() { buffer[byte + idx] = *b }`. -/
def writeSpan (img : List Nat) (byte : Nat) : List Nat → List Nat
  | [] => img
  | b :: bs => writeSpan (img.set byte b) (byte + 1) bs

/-- `(byte >> bit) & 1 == 1`. -/
def bitOf (b n : Nat) : Bool := (b >>> n) &&& 1 == 1

/-- `*byte |= 1 << bit` on a `u8`. -/
def setBit (b n : Nat) : Nat := b ||| (1 <<< n)

/-- `*byte &= !(1 << bit)` on a `u8` (`!x = 255 - x`). -/
def clearBit (b n : Nat) : Nat := b &&& (255 - (1 <<< n))

/-! ## Addresses, values, errors -/

inductive Area | input | output | memory
deriving DecidableEq, Repr, Inhabited

inductive Size | bit | byte | word | dword | lword
deriving DecidableEq, Repr, Inhabited

/-- Number of image bytes an address of this size denotes. -/
def Size.bytes : Size → Nat
  | .bit => 1 | .byte => 1 | .word => 2 | .dword => 4 | .lword => 8

/-- `IoAddress`. -/
structure Addr where
  area : Area
  size : Size
  byte : Nat
  bit : Nat
  path : List Nat
  wildcard : Bool
deriving DecidableEq, Repr, Inhabited

/-- The date and time types.  `TIME`, `DATE`, `TOD`, `DT` occupy a DWord of the image, the `L…`
variants an LWord (`io_size_for_type`, `size_of_type`). -/
inductive TKind | time | date | tod | dt | ltime | ldate | ltod | ldt
deriving DecidableEq, Repr, Inhabited

/-- Is it one of the 64-bit variants? -/
def TKind.long : TKind → Bool
  | .ltime | .ldate | .ltod | .ldt => true
  | _ => false

/-- Payload units per image count: `Value::Time` holds nanoseconds and travels as milliseconds
(`Duration::as_millis` / `from_millis`); `DateValue`, `TimeOfDayValue`, `DateTimeValue` hold the ticks
themselves, the long variants the nanoseconds themselves. -/
def TKind.scale : TKind → Int
  | .time => 1000000
  | _ => 1

/-- `Value` restricted to the variants the process image deals with: `tick k n` is the date/time
variant of kind `k` with `i64` payload `n` (`Duration.nanos`, `ticks`, `nanos`), `enum n` is
`Value::Enum` with `numeric_value = n` (the names are dropped); every other variant (STRING,
arrays, …) is `other`. -/
inductive Value
  | bool (b : Bool)
  | sint (v : Int) | int (v : Int) | dint (v : Int) | lint (v : Int)
  | usint (v : Nat) | uint (v : Nat) | udint (v : Nat) | ulint (v : Nat)
  | real (bits : Nat) | lreal (bits : Nat)
  | byte (v : Nat) | word (v : Nat) | dword (v : Nat) | lword (v : Nat)
  | char (v : Nat) | wchar (v : Nat)
  | tick (k : TKind) (n : Int)
  | enum (n : Int)
  | other (tag : Nat)
deriving DecidableEq, Repr, Inhabited

/-- Range invariant of the Rust payload types. -/
def Value.WF : Value → Prop
  | .bool _ => True
  | .sint v => -128 ≤ v ∧ v < 128
  | .int v => -32768 ≤ v ∧ v < 32768
  | .dint v => -2147483648 ≤ v ∧ v < 2147483648
  | .lint v => -9223372036854775808 ≤ v ∧ v < 9223372036854775808
  | .usint v => v < 256
  | .uint v => v < 65536
  | .udint v => v < 4294967296
  | .ulint v => v < 18446744073709551616
  | .real v => v < 4294967296
  | .lreal v => v < 18446744073709551616
  | .byte v => v < 256
  | .word v => v < 65536
  | .dword v => v < 4294967296
  | .lword v => v < 18446744073709551616
  | .char v => v < 256
  | .wchar v => v < 65536
  | .tick _ n => -9223372036854775808 ≤ n ∧ n < 9223372036854775808
  | .enum n => -9223372036854775808 ≤ n ∧ n < 9223372036854775808
  | .other _ => True

/-- Error classes (`RuntimeError` variants that can occur here); `shiftPanic` is the dev-profile
panic "attempt to shift with overflow" for a hand-built address with `bit > 7`; `unmodelled`
marks inputs outside the modelled fragment (never produced by the generators). -/
inductive Err
  | typeMismatch | overflow | invalidIoAddress | undefinedVariable | nullReference
  | divisionByZero | ioDriver | resourceFaulted | shiftPanic | unmodelled
deriving DecidableEq, Repr, Inhabited

/-- `IoAddressKey`. -/
structure HKey where
  area : Area
  size : Size
  path : List Nat
  bit : Nat
deriving DecidableEq, Repr

def Addr.key (a : Addr) : HKey := { area := a.area, size := a.size, path := a.path, bit := a.bit }

/-- The byte images plus the map for hierarchical addresses (`IoInterface` without bindings). -/
structure Io where
  inputs : List Nat := []
  outputs : List Nat := []
  memory : List Nat := []
  hier : List (HKey × Value) := []
deriving DecidableEq, Repr

def Io.area (io : Io) : Area → List Nat
  | .input => io.inputs
  | .output => io.outputs
  | .memory => io.memory

def Io.setArea (io : Io) (a : Area) (img : List Nat) : Io :=
  match a with
  | .input => { io with inputs := img }
  | .output => { io with outputs := img }
  | .memory => { io with memory := img }

def hlookup (m : List (HKey × Value)) (k : HKey) : Option Value :=
  match m with
  | [] => none
  | (k', v) :: rest => if k' = k then some v else hlookup rest k

def hinsert (m : List (HKey × Value)) (k : HKey) (v : Value) : List (HKey × Value) :=
  match m with
  | [] => [(k, v)]
  | (k', v') :: rest => if k' = k then (k, v) :: rest else (k', v') :: hinsert rest k v

/-! ## `IoInterface::read` / `IoInterface::write` -/

/-- `IoInterface::read`. -/
def read (io : Io) (a : Addr) : Except Err Value :=
  if a.wildcard then .error .invalidIoAddress
  else if a.path.length > 1 then
    match hlookup io.hier a.key with
    | some v => .ok v
    | none => .error .invalidIoAddress
  else
    let buf := io.area a.area
    match a.size with
    | .bit => if a.bit > 7 then .error .shiftPanic else .ok (.bool (bitOf (getB buf a.byte) a.bit))
    | .byte => .ok (.byte (getB buf a.byte))
    | .word => .ok (.word (fromLe (readSpan buf a.byte 2)))
    | .dword => .ok (.dword (fromLe (readSpan buf a.byte 4)))
    | .lword => .ok (.lword (fromLe (readSpan buf a.byte 8)))

/-- The image after a flat write of `bytes` at `byte` (`ensure_len` then the stores). -/
def putBytes (buf : List Nat) (byte : Nat) (bytes : List Nat) : List Nat :=
  writeSpan (ensureLen buf (byte + (bytes.length - 1))) byte bytes

/-- `IoInterface::write`. -/
def write (io : Io) (a : Addr) (v : Value) : Except Err Io :=
  if a.wildcard then .error .invalidIoAddress
  else if a.path.length > 1 then .ok { io with hier := hinsert io.hier a.key v }
  else
    let buf := io.area a.area
    match a.size, v with
    | .bit, .bool flag =>
      if a.bit > 7 then .error .shiftPanic else
      let buf := ensureLen buf a.byte
      let b := getB buf a.byte
      .ok (io.setArea a.area (buf.set a.byte (if flag then setBit b a.bit else clearBit b a.bit)))
    | .byte, .byte x => .ok (io.setArea a.area (putBytes buf a.byte [x]))
    | .word, .word x => .ok (io.setArea a.area (putBytes buf a.byte (toLe 2 x)))
    | .dword, .dword x => .ok (io.setArea a.area (putBytes buf a.byte (toLe 4 x)))
    | .lword, .lword x => .ok (io.setArea a.area (putBytes buf a.byte (toLe 8 x)))
    | _, _ => .error .typeMismatch

/-! ## Vocabulary of the specification (used by the theorem statements only) -/

/-- A flat address: not a wildcard and not hierarchical — it denotes bytes of an image. -/
def Addr.flat (a : Addr) : Bool := !a.wildcard && decide (a.path.length ≤ 1)

/-- An address as `IoAddress::parse` produces them: flat, and the bit index of an `X` address is 0..7. -/
def Addr.valid (a : Addr) : Bool := a.flat && (a.size != .bit || decide (a.bit ≤ 7))

/-- Does byte index `j` belong to the span `[byte, byte + size)` the address denotes? -/
def Addr.inSpan (a : Addr) (j : Nat) : Bool := decide (a.byte ≤ j) && decide (j < a.byte + a.size.bytes)

/-- Two flat addresses denote disjoint storage: different areas, disjoint byte spans, or two
different bits of the same byte. -/
def Addr.disjoint (a b : Addr) : Bool :=
  a.area != b.area || decide (a.byte + a.size.bytes ≤ b.byte) || decide (b.byte + b.size.bytes ≤ a.byte) ||
  (a.size == .bit && b.size == .bit && a.byte == b.byte && a.bit != b.bit)

/-- Every byte of the three images is a byte. -/
def Io.WF (io : Io) : Prop := ∀ ar : Area, ∀ b ∈ io.area ar, b < 256

/-- The I/O value of an address size with payload `n` (`Value::Byte(n)`, `Value::Word(n)`, …). -/
def Size.mk : Size → Nat → Value
  | .bit, n => .bool (n == 1)
  | .byte, n => .byte n
  | .word, n => .word n
  | .dword, n => .dword n
  | .lword, n => .lword n

/-- The size whose I/O value type `v` is, if any. -/
def Value.ioSize : Value → Option Size
  | .bool _ => some .bit | .byte _ => some .byte | .word _ => some .word
  | .dword _ => some .dword | .lword _ => some .lword | _ => none

/-- The bytes a flat non-bit write stores. -/
def storedBytes : Size → Value → Option (List Nat)
  | .byte, .byte x => some [x]
  | .word, .word x => some (toLe 2 x)
  | .dword, .dword x => some (toLe 4 x)
  | .lword, .lword x => some (toLe 8 x)
  | _, _ => none

/-! ## Typed bindings: `coerce_from_io`, `coerce_to_io` -/

/-- The 25 elementary `TypeId`s the coercions know: the 17 bit/integer/bit-string/character/real
types and the 8 date and time types `tick k`; `other` stands for any other type. -/
inductive Ty
  | bool | sint | usint | byte | char | int | uint | word | wchar
  | dint | udint | dword | real | lint | ulint | lword | lreal | tick (k : TKind) | other
deriving DecidableEq, Repr, Inhabited

/-- `expected_size_for_type`. -/
def expectedSize : Ty → Option Size
  | .bool => some .bit
  | .sint | .usint | .byte | .char => some .byte
  | .int | .uint | .word | .wchar => some .word
  | .dint | .udint | .dword | .real => some .dword
  | .lint | .ulint | .lword | .lreal => some .lword
  | .tick k => some (if k.long then .lword else .dword)
  | .other => none

/-- `x as iN` for an `N`-bit unsigned `x` (two's complement reinterpretation). -/
def asSigned (bits : Nat) (x : Nat) : Int :=
  if x < 2 ^ (bits - 1) then (x : Int) else (x : Int) - (2 ^ bits : Nat)

/-- `x as uN` for an `N`-bit signed `x`. -/
def asUnsigned (bits : Nat) (x : Int) : Nat := (x % ((2 ^ bits : Nat) : Int)).toNat

/-- `coerce_from_io`. -/
def coerceFromIo (v : Value) (t : Ty) : Except Err Value :=
  match t, v with
  | .bool, .bool f => .ok (.bool f)
  | .sint, .byte b => .ok (.sint (asSigned 8 b))
  | .usint, .byte b => .ok (.usint b)
  | .byte, .byte b => .ok (.byte b)
  | .char, .byte b => .ok (.char b)
  | .int, .word w => .ok (.int (asSigned 16 w))
  | .uint, .word w => .ok (.uint w)
  | .word, .word w => .ok (.word w)
  | .wchar, .word w => .ok (.wchar w)
  | .dint, .dword w => .ok (.dint (asSigned 32 w))
  | .udint, .dword w => .ok (.udint w)
  | .dword, .dword w => .ok (.dword w)
  | .real, .dword w => .ok (.real w)
  | .lint, .lword w => .ok (.lint (asSigned 64 w))
  | .ulint, .lword w => .ok (.ulint w)
  | .lword, .lword w => .ok (.lword w)
  | .lreal, .lword w => .ok (.lreal w)
  | .tick k, .dword w => if k.long then .error .typeMismatch else .ok (.tick k (k.scale * asSigned 32 w))
  | .tick k, .lword w => if k.long then .ok (.tick k (asSigned 64 w)) else .error .typeMismatch
  | _, _ => .error .typeMismatch

/-- `numeric::to_i64`. -/
def toI64 : Value → Except Err Int
  | .sint v | .int v | .dint v | .lint v => .ok v
  | .usint v | .uint v | .udint v => .ok v
  | .ulint v => if v < 9223372036854775808 then .ok v else .error .overflow
  | _ => .error .typeMismatch

/-- `numeric::to_u64`. -/
def toU64 : Value → Except Err Nat
  | .usint v | .uint v | .udint v | .ulint v => .ok v
  | .sint v | .int v | .dint v | .lint v => if v < 0 then .error .typeMismatch else .ok v.toNat
  | _ => .error .typeMismatch

/-- `iN::try_from(to_i64(&value)?).map_err(|_| Overflow)` followed by `as uN`. -/
def signedToIo (bits : Nat) (v : Value) : Except Err Nat :=
  match toI64 v with
  | .error e => .error e
  | .ok x =>
    if -((2 ^ (bits - 1) : Nat) : Int) ≤ x ∧ x < ((2 ^ (bits - 1) : Nat) : Int) then .ok (asUnsigned bits x)
    else .error .overflow

/-- `uN::try_from(to_u64(&value)?).map_err(|_| Overflow)`. -/
def unsignedToIo (bits : Nat) (v : Value) : Except Err Nat :=
  match toU64 v with
  | .error e => .error e
  | .ok x => if x < 2 ^ bits then .ok x else .error .overflow

/-- `numeric::to_f64` succeeds exactly on the numeric variants (its result is not modelled). -/
def isNumeric : Value → Bool
  | .sint _ | .int _ | .dint _ | .lint _ | .usint _ | .uint _ | .udint _ | .ulint _
  | .real _ | .lreal _ => true
  | _ => false

/-- `Value::Enum(e) => Value::LInt(e.numeric_value)`: an enumerated variable is bound with its base
type and published as its numeric value. -/
def enumToLint : Value → Value
  | .enum n => .lint n
  | v => v

/-- `ticks_to_dword` after `as_millis()` / `ticks()`: the count must fit an `i32` (`Overflow`
otherwise); Rust's `/` truncates toward zero. -/
def tickToIo (k : TKind) (n : Int) : Except Err Value :=
  if k.long then .ok (.lword (asUnsigned 64 n))
  else
    let c := Int.tdiv n k.scale
    if -2147483648 ≤ c ∧ c < 2147483648 then .ok (.dword (asUnsigned 32 c)) else .error .overflow

/-- `coerce_to_io`. -/
def coerceToIo (v0 : Value) (t : Ty) (s : Size) : Except Err Value :=
  match expectedSize t with
  | none => .error .typeMismatch
  | some e =>
    if e ≠ s then .error .typeMismatch else
    let v := enumToLint v0
    match t with
    | .bool => match v with | .bool f => .ok (.bool f) | _ => .error .typeMismatch
    | .sint => match v with
      | .sint x => .ok (.byte (asUnsigned 8 x))
      | _ => (signedToIo 8 v).map .byte
    | .usint => match v with
      | .usint x => .ok (.byte x)
      | _ => (unsignedToIo 8 v).map .byte
    | .byte => match v with | .byte x => .ok (.byte x) | _ => .error .typeMismatch
    | .char => match v with | .char x => .ok (.byte x) | _ => .error .typeMismatch
    | .int => match v with
      | .int x => .ok (.word (asUnsigned 16 x))
      | _ => (signedToIo 16 v).map .word
    | .uint => match v with
      | .uint x => .ok (.word x)
      | _ => (unsignedToIo 16 v).map .word
    | .word => match v with | .word x => .ok (.word x) | _ => .error .typeMismatch
    | .wchar => match v with | .wchar x => .ok (.word x) | _ => .error .typeMismatch
    | .dint => match v with
      | .dint x => .ok (.dword (asUnsigned 32 x))
      | _ => (signedToIo 32 v).map .dword
    | .udint => match v with
      | .udint x => .ok (.dword x)
      | _ => (unsignedToIo 32 v).map .dword
    | .dword => match v with | .dword x => .ok (.dword x) | _ => .error .typeMismatch
    | .real => match v with
      | .real x => .ok (.dword x)
      | _ => if isNumeric v then .error .unmodelled else .error .typeMismatch
    | .lint => match v with
      | .lint x => .ok (.lword (asUnsigned 64 x))
      | _ => (toI64 v).map fun x => .lword (asUnsigned 64 x)
    | .ulint => match v with
      | .ulint x => .ok (.lword x)
      | _ => (toU64 v).map .lword
    | .lword => match v with | .lword x => .ok (.lword x) | _ => .error .typeMismatch
    | .lreal => match v with
      | .lreal x => .ok (.lword x)
      | _ => if isNumeric v then .error .unmodelled else .error .typeMismatch
    | .tick k => match v with
      | .tick k' n => if k' = k then tickToIo k n else .error .typeMismatch
      | _ => .error .typeMismatch
    | .other => .error .typeMismatch

/-- `v` is a value of the elementary type `t` (the variant the interpreter stores for a variable
declared with that type). -/
def Value.hasTy : Value → Ty → Bool
  | .bool _, .bool | .sint _, .sint | .usint _, .usint | .byte _, .byte | .char _, .char
  | .int _, .int | .uint _, .uint | .word _, .word | .wchar _, .wchar
  | .dint _, .dint | .udint _, .udint | .dword _, .dword | .real _, .real
  | .lint _, .lint | .ulint _, .ulint | .lword _, .lword | .lreal _, .lreal => true
  | .tick k _, .tick k' => decide (k = k')
  | _, _ => false

/-- The value is exactly representable in the image: a 32-bit date/time value is a whole number of
image counts (a TIME of whole milliseconds) and the count fits an `i32`.  Every value of the other
types is. -/
def Value.ioExact : Value → Prop
  | .tick k n => k.long = true ∨ ∃ c : Int, n = k.scale * c ∧ -2147483648 ≤ c ∧ c < 2147483648
  | _ => True

/-- What a variable's value stands for in a binding of type `t`: an enum stands for the integer of
its base type `t` with the enum's numeric value (when that type has such a value); any other value
for itself. -/
def Value.plain (t : Ty) : Value → Value
  | .enum n =>
    match t with
    | .sint => .sint n | .int => .int n | .dint => .dint n | .lint => .lint n
    | .usint => if 0 ≤ n then .usint n.toNat else .enum n
    | .uint => if 0 ≤ n then .uint n.toNat else .enum n
    | .udint => if 0 ≤ n then .udint n.toNat else .enum n
    | .ulint => if 0 ≤ n then .ulint n.toNat else .enum n
    | _ => .enum n
  | v => v

/-! ## Storage and bindings: `IoInterface::read_inputs` / `write_outputs` -/

/-- Variable storage, abstracted to a partial map from variable ids to values. -/
def Store := Nat → Option Value

def Store.empty : Store := fun _ => none

def Store.set (s : Store) (x : Nat) (v : Value) : Store :=
  fun y => if y = x then some v else s y

/-- `IoTarget`: `Name` is created on write (`set_global`), `Reference` must resolve
(`write_by_ref` / `read_by_ref`). -/
inductive Target
  | name (x : Nat)
  | ref (x : Nat)
deriving DecidableEq, Repr, Inhabited

def Target.var : Target → Nat
  | .name x => x
  | .ref x => x

/-- `IoBinding` (display name dropped). -/
structure Binding where
  target : Target
  addr : Addr
  ty : Option Ty
deriving DecidableEq, Repr, Inhabited

/-- Does `read_inputs` visit this binding (`Input | Memory`)? -/
def Binding.isIn (b : Binding) : Bool := b.addr.area ≠ .output

/-- Does `write_outputs` visit this binding (`Output | Memory`)? -/
def Binding.isOut (b : Binding) : Bool := b.addr.area ≠ .input

/-- The value `read_inputs` stores for one binding. -/
def latchValue (io : Io) (b : Binding) : Except Err Value :=
  match read io b.addr with
  | .error e => .error e
  | .ok v =>
    match b.ty with
    | some t => coerceFromIo v t
    | none => .ok v

/-- `IoInterface::read_inputs`: bindings in order, the first error aborts (earlier bindings stay
latched). -/
def latch (io : Io) : List Binding → Store → Store × Option Err
  | [], s => (s, none)
  | b :: bs, s =>
    if !b.isIn then latch io bs s else
    match latchValue io b with
    | .error e => (s, some e)
    | .ok v =>
      match b.target with
      | .name x => latch io bs (s.set x v)
      | .ref x => if (s x).isSome then latch io bs (s.set x v) else (s, some .nullReference)

/-- The value `write_outputs` writes for one binding. -/
def publishValue (s : Store) (b : Binding) : Except Err Value :=
  match s b.target.var with
  | none => .error (match b.target with | .name _ => .undefinedVariable | .ref _ => .nullReference)
  | some v =>
    match b.ty with
    | some t => coerceToIo v t b.addr.size
    | none => .ok v

/-- `IoInterface::write_outputs`: bindings in order, the first error aborts (earlier bindings are
already in the image). -/
def collect (s : Store) : List Binding → Io → Io × Option Err
  | [], io => (io, none)
  | b :: bs, io =>
    if !b.isOut then collect s bs io else
    match publishValue s b with
    | .error e => (io, some e)
    | .ok v =>
      match write io b.addr v with
      | .error e => (io, some e)
      | .ok io' => collect s bs io'

/-- A binding as the compiler produces them: typed with one of the 25 elementary types the
coercions know, the address size is the size of that type, the address is flat with a bit index
0..7. -/
def Binding.wellTyped (b : Binding) : Bool :=
  match b.ty with
  | some t => expectedSize t == some b.addr.size && b.addr.valid
  | none => false

/-- The variable of an out-binding holds an in-range, representable value of the binding's type, or an
enum whose numeric value is such a value of the (base) type. -/
def Binding.holdsTyped (b : Binding) (s : Store) : Prop :=
  ∃ v t, b.ty = some t ∧ s b.target.var = some v ∧ (v.plain t).hasTy t = true ∧ (v.plain t).WF ∧
    (v.plain t).ioExact

/-- A write to `a'` cannot change what is read at `a`: `a'` is hierarchical (separate map) or flat
and disjoint from `a`. -/
def Addr.noClash (a' a : Addr) : Bool :=
  decide (a'.path.length > 1) || (a'.flat && a'.disjoint a)

/-- A binding does not interfere with address `a` during `write_outputs`: it is not visited, or its
address does not clash. -/
def Binding.noClash (b : Binding) (a : Addr) : Bool := !b.isOut || b.addr.noClash a

/-! ## From an `AT` declaration to bindings: `collect_io_bindings`, `offset_address` (`harness/io.rs`) -/

/-- The declared types covered: an elementary type, a one-dimensional array of an elementary type,
a structure of elementary fields without relative field addresses. -/
inductive Shape
  | elem (t : Ty)
  | array (len : Nat) (t : Ty)
  | struct (fields : List Ty)
deriving DecidableEq, Repr, Inhabited

/-- `type_size_bytes` of an elementary type (`bit_size().div_ceil(8)`: a BOOL occupies one byte). -/
def Ty.bytes : Ty → Nat
  | .bool | .sint | .usint | .byte | .char => 1
  | .int | .uint | .word | .wchar => 2
  | .dint | .udint | .dword | .real => 4
  | .lint | .ulint | .lword | .lreal => 8
  | .tick k => if k.long then 8 else 4
  | .other => 0

/-- `io_size_for_type` of a leaf type (`None`: "unsupported type for I/O binding", a compile error). -/
def Ty.ioSize? : Ty → Option Size
  | .bool => some .bit
  | .sint | .usint | .byte | .char => some .byte
  | .int | .uint | .word | .wchar => some .word
  | .dint | .udint | .dword | .real => some .dword
  | .lint | .ulint | .lword | .lreal => some .lword
  | .tick k => some (if k.long then .lword else .dword)
  | .other => none

/-- `offset_address` for a flat base address: the size comes from the leaf's type, not from the
letter of the declaration; a bit leaf keeps the base bit index (plus whole bytes), any other leaf
drops it. -/
def offsetAddress (base : Addr) (off : Nat) (sz : Size) : Addr :=
  if sz = .bit then
    let total := base.bit + off * 8
    { area := base.area, size := sz, byte := base.byte + total / 8, bit := total % 8,
      path := [base.byte + total / 8], wildcard := false }
  else
    { area := base.area, size := sz, byte := base.byte + off, bit := 0, path := [base.byte + off],
      wildcard := false }

/-- Byte offsets of the fields of a structure (`current_offset = field_end`). -/
def fieldOffsets : List Ty → Nat → List (Nat × Ty)
  | [], _ => []
  | t :: ts, off => (off, t) :: fieldOffsets ts (off + t.bytes)

/-- `collect_io_bindings`: the leaves of a declared type with their byte offsets, in order. -/
def Shape.leaves : Shape → List (Nat × Ty)
  | .elem t => [(0, t)]
  | .array len t => (List.range len).map fun k => (k * t.bytes, t)
  | .struct fs => fieldOffsets fs 0

/-- The leaf types of a declared type, in order. -/
def Shape.tys : Shape → List Ty
  | .elem t => [t]
  | .array len t => List.replicate len t
  | .struct fs => fs

/-- One typed reference binding per leaf; leaf number `k` is variable `first + k`; a leaf type
without an I/O size is a compile error. -/
def expandLeaves (first : Nat) (base : Addr) : List (Nat × Ty) → Nat → Option (List Binding)
  | [], _ => some []
  | (off, t) :: rest, k =>
    match t.ioSize?, expandLeaves first base rest (k + 1) with
    | some sz, some bs =>
      some ({ target := .ref (first + k), addr := offsetAddress base off sz, ty := some t } :: bs)
    | _, _ => none

/-- `bind_value_ref_to_address`: the bindings of `x AT base : shape`. -/
def expandAt (first : Nat) (base : Addr) (sh : Shape) : Option (List Binding) :=
  expandLeaves first base sh.leaves 0

/-! ## The scan cycle -/

/-- What one driver does in one cycle (any deterministic driver is such a script for a given run):
on `read_inputs` it stores `pokes` (offset, byte) into the slice it is given — stores outside the
slice are impossible — and then reports success or failure; on `write_outputs` it reports success
or failure. -/
structure DrvIn where
  pokes : List (Nat × Nat) := []
  readFail : Bool := false
  writeFail : Bool := false
deriving Repr, Inhabited

def applyPokes : List (Nat × Nat) → List Nat → List Nat
  | [], img => img
  | (off, b) :: ps, img => applyPokes ps (img.set off b)

/-- Semantic trace of a cycle.  `read d entry`: driver `d` was asked for inputs and saw `entry`;
`write d bytes`: driver `d` was given `bytes`; `prog p entry`: the body of program `p` started on the
variable storage `entry` (a ghost component: it lets the theorems speak about what a program reads). -/
inductive Ev
  | cycleStart | cycleEnd | fault
  | read (d : Nat) (entry : List Nat)
  | write (d : Nat) (bytes : List Nat)
  | taskStart (t : Nat) | taskEnd (t : Nat)
  | prog (p : Nat) (entry : Store)

def Ev.isRead : Ev → Bool | .read _ _ => true | _ => false
def Ev.isWrite : Ev → Bool | .write _ _ => true | _ => false
def Ev.isDriver (e : Ev) : Bool := e.isRead || e.isWrite
def Ev.isProg : Ev → Bool | .prog _ _ => true | _ => false

/-- A program body: any function on the variable storage (it has no access to the images: the
`EvalContext` holds `storage` only); on a runtime error the statements executed so far stay. -/
structure Prog where
  id : Nat
  run : Store → Store × Option Err

structure Task where
  id : Nat
  progs : List Prog

/-- Debugger requests applied at the cycle boundaries (`drain_io_writes`, `forced_snapshot().io`);
both empty when no debugger is attached. -/
structure Dbg where
  ioWrites : List (Addr × Value) := []
  forced : List (Addr × Value) := []
deriving Repr, Inhabited

/-- `for entry in drivers { entry.driver.read_inputs(interface.inputs_mut())? }`. -/
def readPhase : List DrvIn → Nat → List Nat → List Nat × List Ev × Option Err
  | [], _, inp => (inp, [], none)
  | x :: xs, d, inp =>
    let inp' := applyPokes x.pokes inp
    if x.readFail then (inp', [.read d inp], some .ioDriver)
    else
      let r := readPhase xs (d + 1) inp'
      (r.1, .read d inp :: r.2.1, r.2.2)

/-- `for (address, value) in … { interface.write(&address, value)? }`. -/
def applyWrites : List (Addr × Value) → Io → Io × Option Err
  | [], io => (io, none)
  | (a, v) :: ws, io =>
    match write io a v with
    | .error e => (io, some e)
    | .ok io' => applyWrites ws io'

/-- `for program in … { execute_program(program)? }`. -/
def execProgs : List Prog → Store → Store × List Ev × Option Err
  | [], s => (s, [], none)
  | p :: ps, s =>
    match p.run s with
    | (s', some e) => (s', [.prog p.id s], some e)
    | (s', none) =>
      let r := execProgs ps s'
      (r.1, .prog p.id s :: r.2.1, r.2.2)

/-- `for entry in ready { execute_task(&task)? }` (`TaskStart`, the programs, `TaskEnd`). -/
def execTasks : List Task → Store → Store × List Ev × Option Err
  | [], s => (s, [], none)
  | t :: ts, s =>
    match execProgs t.progs s with
    | (s', evs, some e) => (s', .taskStart t.id :: evs, some e)
    | (s', evs, none) =>
      let r := execTasks ts s'
      (r.1, .taskStart t.id :: evs ++ .taskEnd t.id :: r.2.1, r.2.2)

/-- All program bodies of the ready tasks, in execution order. -/
def allProgs (tasks : List Task) : List Prog := tasks.flatMap (·.progs)

/-- Specification vocabulary: the storage after running the bodies one after the other. -/
def runAll : List Prog → Store → Store
  | [], s => s
  | p :: ps, s => runAll ps (p.run s).1

/-- Specification vocabulary: the `prog` events of running the bodies one after the other, each
carrying the storage its body starts on. -/
def entries : List Prog → Store → List Ev
  | [], _ => []
  | p :: ps, s => .prog p.id s :: entries ps (p.run s).1

/-- `for entry in drivers { entry.driver.write_outputs(interface.outputs())? }`. -/
def writePhase : List DrvIn → Nat → List Nat → List Ev × Option Err
  | [], _, _ => ([], none)
  | x :: xs, d, out =>
    if x.writeFail then ([.write d out], some .ioDriver)
    else
      let r := writePhase xs (d + 1) out
      (.write d out :: r.1, r.2)

/-- Runtime state relevant to the process image. -/
structure Rt where
  io : Io := {}
  store : Store := Store.empty
  faulted : Bool := false

/-- Phase in which a cycle failed. -/
inductive Phase
  | latched      -- `ResourceFaulted`: the cycle did not start
  | driverRead | debugWrites | latch | tasks | background | collect | forcedOut | driverWrite
deriving DecidableEq, Repr, Inhabited

/-- Result of `read_cycle_inputs`. -/
structure InOut where
  io : Io
  store : Store
  evs : List Ev
  err : Option (Phase × Err)

/-- `Runtime::read_cycle_inputs`: every driver fills the input image, the debugger's queued and
forced I/O writes are applied, then the bindings are latched into the variables. -/
def readCycleInputs (bs : List Binding) (io : Io) (s : Store) (drv : List DrvIn) (dbg : Dbg) : InOut :=
  match readPhase drv 0 io.inputs with
  | (inp, ev1, some e) => { io := { io with inputs := inp }, store := s, evs := ev1, err := some (.driverRead, e) }
  | (inp, ev1, none) =>
  match applyWrites dbg.ioWrites { io with inputs := inp } with
  | (io2, some e) => { io := io2, store := s, evs := ev1, err := some (.debugWrites, e) }
  | (io2, none) =>
  match applyWrites dbg.forced io2 with
  | (io3, some e) => { io := io3, store := s, evs := ev1, err := some (.debugWrites, e) }
  | (io3, none) =>
  match latch io3 bs s with
  | (s1, some e) => { io := io3, store := s1, evs := ev1, err := some (.latch, e) }
  | (s1, none) => { io := io3, store := s1, evs := ev1, err := none }

/-- Result of `write_cycle_outputs`. -/
structure OutOut where
  io : Io
  evs : List Ev
  err : Option (Phase × Err)

/-- `Runtime::write_cycle_outputs`: the bound variables are written into the images, forced I/O is
re-applied, then every driver is given the output image. -/
def writeCycleOutputs (bs : List Binding) (io : Io) (s : Store) (drv : List DrvIn) (dbg : Dbg) : OutOut :=
  match collect s bs io with
  | (io4, some e) => { io := io4, evs := [], err := some (.collect, e) }
  | (io4, none) =>
  match applyWrites dbg.forced io4 with
  | (io5, some e) => { io := io5, evs := [], err := some (.forcedOut, e) }
  | (io5, none) =>
  match writePhase drv 0 io5.outputs with
  | (ev4, some e) => { io := io5, evs := ev4, err := some (.driverWrite, e) }
  | (ev4, none) => { io := io5, evs := ev4, err := none }

structure CycleOut where
  rt : Rt
  log : List Ev
  err : Option (Phase × Err)

/-- `record_fault` with the default fault policy: latch the fault, emit the `Fault` event. -/
def failWith (io : Io) (s : Store) (log : List Ev) (pe : Phase × Err) : CycleOut :=
  { rt := { io := io, store := s, faulted := true }, log := log ++ [.fault], err := some pe }

/-- Result of the program phase. -/
structure ProgOut where
  store : Store
  evs : List Ev
  err : Option (Phase × Err)

/-- The middle of `execute_cycle`: the ready tasks in order, then `execute_background_programs`. -/
def programPhase (tasks : List Task) (bg : List Prog) (s : Store) : ProgOut :=
  match execTasks tasks s with
  | (s2, ev2, some e) => { store := s2, evs := ev2, err := some (.tasks, e) }
  | (s2, ev2, none) =>
    match execProgs bg s2 with
    | (s3, ev3, some e) => { store := s3, evs := ev2 ++ ev3, err := some (.background, e) }
    | (s3, ev3, none) => { store := s3, evs := ev2 ++ ev3, err := none }

/-- `Runtime::execute_cycle` (ready tasks already ordered by the scheduler, see C06). -/
def cycle (bs : List Binding) (rt : Rt) (drv : List DrvIn) (dbg : Dbg) (tasks : List Task)
    (bg : List Prog) : CycleOut :=
  if rt.faulted then { rt := rt, log := [], err := some (.latched, .resourceFaulted) } else
  let i := readCycleInputs bs rt.io rt.store drv dbg
  match i.err with
  | some pe => failWith i.io i.store (.cycleStart :: i.evs) pe
  | none =>
  let p := programPhase tasks bg i.store
  match p.err with
  | some pe => failWith i.io p.store (.cycleStart :: i.evs ++ p.evs) pe
  | none =>
  let o := writeCycleOutputs bs i.io p.store drv dbg
  match o.err with
  | some pe => failWith o.io p.store (.cycleStart :: i.evs ++ p.evs ++ o.evs) pe
  | none =>
    { rt := { io := o.io, store := p.store, faulted := false },
      log := .cycleStart :: i.evs ++ p.evs ++ o.evs ++ [.cycleEnd], err := none }

/-- Did the cycle reach `debug.drain_io_writes()` (which empties the queue whatever happens next)?
Otherwise the queued writes stay queued for the next cycle. -/
def drainsIoWrites : Option (Phase × Err) → Bool
  | some (.latched, _) | some (.driverRead, _) => false
  | _ => true

/-- `DebugControl::force_io`: replace the entry for an equal address or append. -/
def forceIo : List (Addr × Value) → Addr → Value → List (Addr × Value)
  | [], a, v => [(a, v)]
  | (a', v') :: rest, a, v => if a' = a then (a', v) :: rest else (a', v') :: forceIo rest a v

/-- `DebugControl::release_io`. -/
def releaseIo (fs : List (Addr × Value)) (a : Addr) : List (Addr × Value) :=
  fs.filter fun p => p.1 ≠ a

/-! ## Straight-line program bodies used by the correspondence run

The theorems quantify over arbitrary `Prog.run`; the generated ST programs only use these three
statement shapes, so that the model does not depend on expression semantics (that is C02's). -/

inductive Stmt
  /-- `dst := src;` between variables of the same declared type -/
  | copy (dst src : Nat)
  /-- `dst := 100 / v;` with DINT operands: `DivisionByZero` when `v = 0` -/
  | divBy (dst v : Nat)
  /-- `seq := seq + 1; dst := seq;` with DINT operands -/
  | stamp (seq dst : Nat)
deriving DecidableEq, Repr, Inhabited

def execStmt (s : Store) : Stmt → Store × Option Err
  | .copy dst src =>
    match s src with
    | some v => (s.set dst v, none)
    | none => (s, some .unmodelled)
  | .divBy dst v =>
    match s v with
    | some (.dint 0) => (s, some .divisionByZero)
    | some (.dint x) => (s.set dst (.dint (Int.tdiv 100 x)), none)
    | _ => (s, some .unmodelled)
  | .stamp seq dst =>
    match s seq with
    | some (.dint x) =>
      if x + 1 < 2147483648 then ((s.set seq (.dint (x + 1))).set dst (.dint (x + 1)), none)
      else (s, some .unmodelled)
    | _ => (s, some .unmodelled)

def execStmts : List Stmt → Store → Store × Option Err
  | [], s => (s, none)
  | st :: rest, s =>
    match execStmt s st with
    | (s', some e) => (s', some e)
    | (s', none) => execStmts rest s'

/-! ## Partial access on bit-string values (`value/partial_access.rs`) -/

inductive PAccess
  | bit (i : Nat) | byte (i : Nat) | word (i : Nat) | dword (i : Nat)
deriving DecidableEq, Repr, Inhabited

inductive PErr
  | indexOutOfBounds (index upper : Nat)
  | typeMismatch
deriving DecidableEq, Repr, Inhabited

/-- Width in bits of a bit-string value, if it is one. -/
def Value.bitWidth : Value → Option Nat
  | .byte _ => some 8 | .word _ => some 16 | .dword _ => some 32 | .lword _ => some 64
  | _ => none

def Value.bitsVal : Value → Nat
  | .byte v | .word v | .dword v | .lword v => v
  | _ => 0

def mkBits (width v : Nat) : Value :=
  if width = 8 then .byte v else if width = 16 then .word v else if width = 32 then .dword v else .lword v

/-- Width in bits of the accessed part. -/
def PAccess.width : PAccess → Nat
  | .bit _ => 1 | .byte _ => 8 | .word _ => 16 | .dword _ => 32

def PAccess.index : PAccess → Nat
  | .bit i | .byte i | .word i | .dword i => i

/-- Bit offset of the accessed part inside the target (`index * width`). -/
def PAccess.shift (acc : PAccess) : Nat := acc.index * acc.width

/-- `((value >> (index * w)) & mask)` as the value of the part's type. -/
def mkPart (acc : PAccess) (x : Nat) : Value :=
  match acc with
  | .bit _ => .bool (x == 1)
  | .byte _ => .byte x
  | .word _ => .word x
  | .dword _ => .dword x

/-- `read_partial_access`: the match arms exist exactly for parts strictly narrower than the
target; the index bound is `target width / part width - 1`. -/
def readPartial (target : Value) (acc : PAccess) : Except PErr Value :=
  match target.bitWidth with
  | none => .error .typeMismatch
  | some tw =>
    if acc.width ≥ tw then .error .typeMismatch else
    let upper := tw / acc.width - 1
    if acc.index > upper then .error (.indexOutOfBounds acc.index upper) else
    .ok (mkPart acc ((target.bitsVal >>> (acc.index * acc.width)) &&& (2 ^ acc.width - 1)))

/-- The part's payload when the written value has the part's type. -/
def partPayload (acc : PAccess) (v : Value) : Option Nat :=
  match acc, v with
  | .bit _, .bool b => some (if b then 1 else 0)
  | .byte _, .byte x => some x
  | .word _, .word x => some x
  | .dword _, .dword x => some x
  | _, _ => none

/-- `write_partial_access`: `word &= !(mask << shift); word |= part << shift` (for a bit:
`|= 1 << i` / `&= !(1 << i)`). -/
def writePartial (target : Value) (acc : PAccess) (v : Value) : Except PErr Value :=
  match target.bitWidth, partPayload acc v with
  | some tw, some x =>
    if acc.width ≥ tw then .error .typeMismatch else
    let upper := tw / acc.width - 1
    if acc.index > upper then .error (.indexOutOfBounds acc.index upper) else
    let shift := acc.index * acc.width
    let cleared := target.bitsVal &&& (2 ^ tw - 1 - ((2 ^ acc.width - 1) <<< shift))
    .ok (mkBits tw (cleared ||| (x <<< shift)))
  | _, _ => .error .typeMismatch

end TrustVerif.C07
