import TrustVerif.Model.C06
/-
Model of the fault latch, the fault-policy decision and the safe-state application of
trust-runtime (property C08).

Mirrors, function by function (paths relative to crates/trust-runtime/src):
  io.rs                      `IoInterface::{read, write}`, `ensure_len`, `IoSafeState::apply`
  runtime/io_subsystem.rs    `IoSubsystem::apply_safe_state`
  watchdog.rs                `FaultDecision::{from_watchdog, from_fault_policy}`
  runtime/faults.rs          `FaultSubsystem::{record, clear, decision}`
  runtime/core.rs            `Runtime::{apply_fault, watchdog_timeout, simulation_fault, clear_fault,
                              set_fault_policy, set_watchdog_policy, set_io_safe_state, advance_time}`
  runtime/cycle.rs           `Runtime::{execute_cycle, read_cycle_inputs, write_cycle_outputs,
                              record_fault, execute_task / execute_background_programs (as a plan)}`
  runtime/restart.rs         `Runtime::restart` (fallible; what it does to the latch, clock and counter;
                              the re-initialisation of variables is an abstract function — C09's subject)

The machine is generic in the compiled application (`Sem`): the program bodies, the task plan, the
binding latch/publish and the drivers are arbitrary functions, so the theorems of Props/C08.lean
quantify over every program, every binding set and every (deterministic, stateful) driver.
`Conc` below instantiates `Sem` with the small statement language the correspondence harness
generates (and with the C06 scheduler model for the plan), so that the driver can replay cases.

Import-free apart from Model/C06 (core Lean only) so that the driver links as a `lean_exe`.
-/
namespace TrustVerif.C08

/-! ## Addresses, values, images (`io.rs`) -/

/-- `IoArea`. -/
inductive Area | input | output | memory
deriving DecidableEq, Repr

/-- `IoSize`. -/
inductive Size | bit | byte | word | dword | lword
deriving DecidableEq, Repr

/-- Number of image bytes an access of this size touches. -/
def Size.width : Size → Nat
  | .bit => 1 | .byte => 1 | .word => 2 | .dword => 4 | .lword => 8

/-- `IoAddress` (all fields are public in the Rust struct, so all are modelled). -/
structure Addr where
  area : Area
  size : Size
  byte : Nat
  bit : Nat
  path : List Nat
  wildcard : Bool
deriving DecidableEq, Repr

/-- The `Value` variants that can reach `IoInterface::write` in the modelled fragment: the five
image-typed ones and `int` standing for every variant `write` rejects on a flat address. -/
inductive Value
  | bool (b : Bool)
  | byte (n : Nat)
  | word (n : Nat)
  | dword (n : Nat)
  | lword (n : Nat)
  | int (n : Int)
deriving DecidableEq, Repr

/-- `RuntimeError`, reduced to the classes that occur at the modelled sites. -/
inductive Err
  | resourceFaulted
  | watchdogTimeout
  | simulationFault
  | divisionByZero
  | indexOutOfBounds
  | typeMismatch
  | overflow
  | invalidIoAddress
  | ioDriverRead (d : Nat)
  | ioDriverWrite (d : Nat)
  | retainStore
  | executionTimeout
  | other (n : Nat)
deriving DecidableEq, Repr

/-- `IoAddressKey` (key of the hierarchical side map). -/
structure HKey where
  area : Area
  size : Size
  path : List Nat
  bit : Nat
deriving DecidableEq, Repr

def Addr.key (a : Addr) : HKey := { area := a.area, size := a.size, path := a.path, bit := a.bit }

/-- `IoInterface` without the bindings (those live in `Sem.latch` / `Sem.publish`). The
`HashMap` is an association list: newest binding of a key first, older ones removed. -/
structure Io where
  inputs : List Nat
  outputs : List Nat
  memory : List Nat
  hier : List (HKey × Value)
deriving DecidableEq, Repr

def Io.area (io : Io) : Area → List Nat
  | .input => io.inputs
  | .output => io.outputs
  | .memory => io.memory

def Io.setArea (io : Io) (ar : Area) (buf : List Nat) : Io :=
  match ar with
  | .input => { io with inputs := buf }
  | .output => { io with outputs := buf }
  | .memory => { io with memory := buf }

/-- `inputs_mut().fill(0); outputs_mut().fill(0); memory_mut().fill(0)` (cold restart). -/
def Io.zeroed (io : Io) : Io :=
  { io with inputs := io.inputs.map (fun _ => 0), outputs := io.outputs.map (fun _ => 0),
            memory := io.memory.map (fun _ => 0) }

/-- `ensure_len(buffer, index)`: grow with zeros so that `index` is valid. -/
def ensureLen (buf : List Nat) (index : Nat) : List Nat :=
  if buf.length ≤ index then buf ++ List.replicate (index + 1 - buf.length) 0 else buf

/-- `buffer.get(i).copied().unwrap_or(0)`. -/
def getByte (buf : List Nat) (i : Nat) : Nat := buf.getD i 0

/-- `buffer[i + idx] = bytes[idx]` for `idx = 0, 1, …`. -/
def setMany : List Nat → Nat → List Nat → List Nat
  | buf, _, [] => buf
  | buf, i, b :: bs => setMany (buf.set i b) (i + 1) bs

/-- `k` bytes starting at `i`, missing ones read as 0. -/
def getMany (buf : List Nat) : Nat → Nat → List Nat
  | _, 0 => []
  | i, k + 1 => getByte buf i :: getMany buf (i + 1) k

/-- `to_le_bytes` of a `k`-byte unsigned integer. -/
def encodeLE : Nat → Nat → List Nat
  | 0, _ => []
  | k + 1, n => n % 256 :: encodeLE k (n / 256)

/-- `from_le_bytes`. -/
def decodeLE : List Nat → Nat
  | [] => 0
  | b :: bs => b + 256 * decodeLE bs

/-- `*byte |= 1 << bit` on a `u8`. -/
def setBit (b bit : Nat) : Nat := b ||| (1 <<< bit)
/-- `*byte &= !(1 << bit)` on a `u8` (`!x = 255 ^ x`). -/
def clearBit (b bit : Nat) : Nat := b &&& (255 ^^^ (1 <<< bit))

/-- The flat (`path.len() <= 1`) branch of `IoInterface::read` on one area buffer. -/
def readFlat (buf : List Nat) (a : Addr) : Value :=
  match a.size with
  | .bit => .bool ((getByte buf a.byte).testBit a.bit)
  | .byte => .byte (decodeLE (getMany buf a.byte 1))
  | .word => .word (decodeLE (getMany buf a.byte 2))
  | .dword => .dword (decodeLE (getMany buf a.byte 4))
  | .lword => .lword (decodeLE (getMany buf a.byte 8))

/-- The flat branch of `IoInterface::write` on one area buffer. -/
def writeFlat (buf : List Nat) (a : Addr) (v : Value) : Except Err (List Nat) :=
  match a.size, v with
  | .bit, .bool flag =>
    let buf := ensureLen buf a.byte
    let b := getByte buf a.byte
    .ok (buf.set a.byte (if flag then setBit b a.bit else clearBit b a.bit))
  | .byte, .byte n => .ok (setMany (ensureLen buf a.byte) a.byte (encodeLE 1 n))
  | .word, .word n => .ok (setMany (ensureLen buf (a.byte + 1)) a.byte (encodeLE 2 n))
  | .dword, .dword n => .ok (setMany (ensureLen buf (a.byte + 3)) a.byte (encodeLE 4 n))
  | .lword, .lword n => .ok (setMany (ensureLen buf (a.byte + 7)) a.byte (encodeLE 8 n))
  | _, _ => .error .typeMismatch

def hierGet (h : List (HKey × Value)) (k : HKey) : Option Value :=
  match h.find? (fun p => p.1 == k) with
  | some p => some p.2
  | none => none

def hierInsert (h : List (HKey × Value)) (k : HKey) (v : Value) : List (HKey × Value) :=
  (k, v) :: h.filter (fun p => !(p.1 == k))

/-- `IoInterface::read`. -/
def Io.read (io : Io) (a : Addr) : Except Err Value :=
  if a.wildcard then .error .invalidIoAddress
  else if a.path.length > 1 then
    match hierGet io.hier a.key with
    | some v => .ok v
    | none => .error .invalidIoAddress
  else .ok (readFlat (io.area a.area) a)

/-- `IoInterface::write`. -/
def Io.write (io : Io) (a : Addr) (v : Value) : Except Err Io :=
  if a.wildcard then .error .invalidIoAddress
  else if a.path.length > 1 then .ok { io with hier := hierInsert io.hier a.key v }
  else
    match writeFlat (io.area a.area) a v with
    | .ok buf => .ok (io.setArea a.area buf)
    | .error e => .error e

/-- `IoSafeState::apply`: best effort, every entry is attempted, the first error is returned. -/
def applySafeEntries : List (Addr × Value) → Io → Io × Option Err
  | [], io => (io, none)
  | (a, v) :: rest, io =>
    match io.write a v with
    | .ok io' => applySafeEntries rest io'
    | .error e => ((applySafeEntries rest io).1, some e)

/-- Writes that stop at the first failure (`for … { io.write(..)?; }`, the debug I/O writes of
`read_cycle_inputs`). -/
def applyWrites : List (Addr × Value) → Io → Io × Option Err
  | [], io => (io, none)
  | (a, v) :: rest, io =>
    match io.write a v with
    | .ok io' => applyWrites rest io'
    | .error e => (io, some e)

/-! ### Vocabulary of the property statement (used by Props/C08.lean only) -/

/-- "The safe value has the size of its address": the address is not a wildcard and either is
hierarchical (any value is stored) or the value is of the variant `write` accepts for the size
and in the range of its Rust integer type (`bit <= 7` is what `IoAddress::parse` guarantees). -/
def fits (a : Addr) (v : Value) : Bool :=
  !a.wildcard &&
  (decide (a.path.length > 1) ||
    match a.size, v with
    | .bit, .bool _ => decide (a.bit ≤ 7)
    | .byte, .byte n => decide (n < 256)
    | .word, .word n => decide (n < 65536)
    | .dword, .dword n => decide (n < 4294967296)
    | .lword, .lword n => decide (n < 18446744073709551616)
    | _, _ => false)

/-- `IoInterface::write(a, v)` succeeds (independent of the image contents). -/
def writable (a : Addr) (v : Value) : Bool :=
  !a.wildcard &&
  (decide (a.path.length > 1) ||
    match a.size, v with
    | .bit, .bool _ => true
    | .byte, .byte _ => true
    | .word, .word _ => true
    | .dword, .dword _ => true
    | .lword, .lword _ => true
    | _, _ => false)

/-- Two flat addresses of the same area do not overlap: disjoint byte ranges, or two different
bits of the same byte. -/
def flatIndep (a b : Addr) : Bool :=
  decide (a.byte + a.size.width ≤ b.byte) || decide (b.byte + b.size.width ≤ a.byte) ||
  (a.size == .bit && b.size == .bit && a.byte == b.byte && a.bit != b.bit)

/-- A write to `b` cannot change what a read of `a` returns. -/
def indep (a b : Addr) : Bool :=
  b.wildcard ||
  (if a.path.length > 1 then !decide (b.path.length > 1) || a.key != b.key
   else decide (b.path.length > 1) || a.area != b.area || flatIndep a b)

/-- A later safe-state entry that cannot disturb the value configured for `a`: it touches
something else, or its own write is rejected. -/
def harmless (a : Addr) (e : Addr × Value) : Bool := indep a e.1 || !writable e.1 e.2

/-! ## Policies and decisions (`watchdog.rs`) -/

inductive FaultPolicy | halt | safeHalt | restart
deriving DecidableEq, Repr

inductive WatchdogAction | halt | safeHalt | restart
deriving DecidableEq, Repr

inductive FaultAction | halt | safeHalt | restart
deriving DecidableEq, Repr

structure FaultDecision where
  action : FaultAction
  applySafeState : Bool
deriving DecidableEq, Repr

/-- `FaultDecision::from_watchdog`. -/
def FaultDecision.fromWatchdog : WatchdogAction → FaultDecision
  | .halt => { action := .halt, applySafeState := true }
  | .safeHalt => { action := .safeHalt, applySafeState := true }
  | .restart => { action := .restart, applySafeState := false }

/-- `FaultDecision::from_fault_policy`. -/
def FaultDecision.fromFaultPolicy : FaultPolicy → FaultDecision
  | .halt => { action := .halt, applySafeState := false }
  | .safeHalt => { action := .safeHalt, applySafeState := true }
  | .restart => { action := .restart, applySafeState := false }

inductive RestartMode | cold | warm
deriving DecidableEq, Repr

/-! ## The resource as a state machine -/

/-- What an observer outside the runtime can see happen, in order: calls received by the I/O
drivers (with the image they were handed), program activations with the number of statements
executed, and the runtime's own `CycleStart` / `Fault` / `CycleEnd` events. -/
inductive Ev
  | cycleStart
  | drvRead (d : Nat)
  | drvWrite (d : Nat) (img : List Nat)
  | prog (p : Nat) (stmts : Nat)
  | fault (e : Err)
  | cycleEnd
deriving DecidableEq, Repr

/-- The last image driver `d` was handed in a sequence of events. -/
def lastWrite (d : Nat) : List Ev → Option (List Nat)
  | [] => none
  | .drvWrite d' img :: rest =>
    match lastWrite d rest with
    | some i => some i
    | none => if d' = d then some img else none
  | _ :: rest => lastWrite d rest

/-- The compiled application and its environment: arbitrary functions.
`σ` = everything the programs can see or change (variable storage, task states);
`δ` = the state of the outside world the runtime talks to (drivers, retain store). -/
structure Sem (σ δ : Type) where
  /-- number of registered drivers (`IoSubsystem.drivers.len()`) -/
  nDrivers : Nat
  /-- `IoDriver::read_inputs(&mut inputs)` of driver `d`: may change the input image, may fail -/
  drvRead : Nat → δ → List Nat → δ × List Nat × Option Err
  /-- `IoDriver::write_outputs(outputs)` of driver `d` -/
  drvWrite : Nat → δ → List Nat → δ × Option Err
  /-- `IoInterface::read_inputs(storage)`: bindings of `%I`/`%M` into variables (partial on failure) -/
  latch : Io → σ → σ × Option Err
  /-- `collect_ready_tasks` + sort + background list: program indices in execution order -/
  plan : Int → σ → σ × List Nat × Option Err
  /-- `execute_program`: new storage, number of statements executed, error of the faulting one -/
  exec : Int → Nat → σ → σ × Nat × Option Err
  /-- `IoInterface::write_outputs(storage)`: bindings of variables into `%Q`/`%M` (partial on failure) -/
  publish : σ → Io → Io × Option Err
  /-- `maybe_save_retain_store` at the end of a cycle -/
  persist : Int → σ → δ → δ × Option Err
  /-- what `restart` does to the variables and task states (C09).  It can fail half-way (an
  initialiser evaluated while the instances are re-created reports a runtime error): then the
  storage is left partly rebuilt and the error is returned -/
  reinit : RestartMode → σ → σ × Option Err
  /-- what a debugger write of value `v` to target `k` (a global, a retained or instance variable,
  an l-value) does to the storage; failures are discarded by the callers (`let _ = …`) -/
  poke : Nat → Int → σ → σ

/-- `Runtime`, reduced to what C08 is about. -/
structure RState (σ δ : Type) where
  faulted : Bool
  lastFault : Option Err
  policy : FaultPolicy
  wdAction : WatchdogAction
  safe : List (Addr × Value)
  io : Io
  store : σ
  env : δ
  /-- `DebugControl`'s queue of pending I/O writes (drained by `read_cycle_inputs`) -/
  dbgQ : List (Addr × Value)
  /-- `DebugControl`'s forced I/O values (`force_io` / `release_io`), applied by
  `apply_forced_values` in both `read_cycle_inputs` and `write_cycle_outputs` -/
  forced : List (Addr × Value)
  /-- `DebugControl`'s pending variable writes (`enqueue_global_write` / `enqueue_retain_write` /
  `enqueue_instance_write` / `enqueue_local_write`: one entry per target, a later write to the same
  target replaces the value in place) and pending l-value writes (`enqueue_lvalue_write`: appended);
  both are drained by `execute_cycle` AFTER the faulted check -/
  varQ : List (Nat × Int)
  lvalQ : List (Nat × Int)
  /-- `DebugControl`'s forced variables (`force_global` / `release_global` …), applied by
  `apply_forced_values` after the forced I/O values -/
  forcedVars : List (Nat × Int)
  now : Int
  cycles : Nat

/-- Result of a driver loop. -/
structure DrvRes (δ : Type) where
  env : δ
  img : List Nat
  evs : List Ev
  err : Option Err

/-- The driver loop of `apply_safe_state`: every driver is called, the first error is kept. -/
def deliver (sem : Sem σ δ) : List Nat → δ → List Nat → DrvRes δ
  | [], env, img => { env := env, img := img, evs := [], err := none }
  | d :: ds, env, img =>
    let r1 := sem.drvWrite d env img
    let r := deliver sem ds r1.1 img
    { env := r.env, img := img, evs := Ev.drvWrite d img :: r.evs,
      err := match r1.2 with | some e => some e | none => r.err }

/-- The driver loop of `write_cycle_outputs`: `write_outputs(..)?`, stops at the first error. -/
def writeDrivers (sem : Sem σ δ) : List Nat → δ → List Nat → DrvRes δ
  | [], env, img => { env := env, img := img, evs := [], err := none }
  | d :: ds, env, img =>
    let r1 := sem.drvWrite d env img
    match r1.2 with
    | some e => { env := r1.1, img := img, evs := [Ev.drvWrite d img], err := some e }
    | none =>
      let r := writeDrivers sem ds r1.1 img
      { env := r.env, img := img, evs := Ev.drvWrite d img :: r.evs, err := r.err }

/-- The driver loop of `read_cycle_inputs`: `read_inputs(..)?`, stops at the first error. -/
def readDrivers (sem : Sem σ δ) : List Nat → δ → List Nat → DrvRes δ
  | [], env, img => { env := env, img := img, evs := [], err := none }
  | d :: ds, env, img =>
    let r1 := sem.drvRead d env img
    match r1.2.2 with
    | some e => { env := r1.1, img := r1.2.1, evs := [Ev.drvRead d], err := some e }
    | none =>
      let r := readDrivers sem ds r1.1 r1.2.1
      { env := r.env, img := r.img, evs := Ev.drvRead d :: r.evs, err := r.err }

/-- Result of a phase of the cycle (or of a whole operation). -/
structure PRes (σ δ : Type) where
  st : RState σ δ
  evs : List Ev
  err : Option Err

/-- `IoSubsystem::apply_safe_state`: write every safe value into the image (best effort), then
hand the output image to every driver (best effort); the first error is returned. -/
def applySafeState (sem : Sem σ δ) (s : RState σ δ) : PRes σ δ :=
  let a := applySafeEntries s.safe s.io
  let r := deliver sem (List.range sem.nDrivers) s.env a.1.outputs
  { st := { s with io := a.1, env := r.env }, evs := r.evs,
    err := match a.2 with | some e => some e | none => r.err }

/-- `Runtime::apply_fault`: optional safe state (its error is discarded), then the latch
(`FaultSubsystem::record`), then the `Fault` event; the error is handed back to the caller. -/
def applyFault (sem : Sem σ δ) (s : RState σ δ) (e : Err) (dec : FaultDecision) : PRes σ δ :=
  let r := if dec.applySafeState then applySafeState sem s else { st := s, evs := [], err := none }
  { st := { r.st with faulted := true, lastFault := some e }, evs := r.evs ++ [Ev.fault e], err := some e }

/-- `Runtime::record_fault` (cycle.rs): `apply_fault(err, self.faults.decision())`. -/
def recordFault (sem : Sem σ δ) (s : RState σ δ) (e : Err) : PRes σ δ :=
  applyFault sem s e (FaultDecision.fromFaultPolicy s.policy)

/-- Programs of the plan in order; stops at the first failing one (`?`). -/
def runPlan (sem : Sem σ δ) (now : Int) : List Nat → σ → σ × List Ev × Option Err
  | [], st => (st, [], none)
  | p :: ps, st =>
    let r1 := sem.exec now p st
    match r1.2.2 with
    | some e => (r1.1, [Ev.prog p r1.2.1], some e)
    | none =>
      let r := runPlan sem now ps r1.1
      (r.1, Ev.prog p r1.2.1 :: r.2.1, r.2.2)

/-- A phase of `execute_cycle`. -/
abbrev Phase (σ δ : Type) := RState σ δ → PRes σ δ

/-- `read_cycle_inputs`, first loop: every driver's `read_inputs`. -/
def phaseRead (sem : Sem σ δ) : Phase σ δ := fun s =>
  let r := readDrivers sem (List.range sem.nDrivers) s.env s.io.inputs
  { st := { s with env := r.env, io := { s.io with inputs := r.img } }, evs := r.evs, err := r.err }

/-- `read_cycle_inputs`, `debug.drain_io_writes()` loop (the queue is emptied by the drain). -/
def phaseDebug : Phase σ δ := fun s =>
  let r := applyWrites s.dbgQ s.io
  { st := { s with dbgQ := [], io := r.1 }, evs := [], err := r.2 }

/-- Debugger writes applied to the storage in order. -/
def applyPokes (sem : Sem σ δ) : List (Nat × Int) → σ → σ
  | [], st => st
  | (k, v) :: rest, st => applyPokes sem rest (sem.poke k v st)

/-- The head of `execute_cycle` after the faulted check: `debug.drain_var_writes()` then
`debug.drain_lvalue_writes()` are applied to the storage (errors discarded); both queues are empty
afterwards.  Cannot fail, emits no event (it precedes `CycleStart`). -/
def phaseVarWrites (sem : Sem σ δ) : Phase σ δ := fun s =>
  { st := { s with store := applyPokes sem (s.varQ ++ s.lvalQ) s.store, varQ := [], lvalQ := [] },
    evs := [], err := none }

/-- `apply_forced_values`: `for (address, value) in forced.io { io.write(..)?; }`, then the forced
variables.  Runs after the debug writes in `read_cycle_inputs` and after the binding publish in
`write_cycle_outputs`. -/
def phaseForce (sem : Sem σ δ) : Phase σ δ := fun s =>
  let r := applyWrites s.forced s.io
  match r.2 with
  | some e => { st := { s with io := r.1 }, evs := [], err := some e }
  | none => { st := { s with io := r.1, store := applyPokes sem s.forcedVars s.store }, evs := [], err := none }

/-- `read_cycle_inputs`, `interface.read_inputs(storage)`. -/
def phaseLatch (sem : Sem σ δ) : Phase σ δ := fun s =>
  let r := sem.latch s.io s.store
  { st := { s with store := r.1 }, evs := [], err := r.2 }

/-- `collect_ready_tasks`, the sort, `execute_task` for every ready task and
`execute_background_programs`. -/
def phaseTasks (sem : Sem σ δ) : Phase σ δ := fun s =>
  let pl := sem.plan s.now s.store
  match pl.2.2 with
  | some e => { st := { s with store := pl.1 }, evs := [], err := some e }
  | none =>
    let r := runPlan sem s.now pl.2.1 pl.1
    { st := { s with store := r.1 }, evs := r.2.1, err := r.2.2 }

/-- `write_cycle_outputs`, `interface.write_outputs(storage)`. -/
def phasePublish (sem : Sem σ δ) : Phase σ δ := fun s =>
  let r := sem.publish s.store s.io
  { st := { s with io := r.1 }, evs := [], err := r.2 }

/-- `write_cycle_outputs`, second loop: every driver's `write_outputs`. -/
def phaseWrite (sem : Sem σ δ) : Phase σ δ := fun s =>
  let r := writeDrivers sem (List.range sem.nDrivers) s.env s.io.outputs
  { st := { s with env := r.env }, evs := r.evs, err := r.err }

/-- `maybe_save_retain_store`. -/
def phasePersist (sem : Sem σ δ) : Phase σ δ := fun s =>
  let r := sem.persist s.now s.store s.env
  { st := { s with env := r.1 }, evs := [], err := r.2 }

/-- Phases in order, stopping at the first error (each `return Err(self.record_fault(err))`). -/
def runPhases : List (Phase σ δ) → RState σ δ → PRes σ δ
  | [], s => { st := s, evs := [], err := none }
  | p :: ps, s =>
    let r := p s
    match r.err with
    | some _ => r
    | none =>
      let r2 := runPhases ps r.st
      { st := r2.st, evs := r.evs ++ r2.evs, err := r2.err }

def cyclePhases (sem : Sem σ δ) : List (Phase σ δ) :=
  [phaseVarWrites sem, phaseRead sem, phaseDebug, phaseForce sem, phaseLatch sem, phaseTasks sem,
   phasePublish sem, phaseForce sem, phaseWrite sem, phasePersist sem]

/-- `Runtime::execute_cycle`.  `err = some e` is `Err(e)`, `none` is `Ok(())`. -/
def executeCycle (sem : Sem σ δ) (s : RState σ δ) : PRes σ δ :=
  if s.faulted then { st := s, evs := [], err := some .resourceFaulted }
  else
    let r := runPhases (cyclePhases sem) s
    match r.err with
    | some e =>
      let f := recordFault sem r.st e
      { st := f.st, evs := Ev.cycleStart :: (r.evs ++ f.evs), err := some e }
    | none =>
      { st := { r.st with cycles := r.st.cycles + 1 }, evs := Ev.cycleStart :: (r.evs ++ [Ev.cycleEnd]),
        err := none }

/-- Operations on a resource through its public API. -/
inductive Op
  | cycle
  | advance (dt : Int)
  | watchdog
  | simFault
  | setPolicy (p : FaultPolicy)
  | setWatchdog (a : WatchdogAction)
  | setSafe (s : List (Addr × Value))
  | dbgWrite (a : Addr) (v : Value)
  | forceIo (a : Addr) (v : Value)
  | releaseIo (a : Addr)
  | varWrite (k : Nat) (v : Int)
  | lvalWrite (k : Nat) (v : Int)
  | forceVar (k : Nat) (v : Int)
  | releaseVar (k : Nat)
  | restart (m : RestartMode)
  | clearFault
deriving Repr

/-- Operations that end the latch (`Runtime::restart`, `Runtime::clear_fault`). -/
def Op.resets : Op → Bool
  | .restart _ => true
  | .clearFault => true
  | _ => false

/-- `DebugControl::force_io`: replace the value of an address already forced, else append. -/
def forceSet (f : List (Addr × Value)) (a : Addr) (v : Value) : List (Addr × Value) :=
  if f.any (fun p => p.1 == a) then f.map (fun p => if p.1 == a then (p.1, v) else p) else f ++ [(a, v)]

/-- `enqueue_var_write` / `set_forced_var`: replace the value of a target already present, else append. -/
def targetSet (q : List (Nat × Int)) (k : Nat) (v : Int) : List (Nat × Int) :=
  if q.any (fun p => p.1 == k) then q.map (fun p => if p.1 == k then (p.1, v) else p) else q ++ [(k, v)]

def step (sem : Sem σ δ) (s : RState σ δ) : Op → PRes σ δ
  | .cycle => executeCycle sem s
  | .advance dt => { st := { s with now := s.now + dt }, evs := [], err := none }
  | .watchdog => applyFault sem s .watchdogTimeout (FaultDecision.fromWatchdog s.wdAction)
  | .simFault => applyFault sem s .simulationFault (FaultDecision.fromFaultPolicy s.policy)
  | .setPolicy p => { st := { s with policy := p }, evs := [], err := none }
  | .setWatchdog a => { st := { s with wdAction := a }, evs := [], err := none }
  | .setSafe sf => { st := { s with safe := sf }, evs := [], err := none }
  | .dbgWrite a v => { st := { s with dbgQ := s.dbgQ ++ [(a, v)] }, evs := [], err := none }
  | .forceIo a v => { st := { s with forced := forceSet s.forced a v }, evs := [], err := none }
  | .releaseIo a =>
    { st := { s with forced := s.forced.filter (fun p => !(p.1 == a)) }, evs := [], err := none }
  | .varWrite k v => { st := { s with varQ := targetSet s.varQ k v }, evs := [], err := none }
  | .lvalWrite k v => { st := { s with lvalQ := s.lvalQ ++ [(k, v)] }, evs := [], err := none }
  | .forceVar k v => { st := { s with forcedVars := targetSet s.forcedVars k v }, evs := [], err := none }
  | .releaseVar k =>
    { st := { s with forcedVars := s.forcedVars.filter (fun p => !(p.1 == k)) }, evs := [], err := none }
  | .restart m =>
    -- restart.rs: variables and instances re-initialised (every `?` in that part returns early:
    -- the storage stays partly rebuilt and NOTHING below happens — in particular the latch is
    -- not cleared: a failed restart is not a restart); then call frames, clock, task states and
    -- cycle counter reset, a cold restart zero-fills the three images (lengths and the
    -- hierarchical map are kept), the latch is cleared; drivers are not called
    let r := sem.reinit m s.store
    match r.2 with
    | some e => { st := { s with store := r.1 }, evs := [], err := some e }
    | none =>
      { st := { s with store := r.1, now := 0, cycles := 0, faulted := false,
                       lastFault := none, io := if m = .cold then s.io.zeroed else s.io },
        evs := [], err := none }
  | .clearFault => { st := { s with faulted := false, lastFault := none }, evs := [], err := none }

/-- State after a history of operations. -/
def run (sem : Sem σ δ) (s : RState σ δ) : List Op → RState σ δ
  | [] => s
  | op :: ops => run sem (step sem s op).st ops

/-! ## The resource thread (`scheduler.rs`, `run_resource_loop`) -/

/-- The restart-signal block of the prologue of `run_resource_loop`: an external restart request
`m` is served by `runtime.restart(m)` followed by `runtime.load_retain_store()`, whose result is
`loadErr` (`none` = `Ok`; what a successful load does to the variables is part of `reinit`, C09).
An error ends the thread in `ResourceState::Faulted` with `last_error = e`.

NOTE (finding C08-runner-restart-failure): that error path does NOT go through `apply_fault` —
nothing is latched and no safe state is applied whatever the fault policy.  The model follows the
code.  (A failure of `restart` itself takes the same path.) -/
def runnerRestartSignal (sem : Sem σ δ) (s : RState σ δ) (m : RestartMode) (loadErr : Option Err) :
    PRes σ δ :=
  let r := step sem s (.restart m)
  match r.err with
  | some e => { st := r.st, evs := [], err := some e }
  | none => { st := r.st, evs := [], err := loadErr }

/-- One iteration of `run_resource_loop` after its prologue (stop flag, commands, restart signal,
pause): `set_current_time(now)`, `execute_cycle()`, then — only if the cycle succeeded —
`simulation.apply_post_cycle(now, &runtime)` whose result is `post` (`none` = `Ok` or no simulation
controller; an error is turned into `runtime.simulation_fault(err.to_string())`, i.e. latched
through `apply_fault` with the fault policy's decision — /repo fix 560796d), then the error branch
(policy `restart` ⇒ warm restart and `continue`, otherwise `ResourceState::Faulted`, `last_error`
and `break`), then the watchdog branch (`wdEnabled`, and `over` = the wall-clock duration of the
cycle exceeded the timeout: action `restart` ⇒ warm restart, otherwise `watchdog_timeout()`,
`Faulted`, `break`).
Result: new state, events, `some e` iff the thread ended in `Faulted` with `last_error = e`.
A warm restart that fails ends the thread in `Faulted` with the restart's error (`restart_err`),
again without `apply_fault` (same finding). -/
def runnerIter (sem : Sem σ δ) (s : RState σ δ) (t : Int) (wdEnabled over : Bool) (post : Option Err) :
    PRes σ δ :=
  let r := executeCycle sem { s with now := t }
  match r.err with
  | some e =>
    if r.st.policy = .restart then
      { st := (step sem r.st (.restart .warm)).st, evs := r.evs, err := (step sem r.st (.restart .warm)).err }
    else { st := r.st, evs := r.evs, err := some e }
  | none =>
    match post with
    | some _ =>
      let f := applyFault sem r.st .simulationFault (FaultDecision.fromFaultPolicy r.st.policy)
      if f.st.policy = .restart then
        { st := (step sem f.st (.restart .warm)).st, evs := r.evs ++ f.evs,
          err := (step sem f.st (.restart .warm)).err }
      else { st := f.st, evs := r.evs ++ f.evs, err := some .simulationFault }
    | none =>
      if wdEnabled && over then
        if r.st.wdAction = .restart then
          { st := (step sem r.st (.restart .warm)).st, evs := r.evs,
            err := (step sem r.st (.restart .warm)).err }
        else
          let f := applyFault sem r.st .watchdogTimeout (FaultDecision.fromWatchdog r.st.wdAction)
          { st := f.st, evs := r.evs ++ f.evs, err := some .watchdogTimeout }
      else { st := r.st, evs := r.evs, err := none }

/-- At most `n` iterations of the loop with a clock that advances by `interval` per iteration;
stops at the first iteration that ends the thread.  `posts k` is the result of
`apply_post_cycle` in the iteration that has `k` iterations left after it. -/
def runnerLoop (sem : Sem σ δ) (interval : Int) (wdEnabled over : Bool) (posts : Nat → Option Err) :
    Nat → RState σ δ → Int → PRes σ δ
  | 0, s, _ => { st := s, evs := [], err := none }
  | n + 1, s, t =>
    let r := runnerIter sem s t wdEnabled over (posts n)
    match r.err with
    | some _ => r
    | none =>
      let r2 := runnerLoop sem interval wdEnabled over posts n r.st (t + interval)
      { st := r2.st, evs := r.evs ++ r2.evs, err := r2.err }

/-! ## Concrete instantiation used by the correspondence run -/
namespace Conc

/-- Statements of the generated programs.  Every statement first counts itself
(`steps := steps + 1; cnt := cnt + 1;`) and then acts. -/
inductive Stmt
  | tick
  /-- `var := <typed literal>` -/
  | set (var : Nat) (v : Int)
  /-- `dst := src` -/
  | copy (dst src : Nat)
  /-- `IF n = c THEN <fault> END_IF` — `idx = false`: division by zero (directly, inside a
  FUNCTION or inside a FUNCTION_BLOCK: all surface as `DivisionByZero`); `idx = true`: array
  index out of bounds -/
  | trap (c : Nat) (idx : Bool)
deriving DecidableEq, Repr

/-- Declared type of a bound variable (decides the coercions of `coerce_from_io` /
`coerce_to_io`). `sint` is used for an `INT` variable bound with `TypeId::SINT`, the only
coercion that can fail at run time here (`Overflow`). -/
inductive BTy | bool | byte | word | dword | lword | sint
deriving DecidableEq, Repr

def BTy.size : BTy → Size
  | .bool => .bit | .byte => .byte | .word => .word | .dword => .dword | .lword => .lword
  | .sint => .byte

structure Binding where
  var : Nat
  addr : Addr
  ty : BTy
deriving DecidableEq, Repr

structure DrvScript where
  readFail : List Nat
  writeFail : List Nat
deriving DecidableEq, Repr

structure Cfg where
  tasks : List C06.Task
  progs : List (List Stmt)
  bindings : List Binding
  drivers : List DrvScript
  /-- initial values of the bound/global variables -/
  initVars : List Int
  /-- `RetainStore::store` call indices that fail; `none` = no retain store configured -/
  retain : Option (List Nat)
  /-- clock values at which the harness runs the cycle with an execution deadline in the past
  (`set_execution_deadline`): the first statement of the first program reports `ExecutionTimeout` -/
  expiredAt : List Int
  /-- per program: it declares `gain : DINT := 100 / divisor` (`divisor` = global 9, RETAIN): its
  instance cannot be (re-)created while `divisor = 0` -/
  initDiv : List Bool := []
  /-- function block instances associated with tasks (`PROGRAM I<p> WITH T : Prog<p> (fb<j> WITH T<t>)`):
  body, owning program, and per task the FB instances it runs after its programs, in order -/
  fbs : List (List Stmt) := []
  fbOwner : List Nat := []
  taskFbs : List (List Nat) := []
deriving Repr

structure CStore where
  steps : Nat
  ns : List Nat
  vars : List Int
  sts : List C06.TState
  /-- activation counters of the task-associated FB instances (of the instances the tasks refer to) -/
  fns : List Nat := []
  /-- per program: how often a restart has replaced its instance by a new one (new `InstanceId`),
  and whether the next restart will — reported by the harness: what restart does to instances and
  to the references held by bindings and tasks is C09's subject -/
  gens : List Nat := []
  idsChange : List Bool := []
deriving DecidableEq, Repr

structure CEnv where
  reads : List Nat
  writes : List Nat
  /-- last snapshot handed successfully to the retain store, number of `store` calls so far -/
  lastSnap : Option (Nat × Int)
  stores : Nat
deriving DecidableEq, Repr

def bump (xs : List Nat) (i : Nat) : List Nat := xs.set i (xs.getD i 0 + 1)

/-- Logging driver of the harness: call `k` of driver `d` stores a pattern byte at `inputs[d]`
(if present) and fails if `k` is scripted to fail. -/
def drvRead (cfg : Cfg) (d : Nat) (env : CEnv) (inp : List Nat) : CEnv × List Nat × Option Err :=
  let k := env.reads.getD d 0
  let inp' := if d < inp.length then inp.set d ((k * 17 + d * 5 + 1) % 256) else inp
  let fail := match cfg.drivers[d]? with | some sc => sc.readFail.contains k | none => false
  ({ env with reads := bump env.reads d }, inp', if fail then some (.ioDriverRead d) else none)

def drvWrite (cfg : Cfg) (d : Nat) (env : CEnv) (_img : List Nat) : CEnv × Option Err :=
  let k := env.writes.getD d 0
  let fail := match cfg.drivers[d]? with | some sc => sc.writeFail.contains k | none => false
  ({ env with writes := bump env.writes d }, if fail then some (.ioDriverWrite d) else none)

def valueToInt : Value → Int
  | .bool b => if b then 1 else 0
  | .byte n => n | .word n => n | .dword n => n | .lword n => n | .int n => n

/-- `coerce_from_io(value, ty)`. -/
def coerceFromIo (v : Value) (ty : BTy) : Except Err Int :=
  match ty, v with
  | .bool, .bool b => .ok (if b then 1 else 0)
  | .byte, .byte n => .ok n
  | .word, .word n => .ok n
  | .dword, .dword n => .ok n
  | .lword, .lword n => .ok n
  | .sint, .byte n => .ok (if n ≥ 128 then (n : Int) - 256 else n)
  | _, _ => .error .typeMismatch

/-- `coerce_to_io(value, ty, size)` for a variable whose value is `x`. -/
def coerceToIo (x : Int) (ty : BTy) (size : Size) : Except Err Value :=
  if ty.size ≠ size then .error .typeMismatch else
  match ty with
  | .bool => .ok (.bool (x != 0))
  | .byte => .ok (.byte x.toNat)
  | .word => .ok (.word x.toNat)
  | .dword => .ok (.dword x.toNat)
  | .lword => .ok (.lword x.toNat)
  | .sint => if -128 ≤ x ∧ x ≤ 127 then .ok (.byte (x % 256).toNat) else .error .overflow

/-- `IoInterface::read_inputs`. -/
def latchAux (io : Io) : List Binding → List Int → List Int × Option Err
  | [], vars => (vars, none)
  | b :: bs, vars =>
    if b.addr.area = .output then latchAux io bs vars else
    match io.read b.addr with
    | .error e => (vars, some e)
    | .ok v =>
      match coerceFromIo v b.ty with
      | .error e => (vars, some e)
      | .ok x => latchAux io bs (vars.set b.var x)

/-- `IoInterface::write_outputs`. -/
def publishAux (vars : List Int) : List Binding → Io → Io × Option Err
  | [], io => (io, none)
  | b :: bs, io =>
    if b.addr.area = .input then publishAux vars bs io else
    match coerceToIo (vars.getD b.var 0) b.ty b.addr.size with
    | .error e => (io, some e)
    | .ok v =>
      match io.write b.addr v with
      | .error e => (io, some e)
      | .ok io' => publishAux vars bs io'

/-- Body of a generated program after its header; `n` is the activation number. -/
def execStmts (n : Nat) : List Stmt → CStore → Nat → CStore × Nat × Option Err
  | [], st, cnt => (st, cnt, none)
  | s :: rest, st, cnt =>
    let st := { st with steps := st.steps + 1 }
    let cnt := cnt + 1
    match s with
    | .tick => execStmts n rest st cnt
    | .set v x => execStmts n rest { st with vars := st.vars.set v x } cnt
    | .copy d s => execStmts n rest { st with vars := st.vars.set d (st.vars.getD s 0) } cnt
    | .trap c idx =>
      if n = c then (st, cnt, some (if idx then .indexOutOfBounds else .divisionByZero))
      else execStmts n rest st cnt

/-- `execute_program` of generated program `p`: header `n := n + 1; steps := steps + 1;
cnt := 1`, then the body. -/
def exec (cfg : Cfg) (now : Int) (u : Nat) (st : CStore) : CStore × Nat × Option Err :=
  if cfg.expiredAt.contains now then (st, 0, some .executionTimeout) else
  if u < 100 then
    let n := st.ns.getD u 0 + 1
    let st := { st with ns := st.ns.set u n, steps := st.steps + 1 }
    execStmts n (cfg.progs.getD u []) st 1
  else
    -- `execute_function_block_ref` of task-associated FB instance `u - 100` (same shape of body)
    let f := u - 100
    let n := st.fns.getD f 0 + 1
    let st := { st with fns := st.fns.set f n, steps := st.steps + 1 }
    execStmts n (cfg.fbs.getD f []) st 1

/-- The scheduler of C06 decides which tasks run and in which order; `execute_task` runs the
task's programs, then its FB instances (units `100 + f`); programs without a task follow. -/
def plan (cfg : Cfg) (now : Int) (st : CStore) : CStore × List Nat × Option Err :=
  let r := C06.cycle cfg.tasks cfg.progs.length st.sts (fun _ => false) now
  let units := r.2.tasks.flatMap (fun t =>
    C06.programsOf cfg.tasks t ++ (cfg.taskFbs.getD t []).map (· + 100))
  ({ st with sts := r.1 }, units ++ C06.background cfg.tasks cfg.progs.length, none)

/-- The retain store of the harness: the only retained variable is `steps`; `store` is called
when the snapshot differs from the last one stored successfully; call `k` fails if scripted. -/
def persist (cfg : Cfg) (_now : Int) (st : CStore) (env : CEnv) : CEnv × Option Err :=
  match cfg.retain with
  | none => (env, none)
  | some fails =>
    let snap := (st.steps, st.vars.getD 9 0)
    if env.lastSnap = some snap then (env, none) else
    let k := env.stores
    if fails.contains k then ({ env with stores := k + 1 }, some .retainStore)
    else ({ env with stores := k + 1, lastSnap := some snap }, none)

/-- First program whose instance cannot be created because its initialiser divides by `d = 0`. -/
def failingProg (initDiv : List Bool) (d : Int) : Option Nat :=
  if d = 0 then initDiv.findIdx? (fun b => b) else none

/-- `restart`: first the globals (initial values; RETAIN globals keep their value in a warm
restart: `divisor` always, `steps` when a retain store is configured), then the program instances
in declaration order — program `k` fails if its initialiser divides by zero, and then programs
`< k` have been re-created, programs `>= k` have not, and nothing else has been reset; on success
task states are re-created at time 0.  An FB instance a task refers to is re-initialised only if
the restart re-initialises its program in place (no new `InstanceId`). -/
def reinit (cfg : Cfg) (m : RestartMode) (st : CStore) : CStore × Option Err :=
  let vars := if m = .warm then cfg.initVars.set 9 (st.vars.getD 9 0) else cfg.initVars
  let steps := if m = .warm ∧ cfg.retain.isSome then st.steps else 0
  let fail := failingProg cfg.initDiv (vars.getD 9 0)
  let upto := match fail with | some k => k | none => cfg.progs.length
  let done := fun (p : Nat) => decide (p < upto)
  let fresh := fun (p : Nat) => st.idsChange.getD p true
  let st' : CStore :=
    { steps := steps,
      vars := vars,
      ns := (List.range cfg.progs.length).map (fun p => if done p then 0 else st.ns.getD p 0),
      gens := (List.range cfg.progs.length).map
        (fun p => if done p && fresh p then st.gens.getD p 0 + 1 else st.gens.getD p 0),
      fns := (List.range cfg.fbs.length).map
        (fun f => let p := cfg.fbOwner.getD f 0
                  if done p && !fresh p then 0 else st.fns.getD f 0),
      sts := match fail with
        | some _ => st.sts
        | none => cfg.tasks.map (fun _ => C06.register 0 false),
      idsChange := st.idsChange }
  (st', match fail with | some _ => some .divisionByZero | none => none)

/-- Debugger write targets of the harness: `k < 100` global variable `k`; `100 + p` the activation
counter `n` of program `p` addressed through its instance global (`I<p>.n`, resolved when applied);
`1000 * (g + 1) + p` the same counter addressed by the `InstanceId` the program had in generation
`g` (a write to an instance that a restart has replaced changes nothing observable). -/
def poke (_cfg : Cfg) (k : Nat) (v : Int) (st : CStore) : CStore :=
  if k < 100 then { st with vars := st.vars.set k v }
  else if k < 1000 then { st with ns := st.ns.set (k - 100) v.toNat }
  else if k / 1000 = st.gens.getD (k % 1000) 0 + 1 then { st with ns := st.ns.set (k % 1000) v.toNat }
  else st

def sem (cfg : Cfg) : Sem CStore CEnv where
  nDrivers := cfg.drivers.length
  drvRead := drvRead cfg
  drvWrite := drvWrite cfg
  latch := fun io st => let r := latchAux io cfg.bindings st.vars; ({ st with vars := r.1 }, r.2)
  plan := plan cfg
  exec := exec cfg
  publish := fun st io => publishAux st.vars cfg.bindings io
  persist := persist cfg
  reinit := reinit cfg
  poke := poke cfg

def initStore (cfg : Cfg) (t0 : Int) : CStore :=
  { steps := 0, ns := cfg.progs.map (fun _ => 0), vars := cfg.initVars,
    sts := cfg.tasks.map (fun _ => C06.register t0 false),
    fns := cfg.fbs.map (fun _ => 0), gens := cfg.progs.map (fun _ => 0),
    idsChange := cfg.progs.map (fun _ => true) }

def initEnv (cfg : Cfg) : CEnv :=
  { reads := cfg.drivers.map (fun _ => 0), writes := cfg.drivers.map (fun _ => 0),
    lastSnap := none, stores := 0 }

def initState (cfg : Cfg) (io : Io) (t0 : Int) : RState CStore CEnv :=
  { faulted := false, lastFault := none, policy := .halt, wdAction := .safeHalt, safe := [],
    io := io, store := initStore cfg t0, env := initEnv cfg, dbgQ := [], forced := [], varQ := [],
    lvalQ := [], forcedVars := [], now := t0, cycles := 0 }

end Conc

end TrustVerif.C08
