import TrustVerif.Model.C06

/-
Model of restart / retain semantics of trust-runtime (property C09).

Mirrors, function by function:
  crates/trust-runtime/src/memory.rs            `VariableStorage` (`set_global`, `create_instance`,
                                                `set_instance_var`, `read_by_ref`, `write_by_ref`)
  crates/trust-runtime/src/instance.rs          `create_fb_instance`, `create_program_instance`
  crates/trust-runtime/src/runtime/restart.rs   `restart`, `retain_snapshot`, `apply_retain_snapshot`,
                                                `retain_on_warm`, `value_is_retainable`
  crates/trust-runtime/src/runtime/retain_store.rs  `load_retain_store`, `save_retain_store`
  crates/trust-runtime/src/runtime/core.rs      `register_program`, `register_task`, `apply_fault`
  crates/trust-runtime/src/runtime/cycle.rs     `execute_cycle`, `execute_task`,
                                                `execute_function_block_ref`, `read_cycle_inputs`,
                                                `write_cycle_outputs`
  crates/trust-runtime/src/io.rs                `IoInterface::{read_inputs, write_outputs, read, write}`,
                                                `coerce_from_io`, `coerce_to_io`
  crates/trust-runtime/src/harness/build.rs + harness/config.rs
                                                the build sequence `apply_globals`,
                                                `register_program_instances`, `apply_config_inits`,
                                                `register_access_bindings`, `attach_*_to_tasks`
The scheduler part (`collect_ready_tasks`, sort) is the C06 model.

Abstractions (stated in checks/c09.py): names are numbers; scalar values are `(type tag, integer
payload)`; initialisers are constants (already evaluated); FB types contain no FB instances
(nesting depth 1: global/program variable -> FB instance); program bodies are lists of simple
statements; the retain file codec is the identity (C10 proves the codec).

Import-free apart from the C06 model, so that the driver links as a `lean_exe`.
-/
namespace TrustVerif.C09

/-! ### Values (`value/types.rs`) -/

/-- `Value`.  Scalars: `num ty payload` (the tag is the `ValueTag` of retain.rs); strings keep
their bytes; arrays keep their dimensions; `inst` is `Value::Instance(InstanceId)`; `ref` stands
for any `Value::Reference`. -/
inductive Val where
  | num (ty : Nat) (v : Int)
  | str (ty : Nat) (bs : List Nat)
  | arr (dims : List (Int × Int)) (xs : List Val)
  | struct (fs : List (Nat × Val))
  | inst (id : Nat)
  | ref
  | null
deriving Repr, Inhabited

mutual
/-- `value_is_retainable` (restart.rs). -/
def Val.retainable : Val → Bool
  | .arr _ xs => retainableList xs
  | .struct fs => retainableFields fs
  | .ref => false
  | .inst _ => false
  | _ => true
def retainableList : List Val → Bool
  | [] => true
  | x :: xs => x.retainable && retainableList xs
def retainableFields : List (Nat × Val) → Bool
  | [] => true
  | (_, v) :: fs => v.retainable && retainableFields fs
end

mutual
/-- Structural equality test (the type is nested, so `DecidableEq` is not derivable). -/
def Val.beq : Val → Val → Bool
  | .num a x, .num b y => a == b && x == y
  | .str a x, .str b y => a == b && x == y
  | .arr d xs, .arr e ys => d == e && beqList xs ys
  | .struct fs, .struct gs => beqFields fs gs
  | .inst a, .inst b => a == b
  | .ref, .ref => true
  | .null, .null => true
  | _, _ => false
def beqList : List Val → List Val → Bool
  | [], [] => true
  | x :: xs, y :: ys => x.beq y && beqList xs ys
  | _, _ => false
def beqFields : List (Nat × Val) → List (Nat × Val) → Bool
  | [], [] => true
  | (a, x) :: xs, (b, y) :: ys => a == b && x.beq y && beqFields xs ys
  | _, _ => false
end

instance : BEq Val := ⟨Val.beq⟩

/-- Integer payload of a scalar (used to state concrete witnesses on a decidable type). -/
def Val.numVal? : Val → Option Int
  | .num _ v => some v
  | _ => none

/-- `RetainPolicy` (runtime/types.rs). -/
inductive Policy where
  | retain | nonRetain | unspecified | persistent
deriving Repr, DecidableEq, Inhabited

/-- `retain_on_warm`. -/
def retainOnWarm : Policy → Bool
  | .retain => true
  | .persistent => true
  | _ => false

/-- `RestartMode`. -/
inductive Mode where
  | cold | warm
deriving Repr, DecidableEq, Inhabited

def Mode.isWarm : Mode → Bool
  | .warm => true
  | .cold => false

/-- Error classes (`RuntimeError`) that the modelled paths can produce. -/
inductive Err where
  | resourceFaulted | nullReference | typeMismatch | undefinedFb | undefinedProgram
  | undefinedVariable | invalidTaskSingle | simulationFault | overflow | retainStore
deriving Repr, DecidableEq, Inhabited

/-! ### Ordered maps (`IndexMap<SmolStr, Value>`) as association lists -/

/-- `IndexMap::get`. -/
def aget {α : Type} : List (Nat × α) → Nat → Option α
  | [], _ => none
  | (k, v) :: rest, n => if k = n then some v else aget rest n

/-- `IndexMap::insert`: replace in place (the index is kept) or append. -/
def aset {α : Type} : List (Nat × α) → Nat → α → List (Nat × α)
  | [], n, x => [(n, x)]
  | (k, v) :: rest, n, x => if k = n then (k, x) :: rest else (k, v) :: aset rest n x

/-- `IndexMap::get_index_of`. -/
def aindex {α : Type} : List (Nat × α) → Nat → Option Nat
  | [], _ => none
  | (k, _) :: rest, n => if k = n then some 0 else (aindex rest n).map (· + 1)

/-- `IndexMap::get_index(i).map(|(_, v)| v)`. -/
def agetIdx {α : Type} (l : List (Nat × α)) (i : Nat) : Option α := (l[i]?).map (·.2)

/-- `IndexMap::get_index_mut(i)` followed by an assignment through it. -/
def asetIdx {α : Type} : List (Nat × α) → Nat → α → Option (List (Nat × α))
  | [], _, _ => none
  | (k, _) :: rest, 0, x => some ((k, x) :: rest)
  | (k, v) :: rest, i + 1, x => (asetIdx rest i x).map ((k, v) :: ·)

/-! ### Storage (`memory.rs`) -/

/-- `InstanceData` (the type name is kept as a number; `parent` is always `None` here because FB
inheritance is outside the modelled fragment). -/
structure InstData where
  tyName : Nat
  vars : List (Nat × Val)
deriving Repr, Inhabited

/-- `VariableStorage`.  `instances` is a finite map: newest binding first, first match wins.
`frames` is the number of live call frames. -/
structure Storage where
  globals : List (Nat × Val) := []
  instances : List (Nat × InstData) := []
  nextId : Nat := 0
  frames : Nat := 0
deriving Repr, Inhabited

namespace Storage

def getGlobal (s : Storage) (n : Nat) : Option Val := aget s.globals n

def setGlobal (s : Storage) (n : Nat) (v : Val) : Storage := { s with globals := aset s.globals n v }

def getInstance (s : Storage) (id : Nat) : Option InstData := aget s.instances id

/-- `create_instance`. -/
def createInstance (s : Storage) (ty : Nat) : Storage × Nat :=
  ({ s with instances := (s.nextId, { tyName := ty, vars := [] }) :: s.instances,
            nextId := s.nextId + 1 }, s.nextId)

/-- Update of one instance's data in the finite map (every binding of the key; there is only
one). -/
def updInstances (l : List (Nat × InstData)) (id : Nat) (f : InstData → InstData) :
    List (Nat × InstData) :=
  l.map (fun p => if p.1 = id then (p.1, f p.2) else p)

/-- `set_instance_var` (returns the storage unchanged when the instance does not exist, as the
Rust function returns `false`). -/
def setInstVar (s : Storage) (id n : Nat) (v : Val) : Storage :=
  { s with instances := updInstances s.instances id (fun d => { d with vars := aset d.vars n v }) }

/-- `get_instance_var`. -/
def getInstVar (s : Storage) (id n : Nat) : Option Val :=
  match s.getInstance id with
  | some d => aget d.vars n
  | none => none

end Storage

/-! ### References (`value/reference.rs`, `memory.rs`) -/

inductive Loc where
  | global
  | inst (id : Nat)
deriving Repr, DecidableEq, Inhabited

inductive Seg where
  | index (is : List Int)
  | field (n : Nat)
deriving Repr, DecidableEq, Inhabited

/-- `ValueRef`. -/
structure Ref where
  loc : Loc
  offset : Nat
  path : List Seg := []
deriving Repr, DecidableEq, Inhabited

/-- `array_offset_i64`: row-major offset, `none` when out of bounds or rank mismatch.  Processes
the dimensions from the last to the first, like the Rust loop over `.rev()`. -/
def arrayOffsetRev : List ((Int × Int) × Int) → Nat → Nat → Option Nat
  | [], off, _ => some off
  | ((lo, hi), i) :: rest, off, stride =>
    if i < lo ∨ i > hi then none
    else arrayOffsetRev rest (off + (i - lo).toNat * stride) (stride * (hi - lo + 1).toNat)

def arrayOffset (dims : List (Int × Int)) (is : List Int) : Option Nat :=
  if dims.length ≠ is.length then none else arrayOffsetRev (dims.zip is).reverse 0 1

/-- `read_by_ref_path`. -/
def readPath : Val → List Seg → Option Val
  | v, [] => some v
  | .struct fs, .field n :: rest =>
    match aget fs n with
    | some f => readPath f rest
    | none => none
  | .arr dims xs, .index is :: rest =>
    match arrayOffset dims is with
    | some off =>
      match xs[off]? with
      | some e => readPath e rest
      | none => none
    | none => none
  | _, _ => none

/-- `write_by_ref_path` (`none` = the Rust function returns `false`). -/
def writePath : Val → List Seg → Val → Option Val
  | _, [], x => some x
  | .struct fs, .field n :: rest, x =>
    match aget fs n with
    | some f =>
      match writePath f rest x with
      | some f' => some (.struct (aset fs n f'))
      | none => none
    | none => none
  | .arr dims xs, .index is :: rest, x =>
    match arrayOffset dims is with
    | some off =>
      match xs[off]? with
      | some e =>
        match writePath e rest x with
        | some e' => some (.arr dims (xs.set off e'))
        | none => none
      | none => none
    | none => none
  | _, _, _ => none

/-- `VariableStorage::read_by_ref`. -/
def Storage.readByRef (s : Storage) (r : Ref) : Option Val :=
  let root :=
    match r.loc with
    | .global => agetIdx s.globals r.offset
    | .inst id =>
      match s.getInstance id with
      | some d => agetIdx d.vars r.offset
      | none => none
  match root with
  | some v => readPath v r.path
  | none => none

/-- `VariableStorage::write_by_ref` (`none` = returned `false`). -/
def Storage.writeByRef (s : Storage) (r : Ref) (x : Val) : Option Storage :=
  match r.loc with
  | .global =>
    match agetIdx s.globals r.offset with
    | some slot =>
      match writePath slot r.path x with
      | some slot' => (asetIdx s.globals r.offset slot').map (fun g => { s with globals := g })
      | none => none
    | none => none
  | .inst id =>
    match s.getInstance id with
    | some d =>
      match agetIdx d.vars r.offset with
      | some slot =>
        match writePath slot r.path x with
        | some slot' =>
          match asetIdx d.vars r.offset slot' with
          | some vars' =>
            some { s with instances := Storage.updInstances s.instances id (fun d => { d with vars := vars' }) }
          | none => none
        | none => none
      | none => none
    | none => none

/-- `ref_for_global` / `ref_for_instance`. -/
def Storage.refForGlobal (s : Storage) (n : Nat) : Option Ref :=
  (aindex s.globals n).map (fun off => { loc := .global, offset := off })

def Storage.refForInstance (s : Storage) (id n : Nat) : Option Ref :=
  match s.getInstance id with
  | some d => (aindex d.vars n).map (fun off => { loc := .inst id, offset := off })
  | none => none

/-! ### Program text: targets and statements (test scaffolding for `cycle`) -/

inductive Scope where
  | g                 -- a global variable (VAR_EXTERNAL / configuration global)
  | l                 -- a variable of the executing instance
  | p (prog : Nat)    -- a variable of the named program instance (configuration paths only)
deriving Repr, DecidableEq, Inhabited

/-- `scope:name[.member]{.field|[i,j]}`: at most one FB-member step directly after the base
variable, then struct/array segments. -/
structure Target where
  scope : Scope
  name : Nat
  member : Option Nat := none
  path : List Seg := []
deriving Repr, Inhabited

/-- Simple statements (the only ones allowed in FB bodies). -/
inductive SStmt where
  | inc (t : Target) (k : Int)        -- t := t + k   (typed literal)
  | incu (t : Target) (k : Int)       -- t := t + k   (UNTYPED literal: SINT/INT are computed in DINT)
  | tog (t : Target)                  -- t := NOT t
  | set (t : Target) (v : Val)        -- t := literal
  | cpy (dst src : Target)            -- dst := src
deriving Repr, Inhabited

inductive Stmt where
  | simple (s : SStmt)
  | call (scope : Scope) (fbVar : Nat) (args : List (Nat × Val))   -- fbVar(in := literal, ...)
deriving Repr, Inhabited

/-! ### Static configuration held by `Runtime` -/

/-- `GlobalInitValue` (the `Class` variant is outside the fragment). -/
inductive GInit where
  | value (v : Val)
  | fb (ty : Nat)
deriving Repr, Inhabited

/-- `GlobalVarMeta` (with its key). -/
structure GlobalMeta where
  name : Nat
  retain : Policy
  init : GInit
deriving Repr, Inhabited

/-- Initialiser EXPRESSION of a program variable (integer types): typed literals, globals,
variables of the instance being initialised, `+`, `*`.  `eval_expr` reads the storage as it is
when the instance is created. -/
inductive IExpr where
  | lit (k : Int)
  | glob (n : Nat)
  | loc (n : Nat)
  | add (a b : IExpr)
  | mul (a b : IExpr)
deriving Repr, Inhabited

/-- What `init_var_defaults` does for one `VarDef`: a constant (default value overwritten by the
evaluated initialiser), a nested FB instance, nothing (`external`), or an initialiser expression
whose result is coerced to the declared type `ty` (`coerce_value_to_type`; the generated values
stay inside the range of the type). -/
inductive VInit where
  | plain (v : Val)
  | fb (ty : Nat)
  | ext
  | expr (ty : Nat) (e : IExpr)
deriving Repr, Inhabited

/-- `VarDef` (eval/mod.rs): name, retain policy, initialisation. -/
structure VarDef where
  name : Nat
  retain : Policy
  init : VInit
deriving Repr, Inhabited

/-- `FunctionBlockDef`: `members` = params (type defaults) followed by vars (defaults overwritten
by initialisers), in storage order; `ats` = members declared `AT` a direct address. -/
structure FbDef where
  name : Nat
  members : List (Nat × Val)
  body : List SStmt
deriving Repr, Inhabited

/-- `ProgramDef` (task.rs), `name` = instance name. -/
structure ProgDef where
  name : Nat
  vars : List VarDef
  body : List Stmt
deriving Repr, Inhabited

/-- `TaskConfig` (task.rs). -/
structure TaskCfg where
  name : Nat
  interval : Int
  single : Option Nat
  priority : Nat
  programs : List Nat
  fbRefs : List Ref
deriving Repr, Inhabited

/-! ### I/O (`io.rs`) -/

inductive Area where
  | input | output | memory
deriving Repr, DecidableEq, Inhabited

inductive Size where
  | bit | byte | word | dword | lword
deriving Repr, DecidableEq, Inhabited

def Size.bytes : Size → Nat
  | .bit => 1 | .byte => 1 | .word => 2 | .dword => 4 | .lword => 8

/-- `IoAddress` (flat addresses only). -/
structure IoAddr where
  area : Area
  size : Size
  byte : Nat
  bit : Nat
deriving Repr, DecidableEq, Inhabited

/-- `IoBinding` with `IoTarget::Reference` and `value_type = Some(ty)`. -/
structure IoBinding where
  target : Ref
  addr : IoAddr
  ty : Nat
deriving Repr, Inhabited

/-- `IoInterface`: bindings and the three process images. -/
structure Io where
  bindings : List IoBinding := []
  inputs : List Nat := []
  outputs : List Nat := []
  memory : List Nat := []
deriving Repr, Inhabited

def Io.area (io : Io) : Area → List Nat
  | .input => io.inputs
  | .output => io.outputs
  | .memory => io.memory

def Io.setArea (io : Io) : Area → List Nat → Io
  | .input, b => { io with inputs := b }
  | .output, b => { io with outputs := b }
  | .memory, b => { io with memory := b }

/-- `buffer.get(i).copied().unwrap_or(0)`. -/
def byteAt (b : List Nat) (i : Nat) : Nat := b.getD i 0

/-- Little-endian value of `n` bytes starting at `i`. -/
def leRead (b : List Nat) (i : Nat) : Nat → Nat
  | 0 => 0
  | n + 1 => byteAt b i + 256 * leRead b (i + 1) n

/-- `ensure_len` then store one byte. -/
def setByte (b : List Nat) (i v : Nat) : List Nat :=
  (b ++ List.replicate (i + 1 - b.length) 0).set i v

/-- Store `n` little-endian bytes of `v` starting at `i`; the buffer is first extended to cover
the last byte (`ensure_len(buffer, byte + n - 1)`). -/
def leWrite (b : List Nat) (i : Nat) (v : Nat) : Nat → List Nat
  | 0 => b
  | n + 1 => leWrite (setByte b i (v % 256)) (i + 1) (v / 256) n

/-- Raw value stored at an address: `IoInterface::read` (bit: 0/1; otherwise the unsigned
little-endian number). -/
def Io.readRaw (io : Io) (a : IoAddr) : Nat :=
  match a.size with
  | .bit => (byteAt (io.area a.area) a.byte / 2 ^ a.bit) % 2
  | s => leRead (io.area a.area) a.byte s.bytes

/-- `IoInterface::write` of a raw value of the address' size. -/
def Io.writeRaw (io : Io) (a : IoAddr) (v : Nat) : Io :=
  match a.size with
  | .bit =>
    let b := io.area a.area
    let b := b ++ List.replicate (a.byte + 1 - b.length) 0
    let old := byteAt b a.byte
    let cleared := old - ((old / 2 ^ a.bit) % 2) * 2 ^ a.bit
    io.setArea a.area (b.set a.byte (cleared + (v % 2) * 2 ^ a.bit))
  | s =>
    let b := io.area a.area
    let b := b ++ List.replicate (a.byte + s.bytes - b.length) 0
    io.setArea a.area (leWrite b a.byte v s.bytes)

/-- `expected_size_for_type`: BOOL 1, SINT 2, INT 3, DINT 4, LINT 5, USINT 6, UINT 7, UDINT 8,
ULINT 9, REAL 10, LREAL 11, BYTE 12, WORD 13, DWORD 14, LWORD 15, CHAR 26, WCHAR 27. -/
def sizeForTy : Nat → Option Size
  | 1 => some .bit
  | 2 => some .byte | 6 => some .byte | 12 => some .byte | 26 => some .byte
  | 3 => some .word | 7 => some .word | 13 => some .word | 27 => some .word
  | 4 => some .dword | 8 => some .dword | 14 => some .dword | 10 => some .dword
  | 5 => some .lword | 9 => some .lword | 15 => some .lword | 11 => some .lword
  | _ => none

def signedTy : Nat → Bool
  | 2 => true | 3 => true | 4 => true | 5 => true
  | _ => false

/-- `coerce_from_io`: the raw image value reinterpreted in the variable's type (payload of REAL /
LREAL is the bit pattern, so it is the raw value). -/
def coerceFromIo (raw : Nat) (ty : Nat) (size : Size) : Except Err Val :=
  match sizeForTy ty with
  | some s =>
    if s ≠ size then .error .typeMismatch
    else if signedTy ty ∧ raw ≥ 2 ^ (8 * s.bytes - 1) then .ok (.num ty (raw - 2 ^ (8 * s.bytes)))
    else .ok (.num ty raw)
  | none => .error .typeMismatch

/-- `coerce_to_io`: the variable's value as a raw image value (same-type values only, which is
all the typed programs of the fragment store). -/
def coerceToIo (v : Val) (ty : Nat) (size : Size) : Except Err Nat :=
  match sizeForTy ty with
  | some s =>
    if s ≠ size then .error .typeMismatch
    else
      match v with
      | .num t x =>
        if t ≠ ty then .error .typeMismatch
        else if s = .bit then .ok (x.toNat % 2)
        else .ok ((x % (2 ^ (8 * s.bytes))).toNat)
      | _ => .error .typeMismatch
  | none => .error .typeMismatch

/-! ### The runtime (`runtime/core.rs`) -/

/-- `AccessBinding` (no partial access in the fragment). -/
structure Access where
  name : Nat
  ref : Ref
deriving Repr, Inhabited

/-- `TaskState` is the C06 one. -/
abbrev TaskState := TrustVerif.C06.TState

/-- `RetainSnapshot`. -/
abbrev Snapshot := List (Nat × Val)

/-- `RetainManager` (retain.rs) minus the store handle: `autosave` = the save interval is
`Some(0)` (every cycle that finds the manager dirty saves), otherwise `None` (only explicit
saves); `dirty`, `last_save`, and `last_snapshot` — the reference of the "nothing changed, skip
the write" test. -/
structure RetainMgr where
  autosave : Bool
  dirty : Bool := false
  lastSave : Int := 0
  lastSnapshot : Option Snapshot := none
deriving Repr, Inhabited

/-- The storage medium outlives the process: `file = none` = nothing stored yet; `writable` =
whether a `RetainStore::store` call succeeds right now (directory present / scripted result). -/
structure Disk where
  file : Option Snapshot := none
  writable : Bool := true
deriving Repr, Inhabited

/-- A registered `IoDriver` of the kind every shipped driver is: `read_inputs` fills the WHOLE
input slice it is handed (its length tells the driver how much to deliver) from the field,
`write_outputs` takes the whole output slice.  `seenIn` / `seenOut`: the slice lengths the driver
was handed in the last cycle (`none` = not called). -/
structure Driver where
  field : List Nat := []
  seenIn : Option Nat := none
  seenOut : Option Nat := none
deriving Repr, Inhabited

structure Runtime where
  globalsMeta : List GlobalMeta := []
  fbs : List FbDef := []
  programs : List ProgDef := []
  tasks : List TaskCfg := []
  taskState : List TaskState := []
  io : Io := {}
  access : List Access := []
  storage : Storage := {}
  time : Int := 0
  cycleCounter : Nat := 0
  fault : Option Err := none
  retain : Option RetainMgr := none
  driver : Option Driver := none
deriving Repr, Inhabited

def findFb (fbs : List FbDef) (ty : Nat) : Option FbDef := fbs.find? (·.name == ty)

def findProg (ps : List ProgDef) (n : Nat) : Option ProgDef := ps.find? (·.name == n)

/-! ### Instance creation (`instance.rs`) -/

/-- `init_param_defaults` + `init_var_defaults` for an FB whose members are constants. -/
def setMembers (s : Storage) (id : Nat) : List (Nat × Val) → Storage
  | [] => s
  | (n, v) :: rest => setMembers (s.setInstVar id n v) id rest

/-- `create_fb_instance` (no base type). -/
def createFbInstance (fbs : List FbDef) (s : Storage) (ty : Nat) : Except Err (Storage × Nat) :=
  match findFb fbs ty with
  | none => .error .undefinedFb
  | some fb =>
    let (s1, id) := s.createInstance fb.name
    .ok (setMembers s1 id fb.members, id)

/-- `eval_expr` on an initialiser with `current_instance = id`: integer payloads (the operand
tags do not matter, the result is coerced to the declared type). -/
def IExpr.eval (s : Storage) (id : Nat) : IExpr → Option Int
  | .lit k => some k
  | .glob n =>
    match s.getGlobal n with
    | some (.num _ v) => some v
    | _ => none
  | .loc n =>
    match s.getInstVar id n with
    | some (.num _ v) => some v
    | _ => none
  | .add a b =>
    match a.eval s id, b.eval s id with
    | some x, some y => some (x + y)
    | _, _ => none
  | .mul a b =>
    match a.eval s id, b.eval s id with
    | some x, some y => some (x * y)
    | _, _ => none

/-- `init_var_defaults` over the `VarDef`s of a program. -/
def initVars (fbs : List FbDef) (s : Storage) (id : Nat) : List VarDef → Except Err Storage
  | [] => .ok s
  | d :: rest =>
    match d.init with
    | .plain v => initVars fbs (s.setInstVar id d.name v) id rest
    | .ext => initVars fbs s id rest
    | .expr ty e =>
      match e.eval s id with
      | some k => initVars fbs (s.setInstVar id d.name (.num ty k)) id rest
      | none => .error .undefinedVariable
    | .fb ty =>
      match createFbInstance fbs s ty with
      | .error e => .error e
      | .ok (s1, nid) => initVars fbs (s1.setInstVar id d.name (.inst nid)) id rest

/-- `create_program_instance`. -/
def createProgramInstance (fbs : List FbDef) (s : Storage) (p : ProgDef) :
    Except Err (Storage × Nat) :=
  let (s1, id) := s.createInstance p.name
  match initVars fbs s1 id p.vars with
  | .error e => .error e
  | .ok s2 => .ok (s2, id)

/-! ### `restart` (`runtime/restart.rs`) -/

/-- First loop of `restart` (warm only): `retained.insert(name, value)` for every global whose
policy is retained on warm and that has a value. -/
def collectRetained (s : Storage) : List GlobalMeta → List (Nat × Val) → List (Nat × Val)
  | [], acc => acc
  | m :: rest, acc =>
    if retainOnWarm m.retain then
      match s.getGlobal m.name with
      | some v => collectRetained s rest (aset acc m.name v)
      | none => collectRetained s rest acc
    else collectRetained s rest acc

/-- Inner loop over `program.vars`: `(program, var, value)` for retained, retainable values. -/
def collectProgVars (s : Storage) (prog id : Nat) : List VarDef → List (Nat × Nat × Val)
  | [] => []
  | d :: rest =>
    if retainOnWarm d.retain then
      match s.getInstVar id d.name with
      | some v =>
        if v.retainable then (prog, d.name, v) :: collectProgVars s prog id rest
        else collectProgVars s prog id rest
      | none => collectProgVars s prog id rest
    else collectProgVars s prog id rest

/-- Second loop of `restart` (warm only): over the programs. -/
def collectRetainedProgVars (s : Storage) : List ProgDef → List (Nat × Nat × Val)
  | [] => []
  | p :: rest =>
    match s.getGlobal p.name with
    | some (.inst id) => collectProgVars s p.name id p.vars ++ collectRetainedProgVars s rest
    | _ => collectRetainedProgVars s rest

/-- Third loop: re-initialise the globals (keeping the retained ones on warm). -/
def resetGlobals (fbs : List FbDef) (warm : Bool) (retained : List (Nat × Val)) :
    Storage → List GlobalMeta → Except Err Storage
  | s, [] => .ok s
  | s, m :: rest =>
    match (if warm && retainOnWarm m.retain then aget retained m.name else none) with
    | some v => resetGlobals fbs warm retained (s.setGlobal m.name v) rest
    | none =>
      match m.init with
      | .value v => resetGlobals fbs warm retained (s.setGlobal m.name v) rest
      | .fb ty =>
        match createFbInstance fbs s ty with
        | .error e => .error e
        | .ok (s1, id) => resetGlobals fbs warm retained (s1.setGlobal m.name (.inst id)) rest

/-- Fourth loop: a NEW instance for every program. -/
def recreatePrograms (fbs : List FbDef) : Storage → List ProgDef → Except Err Storage
  | s, [] => .ok s
  | s, p :: rest =>
    match createProgramInstance fbs s p with
    | .error e => .error e
    | .ok (s1, id) => recreatePrograms fbs (s1.setGlobal p.name (.inst id)) rest

/-- Fifth loop: write the retained program variables into the new instances. -/
def restoreProgVars : Storage → List (Nat × Nat × Val) → Storage
  | s, [] => s
  | s, (prog, var, v) :: rest =>
    match s.getGlobal prog with
    | some (.inst id) => restoreProgVars (s.setInstVar id var v) rest
    | _ => restoreProgVars s rest

/-- `register_task`: `TaskState::new(now)` with `last_single` seeded from the SINGLE global. -/
def registerTaskState (s : Storage) (now : Int) (single : Option Nat) : TaskState :=
  { lastSingle :=
      match single with
      | some n =>
        match s.getGlobal n with
        | some (.num 1 v) => decide (v ≠ 0)
        | _ => false
      | none => false,
    lastRun := now, overruns := 0 }

/-- `TaskState::new(current_time)`. -/
def newTaskState (now : Int) : TaskState := { lastSingle := false, lastRun := now, overruns := 0 }

/-- `io.inputs_mut().fill(0)` etc.: a cold restart zeroes the three process images (their
lengths stay). -/
def Io.zeroImages (io : Io) : Io :=
  { io with inputs := io.inputs.map (fun _ => 0), outputs := io.outputs.map (fun _ => 0),
            memory := io.memory.map (fun _ => 0) }

/-- `Runtime::restart`.  After the five loops: frames cleared, clock zero, every task's state
re-seeded exactly as `register_task` does (from the re-initialised SINGLE global), on `Cold` the
process images zeroed, fault latch cleared, cycle counter zero. -/
def restart (mode : Mode) (rt : Runtime) : Except Err Runtime :=
  let warm := mode.isWarm
  let retained := if warm then collectRetained rt.storage rt.globalsMeta [] else []
  let retainedPv := if warm then collectRetainedProgVars rt.storage rt.programs else []
  match resetGlobals rt.fbs warm retained rt.storage rt.globalsMeta with
  | .error e => .error e
  | .ok s1 =>
    match recreatePrograms rt.fbs s1 rt.programs with
    | .error e => .error e
    | .ok s2 =>
      let s3 := restoreProgVars s2 retainedPv
      .ok { rt with
        storage := { s3 with frames := 0 },
        time := 0,
        taskState := rt.tasks.map (fun t => registerTaskState s3 0 t.single),
        io := if warm then rt.io else rt.io.zeroImages,
        fault := none,
        cycleCounter := 0 }

/-! ### Retain snapshots (`restart.rs`, `retain_store.rs`, `retain.rs`) -/

/-- `retain_snapshot`. -/
def retainSnapshotAux (s : Storage) : List GlobalMeta → Snapshot → Snapshot
  | [], acc => acc
  | m :: rest, acc =>
    if retainOnWarm m.retain then
      match s.getGlobal m.name with
      | some v => if v.retainable then retainSnapshotAux s rest (aset acc m.name v)
                  else retainSnapshotAux s rest acc
      | none => retainSnapshotAux s rest acc
    else retainSnapshotAux s rest acc

def retainSnapshot (rt : Runtime) : Snapshot := retainSnapshotAux rt.storage rt.globalsMeta []

def findMeta (ms : List GlobalMeta) (n : Nat) : Option GlobalMeta := ms.find? (·.name == n)

/-- `apply_retain_snapshot`. -/
def applySnapshotAux (ms : List GlobalMeta) : Storage → Snapshot → Storage
  | s, [] => s
  | s, (n, v) :: rest =>
    match findMeta ms n with
    | some m =>
      if retainOnWarm m.retain && v.retainable then applySnapshotAux ms (s.setGlobal n v) rest
      else applySnapshotAux ms s rest
    | none => applySnapshotAux ms s rest

def applyRetainSnapshot (rt : Runtime) (snap : Snapshot) : Runtime :=
  { rt with storage := applySnapshotAux rt.globalsMeta rt.storage snap }

/-- `IndexMap::eq` as used by `RetainSnapshot == RetainSnapshot`: same length and every entry of
the first found with an equal value in the second (order-insensitive).  Values are compared
structurally; the IEEE corner cases of the derived `PartialEq` (NaN, ±0.0) are C10's subject
(`c10_manager_negzero_saved`) and outside this model's value abstraction. -/
def snapSub : Snapshot → Snapshot → Bool
  | [], _ => true
  | (k, v) :: rest, other =>
    (match aget other k with
     | some w => v.beq w
     | none => false) && snapSub rest other

def snapEq (a b : Snapshot) : Bool := decide (a.length = b.length) && snapSub a b

/-- `RetainManager::save_snapshot(snapshot, now)`: skip the write when the snapshot equals the
remembered one; otherwise `store.store(&snapshot)?` and ONLY THEN remember it and clear
`dirty` / set `last_save`.  A failing store leaves the manager untouched. -/
def RetainMgr.saveSnapshot (m : RetainMgr) (snap : Snapshot) (now : Int) (disk : Disk) :
    RetainMgr × Disk × Option Err :=
  if (match m.lastSnapshot with | some l => snapEq l snap | none => false) then
    ({ m with dirty := false, lastSave := now }, disk, none)
  else if disk.writable then
    ({ m with lastSnapshot := some snap, dirty := false, lastSave := now },
     { disk with file := some snap }, none)
  else (m, disk, some .retainStore)

/-- `save_retain_store`: no store configured ⇒ `Ok` and nothing happens (the file codec is the
identity here: encode ∘ decode = id is C10's theorem). -/
def saveRetainStore (rt : Runtime) (disk : Disk) : Runtime × Disk × Option Err :=
  match rt.retain with
  | some m =>
    let (m', disk', res) := m.saveSnapshot (retainSnapshot rt) rt.time disk
    ({ rt with retain := some m' }, disk', res)
  | none => (rt, disk, none)

/-- `maybe_save_retain_store`: `should_save(now)` then save.  With interval `Some(0)`:
`dirty`. -/
def maybeSaveRetainStore (rt : Runtime) (disk : Disk) : Runtime × Disk × Option Err :=
  match rt.retain with
  | some m => if m.autosave && m.dirty then saveRetainStore rt disk else (rt, disk, none)
  | none => (rt, disk, none)

/-- `load_retain_store`: no store or nothing stored ⇒ the empty snapshot. -/
def loadRetainStore (rt : Runtime) (disk : Disk) : Runtime :=
  match rt.retain, disk.file with
  | some _, some snap => applyRetainSnapshot rt snap
  | _, _ => rt

/-- `set_retain_store(Some(store), interval)` = `RetainManager::configure`: `last_save = now`,
not dirty, nothing remembered. -/
def setRetainStore (rt : Runtime) (autosave : Bool) : Runtime :=
  { rt with retain := some { autosave := autosave, dirty := false, lastSave := rt.time, lastSnapshot := none } }

/-! ### The restart signal of the resource thread (`scheduler.rs`, `run_resource_loop`) -/

/-- The `Arc<Mutex<Option<RestartMode>>>` shared by the control endpoint and the resource thread,
together with the thread's position: `busy = some m` while it carries out request `m` — it took
the request out of the slot and still HOLDS the lock (`guard.take()` inside `signal.lock()`,
`restart(mode)`, `load_retain_store()`, then the guard is dropped).  `blocked`: a requester
waiting for the lock.  `done`: the restarts carried out, newest first. -/
structure SigSt where
  slot : Option Mode := none
  busy : Option Mode := none
  blocked : Option Mode := none
  done : List Mode := []
deriving Repr, Inhabited

inductive SigEv where
  | request (m : Mode)    -- control endpoint: `*signal.lock() = Some(m)`
  | poll                  -- resource loop reaches `if let Some(mode) = guard.take()`
  | finish                -- restart + load done, guard dropped
deriving Repr, Inhabited

def sigStep (s : SigSt) : SigEv → SigSt
  | .request m => if s.busy.isSome then { s with blocked := some m } else { s with slot := some m }
  | .poll =>
    match s.busy, s.slot with
    | none, some m => { s with slot := none, busy := some m }
    | _, _ => s
  | .finish =>
    match s.busy with
    | some m =>
      { s with busy := none, done := m :: s.done,
               slot := (match s.blocked with | some b => some b | none => s.slot),
               blocked := none }
    | none => s

def sigRun (s : SigSt) : List SigEv → SigSt
  | [] => s
  | e :: rest => sigRun (sigStep s e) rest

/-- The thread keeps polling: whatever is left is carried out. -/
def sigQuiesce (s : SigSt) : SigSt := sigRun s [.finish, .poll, .finish, .poll, .finish]

/-- The last request made. -/
def lastRequest : List SigEv → Option Mode → Option Mode
  | [], acc => acc
  | .request m :: rest, _ => lastRequest rest (some m)
  | _ :: rest, acc => lastRequest rest acc

/-- When a scripted request reaches the signal. -/
inductive When where
  | pre       -- before the thread starts (no poll yet)
  | idle      -- every earlier request has been carried out
  | during    -- while the previous request is being carried out
deriving Repr, DecidableEq, Inhabited

/-- Events of a scripted tail (the thread starts polling after the `pre` requests). -/
def schedEvents : List (When × Mode) → Bool → List SigEv
  | [], started => if started then [] else [.poll]
  | (.pre, m) :: rest, started => .request m :: schedEvents rest started
  | (.idle, m) :: rest, started =>
    (if started then [] else [.poll]) ++ [.finish, .request m, .poll] ++ schedEvents rest true
  | (.during, m) :: rest, started =>
    (if started then [] else [.poll]) ++ [.request m, .finish, .poll] ++ schedEvents rest true

/-- The restarts a scripted tail carries out, oldest first. -/
def schedExecuted (script : List (When × Mode)) : List Mode :=
  (sigQuiesce (sigRun {} (schedEvents script false))).done.reverse

/-! ### Sized process images and drivers -/

/-- `Vec::resize(n, 0)`. -/
def vecResize (b : List Nat) (n : Nat) : List Nat := b.take n ++ List.replicate (n - b.length) 0

/-- `IoInterface::resize(inputs, outputs, memory)`: the process image is sized once at start-up. -/
def resizeIo (rt : Runtime) (ni nq nm : Nat) : Runtime :=
  { rt with io := { rt.io with inputs := vecResize rt.io.inputs ni, outputs := vecResize rt.io.outputs nq,
                               memory := vecResize rt.io.memory nm } }

/-- `add_io_driver`. -/
def addDriver (rt : Runtime) : Runtime := { rt with driver := some {} }

/-- The field presents new input bytes (environment). -/
def setField (rt : Runtime) (bytes : List Nat) : Runtime :=
  match rt.driver with
  | some d => { rt with driver := some { d with field := bytes } }
  | none => rt

/-- `driver.read_inputs(interface.inputs_mut())`: every byte of the slice is delivered. -/
def driverReadInputs (rt : Runtime) : Runtime :=
  match rt.driver with
  | some d =>
    let n := rt.io.inputs.length
    { rt with io := { rt.io with inputs := (List.range n).map (fun i => d.field.getD i 0) },
              driver := some { d with seenIn := some n } }
  | none => rt

/-- `driver.write_outputs(interface.outputs())`. -/
def driverWriteOutputs (rt : Runtime) : Runtime :=
  match rt.driver with
  | some d => { rt with driver := some { d with seenOut := some rt.io.outputs.length } }
  | none => rt

/-! ### Cycle (`runtime/cycle.rs`, `io.rs`) -/

/-- `apply_fault` (no safe state configured): latch the first... every recorded error replaces
`last_fault`; the resource is faulted. -/
def applyFault (rt : Runtime) (e : Err) : Runtime := { rt with fault := some e }

/-- `IoInterface::read_inputs`. -/
def readInputs (io : Io) : Storage → List IoBinding → Except Err Storage
  | s, [] => .ok s
  | s, b :: rest =>
    if b.addr.area = .output then readInputs io s rest
    else
      match coerceFromIo (io.readRaw b.addr) b.ty b.addr.size with
      | .error e => .error e
      | .ok v =>
        match s.writeByRef b.target v with
        | some s' => readInputs io s' rest
        | none => .error .nullReference

/-- `IoInterface::write_outputs`. -/
def writeOutputs (s : Storage) : Io → List IoBinding → Except Err Io
  | io, [] => .ok io
  | io, b :: rest =>
    if b.addr.area = .input then writeOutputs s io rest
    else
      match s.readByRef b.target with
      | none => .error .nullReference
      | some v =>
        match coerceToIo v b.ty b.addr.size with
        | .error e => .error e
        | .ok raw => writeOutputs s (io.writeRaw b.addr raw) rest

/-- Where a target lives: a slot (global name / instance variable) and a residual path. -/
inductive Slot where
  | global (n : Nat)
  | instVar (id n : Nat)
deriving Repr, Inhabited

def Storage.readSlot (s : Storage) : Slot → Option Val
  | .global n => s.getGlobal n
  | .instVar id n => s.getInstVar id n

def Storage.writeSlot (s : Storage) : Slot → Val → Storage
  | .global n, v => s.setGlobal n v
  | .instVar id n, v => s.setInstVar id n v

/-- Resolve the base of a target to a slot (`cur` = executing instance). -/
def resolveSlot (s : Storage) (cur : Option Nat) (t : Target) : Option Slot :=
  let base : Option Slot :=
    match t.scope with
    | .g => some (.global t.name)
    | .l => cur.map (fun id => .instVar id t.name)
    | .p prog =>
      match s.getGlobal prog with
      | some (.inst id) => some (.instVar id t.name)
      | _ => none
  match base, t.member with
  | some b, none => some b
  | some b, some m =>
    match s.readSlot b with
    | some (.inst j) => some (.instVar j m)
    | _ => none
  | none, _ => none

def readTarget (s : Storage) (cur : Option Nat) (t : Target) : Option Val :=
  match resolveSlot s cur t with
  | some slot =>
    match s.readSlot slot with
    | some v => readPath v t.path
    | none => none
  | none => none

def writeTarget (s : Storage) (cur : Option Nat) (t : Target) (x : Val) : Option Storage :=
  match resolveSlot s cur t with
  | some slot =>
    match s.readSlot slot with
    | some v =>
      match writePath v t.path x with
      | some v' => some (s.writeSlot slot v')
      | none => none
    | none => none
  | none => none

/-- Result type of `x + <untyped integer literal>`: the literal is a DINT unless the other operand
is unsigned or wider; SINT (2) and INT (3) operands are promoted to DINT (4).  `Stmt::Assign`
stores the result as it is. -/
def untypedTag (ty : Nat) : Nat := if ty = 2 ∨ ty = 3 then 4 else ty

/-- One simple statement. -/
def execSStmt (s : Storage) (cur : Option Nat) : SStmt → Except Err Storage
  | .inc t k =>
    match readTarget s cur t with
    | some (.num ty v) =>
      match writeTarget s cur t (.num ty (v + k)) with
      | some s' => .ok s'
      | none => .error .undefinedVariable
    | _ => .error .typeMismatch
  | .incu t k =>
    match readTarget s cur t with
    | some (.num ty v) =>
      match writeTarget s cur t (.num (untypedTag ty) (v + k)) with
      | some s' => .ok s'
      | none => .error .undefinedVariable
    | _ => .error .typeMismatch
  | .tog t =>
    match readTarget s cur t with
    | some (.num ty v) =>
      match writeTarget s cur t (.num ty (1 - v)) with
      | some s' => .ok s'
      | none => .error .undefinedVariable
    | _ => .error .typeMismatch
  | .set t x =>
    match writeTarget s cur t x with
    | some s' => .ok s'
    | none => .error .undefinedVariable
  | .cpy dst src =>
    match readTarget s cur src with
    | some v =>
      match writeTarget s cur dst v with
      | some s' => .ok s'
      | none => .error .undefinedVariable
    | none => .error .undefinedVariable

def execSStmts (cur : Option Nat) : Storage → List SStmt → Except Err Storage
  | s, [] => .ok s
  | s, st :: rest =>
    match execSStmt s cur st with
    | .error e => .error e
    | .ok s' => execSStmts cur s' rest

/-- Body of a function block executed on instance `id` (`push_frame_with_instance`, body,
`pop_frame`). -/
def execFbBody (fbs : List FbDef) (s : Storage) (id : Nat) : Except Err Storage :=
  match s.getInstance id with
  | none => .error .nullReference
  | some d =>
    match findFb fbs d.tyName with
    | none => .error .undefinedFb
    | some fb => execSStmts (some id) s fb.body

def setArgs (s : Storage) (id : Nat) : List (Nat × Val) → Storage
  | [] => s
  | (n, v) :: rest => setArgs (s.setInstVar id n v) id rest

def execStmt (fbs : List FbDef) (s : Storage) (cur : Option Nat) : Stmt → Except Err Storage
  | .simple st => execSStmt s cur st
  | .call scope fbVar args =>
    match readTarget s cur { scope := scope, name := fbVar } with
    | some (.inst j) => execFbBody fbs (setArgs s j args) j
    | _ => .error .typeMismatch

def execStmts (fbs : List FbDef) (cur : Option Nat) : Storage → List Stmt → Except Err Storage
  | s, [] => .ok s
  | s, st :: rest =>
    match execStmt fbs s cur st with
    | .error e => .error e
    | .ok s' => execStmts fbs cur s' rest

/-- `execute_program`: the executing instance is whatever the program's global holds NOW. -/
def execProgram (fbs : List FbDef) (s : Storage) (p : ProgDef) : Except Err Storage :=
  let cur := match s.getGlobal p.name with
    | some (.inst id) => some id
    | _ => none
  execStmts fbs cur s p.body

def execProgramsByName (fbs : List FbDef) (ps : List ProgDef) : Storage → List Nat → Except Err Storage
  | s, [] => .ok s
  | s, n :: rest =>
    match findProg ps n with
    | none => .error .undefinedProgram
    | some p =>
      match execProgram fbs s p with
      | .error e => .error e
      | .ok s' => execProgramsByName fbs ps s' rest

/-- `execute_function_block_ref`: the instance is read THROUGH THE STORED REFERENCE. -/
def execFbRefs (fbs : List FbDef) : Storage → List Ref → Except Err Storage
  | s, [] => .ok s
  | s, r :: rest =>
    match s.readByRef r with
    | some (.inst id) =>
      match execFbBody fbs s id with
      | .error e => .error e
      | .ok s' => execFbRefs fbs s' rest
    | some _ => .error .typeMismatch
    | none => .error .nullReference

/-- `execute_task` for the ready tasks in execution order. -/
def execTasks (fbs : List FbDef) (ps : List ProgDef) (tasks : List TaskCfg) :
    Storage → List Nat → Except Err Storage
  | s, [] => .ok s
  | s, i :: rest =>
    match tasks[i]? with
    | none => .error .undefinedProgram
    | some tk =>
      match execProgramsByName fbs ps s tk.programs with
      | .error e => .error e
      | .ok s1 =>
        match execFbRefs fbs s1 tk.fbRefs with
        | .error e => .error e
        | .ok s2 => execTasks fbs ps tasks s2 rest

/-- `execute_background_programs`: programs named by no task, in registration order. -/
def backgroundPrograms (rt : Runtime) : List ProgDef :=
  rt.programs.filter (fun p => !(rt.tasks.flatMap (·.programs)).contains p.name)

def execPrograms (fbs : List FbDef) : Storage → List ProgDef → Except Err Storage
  | s, [] => .ok s
  | s, p :: rest =>
    match execProgram fbs s p with
    | .error e => .error e
    | .ok s' => execPrograms fbs s' rest

/-- SINGLE value of every task at the start of the cycle (`collect_ready_tasks`): `none` =
error. -/
def singleValues (s : Storage) : List TaskCfg → Except Err (List Bool)
  | [] => .ok []
  | tk :: rest =>
    match singleValues s rest with
    | .error e => .error e
    | .ok bs =>
      match tk.single with
      | none => .ok (false :: bs)
      | some n =>
        match s.getGlobal n with
        | some (.num 1 v) => .ok (decide (v ≠ 0) :: bs)
        | some _ => .error .invalidTaskSingle
        | none => .error .undefinedVariable

/-- The C06 view of the task table. -/
def c06Tasks (tasks : List TaskCfg) : List TrustVerif.C06.Task :=
  (List.range tasks.length).zip tasks |>.map fun (i, tk) =>
    { interval := tk.interval, single := tk.single.map (fun _ => i), priority := tk.priority, programs := [] }

/-- `ready.sort_by_key(|e| (priority, due_at, index))`: a stable sort by the C06 key, written as
insertion sort so that it is structurally recursive (kernel-evaluable in the concrete
witnesses).  Any stable sort returns the same list. -/
def insertReady (r : TrustVerif.C06.Ready) : List TrustVerif.C06.Ready → List TrustVerif.C06.Ready
  | [] => [r]
  | x :: rest => if TrustVerif.C06.keyLe r x then r :: x :: rest else x :: insertReady r rest

def sortReady : List TrustVerif.C06.Ready → List TrustVerif.C06.Ready
  | [] => []
  | r :: rest => insertReady r (sortReady rest)

/-- `Runtime::execute_cycle`.  Returns the new runtime, the new disk and the result. -/
def cycle (rt : Runtime) (disk : Disk) : Runtime × Disk × Option Err :=
  let rt := match rt.driver with
    | some d => { rt with driver := some { d with seenIn := none, seenOut := none } }
    | none => rt
  match rt.fault with
  | some _ => (rt, disk, some .resourceFaulted)
  | none =>
    -- `read_cycle_inputs`: the drivers deliver first, then the bindings latch
    let rt := driverReadInputs rt
    match readInputs rt.io rt.storage rt.io.bindings with
    | .error e => (applyFault rt e, disk, some e)
    | .ok s0 =>
      let rt0 := { rt with storage := s0 }
      match singleValues s0 rt.tasks with
      | .error e => (applyFault rt0 e, disk, some e)
      | .ok svs =>
        let c := TrustVerif.C06.collect (c06Tasks rt.tasks) rt.taskState (fun i => svs.getD i false) rt.time
        let order := (sortReady c.2).map (·.index)
        let rt1 := { rt0 with taskState := c.1 }
        match execTasks rt.fbs rt.programs rt.tasks s0 order with
        | .error e => (applyFault rt1 e, disk, some e)
        | .ok s1 =>
          match execPrograms rt.fbs s1 (backgroundPrograms rt) with
          | .error e => (applyFault { rt1 with storage := s1 } e, disk, some e)
          | .ok s2 =>
            let rt2 := { rt1 with storage := s2 }
            match writeOutputs s2 rt.io rt.io.bindings with
            | .error e => (applyFault rt2 e, disk, some e)
            | .ok io' =>
              -- `write_cycle_outputs`: publish through the bindings, then hand the image to the drivers
              let rt3 := driverWriteOutputs { rt2 with io := io' }
              -- `if self.retain.has_store() { mark_dirty(); maybe_save_retain_store()? }`
              match rt3.retain with
              | none => ({ rt3 with cycleCounter := rt3.cycleCounter + 1 }, disk, none)
              | some m =>
                let rt4 := { rt3 with retain := some { m with dirty := true } }
                match maybeSaveRetainStore rt4 disk with
                | (rt5, disk', some e) => (applyFault rt5 e, disk', some e)
                | (rt5, disk', none) => ({ rt5 with cycleCounter := rt5.cycleCounter + 1 }, disk', none)

/-- `advance_time`. -/
def advanceTime (rt : Runtime) (dt : Int) : Runtime := { rt with time := rt.time + dt }

/-- `simulation_fault`. -/
def simulationFault (rt : Runtime) : Runtime := applyFault rt .simulationFault

/-- `TestHarness::set_direct_input` (`IoInterface::write` of a raw value; any area). -/
def setDirect (rt : Runtime) (a : IoAddr) (raw : Nat) : Runtime := { rt with io := rt.io.writeRaw a raw }

/-- `read_access` / `write_access`. -/
def readAccess (rt : Runtime) (n : Nat) : Option Val :=
  match rt.access.find? (·.name == n) with
  | some a => rt.storage.readByRef a.ref
  | none => none

def writeAccess (rt : Runtime) (n : Nat) (v : Val) : Except Err Runtime :=
  match rt.access.find? (·.name == n) with
  | some a =>
    match rt.storage.writeByRef a.ref v with
    | some s => .ok { rt with storage := s }
    | none => .error .nullReference
  | none => .error .undefinedVariable

/-! ### The build sequence (`harness/build.rs`, `harness/config.rs`) -/

/-- A global declaration (`GlobalInit` after constant evaluation). -/
structure GlobalDecl where
  name : Nat
  retain : Policy
  init : GInit
  addr : Option (IoAddr × Nat) := none
deriving Repr, Inhabited

/-- A program variable declaration. -/
structure PVarDecl where
  var : VarDef
  addr : Option (IoAddr × Nat) := none
deriving Repr, Inhabited

/-- FB type declaration: members plus `AT` bindings of members. -/
structure FbDecl where
  fb : FbDef
  ats : List (Nat × IoAddr × Nat) := []
deriving Repr, Inhabited

structure ProgDecl where
  name : Nat
  vars : List PVarDecl
  body : List Stmt
  task : Option Nat := none
  fbTasks : List (Nat × Nat) := []          -- (FB variable, task name)
deriving Repr, Inhabited

structure TaskDecl where
  name : Nat
  interval : Int
  single : Option Nat
  priority : Nat
deriving Repr, Inhabited

/-- Everything the build reads from the sources. -/
structure Source where
  globals : List GlobalDecl := []
  fbs : List FbDecl := []
  programs : List ProgDecl := []
  tasks : List TaskDecl := []
  access : List (Nat × Target) := []        -- VAR_ACCESS name : path
  configInits : List (Target × Val) := []   -- VAR_CONFIG path : T := value
deriving Repr, Inhabited

def Source.fbDefs (src : Source) : List FbDef := src.fbs.map (·.fb)

def ProgDecl.toDef (p : ProgDecl) : ProgDef :=
  { name := p.name, vars := p.vars.map (·.var), body := p.body }

def findFbDecl (fbs : List FbDecl) (ty : Nat) : Option FbDecl := fbs.find? (·.fb.name == ty)

/-- First part of `apply_globals`: create the values (FB instances for FB-typed globals, the
evaluated initial value otherwise). -/
def buildGlobals (fbs : List FbDef) : Storage → List GlobalDecl → Except Err Storage
  | s, [] => .ok s
  | s, g :: rest =>
    match g.init with
    | .value v => buildGlobals fbs (s.setGlobal g.name v) rest
    | .fb ty =>
      match createFbInstance fbs s ty with
      | .error e => .error e
      | .ok (s1, id) => buildGlobals fbs (s1.setGlobal g.name (.inst id)) rest

/-- `collect_instance_bindings` for one FB instance: members declared `AT`. -/
def instanceBindings (fbs : List FbDecl) (s : Storage) (id : Nat) : List IoBinding :=
  match s.getInstance id with
  | none => []
  | some d =>
    match findFbDecl fbs d.tyName with
    | none => []
    | some fd =>
      fd.ats.filterMap fun (m, a, ty) =>
        (s.refForInstance id m).map fun r => { target := r, addr := a, ty := ty }

/-- Bindings of `apply_globals`: globals declared `AT` (bound at once), then the members of
global FB instances. -/
def globalBindings (fbs : List FbDecl) (s : Storage) (gs : List GlobalDecl) : List IoBinding :=
  (gs.filterMap fun g =>
    match g.addr with
    | some (a, ty) => (s.refForGlobal g.name).map fun r => { target := r, addr := a, ty := ty }
    | none => none) ++
  (gs.flatMap fun g =>
    match g.init, s.getGlobal g.name with
    | .fb _, some (.inst id) => instanceBindings fbs s id
    | _, _ => [])

/-- `collect_program_instance_bindings`: program variables declared `AT`, then nested FB
instances in variable order. -/
def programBindings (fbs : List FbDecl) (s : Storage) (p : ProgDecl) : List IoBinding :=
  match s.getGlobal p.name with
  | some (.inst id) =>
    (p.vars.filterMap fun d =>
      match d.addr with
      | some (a, ty) => (s.refForInstance id d.var.name).map fun r => { target := r, addr := a, ty := ty }
      | none => none) ++
    (match s.getInstance id with
     | some data =>
       data.vars.flatMap fun (_, v) =>
         match v with
         | .inst j => instanceBindings fbs s j
         | _ => []
     | none => [])
  | _ => []

/-- `register_program_instances`: `register_program` for each instance (the bindings are
collected per program, right after its registration, and bound after the loop). -/
def buildPrograms (fbDecls : List FbDecl) (fbs : List FbDef) :
    Storage → List ProgDecl → Except Err (Storage × List IoBinding)
  | s, [] => .ok (s, [])
  | s, p :: rest =>
    match createProgramInstance fbs s p.toDef with
    | .error e => .error e
    | .ok (s1, id) =>
      let s2 := s1.setGlobal p.name (.inst id)
      let bs := programBindings fbDecls s2 p
      match buildPrograms fbDecls fbs s2 rest with
      | .error e => .error e
      | .ok (s3, bs') => .ok (s3, bs ++ bs')

/-- `resolve_access_parts` for the path shapes of the fragment. -/
def resolveAccess (s : Storage) (t : Target) : Option Ref :=
  let base : Option Ref :=
    match t.scope with
    | .g => s.refForGlobal t.name
    | .p prog =>
      match s.getGlobal prog with
      | some (.inst id) => s.refForInstance id t.name
      | _ => none
    | .l => none
  match base, t.member with
  | some r, none => some { r with path := t.path }
  | some r, some m =>
    match s.readByRef r with
    | some (.inst j) => (s.refForInstance j m).map fun r' => { r' with path := t.path }
    | _ => none
  | none, _ => none

/-- `apply_config_inits` (initial values only). -/
def applyConfigInits : Storage → List (Target × Val) → Option Storage
  | s, [] => some s
  | s, (t, v) :: rest =>
    match resolveAccess s t with
    | some r =>
      match s.writeByRef r v with
      | some s' => applyConfigInits s' rest
      | none => none
    | none => none

/-- `attach_fb_instances_to_tasks`: the reference to the FB VARIABLE of the program instance. -/
def fbTaskRefs (s : Storage) (ps : List ProgDecl) (task : Nat) : List Ref :=
  ps.flatMap fun p =>
    p.fbTasks.filterMap fun (v, t) =>
      if t = task then resolveAccess s { scope := .p p.name, name := v } else none

/-- `build_runtime_from_source_files` from `apply_globals` on.  `none` = compile error. -/
def build (src : Source) : Option Runtime :=
  let fbs := src.fbDefs
  match buildGlobals fbs {} src.globals with
  | .error _ => none
  | .ok s1 =>
    let metas : List GlobalMeta := src.globals.map fun g =>
      { name := g.name, retain := g.retain,
        init := match g.init with
          | .value _ => .value ((s1.getGlobal g.name).getD .null)
          | .fb ty => .fb ty }
    let gb := globalBindings src.fbs s1 src.globals
    match buildPrograms src.fbs fbs s1 src.programs with
    | .error _ => none
    | .ok (s2, pb) =>
      match applyConfigInits s2 src.configInits with
      | none => none
      | some s3 =>
        let access := src.access.filterMap fun (n, t) =>
          (resolveAccess s3 t).map fun r => ({ name := n, ref := r } : Access)
        if access.length ≠ src.access.length then none else
        let tasks : List TaskCfg := src.tasks.map fun t =>
          { name := t.name, interval := t.interval, single := t.single, priority := t.priority,
            programs := (src.programs.filter (fun p => p.task == some t.name)).map (·.name),
            fbRefs := fbTaskRefs s3 src.programs t.name }
        some {
          globalsMeta := metas,
          fbs := fbs,
          programs := src.programs.map (·.toDef),
          tasks := tasks,
          taskState := src.tasks.map (fun t => registerTaskState s3 0 t.single),
          io := { bindings := gb ++ pb },
          access := access,
          storage := s3 }

/-! ### Observation by path (what `storage dump` shows; instance ids are not observable) -/

/-- Hide instance ids. -/
def obsVal : Val → Val
  | .inst _ => .inst 0
  | v => v

/-- Declared global `g` (`member = none`) or member `m` of the FB instance it holds. -/
def Runtime.readGlobalPath (rt : Runtime) (g : Nat) (member : Option Nat) : Option Val :=
  match member with
  | none => (rt.storage.getGlobal g).map obsVal
  | some m =>
    match rt.storage.getGlobal g with
    | some (.inst j) => (rt.storage.getInstVar j m).map obsVal
    | _ => none

/-- Variable `v` of the LIVE instance of program `p`, or member `m` of the FB instance held by
that variable. -/
def Runtime.readProgPath (rt : Runtime) (p v : Nat) (member : Option Nat) : Option Val :=
  match rt.storage.getGlobal p with
  | some (.inst id) =>
    match member with
    | none => (rt.storage.getInstVar id v).map obsVal
    | some m =>
      match rt.storage.getInstVar id v with
      | some (.inst j) => (rt.storage.getInstVar j m).map obsVal
      | _ => none
  | _ => none

/-- Instance ids reachable from the globals (depth 2: global → instance → nested FB
instance). -/
def liveIds (s : Storage) : List Nat :=
  s.globals.flatMap fun (_, v) =>
    match v with
    | .inst id =>
      id :: (match s.getInstance id with
        | some d => d.vars.filterMap fun (_, w) => match w with | .inst j => some j | _ => none
        | none => [])
    | _ => []

/-- A reference is connected when its root is a global slot or a variable of a reachable
instance. -/
def refLive (s : Storage) (r : Ref) : Bool :=
  match r.loc with
  | .global => true
  | .inst id => (liveIds s).contains id

/-- All references held by I/O bindings, VAR_ACCESS bindings and task FB bindings. -/
def Runtime.bindingRefs (rt : Runtime) : List Ref :=
  rt.io.bindings.map (·.target) ++ rt.access.map (·.ref) ++ rt.tasks.flatMap (·.fbRefs)

/-- Number of disconnected bindings. -/
def Runtime.deadBindings (rt : Runtime) : Nat :=
  (rt.bindingRefs.filter (fun r => !refLive rt.storage r)).length

end TrustVerif.C09
