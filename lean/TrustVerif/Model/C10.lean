import TrustVerif.Generated.C10Tags

/-
Model of the retain file of trust-runtime (property C10).

Mirrors, function by function, crates/trust-runtime/src/retain.rs:
  `encode_snapshot`, `encode_value`, `encode_string`                 (writer)
  `decode_snapshot`, `decode_value`, `RetainReader::read_*`          (reader, bounds checked)
  `FileRetainStore::{store, write_bytes, load, read_bytes}`          (save routine as a list of
                                                                      file-system operations)
  `RetainManager::save_snapshot`                                     (which snapshot reaches the
                                                                      file: `PartialEq` change detection)
The tag numbers, the magic, the version and the nesting limit come from
`Generated/C10Tags.lean`, regenerated from `enum ValueTag` / the constants on every run.

Representation choices (none of them loses information the codec can see):
  * bytes are `UInt8`; scalars carry their exact width as `UIntN`; a signed Rust payload (`i8`…`i64`,
    `Duration`, the date/time newtypes) is represented by its two's-complement bit pattern
    (`to_le_bytes` of `iN` and of the `uN` with the same bits coincide, `as iN` is a bijection);
  * `f32`/`f64` are their raw bit patterns (`to_le_bytes`/`from_le_bytes` are bit-exact);
  * `String`/`SmolStr` are their UTF-8 bytes; `String::from_utf8` is `utf8Valid`;
  * `IndexMap<SmolStr, Value>` is an association list in insertion order with the `insert`
    of IndexMap (an existing key keeps its position and takes the new value).
The decoder additionally writes a ghost log of every `Vec::with_capacity` request and every
`depth` argument, so that the allocation and recursion bounds can be stated about it.

Imports only the generated table (core Lean otherwise) so that the driver links as a `lean_exe`.
-/
namespace TrustVerif.C10
open Gen

abbrev Bytes := List UInt8

/-- Error classes of `RuntimeError::RetainStore(..)` on the codec paths (plus the model's own
`fuel`, proved unreachable). -/
inductive Err
  | truncated     -- "retain data truncated"
  | magic         -- "invalid retain magic"
  | version       -- "unsupported retain version N"
  | utf8          -- "invalid utf-8 in retain"
  | tag           -- "unknown retain value tag"
  | depth         -- "retain value nested too deeply"
  | unretainable  -- "cannot retain reference/instance values"
  | fuel          -- model only: recursion fuel exhausted (never happens, `decode_no_fuel_error`)
  deriving Repr, DecidableEq

deriving instance DecidableEq for Except

/-! ## UTF-8 validity (`String::from_utf8`, Unicode table 3-7) as a DFA -/

inductive U8St
  | acc | rej | t1 | t2 | t3 | e0 | ed | f0 | f4
  deriving Repr, DecidableEq

def isCont (b : UInt8) : Bool := 0x80 ≤ b && b ≤ 0xBF

def utf8Step : U8St → UInt8 → U8St
  | .acc, b =>
    if b < 0x80 then .acc
    else if b < 0xC2 then .rej
    else if b < 0xE0 then .t1
    else if b = 0xE0 then .e0
    else if b = 0xED then .ed
    else if b < 0xF0 then .t2
    else if b = 0xF0 then .f0
    else if b < 0xF4 then .t3
    else if b = 0xF4 then .f4
    else .rej
  | .t1, b => if isCont b then .acc else .rej
  | .t2, b => if isCont b then .t1 else .rej
  | .t3, b => if isCont b then .t2 else .rej
  | .e0, b => if 0xA0 ≤ b && b ≤ 0xBF then .t1 else .rej
  | .ed, b => if 0x80 ≤ b && b ≤ 0x9F then .t1 else .rej
  | .f0, b => if 0x90 ≤ b && b ≤ 0xBF then .t2 else .rej
  | .f4, b => if 0x80 ≤ b && b ≤ 0x8F then .t2 else .rej
  | .rej, _ => .rej

/-- `String::from_utf8(bytes).is_ok()`. -/
def utf8Valid (bs : Bytes) : Bool := bs.foldl utf8Step .acc == .acc

/-! ## Little-endian integers -/

/-- `(n as uK).to_le_bytes()` for `K = 8k` (truncating like `as`). -/
def le : Nat → Nat → Bytes
  | 0, _ => []
  | k + 1, n => UInt8.ofNat (n % 256) :: le k (n / 256)

/-- `uK::from_le_bytes`. -/
def fromLe : Bytes → Nat
  | [] => 0
  | b :: bs => b.toNat + 256 * fromLe bs

/-! ## Values -/

mutual
/-- `Value` (crates/trust-runtime/src/value/types.rs). -/
inductive RValue
  | bool (b : Bool)
  | sint (v : UInt8) | int (v : UInt16) | dint (v : UInt32) | lint (v : UInt64)
  | usint (v : UInt8) | uint (v : UInt16) | udint (v : UInt32) | ulint (v : UInt64)
  | real (bits : UInt32) | lreal (bits : UInt64)
  | byte (v : UInt8) | word (v : UInt16) | dword (v : UInt32) | lword (v : UInt64)
  | time (v : UInt64) | ltime (v : UInt64) | date (v : UInt64) | ldate (v : UInt64)
  | tod (v : UInt64) | ltod (v : UInt64) | dt (v : UInt64) | ldt (v : UInt64)
  | string (s : Bytes) | wstring (s : Bytes)
  | char (v : UInt8) | wchar (v : UInt16)
  | array (dims : List (UInt64 × UInt64)) (elems : RValues)
  | struct (typeName : Bytes) (fields : RFields)
  | enum (typeName : Bytes) (variant : Bytes) (num : UInt64)
  | null
  | reference    -- `Value::Reference(_)`: not retainable
  | instance     -- `Value::Instance(_)`: not retainable
  deriving Repr, DecidableEq
/-- `Vec<Value>`. -/
inductive RValues
  | nil
  | cons (head : RValue) (tail : RValues)
  deriving Repr, DecidableEq
/-- `IndexMap<SmolStr, Value>` in iteration order. -/
inductive RFields
  | nil
  | cons (name : Bytes) (value : RValue) (tail : RFields)
  deriving Repr, DecidableEq
end

/-- `RetainSnapshot { values }`. -/
abbrev Snapshot := RFields

def RValues.length : RValues → Nat
  | .nil => 0
  | .cons _ t => t.length + 1

def RFields.length : RFields → Nat
  | .nil => 0
  | .cons _ _ t => t.length + 1

def RFields.hasKey (k : Bytes) : RFields → Bool
  | .nil => false
  | .cons n _ t => n == k || t.hasKey k

/-- Keys pairwise distinct (an invariant of every `IndexMap`). -/
def RFields.keysNodup : RFields → Bool
  | .nil => true
  | .cons n _ t => !t.hasKey n && t.keysNodup

def RFields.append : RFields → RFields → RFields
  | .nil, ys => ys
  | .cons n v t, ys => .cons n v (t.append ys)

/-- `IndexMap::insert`: an existing key keeps its position and gets the new value, a new key is
appended. -/
def RFields.insert (k : Bytes) (v : RValue) : RFields → RFields
  | .nil => .cons k v .nil
  | .cons n w t => if n == k then .cons n v t else .cons n w (t.insert k v)

/-! ## Encoder -/

/-- `encode_string`: `(len as u32).to_le_bytes()` followed by the bytes. -/
def encString (s : Bytes) : Bytes := le 4 s.length ++ s

/-- The dimension loop of the `Value::Array` arm. -/
def encDims : List (UInt64 × UInt64) → Bytes
  | [] => []
  | (lo, hi) :: t => le 8 lo.toNat ++ le 8 hi.toNat ++ encDims t

mutual
/-- `encode_value(out, value, depth)`; returns the bytes appended to `out`. -/
def encodeValue (depth : Nat) (v : RValue) : Except Err Bytes :=
  if depth > maxDepth then .error .depth else
  match v with
  | .bool b => .ok [tagBool, if b then 1 else 0]
  | .sint v => .ok (tagSInt :: le 1 v.toNat)
  | .int v => .ok (tagInt :: le 2 v.toNat)
  | .dint v => .ok (tagDInt :: le 4 v.toNat)
  | .lint v => .ok (tagLInt :: le 8 v.toNat)
  | .usint v => .ok (tagUSInt :: le 1 v.toNat)
  | .uint v => .ok (tagUInt :: le 2 v.toNat)
  | .udint v => .ok (tagUDInt :: le 4 v.toNat)
  | .ulint v => .ok (tagULInt :: le 8 v.toNat)
  | .real v => .ok (tagReal :: le 4 v.toNat)
  | .lreal v => .ok (tagLReal :: le 8 v.toNat)
  | .byte v => .ok (tagByte :: le 1 v.toNat)
  | .word v => .ok (tagWord :: le 2 v.toNat)
  | .dword v => .ok (tagDWord :: le 4 v.toNat)
  | .lword v => .ok (tagLWord :: le 8 v.toNat)
  | .time v => .ok (tagTime :: le 8 v.toNat)
  | .ltime v => .ok (tagLTime :: le 8 v.toNat)
  | .date v => .ok (tagDate :: le 8 v.toNat)
  | .ldate v => .ok (tagLDate :: le 8 v.toNat)
  | .tod v => .ok (tagTod :: le 8 v.toNat)
  | .ltod v => .ok (tagLTod :: le 8 v.toNat)
  | .dt v => .ok (tagDt :: le 8 v.toNat)
  | .ldt v => .ok (tagLdt :: le 8 v.toNat)
  | .string s => .ok (tagString :: encString s)
  | .wstring s => .ok (tagWString :: encString s)
  | .char v => .ok (tagChar :: le 1 v.toNat)
  | .wchar v => .ok (tagWChar :: le 2 v.toNat)
  | .array dims elems =>
    match encodeValues (depth + 1) elems with
    | .error e => .error e
    | .ok body => .ok (tagArray :: (le 4 elems.length ++ (le 4 dims.length ++ (encDims dims ++ body))))
  | .struct tn fields =>
    match encodeFields (depth + 1) fields with
    | .error e => .error e
    | .ok body => .ok (tagStruct :: (encString tn ++ (le 4 fields.length ++ body)))
  | .enum tn vn num => .ok (tagEnum :: (encString tn ++ (encString vn ++ le 8 num.toNat)))
  | .null => .ok [tagNull]
  | .reference => .error .unretainable
  | .instance => .error .unretainable
/-- `for element in &array.elements { encode_value(out, element, depth)? }`. -/
def encodeValues (depth : Nat) : RValues → Except Err Bytes
  | .nil => .ok []
  | .cons v t =>
    match encodeValue depth v with
    | .error e => .error e
    | .ok a =>
      match encodeValues depth t with
      | .error e => .error e
      | .ok b => .ok (a ++ b)
/-- `for (name, field) in .. { encode_string(out, name); encode_value(out, field, depth)? }`. -/
def encodeFields (depth : Nat) : RFields → Except Err Bytes
  | .nil => .ok []
  | .cons n v t =>
    match encodeValue depth v with
    | .error e => .error e
    | .ok a =>
      match encodeFields depth t with
      | .error e => .error e
      | .ok b => .ok (encString n ++ (a ++ b))
end

/-- `encode_snapshot`. -/
def encodeSnapshot (s : Snapshot) : Except Err Bytes :=
  match encodeFields 0 s with
  | .error e => .error e
  | .ok body => .ok (magic ++ (le 2 version ++ (le 4 s.length ++ body)))

/-! ## Decoder -/

/-- Ghost events of a decoder run. -/
inductive Event
  | enter (depth : Nat)                  -- `decode_value(reader, depth)` was called
  | allocDims (req remaining : Nat)      -- `Vec::<(i64,i64)>::with_capacity(req)`, `remaining` unread bytes
  | allocElems (req remaining : Nat)     -- `Vec::<Value>::with_capacity(req)`, `remaining` unread bytes
  deriving Repr, DecidableEq

/-- What the property demands of a ghost event of a run over an input of `total` bytes: the
recursion never goes deeper than the limit plus the one call that rejects, and every reservation
is covered by the bytes still unread (16 per dimension pair, at least 1 per element). -/
def Event.Ok (total : Nat) : Event → Prop
  | .enter depth => depth ≤ maxDepth + 1
  | .allocDims req remaining => 16 * req ≤ remaining ∧ remaining ≤ total
  | .allocElems req remaining => req ≤ remaining ∧ remaining ≤ total

/-- The ghost log as a tree, so that sequencing costs O(1) when the model runs; its meaning is
`toList`. -/
inductive Log
  | nil
  | one (e : Event)
  | app (a b : Log)
  deriving Repr

def Log.toList : Log → List Event
  | .nil => []
  | .one e => [e]
  | .app a b => a.toList ++ b.toList

/-- Result of a reader action: the `Result`, the unread rest (`reader.offset` advanced) and the
ghost log. -/
structure W (α : Type) where
  out : Except Err (α × Bytes)
  log : Log

def W.pure (a : α) (rest : Bytes) : W α := ⟨.ok (a, rest), .nil⟩
def W.fail (e : Err) : W α := ⟨.error e, .nil⟩
/-- `let a = x?; f(a)` on the same reader. -/
def W.bind (x : W α) (f : α → Bytes → W β) : W β :=
  match x.out with
  | .error e => ⟨.error e, x.log⟩
  | .ok (a, r) =>
    let y := f a r
    ⟨y.out, .app x.log y.log⟩
def W.emit (ev : Event) (k : W α) : W α := ⟨k.out, .app (.one ev) k.log⟩

/-- `bs.split_at(n)` when `n ≤ bs.len()` (`splitAt?_eq`), in one pass. -/
def splitAt? : Nat → Bytes → Option (Bytes × Bytes)
  | 0, bs => some ([], bs)
  | _ + 1, [] => none
  | n + 1, b :: bs =>
    match splitAt? n bs with
    | none => none
    | some (x, r) => some (b :: x, r)

/-- `RetainReader::read_bytes(len)`: `end = offset + len; if end > data.len() { truncated }`. -/
def readBytes (n : Nat) (bs : Bytes) : W Bytes :=
  match splitAt? n bs with
  | some (x, r) => W.pure x r
  | none => W.fail .truncated

/-- `read_u8`. -/
def readU8 (bs : Bytes) : W UInt8 :=
  match bs with
  | [] => W.fail .truncated
  | b :: r => W.pure b r

/-- `read_u16/u32/u64` (and the `iN`/`fN` variants, which reinterpret the same bits) as a number. -/
def readLe (k : Nat) (bs : Bytes) : W Nat :=
  (readBytes k bs).bind fun x r => W.pure (fromLe x) r

/-- `read_string`. -/
def readString (bs : Bytes) : W Bytes :=
  (readLe 4 bs).bind fun len r =>
  (readBytes len r).bind fun s r =>
  if utf8Valid s then W.pure s r else W.fail .utf8

/-- `for _ in 0..dims { dimensions.push((reader.read_i64()?, reader.read_i64()?)) }`. -/
def readDims : Nat → Bytes → W (List (UInt64 × UInt64))
  | 0, bs => W.pure [] bs
  | n + 1, bs =>
    (readLe 8 bs).bind fun lo r =>
    (readLe 8 r).bind fun hi r =>
    (readDims n r).bind fun t r =>
    W.pure ((UInt64.ofNat lo, UInt64.ofNat hi) :: t) r

/-- `for _ in 0..len { elements.push(f(reader)?) }`. -/
def decodeElems (f : Bytes → W RValue) : Nat → Bytes → W RValues
  | 0, bs => W.pure .nil bs
  | n + 1, bs =>
    (f bs).bind fun v r =>
    (decodeElems f n r).bind fun t r =>
    W.pure (.cons v t) r

/-- `for _ in 0..count { let name = read_string()?; let value = f(reader)?; map.insert(name, value) }`. -/
def decodeFields (f : Bytes → W RValue) : Nat → RFields → Bytes → W RFields
  | 0, acc, bs => W.pure acc bs
  | n + 1, acc, bs =>
    (readString bs).bind fun name r =>
    (f r).bind fun v r =>
    decodeFields f n (acc.insert name v) r

/-- The arm of `match tag` that is taken (first match wins). -/
inductive Kind
  | bool | sint | int | dint | lint | usint | uint | udint | ulint | real | lreal
  | byte | word | dword | lword | time | ltime | date | ldate | tod | ltod | dt | ldt
  | string | wstring | char | wchar | array | struct | enum | null | unknown
  deriving Repr, DecidableEq

def tagKind (t : UInt8) : Kind :=
  if t = tagBool then .bool else if t = tagSInt then .sint else if t = tagInt then .int
  else if t = tagDInt then .dint else if t = tagLInt then .lint else if t = tagUSInt then .usint
  else if t = tagUInt then .uint else if t = tagUDInt then .udint else if t = tagULInt then .ulint
  else if t = tagReal then .real else if t = tagLReal then .lreal else if t = tagByte then .byte
  else if t = tagWord then .word else if t = tagDWord then .dword else if t = tagLWord then .lword
  else if t = tagTime then .time else if t = tagLTime then .ltime else if t = tagDate then .date
  else if t = tagLDate then .ldate else if t = tagTod then .tod else if t = tagLTod then .ltod
  else if t = tagDt then .dt else if t = tagLdt then .ldt else if t = tagString then .string
  else if t = tagWString then .wstring else if t = tagChar then .char else if t = tagWChar then .wchar
  else if t = tagArray then .array else if t = tagStruct then .struct else if t = tagEnum then .enum
  else if t = tagNull then .null else .unknown

/-- `decode_value(reader, depth)`.  `fuel` only makes the recursion structural: the depth check
comes first, so `fuel + depth ≥ maxDepth + 1` is always enough (`decode_no_fuel_error`). -/
def decodeValue : Nat → Nat → Bytes → W RValue
  | fuel, depth, bs =>
    W.emit (.enter depth) <|
    if depth > maxDepth then W.fail .depth else
    match fuel with
    | 0 => W.fail .fuel
    | fuel + 1 =>
      (readU8 bs).bind fun tag r =>
      match tagKind tag with
      | .bool => (readU8 r).bind fun b r => W.pure (.bool (b != 0)) r
      | .sint => (readLe 1 r).bind fun n r => W.pure (.sint (UInt8.ofNat n)) r
      | .int => (readLe 2 r).bind fun n r => W.pure (.int (UInt16.ofNat n)) r
      | .dint => (readLe 4 r).bind fun n r => W.pure (.dint (UInt32.ofNat n)) r
      | .lint => (readLe 8 r).bind fun n r => W.pure (.lint (UInt64.ofNat n)) r
      | .usint => (readLe 1 r).bind fun n r => W.pure (.usint (UInt8.ofNat n)) r
      | .uint => (readLe 2 r).bind fun n r => W.pure (.uint (UInt16.ofNat n)) r
      | .udint => (readLe 4 r).bind fun n r => W.pure (.udint (UInt32.ofNat n)) r
      | .ulint => (readLe 8 r).bind fun n r => W.pure (.ulint (UInt64.ofNat n)) r
      | .real => (readLe 4 r).bind fun n r => W.pure (.real (UInt32.ofNat n)) r
      | .lreal => (readLe 8 r).bind fun n r => W.pure (.lreal (UInt64.ofNat n)) r
      | .byte => (readLe 1 r).bind fun n r => W.pure (.byte (UInt8.ofNat n)) r
      | .word => (readLe 2 r).bind fun n r => W.pure (.word (UInt16.ofNat n)) r
      | .dword => (readLe 4 r).bind fun n r => W.pure (.dword (UInt32.ofNat n)) r
      | .lword => (readLe 8 r).bind fun n r => W.pure (.lword (UInt64.ofNat n)) r
      | .time => (readLe 8 r).bind fun n r => W.pure (.time (UInt64.ofNat n)) r
      | .ltime => (readLe 8 r).bind fun n r => W.pure (.ltime (UInt64.ofNat n)) r
      | .date => (readLe 8 r).bind fun n r => W.pure (.date (UInt64.ofNat n)) r
      | .ldate => (readLe 8 r).bind fun n r => W.pure (.ldate (UInt64.ofNat n)) r
      | .tod => (readLe 8 r).bind fun n r => W.pure (.tod (UInt64.ofNat n)) r
      | .ltod => (readLe 8 r).bind fun n r => W.pure (.ltod (UInt64.ofNat n)) r
      | .dt => (readLe 8 r).bind fun n r => W.pure (.dt (UInt64.ofNat n)) r
      | .ldt => (readLe 8 r).bind fun n r => W.pure (.ldt (UInt64.ofNat n)) r
      | .string => (readString r).bind fun s r => W.pure (.string s) r
      | .wstring => (readString r).bind fun s r => W.pure (.wstring s) r
      | .char => (readLe 1 r).bind fun n r => W.pure (.char (UInt8.ofNat n)) r
      | .wchar => (readLe 2 r).bind fun n r => W.pure (.wchar (UInt16.ofNat n)) r
      | .array =>
        (readLe 4 r).bind fun len r =>
        (readLe 4 r).bind fun dims r =>
        W.emit (.allocDims (min dims (r.length / 16)) r.length) <|
        (readDims dims r).bind fun dimensions r =>
        W.emit (.allocElems (min len r.length) r.length) <|
        (decodeElems (decodeValue fuel (depth + 1)) len r).bind fun elems r =>
        W.pure (.array dimensions elems) r
      | .struct =>
        (readString r).bind fun tn r =>
        (readLe 4 r).bind fun count r =>
        (decodeFields (decodeValue fuel (depth + 1)) count .nil r).bind fun fields r =>
        W.pure (.struct tn fields) r
      | .enum =>
        (readString r).bind fun tn r =>
        (readString r).bind fun vn r =>
        (readLe 8 r).bind fun n r =>
        W.pure (.enum tn vn (UInt64.ofNat n)) r
      | .null => W.pure .null r
      | .unknown => W.fail .tag

/-- `decode_snapshot` with its ghost log (trailing bytes are ignored, as in the code). -/
def decodeSnapshotW (bs : Bytes) : W Snapshot :=
  (readBytes 4 bs).bind fun m r =>
  if m ≠ magic then W.fail .magic else
  (readLe 2 r).bind fun v r =>
  if v ≠ version then W.fail .version else
  (readLe 4 r).bind fun count r =>
  decodeFields (decodeValue (maxDepth + 1) 0) count .nil r

/-- `decode_snapshot`. -/
def decodeSnapshot (bs : Bytes) : Except Err Snapshot :=
  match (decodeSnapshotW bs).out with
  | .error e => .error e
  | .ok (s, _) => .ok s

/-! ## Well-formedness -/

/-- What `String`/`SmolStr` guarantee (valid UTF-8) plus the `as u32` length assumption. -/
def wfStr (s : Bytes) : Bool := decide (s.length < 4294967296) && utf8Valid s

mutual
/-- Type invariants of a Rust `Value` (valid UTF-8, distinct map keys) together with the length
assumption of the `as u32` casts (every length `< 2^32`). -/
def wfValue : RValue → Bool
  | .string s => wfStr s
  | .wstring s => wfStr s
  | .array dims elems =>
    decide (dims.length < 4294967296) && decide (elems.length < 4294967296) && wfValues elems
  | .struct tn fields =>
    wfStr tn && decide (fields.length < 4294967296) && fields.keysNodup && wfFields fields
  | .enum tn vn _ => wfStr tn && wfStr vn
  | _ => true
def wfValues : RValues → Bool
  | .nil => true
  | .cons v t => wfValue v && wfValues t
def wfFields : RFields → Bool
  | .nil => true
  | .cons n v t => wfStr n && wfValue v && wfFields t
end

mutual
/-- Exactly when `encode_value(_, v, depth)` returns `Ok`: no `Reference`/`Instance` anywhere
(`value_is_retainable`) and no value sits deeper than `MAX_RETAIN_DEPTH`. -/
def encodable (depth : Nat) : RValue → Bool
  | .array _ elems => decide (depth ≤ maxDepth) && encodableValues (depth + 1) elems
  | .struct _ fields => decide (depth ≤ maxDepth) && encodableFields (depth + 1) fields
  | .reference => false
  | .instance => false
  | _ => decide (depth ≤ maxDepth)
def encodableValues (depth : Nat) : RValues → Bool
  | .nil => true
  | .cons v t => encodable depth v && encodableValues depth t
def encodableFields (depth : Nat) : RFields → Bool
  | .nil => true
  | .cons _ v t => encodable depth v && encodableFields depth t
end

/-- A retainable snapshot: what `retain_snapshot()` can produce and `encode_snapshot` accepts. -/
def WfSnapshot (s : Snapshot) : Prop :=
  s.length < 4294967296 ∧ s.keysNodup = true ∧ wfFields s = true ∧ encodableFields 0 s = true

instance (s : Snapshot) : Decidable (WfSnapshot s) := by unfold WfSnapshot; infer_instance

/-! ## The save routine as file-system operations -/

/-- The two paths `FileRetainStore` touches. -/
inductive Path
  | main   -- `self.path`
  | tmp    -- `self.path` with `.tmp` appended
  deriving Repr, DecidableEq

/-- System-call level operations of `write_bytes`. -/
inductive FsOp
  | createTrunc (p : Path)            -- `File::create`: open(O_WRONLY|O_CREAT|O_TRUNC)
  | write (p : Path) (data : Bytes)   -- `write_all`: appends `data` (a crash may leave any prefix)
  | fsync (p : Path)                  -- `sync_all`
  | close (p : Path)                  -- `drop(file)`
  | rename (src dst : Path)           -- `fs::rename`
  deriving Repr, DecidableEq

/-- Directory contents visible to the next process (process death: completed system calls
survive in the page cache; power loss is out of model). -/
structure Disk where
  main : Option Bytes
  tmp : Option Bytes
  deriving Repr, DecidableEq

def Disk.get (d : Disk) : Path → Option Bytes
  | .main => d.main
  | .tmp => d.tmp

def Disk.set (d : Disk) (p : Path) (c : Option Bytes) : Disk :=
  match p with
  | .main => { d with main := c }
  | .tmp => { d with tmp := c }

def applyOp (d : Disk) : FsOp → Disk
  | .createTrunc p => d.set p (some [])
  | .write p data => d.set p (some ((d.get p).getD [] ++ data))
  | .fsync _ => d
  | .close _ => d
  | .rename src dst => (d.set dst (d.get src)).set src none

/-- `write_bytes(path, bytes)`. -/
def writeOps (bytes : Bytes) : List FsOp :=
  [.createTrunc .tmp, .write .tmp bytes, .fsync .tmp, .close .tmp, .rename .tmp .main]

/-- `FileRetainStore::store`: nothing touches the disk when encoding fails. -/
def storeOps (s : Snapshot) : List FsOp :=
  match encodeSnapshot s with
  | .error _ => []
  | .ok bytes => writeOps bytes

/-- `FileRetainStore::load`: a missing file is the empty snapshot. -/
def load (d : Disk) : Except Err Snapshot :=
  match d.main with
  | none => .ok .nil
  | some bytes => decodeSnapshot bytes

/-- `Crash ops d d'`: the process executing `ops` from disk state `d` dies (or finishes) leaving
`d'`: any prefix of the operations completed, and a `write` in progress may have completed any
prefix of its data. -/
inductive Crash : List FsOp → Disk → Disk → Prop
  | stop (ops : List FsOp) (d : Disk) : Crash ops d d
  | step (op : FsOp) (ops : List FsOp) (d d' : Disk) :
      Crash ops (applyOp d op) d' → Crash (op :: ops) d d'
  | partialWrite (p : Path) (data : Bytes) (k : Nat) (ops : List FsOp) (d : Disk) :
      Crash (.write p data :: ops) d (applyOp d (.write p (data.take k)))

/-- Executable enumeration used by the driver: the disk after the first `n` operations. -/
def runOps (d : Disk) : List FsOp → Nat → Disk
  | _, 0 => d
  | [], _ => d
  | op :: ops, n + 1 => runOps (applyOp d op) ops n

/-- The save routine before commit f87ef0b (`File::create(path)` + `write_all` in place); kept
only for the regression counterexample. -/
def writeOpsInPlace (bytes : Bytes) : List FsOp :=
  [.createTrunc .main, .write .main bytes, .close .main]


/-! ## `RetainManager::save_snapshot`: change detection (`PartialEq` and the encoded image) -/

/-- IEEE-754 `==` on `f32` bit patterns (what the derived `PartialEq` of `Value::Real` uses):
NaN is unequal to everything, `+0.0 == -0.0`. -/
def f32Eq (a b : UInt32) : Bool :=
  let nan (x : UInt32) : Bool := (x &&& 0x7F800000) == 0x7F800000 && (x &&& 0x007FFFFF) != 0
  if nan a || nan b then false
  else a == b || ((a &&& 0x7FFFFFFF) == 0 && (b &&& 0x7FFFFFFF) == 0)

/-- IEEE-754 `==` on `f64` bit patterns. -/
def f64Eq (a b : UInt64) : Bool :=
  let nan (x : UInt64) : Bool :=
    (x &&& 0x7FF0000000000000) == 0x7FF0000000000000 && (x &&& 0x000FFFFFFFFFFFFF) != 0
  if nan a || nan b then false
  else a == b || ((a &&& 0x7FFFFFFFFFFFFFFF) == 0 && (b &&& 0x7FFFFFFFFFFFFFFF) == 0)

def RFields.lookup (k : Bytes) : RFields → Option RValue
  | .nil => none
  | .cons n v t => if n == k then some v else t.lookup k

mutual
/-- The derived `PartialEq` of `Value` (floats by IEEE `==`, `IndexMap` by content regardless of
order).  `Reference`/`Instance` payloads are not modelled; a stored snapshot never holds them. -/
def valueEq : RValue → RValue → Bool
  | .real a, .real b => f32Eq a b
  | .lreal a, .lreal b => f64Eq a b
  | .array d1 e1, .array d2 e2 => decide (d1 = d2) && valuesEq e1 e2
  | .struct t1 f1, .struct t2 f2 =>
    decide (t1 = t2) && decide (f1.length = f2.length) && fieldsSubEq f1 f2
  | .real _, _ => false
  | .lreal _, _ => false
  | .array _ _, _ => false
  | .struct _ _, _ => false
  | a, b => decide (a = b)
/-- `Vec<Value> == Vec<Value>`. -/
def valuesEq : RValues → RValues → Bool
  | .nil, .nil => true
  | .cons a t, .cons b u => valueEq a b && valuesEq t u
  | _, _ => false
/-- `self.iter().all(|(k, v)| other.get(k).map_or(false, |w| v == w))` of `IndexMap::eq`. -/
def fieldsSubEq : RFields → RFields → Bool
  | .nil, _ => true
  | .cons k v t, other =>
    (match other.lookup k with
     | some w => valueEq v w
     | none => false) && fieldsSubEq t other
end

/-- `RetainSnapshot == RetainSnapshot` (`IndexMap::eq`: same length and same content). -/
def snapshotEq (a b : Snapshot) : Bool := decide (a.length = b.length) && fieldsSubEq a b

/-- The part of `RetainManager` that decides what reaches the file. -/
structure Mgr where
  last : Option Snapshot   -- `last_snapshot`
  disk : Disk
  deriving Repr, DecidableEq

/-- `same_retain_image(last, new)`: `last == new && encode_snapshot(last).ok() == encode_snapshot(new).ok()`
(`PartialEq` alone identifies `+0.0` and `-0.0`; the images do not). -/
def sameRetainImage (last new : Snapshot) : Bool :=
  snapshotEq last new && (encodeSnapshot last).toOption == (encodeSnapshot new).toOption

/-- `self.last_snapshot.as_ref().is_some_and(|last| same_retain_image(last, &snapshot))`. -/
def Mgr.unchanged (m : Mgr) (s : Snapshot) : Bool :=
  match m.last with
  | some l => sameRetainImage l s
  | none => false

/-- The body of `save_snapshot` once the change detection has answered `unchanged`. -/
def Mgr.saveIf (unchanged : Bool) (m : Mgr) (s : Snapshot) : Mgr × Except Err Unit :=
  if unchanged then (m, .ok ())
  else
    match encodeSnapshot s with
    | .error e => (m, .error e)
    | .ok bytes =>
      ({ last := some s, disk := runOps m.disk (writeOps bytes) (writeOps bytes).length }, .ok ())

/-- `RetainManager::save_snapshot(snapshot, now)` with a `FileRetainStore` (a completed save; the
`dirty`/`last_save` bookkeeping does not influence the file). -/
def Mgr.save (m : Mgr) (s : Snapshot) : Mgr × Except Err Unit :=
  Mgr.saveIf (m.unchanged s) m s

/-- The change detection before the repair of C10-negzero-not-saved
(`self.last_snapshot.as_ref() == Some(&snapshot)`); kept only for the regression counterexample. -/
def Mgr.unchangedPartialEq (m : Mgr) (s : Snapshot) : Bool :=
  match m.last with
  | some l => snapshotEq l s
  | none => false

/-- `save_snapshot` before the repair; kept only for the regression counterexample. -/
def Mgr.savePartialEq (m : Mgr) (s : Snapshot) : Mgr × Except Err Unit :=
  Mgr.saveIf (m.unchangedPartialEq s) m s

end TrustVerif.C10
