import TrustVerif.Generated.C11Opcodes
/-!
# C11 — model of the STBC bytecode container (decode / encode / validate / metadata / apply)

Mirrors, function by function, `crates/trust-runtime/src/bytecode/{reader,decode,encode,validate,
metadata,util}.rs` and `crates/trust-runtime/src/runtime/bytecode.rs` **as they are in /repo now**
(after the `fix:` commits 652eef6, 7b23796, cb0b459, ffd16eb, e5dfde6).  Imports only the generated opcode table
(`Generated/C11Opcodes.lean`, regenerated from the `match opcode` arms of
`validate.rs::validate_instruction_stream` on every run).

Conventions
* a byte string is `List UInt8`; the reader (`BytecodeReader`) is a state monad over the *remaining*
  suffix (`cursor` = consumed prefix length), failing with `UnexpectedEof` exactly when
  `cursor + len > data.len()`;
* container integers keep their Rust width (`UInt16/32/64`); `i32`/`i64` fields are kept as bit
  patterns and interpreted with `toI32`/`toI64` where the code compares or adds them;
* `SmolStr` = the UTF-8 bytes of the string (`validUtf8` mirrors `std::str::from_utf8`);
* `crc : Bytes → UInt32` is a parameter (crc32fast::hash); the driver instantiates it with a real
  CRC-32, the theorems hold for every function;
* `usize` is 64 bit: `u32 as usize + u32 as usize` cannot overflow and is modelled in `Nat`.
-/
namespace TrustVerif.C11
open TrustVerif.C11.Gen

abbrev Bytes := List UInt8

/-! ## errors (`BytecodeError`, format.rs) -/

/-- The static message of `InvalidHeader` / `InvalidSectionTable` / `InvalidSection`. -/
inductive Msg
  | headerSizeTooSmall | sectionTableBeforeHeader | sectionTableOverflow | sectionTableOutOfBounds
  | sectionCountOverflow
  | invalidRefLocation | invalidRefSegment | invalidPouKind | invalidUtf8
  | typeOffsetOutOfBounds | typeOffsetsNotSorted | typeEntryLengthMismatch | invalidTypeKind
  | invalidArrayBounds | constPayloadLength | constTypeTooDeep | unknownPrimitive
  | structCountMismatch | unsupportedConstType
  | interfaceExpectsInterface | interfaceSlotMismatch | pouCodeOutOfBounds
  | callVirtualExpectsInterface | callVirtualSlotOutOfRange
  | taskUnknownProgram | invalidRetainPolicy | pouCodeRangeOverflow | debugOffsetOutOfBounds
  | invalidIoArea | processImageTooLarge
  deriving DecidableEq, Repr, Inhabited

inductive SecName
  | stringTable | typeTable | constPool | refTable | pouIndex | pouBodies | resourceMeta | ioMap
  | debugStringTable
  deriving DecidableEq, Repr, Inhabited

inductive IdxKind | string | type | const | ref
  deriving DecidableEq, Repr, Inhabited

inductive Err
  | invalidMagic
  | unsupportedVersion (major minor : UInt16)
  | invalidHeader (m : Msg)
  | invalidChecksum (expected actual : UInt32)
  | invalidSectionTable (m : Msg)
  | sectionOutOfBounds
  | sectionOverlap
  | sectionAlignment
  | unexpectedEof
  | invalidSection (m : Msg)
  | missingSection (s : SecName)
  | invalidOpcode (op : UInt8)
  | invalidJumpTarget (t : Int)
  | invalidPouId (id : UInt32)
  | invalidIndex (k : IdxKind) (idx : UInt32)
  deriving DecidableEq, Repr, Inhabited

/-! ## little-endian integers -/

def byteAt (n k : Nat) : UInt8 := UInt8.ofNat (n / 256 ^ k % 256)

def encU16 (x : UInt16) : Bytes := [byteAt x.toNat 0, byteAt x.toNat 1]
def encU32 (x : UInt32) : Bytes := [byteAt x.toNat 0, byteAt x.toNat 1, byteAt x.toNat 2, byteAt x.toNat 3]
def encU64 (x : UInt64) : Bytes :=
  [byteAt x.toNat 0, byteAt x.toNat 1, byteAt x.toNat 2, byteAt x.toNat 3,
   byteAt x.toNat 4, byteAt x.toNat 5, byteAt x.toNat 6, byteAt x.toNat 7]

def u16Of (b0 b1 : UInt8) : UInt16 := UInt16.ofNat (b0.toNat + 256 * b1.toNat)
def u32Of (b0 b1 b2 b3 : UInt8) : UInt32 :=
  UInt32.ofNat (b0.toNat + 256 * b1.toNat + 65536 * b2.toNat + 16777216 * b3.toNat)
def u64Of (b0 b1 b2 b3 b4 b5 b6 b7 : UInt8) : UInt64 :=
  UInt64.ofNat (b0.toNat + 256 * b1.toNat + 65536 * b2.toNat + 16777216 * b3.toNat
    + 4294967296 * b4.toNat + 1099511627776 * b5.toNat + 281474976710656 * b6.toNat
    + 72057594037927936 * b7.toNat)

/-- value of an `i32` bit pattern -/
def toI32 (x : UInt32) : Int := if x.toNat < 2147483648 then x.toNat else (x.toNat : Int) - 4294967296
/-- value of an `i64` bit pattern -/
def toI64 (x : UInt64) : Int :=
  if x.toNat < 9223372036854775808 then x.toNat else (x.toNat : Int) - 18446744073709551616
/-- `n as i32` for a `usize` -/
def wrapI32 (n : Nat) : Int := toI32 (UInt32.ofNat n)
/-- `i32::checked_add` -/
def checkedAddI32 (a b : Int) : Option Int :=
  let s := a + b
  if -2147483648 ≤ s ∧ s ≤ 2147483647 then some s else none

def u32Max : UInt32 := 0xFFFFFFFF

/-- `if x == u32::MAX { None } else { Some(x) }` -/
def optU32 (x : UInt32) : Option UInt32 := if x = u32Max then none else some x
/-- `x.unwrap_or(u32::MAX)` -/
def unOpt (o : Option UInt32) : UInt32 := o.getD u32Max

/-- util.rs `align4`: `(value + 3) & !3` -/
def align4 (n : Nat) : Nat := (n + 3) / 4 * 4

def zeros (n : Nat) : Bytes := List.replicate n 0

/-! ## reader.rs — `BytecodeReader` -/

abbrev Rd (α : Type) := Bytes → Except Err (α × Bytes)

namespace Rd
@[inline] protected def pure (a : α) : Rd α := fun s => .ok (a, s)
@[inline] protected def bind (x : Rd α) (f : α → Rd β) : Rd β := fun s =>
  match x s with
  | .error e => .error e
  | .ok (a, s') => f a s'
instance : Monad Rd where
  pure := Rd.pure
  bind := Rd.bind
def fail (e : Err) : Rd α := fun _ => .error e
/-- `reader.remaining()` -/
def remaining : Rd Nat := fun s => .ok (s.length, s)
/-- run a reader on a complete slice, returning the value and what is left -/
def run (x : Rd α) (s : Bytes) : Except Err (α × Bytes) := x s
end Rd
open Rd (fail)

/-- `bounded_capacity(count)`: what `Vec::with_capacity` is given for an untrusted count. -/
def boundedCapacity (count remaining : Nat) : Nat := min count remaining

/-- `read_bytes(len)` -/
def readBytes (len : Nat) : Rd Bytes := fun s =>
  if len ≤ s.length then .ok (s.take len, s.drop len) else .error .unexpectedEof

def readU8 : Rd UInt8
  | b :: r => .ok (b, r)
  | _ => .error .unexpectedEof
def readU16 : Rd UInt16
  | b0 :: b1 :: r => .ok (u16Of b0 b1, r)
  | _ => .error .unexpectedEof
def readU32 : Rd UInt32
  | b0 :: b1 :: b2 :: b3 :: r => .ok (u32Of b0 b1 b2 b3, r)
  | _ => .error .unexpectedEof
def readU64 : Rd UInt64
  | b0 :: b1 :: b2 :: b3 :: b4 :: b5 :: b6 :: b7 :: r => .ok (u64Of b0 b1 b2 b3 b4 b5 b6 b7, r)
  | _ => .error .unexpectedEof

/-- `for _ in 0..count { v.push(elem(reader)?) }` (the preceding
`Vec::with_capacity(reader.bounded_capacity(count))` has no semantic effect; its size is
`boundedCapacity count remaining`). -/
def readN (n : Nat) (elem : Rd α) : Rd (List α) :=
  match n with
  | 0 => pure []
  | n + 1 => do
    let x ← elem
    let xs ← readN n elem
    pure (x :: xs)

/-- `.ok_or_else(|| err)?` -/
def liftOpt (o : Option α) (e : Err) : Rd α :=
  match o with
  | some a => pure a
  | none => fail e

/-- `let count = reader.read_u32()? as usize; …loop` -/
def readVec (elem : Rd α) : Rd (List α) := do
  let count ← readU32
  readN count.toNat elem

def encVec (enc : α → Bytes) (xs : List α) : Bytes :=
  encU32 (UInt32.ofNat xs.length) ++ xs.flatMap enc

/-! ## UTF-8 (`std::str::from_utf8`) -/

def isCont (b : UInt8) : Bool := 0x80 ≤ b && b ≤ 0xBF

/-- Consume one well-formed UTF-8 scalar (Unicode Table 3-7). -/
def utf8Step : Bytes → Option Bytes
  | [] => none
  | b0 :: rest =>
    if b0 < 0x80 then some rest
    else if 0xC2 ≤ b0 && b0 ≤ 0xDF then
      match rest with
      | b1 :: r => if isCont b1 then some r else none
      | _ => none
    else if 0xE0 ≤ b0 && b0 ≤ 0xEF then
      match rest with
      | b1 :: b2 :: r =>
        let ok1 := if b0 = 0xE0 then 0xA0 ≤ b1 && b1 ≤ 0xBF
                   else if b0 = 0xED then 0x80 ≤ b1 && b1 ≤ 0x9F else isCont b1
        if ok1 && isCont b2 then some r else none
      | _ => none
    else if 0xF0 ≤ b0 && b0 ≤ 0xF4 then
      match rest with
      | b1 :: b2 :: b3 :: r =>
        let ok1 := if b0 = 0xF0 then 0x90 ≤ b1 && b1 ≤ 0xBF
                   else if b0 = 0xF4 then 0x80 ≤ b1 && b1 ≤ 0x8F else isCont b1
        if ok1 && isCont b2 && isCont b3 then some r else none
      | _ => none
    else none

def validUtf8Aux : Nat → Bytes → Bool
  | _, [] => true
  | 0, _ => false
  | fuel + 1, s =>
    match utf8Step s with
    | some r => validUtf8Aux fuel r
    | none => false

def validUtf8 (s : Bytes) : Bool := validUtf8Aux s.length s

/-- `to_ascii_uppercase` -/
def upperByte (b : UInt8) : UInt8 := if 0x61 ≤ b && b ≤ 0x7A then b - 0x20 else b
def asciiUpper (s : Bytes) : Bytes := s.map upperByte
/-- `eq_ignore_ascii_case` -/
def eqIgnoreCase (a b : Bytes) : Bool := asciiUpper a == asciiUpper b

/-! ## format.rs — the decoded module -/

structure Field where
  nameIdx : UInt32
  typeId : UInt32
  deriving DecidableEq, Repr, Inhabited

structure EnumVariant where
  nameIdx : UInt32
  value : UInt64
  deriving DecidableEq, Repr, Inhabited

structure InterfaceMethod where
  nameIdx : UInt32
  slot : UInt32
  deriving DecidableEq, Repr, Inhabited

inductive TypeKind
  | primitive | array | struct | enum | alias | subrange | reference | union | functionBlock
  | class | interface
  deriving DecidableEq, Repr, Inhabited

def TypeKind.toRaw : TypeKind → UInt8
  | .primitive => 0 | .array => 1 | .struct => 2 | .enum => 3 | .alias => 4 | .subrange => 5
  | .reference => 6 | .union => 7 | .functionBlock => 8 | .class => 9 | .interface => 10

def TypeKind.fromRaw (v : UInt8) : Option TypeKind :=
  if v = 0 then some .primitive else if v = 1 then some .array else if v = 2 then some .struct
  else if v = 3 then some .enum else if v = 4 then some .alias else if v = 5 then some .subrange
  else if v = 6 then some .reference else if v = 7 then some .union
  else if v = 8 then some .functionBlock else if v = 9 then some .class
  else if v = 10 then some .interface else none

inductive TypeData
  | primitive (primId maxLength : UInt16)
  | array (elem : UInt32) (dims : List (UInt64 × UInt64))
  | struct (fields : List Field)
  | enum (base : UInt32) (variants : List EnumVariant)
  | alias (target : UInt32)
  | subrange (base : UInt32) (lower upper : UInt64)
  | reference (target : UInt32)
  | union (fields : List Field)
  | pou (pouId : UInt32)
  | interface (methods : List InterfaceMethod)
  deriving DecidableEq, Repr, Inhabited

structure TypeEntry where
  kind : TypeKind
  nameIdx : Option UInt32
  data : TypeData
  deriving DecidableEq, Repr, Inhabited

structure TypeTable where
  offsets : List UInt32
  entries : List TypeEntry
  deriving DecidableEq, Repr, Inhabited

structure ConstEntry where
  typeId : UInt32
  payload : Bytes
  deriving DecidableEq, Repr, Inhabited

inductive RefLocation | global | local | instance | io | retain
  deriving DecidableEq, Repr, Inhabited

def RefLocation.toRaw : RefLocation → UInt8
  | .global => 0 | .local => 1 | .instance => 2 | .io => 3 | .retain => 4
def RefLocation.fromRaw (v : UInt8) : Option RefLocation :=
  if v = 0 then some .global else if v = 1 then some .local else if v = 2 then some .instance
  else if v = 3 then some .io else if v = 4 then some .retain else none

inductive RefSegment
  | index (indices : List UInt64)
  | field (nameIdx : UInt32)
  deriving DecidableEq, Repr, Inhabited

structure RefEntry where
  location : RefLocation
  ownerId : UInt32
  offset : UInt32
  segments : List RefSegment
  deriving DecidableEq, Repr, Inhabited

inductive PouKind | program | functionBlock | function | class | method
  deriving DecidableEq, Repr, Inhabited

def PouKind.toRaw : PouKind → UInt8
  | .program => 0 | .functionBlock => 1 | .function => 2 | .class => 3 | .method => 4
def PouKind.fromRaw (v : UInt8) : Option PouKind :=
  if v = 0 then some .program else if v = 1 then some .functionBlock else if v = 2 then some .function
  else if v = 3 then some .class else if v = 4 then some .method else none
def PouKind.isClassLike : PouKind → Bool
  | .functionBlock | .class => true
  | _ => false

structure ParamEntry where
  nameIdx : UInt32
  typeId : UInt32
  direction : UInt8
  defaultConstIdx : Option UInt32
  deriving DecidableEq, Repr, Inhabited

structure MethodEntry where
  nameIdx : UInt32
  pouId : UInt32
  vtableSlot : UInt32
  access : UInt8
  flags : UInt8
  deriving DecidableEq, Repr, Inhabited

structure InterfaceImpl where
  interfaceTypeId : UInt32
  vtableSlots : List UInt32
  deriving DecidableEq, Repr, Inhabited

structure PouClassMeta where
  parentPouId : Option UInt32
  interfaces : List InterfaceImpl
  methods : List MethodEntry
  deriving DecidableEq, Repr, Inhabited

structure PouEntry where
  id : UInt32
  nameIdx : UInt32
  kind : PouKind
  codeOffset : UInt32
  codeLength : UInt32
  localRefStart : UInt32
  localRefCount : UInt32
  returnTypeId : Option UInt32
  ownerPouId : Option UInt32
  params : List ParamEntry
  classMeta : Option PouClassMeta
  deriving DecidableEq, Repr, Inhabited

structure VarMetaEntry where
  nameIdx : UInt32
  typeId : UInt32
  refIdx : UInt32
  retain : UInt8
  initConstIdx : Option UInt32
  deriving DecidableEq, Repr, Inhabited

structure RetainInitEntry where
  refIdx : UInt32
  constIdx : UInt32
  deriving DecidableEq, Repr, Inhabited

structure TaskEntry where
  nameIdx : UInt32
  priority : UInt32
  intervalNanos : UInt64
  singleNameIdx : Option UInt32
  programNameIdx : List UInt32
  fbRefIdx : List UInt32
  deriving DecidableEq, Repr, Inhabited

structure ResourceEntry where
  nameIdx : UInt32
  inputsSize : UInt32
  outputsSize : UInt32
  memorySize : UInt32
  tasks : List TaskEntry
  deriving DecidableEq, Repr, Inhabited

structure IoBinding where
  addressStrIdx : UInt32
  refIdx : UInt32
  typeId : Option UInt32
  deriving DecidableEq, Repr, Inhabited

structure DebugEntry where
  pouId : UInt32
  codeOffset : UInt32
  fileIdx : UInt32
  line : UInt32
  column : UInt32
  kind : UInt8
  deriving DecidableEq, Repr, Inhabited

inductive SectionData
  | stringTable (entries : List Bytes)
  | debugStringTable (entries : List Bytes)
  | typeTable (t : TypeTable)
  | constPool (entries : List ConstEntry)
  | refTable (entries : List RefEntry)
  | pouIndex (entries : List PouEntry)
  | pouBodies (code : Bytes)
  | resourceMeta (resources : List ResourceEntry)
  | ioMap (bindings : List IoBinding)
  | debugMap (entries : List DebugEntry)
  | varMeta (entries : List VarMetaEntry)
  | retainInit (entries : List RetainInitEntry)
  | raw (data : Bytes)
  deriving DecidableEq, Repr, Inhabited

structure Section where
  id : UInt16
  flags : UInt16
  data : SectionData
  deriving DecidableEq, Repr, Inhabited

structure Module where
  major : UInt16
  minor : UInt16
  flags : UInt32
  sections : List Section
  deriving DecidableEq, Repr, Inhabited

structure SectionEntry where
  id : UInt16
  flags : UInt16
  offset : UInt32
  length : UInt32
  deriving DecidableEq, Repr, Inhabited

/-- `SectionId` raw values -/
def idStringTable : UInt16 := 1
def idTypeTable : UInt16 := 2
def idConstPool : UInt16 := 3
def idRefTable : UInt16 := 4
def idPouIndex : UInt16 := 5
def idPouBodies : UInt16 := 6
def idResourceMeta : UInt16 := 7
def idIoMap : UInt16 := 8
def idDebugMap : UInt16 := 9
def idDebugStringTable : UInt16 := 10
def idVarMeta : UInt16 := 11
def idRetainInit : UInt16 := 12

def headerSize : Nat := 24
def sectionEntrySize : Nat := 12
def magic : Bytes := [0x53, 0x54, 0x42, 0x43]   -- "STBC"
def supportedMajor : UInt16 := 1

/-- `BytecodeModule::section(id)`: the first section with that id. -/
def Module.section (m : Module) (id : UInt16) : Option SectionData :=
  (m.sections.find? (fun s => s.id == id)).map (·.data)

/-! ## decode.rs — section codecs (decoder and the matching encode.rs encoder side by side) -/

-- STRING_TABLE / DEBUG_STRING_TABLE ------------------------------------------------------------

def stringPadding (minor : UInt16) (len : Nat) : Nat :=
  if minor ≥ 1 then align4 (4 + len) - (4 + len) else 0

/-- one entry of `decode_string_table` -/
def decString (minor : UInt16) : Rd Bytes := do
  let len ← readU32
  let bs ← readBytes len.toNat
  if !validUtf8 bs then fail (.invalidSection .invalidUtf8) else
  let padding := stringPadding minor len.toNat
  if padding > 0 then
    let _ ← readBytes padding
    pure bs
  else pure bs

def encString (minor : UInt16) (s : Bytes) : Bytes :=
  encU32 (UInt32.ofNat s.length) ++ s ++ zeros (stringPadding minor s.length)

def decStringTable (minor : UInt16) : Rd (List Bytes) := readVec (decString minor)
def encStringTable (minor : UInt16) (t : List Bytes) : Bytes := encVec (encString minor) t

-- TYPE_TABLE -----------------------------------------------------------------------------------

def decField : Rd Field := do
  let nameIdx ← readU32
  let typeId ← readU32
  pure { nameIdx, typeId }
def encField (f : Field) : Bytes := encU32 f.nameIdx ++ encU32 f.typeId

def decDim : Rd (UInt64 × UInt64) := do
  let lower ← readU64
  let upper ← readU64
  pure (lower, upper)
def encDim (d : UInt64 × UInt64) : Bytes := encU64 d.1 ++ encU64 d.2

def decVariant : Rd EnumVariant := do
  let nameIdx ← readU32
  let value ← readU64
  pure { nameIdx, value }
def encVariant (v : EnumVariant) : Bytes := encU32 v.nameIdx ++ encU64 v.value

def decIMethod : Rd InterfaceMethod := do
  let nameIdx ← readU32
  let slot ← readU32
  pure { nameIdx, slot }
def encIMethod (m : InterfaceMethod) : Bytes := encU32 m.nameIdx ++ encU32 m.slot

/-- the `match kind` of `decode_type_entry` -/
def decTypeData : TypeKind → Rd TypeData
  | .primitive => do
    let primId ← readU16
    let maxLength ← readU16
    pure (.primitive primId maxLength)
  | .array => do
    let elem ← readU32
    let dims ← readVec decDim
    pure (.array elem dims)
  | .struct => do
    let fields ← readVec decField
    pure (.struct fields)
  | .enum => do
    let base ← readU32
    let variants ← readVec decVariant
    pure (.enum base variants)
  | .alias => do
    let target ← readU32
    pure (.alias target)
  | .subrange => do
    let base ← readU32
    let lower ← readU64
    let upper ← readU64
    pure (.subrange base lower upper)
  | .reference => do
    let target ← readU32
    pure (.reference target)
  | .union => do
    let fields ← readVec decField
    pure (.union fields)
  | .functionBlock | .class => do
    let pouId ← readU32
    pure (.pou pouId)
  | .interface => do
    let methods ← readVec decIMethod
    pure (.interface methods)

/-- `decode_type_entry` -/
def decTypeEntry : Rd TypeEntry := do
  let kind ← readU8
  let _flags ← readU8
  let _reserved ← readU16
  let nameIdx ← readU32
  let kind ← liftOpt (TypeKind.fromRaw kind) (.invalidSection .invalidTypeKind)
  let data ← decTypeData kind
  pure { kind, nameIdx := optU32 nameIdx, data }

def encTypeData : TypeData → Bytes
  | .primitive p m => encU16 p ++ encU16 m
  | .array e dims => encU32 e ++ encVec encDim dims
  | .struct fs | .union fs => encVec encField fs
  | .enum b vs => encU32 b ++ encVec encVariant vs
  | .alias t => encU32 t
  | .subrange b l u => encU32 b ++ encU64 l ++ encU64 u
  | .reference t => encU32 t
  | .pou p => encU32 p
  | .interface ms => encVec encIMethod ms

/-- `encode_type_entry` -/
def encTypeEntry (e : TypeEntry) : Bytes :=
  [e.kind.toRaw, 0] ++ encU16 0 ++ encU32 (unOpt e.nameIdx) ++ encTypeData e.data

/-- `compute_type_offsets`: `cursor = 4 + 4*n` (in `u32`, wrapping multiplication is not reachable
for tables that fit a section), then `saturating_add` of each entry length. -/
def nextTypeOffset (cursor : UInt32) (bufLen : Nat) : UInt32 :=
  let len := (UInt32.ofNat bufLen).toNat                           -- `buf.len() as u32`
  if cursor.toNat + len ≥ 4294967296 then u32Max                   -- `saturating_add`
  else UInt32.ofNat (cursor.toNat + len)

def computeTypeOffsetsFrom (cursor : UInt32) : List Bytes → List UInt32
  | [] => []
  | b :: rest => cursor :: computeTypeOffsetsFrom (nextTypeOffset cursor b.length) rest

def computeTypeOffsets (bufs : List Bytes) : List UInt32 :=
  computeTypeOffsetsFrom (4 + UInt32.ofNat bufs.length * 4) bufs

/-- `encode_type_table` -/
def encTypeTable (minor : UInt16) (t : TypeTable) : Bytes :=
  if minor ≥ 1 then
    let bufs := t.entries.map encTypeEntry
    encU32 (UInt32.ofNat t.entries.length)
      ++ (computeTypeOffsets bufs).flatMap encU32 ++ bufs.flatMap id
  else
    encU32 (UInt32.ofNat t.entries.length) ++ t.entries.flatMap encTypeEntry

/-- `idx > 0 && offset < offsets[idx - 1]` -/
def unsortedAfter (prev : Option UInt32) (offset : Nat) : Bool :=
  match prev with
  | some p => decide (offset < p.toNat)
  | none => false

/-- `if idx + 1 < offsets.len() { offsets[idx + 1] } else { payload.len() }` -/
def nextOffset (payload : Bytes) (rest : List UInt32) : Nat :=
  match rest with
  | n :: _ => n.toNat
  | [] => payload.length

/-- one iteration of the loop of `decode_type_table` (minor ≥ 1): bounds checks, the entry decoded
from `payload[offset..next]`, which must be consumed exactly -/
def typeEntryAt (payload : Bytes) (base : Nat) (prev : Option UInt32) (offset next : Nat) :
    Except Err TypeEntry :=
  if offset < base ∨ offset > payload.length ∨ next > payload.length ∨ next < offset then
    .error (.invalidSection .typeOffsetOutOfBounds)
  else if prev.isNone ∧ offset ≠ base then        -- `idx == 0 && offset != base` (e5dfde6)
    .error (.invalidSection .typeOffsetOutOfBounds)
  else if unsortedAfter prev offset then
    .error (.invalidSection .typeOffsetsNotSorted)
  else
    match decTypeEntry ((payload.drop offset).take (next - offset)) with
    | .error e => .error e
    | .ok (entry, left) =>
      if left.length ≠ 0 then .error (.invalidSection .typeEntryLengthMismatch) else .ok entry

/-- the `for (idx, offset) in offsets.iter().enumerate()` loop of `decode_type_table` (minor ≥ 1).
`prev` is `offsets[idx-1]` (`none` for idx = 0), the list the offsets from `idx` on. -/
def decTypeEntriesAt (payload : Bytes) (base : Nat) : Option UInt32 → List UInt32 → Except Err (List TypeEntry)
  | _, [] => .ok []
  | prev, off :: rest =>
    match typeEntryAt payload base prev off.toNat (nextOffset payload rest) with
    | .error e => .error e
    | .ok entry =>
      match decTypeEntriesAt payload base (some off) rest with
      | .error e => .error e
      | .ok es => .ok (entry :: es)

/-- `decode_type_table` -/
def decTypeTable (minor : UInt16) (payload : Bytes) : Except Err TypeTable :=
  match readU32 payload with
  | .error e => .error e
  | .ok (count, r) =>
    if minor ≥ 1 then
      match readN count.toNat readU32 r with
      | .error e => .error e
      | .ok (offsets, r') =>
        let base := payload.length - r'.length      -- `reader.pos()`
        match decTypeEntriesAt payload base none offsets with
        | .error e => .error e
        | .ok entries => .ok { offsets, entries }
    else
      match readN count.toNat decTypeEntry r with
      | .error e => .error e
      | .ok (entries, _) => .ok { offsets := [], entries }

-- CONST_POOL -----------------------------------------------------------------------------------

def decConst : Rd ConstEntry := do
  let typeId ← readU32
  let len ← readU32
  let payload ← readBytes len.toNat
  pure { typeId, payload }
def encConst (c : ConstEntry) : Bytes :=
  encU32 c.typeId ++ encU32 (UInt32.ofNat c.payload.length) ++ c.payload

-- REF_TABLE ------------------------------------------------------------------------------------

def decSegment : Rd RefSegment := do
  let kind ← readU8
  let _reserved ← readBytes 3
  if kind = 0 then
    let indices ← readVec readU64
    pure (.index indices)
  else if kind = 1 then
    let nameIdx ← readU32
    pure (.field nameIdx)
  else fail (.invalidSection .invalidRefSegment)

def encSegment : RefSegment → Bytes
  | .index is => [0, 0, 0, 0] ++ encVec encU64 is
  | .field n => [1, 0, 0, 0] ++ encU32 n

def decRef : Rd RefEntry := do
  let location ← readU8
  let _flags ← readU8
  let _reserved ← readU16
  let ownerId ← readU32
  let offset ← readU32
  let segmentCount ← readU32
  let location ← liftOpt (RefLocation.fromRaw location) (.invalidSection .invalidRefLocation)
  let segments ← readN segmentCount.toNat decSegment
  pure { location, ownerId, offset, segments }

def encRef (e : RefEntry) : Bytes :=
  [e.location.toRaw, 0] ++ encU16 0 ++ encU32 e.ownerId ++ encU32 e.offset
    ++ encVec encSegment e.segments

-- POU_INDEX ------------------------------------------------------------------------------------

def decParam (minor : UInt16) : Rd ParamEntry := do
  let nameIdx ← readU32
  let typeId ← readU32
  let direction ← readU8
  let _flags ← readU8
  let _reserved ← readU16
  if minor ≥ 1 then
    let idx ← readU32
    pure { nameIdx, typeId, direction, defaultConstIdx := optU32 idx }
  else
    pure { nameIdx, typeId, direction, defaultConstIdx := none }

def encParam (minor : UInt16) (p : ParamEntry) : Bytes :=
  encU32 p.nameIdx ++ encU32 p.typeId ++ [p.direction, 0] ++ encU16 0
    ++ (if minor ≥ 1 then encU32 (unOpt p.defaultConstIdx) else [])

def decInterfaceImpl : Rd InterfaceImpl := do
  let interfaceTypeId ← readU32
  let vtableSlots ← readVec readU32
  pure { interfaceTypeId, vtableSlots }
def encInterfaceImpl (i : InterfaceImpl) : Bytes :=
  encU32 i.interfaceTypeId ++ encVec encU32 i.vtableSlots

def decMethod : Rd MethodEntry := do
  let nameIdx ← readU32
  let pouId ← readU32
  let vtableSlot ← readU32
  let access ← readU8
  let flags ← readU8
  let _reserved ← readU16
  pure { nameIdx, pouId, vtableSlot, access, flags }
def encMethod (m : MethodEntry) : Bytes :=
  encU32 m.nameIdx ++ encU32 m.pouId ++ encU32 m.vtableSlot ++ [m.access, m.flags] ++ encU16 0

def decClassMeta : Rd PouClassMeta := do
  let parent ← readU32
  let interfaces ← readVec decInterfaceImpl
  let methods ← readVec decMethod
  pure { parentPouId := optU32 parent, interfaces, methods }
def encClassMeta (m : PouClassMeta) : Bytes :=
  encU32 (unOpt m.parentPouId) ++ encVec encInterfaceImpl m.interfaces ++ encVec encMethod m.methods

def decPou (minor : UInt16) : Rd PouEntry := do
  let id ← readU32
  let nameIdx ← readU32
  let kind ← readU8
  let _flags ← readU8
  let _reserved ← readU16
  let codeOffset ← readU32
  let codeLength ← readU32
  let localRefStart ← readU32
  let localRefCount ← readU32
  let returnTypeId ← readU32
  let ownerPouId ← readU32
  let paramCount ← readU32
  let kind ← liftOpt (PouKind.fromRaw kind) (.invalidSection .invalidPouKind)
  let params ← readN paramCount.toNat (decParam minor)
  if kind.isClassLike then
    let cm ← decClassMeta
    pure { id, nameIdx, kind, codeOffset, codeLength, localRefStart, localRefCount,
           returnTypeId := optU32 returnTypeId, ownerPouId := optU32 ownerPouId, params,
           classMeta := some cm }
  else
    pure { id, nameIdx, kind, codeOffset, codeLength, localRefStart, localRefCount,
           returnTypeId := optU32 returnTypeId, ownerPouId := optU32 ownerPouId, params,
           classMeta := none }

def encPou (minor : UInt16) (e : PouEntry) : Bytes :=
  encU32 e.id ++ encU32 e.nameIdx ++ [e.kind.toRaw, 0] ++ encU16 0
    ++ encU32 e.codeOffset ++ encU32 e.codeLength ++ encU32 e.localRefStart ++ encU32 e.localRefCount
    ++ encU32 (unOpt e.returnTypeId) ++ encU32 (unOpt e.ownerPouId)
    ++ encVec (encParam minor) e.params
    ++ (match e.classMeta with
        | some cm => encClassMeta cm
        | none => if e.kind.isClassLike then encU32 u32Max ++ encU32 0 ++ encU32 0 else [])

-- RESOURCE_META --------------------------------------------------------------------------------

def decTask : Rd TaskEntry := do
  let nameIdx ← readU32
  let priority ← readU32
  let intervalNanos ← readU64
  let single ← readU32
  let programNameIdx ← readVec readU32
  let fbRefIdx ← readVec readU32
  pure { nameIdx, priority, intervalNanos, singleNameIdx := optU32 single, programNameIdx, fbRefIdx }
def encTask (t : TaskEntry) : Bytes :=
  encU32 t.nameIdx ++ encU32 t.priority ++ encU64 t.intervalNanos ++ encU32 (unOpt t.singleNameIdx)
    ++ encVec encU32 t.programNameIdx ++ encVec encU32 t.fbRefIdx

def decResource : Rd ResourceEntry := do
  let nameIdx ← readU32
  let inputsSize ← readU32
  let outputsSize ← readU32
  let memorySize ← readU32
  let tasks ← readVec decTask
  pure { nameIdx, inputsSize, outputsSize, memorySize, tasks }
def encResource (r : ResourceEntry) : Bytes :=
  encU32 r.nameIdx ++ encU32 r.inputsSize ++ encU32 r.outputsSize ++ encU32 r.memorySize
    ++ encVec encTask r.tasks

-- IO_MAP, DEBUG_MAP, VAR_META, RETAIN_INIT -----------------------------------------------------

def decIoBinding : Rd IoBinding := do
  let addressStrIdx ← readU32
  let refIdx ← readU32
  let typeId ← readU32
  pure { addressStrIdx, refIdx, typeId := optU32 typeId }
def encIoBinding (b : IoBinding) : Bytes :=
  encU32 b.addressStrIdx ++ encU32 b.refIdx ++ encU32 (unOpt b.typeId)

def decDebugEntry : Rd DebugEntry := do
  let pouId ← readU32
  let codeOffset ← readU32
  let fileIdx ← readU32
  let line ← readU32
  let column ← readU32
  let kind ← readU8
  let _reserved ← readBytes 3
  pure { pouId, codeOffset, fileIdx, line, column, kind }
def encDebugEntry (e : DebugEntry) : Bytes :=
  encU32 e.pouId ++ encU32 e.codeOffset ++ encU32 e.fileIdx ++ encU32 e.line ++ encU32 e.column
    ++ [e.kind, 0, 0, 0]

def decVarMetaEntry : Rd VarMetaEntry := do
  let nameIdx ← readU32
  let typeId ← readU32
  let refIdx ← readU32
  let retain ← readU8
  let _flags ← readU8
  let _reserved ← readU16
  let init ← readU32
  pure { nameIdx, typeId, refIdx, retain, initConstIdx := optU32 init }
def encVarMetaEntry (e : VarMetaEntry) : Bytes :=
  encU32 e.nameIdx ++ encU32 e.typeId ++ encU32 e.refIdx ++ [e.retain, 0] ++ encU16 0
    ++ encU32 (unOpt e.initConstIdx)

def decRetainInitEntry : Rd RetainInitEntry := do
  let refIdx ← readU32
  let constIdx ← readU32
  pure { refIdx, constIdx }
def encRetainInitEntry (e : RetainInitEntry) : Bytes := encU32 e.refIdx ++ encU32 e.constIdx

/-- Drop the reader's rest: sections may carry trailing bytes that `decode_section_data` ignores. -/
def runSection (x : Rd α) (payload : Bytes) : Except Err α :=
  match x payload with
  | .ok (a, _) => .ok a
  | .error e => .error e

/-- `decode_section_data` -/
def decodeSectionData (minor : UInt16) (id : UInt16) (payload : Bytes) : Except Err SectionData :=
  if id = idStringTable then (runSection (decStringTable minor) payload).map .stringTable
  else if id = idDebugStringTable then (runSection (decStringTable minor) payload).map .debugStringTable
  else if id = idTypeTable then (decTypeTable minor payload).map .typeTable
  else if id = idConstPool then (runSection (readVec decConst) payload).map .constPool
  else if id = idRefTable then (runSection (readVec decRef) payload).map .refTable
  else if id = idPouIndex then (runSection (readVec (decPou minor)) payload).map .pouIndex
  else if id = idPouBodies then .ok (.pouBodies payload)
  else if id = idResourceMeta then (runSection (readVec decResource) payload).map .resourceMeta
  else if id = idIoMap then (runSection (readVec decIoBinding) payload).map .ioMap
  else if id = idDebugMap then (runSection (readVec decDebugEntry) payload).map .debugMap
  else if id = idVarMeta then (runSection (readVec decVarMetaEntry) payload).map .varMeta
  else if id = idRetainInit then (runSection (readVec decRetainInitEntry) payload).map .retainInit
  else .ok (.raw payload)

/-- `encode_section_data` (depends only on the data variant, not on the section id) -/
def encodeSectionData (minor : UInt16) : SectionData → Bytes
  | .stringTable t | .debugStringTable t => encStringTable minor t
  | .typeTable t => encTypeTable minor t
  | .constPool es => encVec encConst es
  | .refTable es => encVec encRef es
  | .pouIndex es => encVec (encPou minor) es
  | .pouBodies b => b
  | .resourceMeta rs => encVec encResource rs
  | .ioMap bs => encVec encIoBinding bs
  | .debugMap es => encVec encDebugEntry es
  | .varMeta es => encVec encVarMetaEntry es
  | .retainInit es => encVec encRetainInitEntry es
  | .raw b => b

/-! ## decode.rs — framing -/

def sliceOf (bytes : Bytes) (start stop : Nat) : Bytes := (bytes.drop start).take (stop - start)

def decSectionEntry : Rd SectionEntry := do
  let id ← readU16
  let flags ← readU16
  let offset ← readU32
  let length ← readU32
  pure { id, flags, offset, length }
def encSectionEntry (e : SectionEntry) : Bytes :=
  encU16 e.id ++ encU16 e.flags ++ encU32 e.offset ++ encU32 e.length

/-- the loop of `validate_section_entries` over the entries sorted by offset -/
def checkSectionEntries (fileLen : Nat) : Nat → List SectionEntry → Except Err Unit
  | _, [] => .ok ()
  | lastEnd, e :: rest =>
    if e.offset.toNat % 4 ≠ 0 then .error .sectionAlignment else
    let start := e.offset.toNat
    let stop := start + e.length.toNat
    if stop > fileLen then .error .sectionOutOfBounds else
    if start < lastEnd then .error .sectionOverlap else
    checkSectionEntries fileLen stop rest

/-- `validate_section_entries`: `sort_by_key(offset)` is a stable sort; `List.mergeSort` is stable. -/
def validateSectionEntries (fileLen : Nat) (entries : List SectionEntry) : Except Err Unit :=
  checkSectionEntries fileLen 0 (entries.mergeSort (fun a b => a.offset ≤ b.offset))

/-- the `for entry in entries` loop of `decode` -/
def decodeSections (minor : UInt16) (bytes : Bytes) : List SectionEntry → Except Err (List Section)
  | [] => .ok []
  | e :: rest =>
    let start := e.offset.toNat
    let stop := start + e.length.toNat
    match decodeSectionData minor e.id (sliceOf bytes start stop) with
    | .error err => .error err
    | .ok data =>
      match decodeSections minor bytes rest with
      | .error err => .error err
      | .ok ss => .ok ({ id := e.id, flags := e.flags, data } :: ss)

structure Header where
  major : UInt16
  minor : UInt16
  flags : UInt32
  headerSize : UInt16
  sectionCount : UInt16
  tableOff : UInt32
  checksum : UInt32
  deriving DecidableEq, Repr, Inhabited

def decHeader : Rd Header := do
  let mg ← readBytes 4
  if mg ≠ magic then fail .invalidMagic else
  let major ← readU16
  let minor ← readU16
  let flags ← readU32
  let headerSize ← readU16
  let sectionCount ← readU16
  let tableOff ← readU32
  let checksum ← readU32
  pure { major, minor, flags, headerSize, sectionCount, tableOff, checksum }

/-- the checks of `decode` between the header and the section table -/
def checkHeader (crc : Bytes → UInt32) (bytes : Bytes) (h : Header) : Except Err Unit :=
  if h.headerSize.toNat < headerSize then .error (.invalidHeader .headerSizeTooSmall)
  else if h.tableOff.toNat < headerSize then .error (.invalidHeader .sectionTableBeforeHeader)
  else if h.tableOff.toNat % 4 ≠ 0 then .error .sectionAlignment
  else if h.tableOff.toNat + h.sectionCount.toNat * sectionEntrySize > bytes.length then
    .error (.invalidSectionTable .sectionTableOutOfBounds)
  else if h.flags &&& 1 ≠ 0 ∧ crc (bytes.drop h.tableOff.toNat) ≠ h.checksum then
    .error (.invalidChecksum h.checksum (crc (bytes.drop h.tableOff.toNat)))
  else if h.major ≠ supportedMajor then .error (.unsupportedVersion h.major h.minor)
  else .ok ()

/-- `BytecodeModule::decode` -/
def decode (crc : Bytes → UInt32) (bytes : Bytes) : Except Err Module :=
  match decHeader bytes with
  | .error e => .error e
  | .ok (h, _) =>
    match checkHeader crc bytes h with
    | .error e => .error e
    | .ok _ =>
      let tableOff := h.tableOff.toNat
      let tableEnd := tableOff + h.sectionCount.toNat * sectionEntrySize
      match readN h.sectionCount.toNat decSectionEntry (sliceOf bytes tableOff tableEnd) with
      | .error e => .error e
      | .ok (entries, _) =>
        match validateSectionEntries bytes.length entries with
        | .error e => .error e
        | .ok _ =>
          match decodeSections h.minor bytes entries with
          | .error e => .error e
          | .ok sections => .ok { major := h.major, minor := h.minor, flags := h.flags, sections }

/-! ## encode.rs -/

def padTo4 (b : Bytes) : Bytes := b ++ zeros (align4 b.length - b.length)

/-- section table entries for the payloads laid out from `offset` on (`offset as u32`, `len as u32`
truncate as in Rust) -/
def layoutEntries : Nat → List (UInt16 × UInt16 × Bytes) → List SectionEntry
  | _, [] => []
  | offset, (id, flags, data) :: rest =>
    { id, flags, offset := UInt32.ofNat offset, length := UInt32.ofNat data.length }
      :: layoutEntries (align4 (offset + data.length)) rest

def encodeHeader (m : Module) (count : UInt16) (checksum : UInt32) : Bytes :=
  magic ++ encU16 m.major ++ encU16 m.minor ++ encU32 m.flags ++ encU16 (UInt16.ofNat headerSize)
    ++ encU16 count ++ encU32 (UInt32.ofNat headerSize) ++ encU32 checksum

/-- everything after the header: section table, padding, padded payloads -/
def encodeBody (entries : List SectionEntry) (payloads : List (UInt16 × UInt16 × Bytes)) : Bytes :=
  let table := entries.flatMap encSectionEntry
  -- `pad_to(align4(bytes.len()))` with `bytes.len() = 24 + table.len()`; 24 is a multiple of 4
  table ++ zeros (align4 (headerSize + table.length) - (headerSize + table.length))
    ++ payloads.flatMap (fun p => padTo4' (headerSize + table.length) p.2.2)
where
  /-- payload followed by `pad_to(align4(bytes.len()))`; every payload starts 4-aligned, so the
  padding depends on the payload length only -/
  padTo4' (_ : Nat) (b : Bytes) : Bytes := padTo4 b

/-- `BytecodeModule::encode` -/
def encode (crc : Bytes → UInt32) (m : Module) : Except Err Bytes :=
  let payloads := m.sections.map (fun s => (s.id, s.flags, encodeSectionData m.minor s.data))
  let tableLen := payloads.length * sectionEntrySize
  let entries := layoutEntries (align4 (headerSize + tableLen)) payloads
  if entries.length ≥ 65536 then .error (.invalidHeader .sectionCountOverflow) else
  let body := encodeBody entries payloads
  let checksum := if m.flags &&& 1 ≠ 0 then crc body else 0
  .ok (encodeHeader m (UInt16.ofNat entries.length) checksum ++ body)

/-! ## validate.rs -/

def ensureIndex (k : IdxKind) (len : Nat) (idx : UInt32) : Except Err Unit :=
  if idx.toNat ≥ len then .error (.invalidIndex k idx) else .ok ()

def forM' (xs : List α) (f : α → Except Err Unit) : Except Err Unit :=
  match xs with
  | [] => .ok ()
  | x :: rest => do f x; forM' rest f

/-- `validate_type_table` -/
def validateTypeEntry (nStrings nTypes : Nat) (e : TypeEntry) : Except Err Unit := do
  match e.nameIdx with
  | some i => ensureIndex .string nStrings i
  | none => pure ()
  match e.data with
  | .array elem dims =>
    ensureIndex .type nTypes elem
    forM' dims fun (lo, hi) =>
      if toI64 lo > toI64 hi then .error (.invalidSection .invalidArrayBounds) else .ok ()
  | .struct fields | .union fields =>
    forM' fields fun f => do
      ensureIndex .string nStrings f.nameIdx
      ensureIndex .type nTypes f.typeId
  | .enum base variants =>
    ensureIndex .type nTypes base
    forM' variants fun v => ensureIndex .string nStrings v.nameIdx
  | .alias t | .subrange t _ _ | .reference t => ensureIndex .type nTypes t
  | .pou _ => pure ()
  | .interface methods => forM' methods fun m => ensureIndex .string nStrings m.nameIdx
  | .primitive _ _ => pure ()

def validateTypeTable (nStrings : Nat) (types : List TypeEntry) : Except Err Unit :=
  forM' types (validateTypeEntry nStrings types.length)

/-- `MAX_CONST_TYPE_DEPTH` -/
def maxConstTypeDepth : Nat := 64

/-- bytes consumed by a primitive constant (`match prim_id`), `none` = string index (24|25) -/
def primPayload (primId : UInt16) : Option (Option Nat) :=
  let p := primId.toNat
  if p = 1 then some (some 1)
  else if p = 2 ∨ p = 6 ∨ p = 10 ∨ p = 26 then some (some 1)
  else if p = 3 ∨ p = 7 ∨ p = 11 ∨ p = 27 then some (some 2)
  else if p = 4 ∨ p = 8 ∨ p = 12 then some (some 4)
  else if p = 5 ∨ p = 9 ∨ p = 13 ∨ (15 ≤ p ∧ p ≤ 23) then some (some 8)
  else if p = 14 then some (some 4)
  else if p = 24 ∨ p = 25 then some none
  else none

def typeAt (types : List TypeEntry) (idx : UInt32) : Rd TypeEntry :=
  match types[idx.toNat]? with
  | some e => pure e
  | none => fail (.invalidIndex .type idx)

def seqUnits : List (Rd Unit) → Rd Unit
  | [] => pure ()
  | x :: rest => do x; seqUnits rest

/-- `validate_const_payload_entry(…, depth)` with `fuel = MAX_CONST_TYPE_DEPTH + 1 - depth`:
`fuel = 0` is `depth > MAX_CONST_TYPE_DEPTH`.  Structural recursion on `fuel` — this is the
termination argument the `depth` parameter added in cb0b459 provides. -/
def validateConstEntryFuel (nStrings : Nat) (types : List TypeEntry) : Nat → TypeEntry → Rd Unit
  | 0, _ => fail (.invalidSection .constTypeTooDeep)
  | fuel + 1, entry =>
    match entry.data with
    | .primitive primId _ =>
      match primPayload primId with
      | some (some n) => do let _ ← readBytes n; pure ()
      | some none => do
        let idx ← readU32
        fun s => (ensureIndex .string nStrings idx).map (fun _ => ((), s))
      | none => fail (.invalidSection .unknownPrimitive)
    | .array elem _ => do
      let count ← readU32
      let el ← typeAt types elem
      let _ ← readN count.toNat (validateConstEntryFuel nStrings types fuel el)
      pure ()
    | .struct fields | .union fields => do
      let count ← readU32
      if count.toNat ≠ fields.length then fail (.invalidSection .structCountMismatch) else
      seqUnits (fields.map fun f => do
        let ft ← typeAt types f.typeId
        validateConstEntryFuel nStrings types fuel ft)
    | .enum _ _ => do let _ ← readU64; pure ()
    | .alias t | .subrange t _ _ => do
      let target ← typeAt types t
      validateConstEntryFuel nStrings types fuel target
    | .reference _ => do let _ ← readU32; pure ()
    | .pou _ | .interface _ => fail (.invalidSection .unsupportedConstType)

/-- `validate_const_payload` -/
def validateConstPayload (nStrings : Nat) (types : List TypeEntry) (c : ConstEntry) : Except Err Unit :=
  match types[c.typeId.toNat]? with
  | none => .error (.invalidIndex .type c.typeId)
  | some entry =>
    match validateConstEntryFuel nStrings types (maxConstTypeDepth + 1) entry c.payload with
    | .error e => .error e
    | .ok (_, rest) => if rest.length ≠ 0 then .error (.invalidSection .constPayloadLength) else .ok ()

def validateConstPool (nStrings : Nat) (types : List TypeEntry) (pool : List ConstEntry) : Except Err Unit :=
  forM' pool (validateConstPayload nStrings types)

/-- `validate_ref_table` -/
def validateRefTable (nStrings : Nat) (refs : List RefEntry) : Except Err Unit :=
  forM' refs fun e => forM' e.segments fun
    | .field n => ensureIndex .string nStrings n
    | .index _ => .ok ()

def pouExists (index : List PouEntry) (id : UInt32) : Bool := index.any (fun p => p.id == id)

/-- `if let TypeData::Interface { methods } = &entry.data { slot as usize >= methods.len() }` -/
def slotOutOfRange (entry : TypeEntry) (slot : UInt32) : Bool :=
  match entry.data with
  | .interface methods => decide (slot.toNat ≥ methods.length)
  | _ => false

/-- state of the instruction walk: instruction starts and `(pc, offset)` of every jump -/
structure Walk where
  starts : List Nat := []
  jumps : List (Nat × UInt32) := []
  deriving Repr, Inhabited

/-- the `while reader.remaining() > 0` loop of `validate_instruction_stream`; `pc` is
`reader.pos()`; fuel = remaining bytes (every iteration consumes the opcode byte). -/
def walkInstructions (index : List PouEntry) (types : List TypeEntry) :
    Nat → Nat → Bytes → Walk → Except Err Walk
  | _, _, [], w => .ok w
  | 0, _, _ :: _, w => .ok w      -- unreachable: fuel = length
  | fuel + 1, pc, opcode :: rest, w =>
    let w := { w with starts := pc :: w.starts }
    match opKind opcode with
    | .plain => walkInstructions index types fuel (pc + 1) rest w
    | .jump =>
      match readU32 rest with
      | .error e => .error e
      | .ok (off, rest') =>
        walkInstructions index types fuel (pc + 5) rest' { w with jumps := (pc, off) :: w.jumps }
    | .callPou =>
      match readU32 rest with
      | .error e => .error e
      | .ok (pouId, rest') =>
        if !pouExists index pouId then .error (.invalidPouId pouId)
        else walkInstructions index types fuel (pc + 5) rest' w
    | .skip4 =>
      match readU32 rest with
      | .error e => .error e
      | .ok (_, rest') => walkInstructions index types fuel (pc + 5) rest' w
    | .skip1 =>
      match readU8 rest with
      | .error e => .error e
      | .ok (_, rest') => walkInstructions index types fuel (pc + 2) rest' w
    | .callVirtual =>
      match readU32 rest with
      | .error e => .error e
      | .ok (ifaceTy, rest1) =>
        match readU32 rest1 with
        | .error e => .error e
        | .ok (slot, rest') =>
          match types[ifaceTy.toNat]? with
          | none => .error (.invalidIndex .type ifaceTy)
          | some entry =>
            if entry.kind ≠ .interface then .error (.invalidSection .callVirtualExpectsInterface) else
            if slotOutOfRange entry slot then .error (.invalidSection .callVirtualSlotOutOfRange)
            else walkInstructions index types fuel (pc + 9) rest' w
    | .typeIdx =>
      match readU32 rest with
      | .error e => .error e
      | .ok (ty, rest') =>
        match ensureIndex .type types.length ty with
        | .error e => .error e
        | .ok _ => walkInstructions index types fuel (pc + 5) rest' w
    | .invalid => .error (.invalidOpcode opcode)

/-- the jump check after the walk (`checked_add` of 7b23796) -/
def checkJump (codeLen : Int) (starts : List Nat) (pc : Nat) (offset : UInt32) : Except Err Unit :=
  match (checkedAddI32 (wrapI32 pc) 5).bind (fun next => checkedAddI32 next (toI32 offset)) with
  | none => .error (.invalidJumpTarget (toI32 offset))
  | some target =>
    if target < 0 ∨ target > codeLen then .error (.invalidJumpTarget target)
    else if target ≠ codeLen ∧ !(starts.any fun s => wrapI32 s == target) then
      .error (.invalidJumpTarget target)
    else .ok ()

/-- `validate_instruction_stream` -/
def validateInstructionStream (index : List PouEntry) (types : List TypeEntry) (code : Bytes) :
    Except Err Unit := do
  let w ← walkInstructions index types code.length 0 code {}
  forM' w.jumps.reverse fun (pc, off) => checkJump (wrapI32 code.length) w.starts pc off

/-- the per-entry body of `validate_pou_index` -/
def validatePouEntry (nStrings : Nat) (types : List TypeEntry) (nConsts : Nat) (index : List PouEntry)
    (bodies : Bytes) (entry : PouEntry) : Except Err Unit := do
  ensureIndex .string nStrings entry.nameIdx
  match entry.returnTypeId with
  | some t => ensureIndex .type types.length t
  | none => pure ()
  match entry.ownerPouId with
  | some owner => if !pouExists index owner then throw (.invalidPouId owner)
  | none => pure ()
  forM' entry.params fun p => do
    ensureIndex .string nStrings p.nameIdx
    ensureIndex .type types.length p.typeId
    match p.defaultConstIdx with
    | some d => ensureIndex .const nConsts d
    | none => pure ()
  match entry.classMeta with
  | some cm =>
    match cm.parentPouId with
    | some parent => if !pouExists index parent then throw (.invalidPouId parent)
    | none => pure ()
    forM' cm.interfaces fun i => do
      ensureIndex .type types.length i.interfaceTypeId
      match types[i.interfaceTypeId.toNat]? with
      | none => throw (.invalidIndex .type i.interfaceTypeId)
      | some ie =>
        if ie.kind ≠ .interface then throw (.invalidSection .interfaceExpectsInterface)
        match ie.data with
        | .interface methods =>
          if i.vtableSlots.length ≠ methods.length then throw (.invalidSection .interfaceSlotMismatch)
        | _ => pure ()
    forM' cm.methods fun me => do
      ensureIndex .string nStrings me.nameIdx
      if !pouExists index me.pouId then throw (.invalidPouId me.pouId)
  | none => pure ()
  let start := entry.codeOffset.toNat
  let stop := start + entry.codeLength.toNat
  if stop > bodies.length then throw (.invalidSection .pouCodeOutOfBounds)
  validateInstructionStream index types (sliceOf bodies start stop)

def validatePouIndex (nStrings : Nat) (types : List TypeEntry) (nConsts : Nat) (index : List PouEntry)
    (bodies : Bytes) : Except Err Unit :=
  forM' index (validatePouEntry nStrings types nConsts index bodies)

/-- the first loop of `validate_resource_meta`: upper-cased names of all PROGRAM POUs -/
def programNames (strings : List Bytes) : List PouEntry → Except Err (List Bytes)
  | [] => .ok []
  | e :: rest =>
    if e.kind = .program then
      match strings[e.nameIdx.toNat]? with
      | none => .error (.invalidIndex .string e.nameIdx)
      | some name => do
        let ns ← programNames strings rest
        pure (asciiUpper name :: ns)
    else programNames strings rest

/-- `MAX_PROCESS_IMAGE_BYTES` (ffd16eb) -/
def maxProcessImageBytes : Nat := 16777216

/-- the per-task body of `validate_resource_meta` -/
def validateTaskEntry (strings : List Bytes) (names : List Bytes) (nRefs : Nat) (t : TaskEntry) :
    Except Err Unit := do
  ensureIndex .string strings.length t.nameIdx
  (match t.singleNameIdx with
    | some s => ensureIndex .string strings.length s
    | none => .ok ())
  forM' t.programNameIdx fun idx => do
    ensureIndex .string strings.length idx
    (match strings[idx.toNat]? with
      | none => .error (.invalidIndex .string idx)
      | some name =>
        if !names.contains (asciiUpper name) then .error (.invalidSection .taskUnknownProgram)
        else .ok ())
  forM' t.fbRefIdx fun idx => ensureIndex .ref nRefs idx

/-- the bound on the three process image sizes (ffd16eb) -/
def imageSizesOk (r : ResourceEntry) : Bool :=
  decide (r.inputsSize.toNat ≤ maxProcessImageBytes) && decide (r.outputsSize.toNat ≤ maxProcessImageBytes)
    && decide (r.memorySize.toNat ≤ maxProcessImageBytes)

/-- the per-resource body of `validate_resource_meta` -/
def validateResourceEntry (strings : List Bytes) (names : List Bytes) (nRefs : Nat) (r : ResourceEntry) :
    Except Err Unit := do
  ensureIndex .string strings.length r.nameIdx
  (if imageSizesOk r then .ok () else .error (.invalidSection .processImageTooLarge))
  forM' r.tasks (validateTaskEntry strings names nRefs)

/-- `validate_resource_meta` -/
def validateResourceMeta (strings : List Bytes) (nRefs : Nat) (index : List PouEntry)
    (resources : List ResourceEntry) : Except Err Unit := do
  let names ← programNames strings index
  forM' resources (validateResourceEntry strings names nRefs)

/-- `validate_io_map` -/
def validateIoMap (nStrings nTypes nRefs : Nat) (bindings : List IoBinding) : Except Err Unit :=
  forM' bindings fun b => do
    ensureIndex .string nStrings b.addressStrIdx
    ensureIndex .ref nRefs b.refIdx
    match b.typeId with
    | some t => ensureIndex .type nTypes t
    | none => pure ()

/-- `validate_var_meta` -/
def validateVarMeta (nStrings nTypes nConsts nRefs : Nat) (entries : List VarMetaEntry) : Except Err Unit :=
  forM' entries fun e => do
    ensureIndex .string nStrings e.nameIdx
    ensureIndex .type nTypes e.typeId
    ensureIndex .ref nRefs e.refIdx
    if e.retain > 3 then throw (.invalidSection .invalidRetainPolicy)
    match e.initConstIdx with
    | some i => ensureIndex .const nConsts i
    | none => pure ()

/-- `validate_retain_init` -/
def validateRetainInit (nConsts nRefs : Nat) (entries : List RetainInitEntry) : Except Err Unit :=
  forM' entries fun e => do
    ensureIndex .ref nRefs e.refIdx
    ensureIndex .const nConsts e.constIdx

/-- `validate_debug_map` -/
def validateDebugMap (nStrings : Nat) (index : List PouEntry) (entries : List DebugEntry) : Except Err Unit :=
  forM' entries fun e =>
    match index.find? (fun p => p.id == e.pouId) with
    | none => .error (.invalidPouId e.pouId)
    | some pou =>
      if pou.codeOffset.toNat + pou.codeLength.toNat ≥ 4294967296 then
        .error (.invalidSection .pouCodeRangeOverflow)
      else
        let stop := pou.codeOffset.toNat + pou.codeLength.toNat
        if e.codeOffset.toNat < pou.codeOffset.toNat ∨ e.codeOffset.toNat > stop then
          .error (.invalidSection .debugOffsetOutOfBounds)
        else ensureIndex .string nStrings e.fileIdx

def getStrings (m : Module) : Except Err (List Bytes) :=
  match m.section idStringTable with
  | some (.stringTable t) => .ok t
  | _ => .error (.missingSection .stringTable)
def getDebugStrings (m : Module) : Option (List Bytes) :=
  match m.section idDebugStringTable with
  | some (.debugStringTable t) => some t
  | _ => none
def getTypes (m : Module) : Except Err TypeTable :=
  match m.section idTypeTable with
  | some (.typeTable t) => .ok t
  | _ => .error (.missingSection .typeTable)
def getConstPool (m : Module) : Except Err (List ConstEntry) :=
  match m.section idConstPool with
  | some (.constPool p) => .ok p
  | _ => .error (.missingSection .constPool)
def getRefTable (m : Module) : Except Err (List RefEntry) :=
  match m.section idRefTable with
  | some (.refTable t) => .ok t
  | _ => .error (.missingSection .refTable)
def getPouIndex (m : Module) : Except Err (List PouEntry) :=
  match m.section idPouIndex with
  | some (.pouIndex i) => .ok i
  | _ => .error (.missingSection .pouIndex)
def getPouBodies (m : Module) : Except Err Bytes :=
  match m.section idPouBodies with
  | some (.pouBodies b) => .ok b
  | _ => .error (.missingSection .pouBodies)
def getResourceMeta (m : Module) : Except Err (List ResourceEntry) :=
  match m.section idResourceMeta with
  | some (.resourceMeta r) => .ok r
  | _ => .error (.missingSection .resourceMeta)
def getIoMap (m : Module) : Except Err (List IoBinding) :=
  match m.section idIoMap with
  | some (.ioMap b) => .ok b
  | _ => .error (.missingSection .ioMap)

/-- the optional sections at the end of `validate`: VAR_META, RETAIN_INIT, DEBUG_MAP -/
def validateOptional (m : Module) (strings : List Bytes) (nTypes nConsts nRefs : Nat)
    (pouIndex : List PouEntry) : Except Err Unit := do
  (match m.section idVarMeta with
    | some (.varMeta vm) => validateVarMeta strings.length nTypes nConsts nRefs vm
    | _ => .ok ())
  (match m.section idRetainInit with
    | some (.retainInit ri) => validateRetainInit nConsts nRefs ri
    | _ => .ok ())
  (match m.section idDebugMap with
    | some (.debugMap dm) =>
      if m.minor ≥ 1 ∧ (getDebugStrings m).isNone then .error (.missingSection .debugStringTable)
      else validateDebugMap ((getDebugStrings m).getD strings).length pouIndex dm
    | _ => .ok ())

/-- `BytecodeModule::validate` -/
def validate (m : Module) : Except Err Unit := do
  let strings ← getStrings m
  let types ← getTypes m
  let constPool ← getConstPool m
  let refTable ← getRefTable m
  let pouIndex ← getPouIndex m
  let pouBodies ← getPouBodies m
  let resourceMeta ← getResourceMeta m
  let ioMap ← getIoMap m
  validateTypeTable strings.length types.entries
  validateConstPool strings.length types.entries constPool
  validateRefTable strings.length refTable
  validatePouIndex strings.length types.entries constPool.length pouIndex pouBodies
  validateResourceMeta strings refTable.length pouIndex resourceMeta
  validateIoMap strings.length types.entries.length refTable.length ioMap
  validateOptional m strings types.entries.length constPool.length refTable.length pouIndex

/-! ## metadata.rs -/

inductive MemLoc
  | global | local (frame : UInt32) | instance (id : UInt32) | retain | ioInput | ioOutput | ioMemory
  deriving DecidableEq, Repr, Inhabited

inductive PathSeg
  | index (indices : List UInt64)
  | field (name : Bytes)
  deriving DecidableEq, Repr, Inhabited

structure ValueRef where
  location : MemLoc
  offset : Nat
  path : List PathSeg
  deriving DecidableEq, Repr, Inhabited

structure TaskConfig where
  name : Bytes
  intervalNanos : UInt64
  single : Option Bytes
  priority : UInt32
  programs : List Bytes
  fbInstances : List ValueRef
  deriving DecidableEq, Repr, Inhabited

structure ResourceMetadata where
  name : Bytes
  inputs : Nat
  outputs : Nat
  memory : Nat
  tasks : List TaskConfig
  deriving DecidableEq, Repr, Inhabited

structure Metadata where
  major : UInt16
  minor : UInt16
  resources : List ResourceMetadata
  deriving DecidableEq, Repr, Inhabited

def lookupString (strings : List Bytes) (idx : UInt32) : Except Err Bytes :=
  match strings[idx.toNat]? with
  | some s => .ok s
  | none => .error (.invalidIndex .string idx)

def mapM' (xs : List α) (f : α → Except Err β) : Except Err (List β) :=
  match xs with
  | [] => .ok []
  | x :: rest => do
    let y ← f x
    let ys ← mapM' rest f
    pure (y :: ys)

/-- the `match self.location` of `RefEntry::to_value_ref` -/
def refLocation (e : RefEntry) : Except Err MemLoc :=
  match e.location with
  | .global => .ok MemLoc.global
  | .local => .ok (MemLoc.local e.ownerId)
  | .instance => .ok (MemLoc.instance e.ownerId)
  | .retain => .ok MemLoc.retain
  | .io =>
    if e.ownerId = 0 then .ok MemLoc.ioInput
    else if e.ownerId = 1 then .ok MemLoc.ioOutput
    else if e.ownerId = 2 then .ok MemLoc.ioMemory
    else .error (.invalidSection .invalidIoArea)

/-- one path segment of `RefEntry::to_value_ref` -/
def segToPath (strings : List Bytes) : RefSegment → Except Err PathSeg
  | .index is => .ok (PathSeg.index is)
  | .field n =>
    match lookupString strings n with
    | .error e => .error e
    | .ok name => .ok (PathSeg.field name)

/-- `RefEntry::to_value_ref` -/
def toValueRef (strings : List Bytes) (e : RefEntry) : Except Err ValueRef :=
  match refLocation e with
  | .error err => .error err
  | .ok location =>
    match mapM' e.segments (segToPath strings) with
    | .error err => .error err
    | .ok path => .ok { location, offset := e.offset.toNat, path }

/-- `match task.single_name_idx { Some(idx) => Some(lookup_string(strings, idx)?), None => None }` -/
def lookupOptString (strings : List Bytes) : Option UInt32 → Except Err (Option Bytes)
  | none => .ok none
  | some i =>
    match lookupString strings i with
    | .error e => .error e
    | .ok s => .ok (some s)

/-- one FB instance reference of a task -/
def fbRefToValue (strings : List Bytes) (refs : List RefEntry) (idx : UInt32) : Except Err ValueRef :=
  match refs[idx.toNat]? with
  | none => .error (.invalidIndex .ref idx)
  | some e => toValueRef strings e

/-- the per-task body of `resource_to_metadata` -/
def taskToConfig (strings : List Bytes) (refs : List RefEntry) (t : TaskEntry) : Except Err TaskConfig := do
  let name ← lookupString strings t.nameIdx
  let programs ← mapM' t.programNameIdx (lookupString strings)
  let single ← lookupOptString strings t.singleNameIdx
  let fbInstances ← mapM' t.fbRefIdx (fbRefToValue strings refs)
  pure { name, intervalNanos := t.intervalNanos, single, priority := t.priority, programs, fbInstances }

/-- `resource_to_metadata` -/
def resourceToMetadata (strings : List Bytes) (refs : List RefEntry) (r : ResourceEntry) :
    Except Err ResourceMetadata := do
  let name ← lookupString strings r.nameIdx
  let tasks ← mapM' r.tasks (taskToConfig strings refs)
  pure { name, inputs := r.inputsSize.toNat, outputs := r.outputsSize.toNat,
         memory := r.memorySize.toNat, tasks }

/-- `BytecodeModule::metadata` -/
def metadata (m : Module) : Except Err Metadata := do
  let strings ← getStrings m
  let resourceMeta ← getResourceMeta m
  let refTable ← getRefTable m
  let resources ← mapM' resourceMeta (resourceToMetadata strings refTable)
  pure { major := m.major, minor := m.minor, resources }

/-! ## runtime/bytecode.rs — applying a container to a runtime

The runtime is seen through `RtView`: the names of its programs, its globals and instances at the
level `validate_task` looks at them (is the value an instance? of a registered function block?),
and the shape of its array / struct values (bounds, elements, field names), because the `Index` /
`Field` segments of a task's FB references are followed through them (`memory.rs`,
`read_by_ref_path`).  Scalars are opaque (`other`). -/

inductive RVal
  | inst (id : UInt32)
  | other
  | arr (dims : List (Int × Int)) (elems : List RVal)      -- `ArrayValue { dimensions, elements }`
  | struct (fields : List (Bytes × RVal))                   -- `StructValue.fields`, declaration order
  deriving Repr, Inhabited

structure RInstance where
  id : UInt32
  fbKnown : Bool            -- `function_blocks` has the instance's type name
  vars : List RVal
  deriving Repr, Inhabited

structure RtView where
  programs : List Bytes
  globals : List RVal
  instances : List RInstance
  deriving Repr, Inhabited

/-! ### `memory.rs`: `array_offset_i64`, `read_by_ref_path`

The code computes in `i64` / `i128`; the harness (and the repository's tests) run the dev profile,
where an overflow is a panic.  The model computes in ℤ and answers `panic` whenever an intermediate
result leaves the range of the type the code uses for it. -/

def i64Min : Int := -9223372036854775808
def i64Max : Int := 9223372036854775807
def inI64 (x : Int) : Bool := decide (i64Min ≤ x) && decide (x ≤ i64Max)
def i128Min : Int := -170141183460469231731687303715884105728
def i128Max : Int := 170141183460469231731687303715884105727
def inI128 (x : Int) : Bool := decide (i128Min ≤ x) && decide (x ≤ i128Max)

/-- outcome of a lookup: a panic (arithmetic overflow), `None`, or `Some` -/
inductive Lookup (α : Type)
  | panic | none | some (a : α)
  deriving DecidableEq, Repr, Inhabited

/-- the loop of `array_offset_i64` over `dimensions.iter().zip(indices).rev()`:
the range test comes first, then `(*upper - *lower + 1) as i128` and `(index - *lower) as i128`
(both `i64` operations), then the `i128` accumulation. -/
def arrayOffsetLoop : List ((Int × Int) × Int) → Int → Int → Lookup Int
  | [], offset, _ => .some offset
  | ((lower, upper), index) :: rest, offset, stride =>
    if index < lower ∨ index > upper then .none
    else if !(inI64 (upper - lower) && inI64 (upper - lower + 1)) then .panic
    else if !(inI64 (index - lower)) then .panic
    else if !(inI128 ((index - lower) * stride) && inI128 (offset + (index - lower) * stride)) then .panic
    else if !(inI128 (stride * (upper - lower + 1))) then .panic
    else arrayOffsetLoop rest (offset + (index - lower) * stride) (stride * (upper - lower + 1))

/-- `array_offset_i64` (`usize` is 64 bit) -/
def arrayOffset (dims : List (Int × Int)) (indices : List Int) : Lookup Nat :=
  if dims.length ≠ indices.length then .none else
  match arrayOffsetLoop (dims.zip indices).reverse 0 1 with
  | .panic => .panic
  | .none => .none
  | .some off => if 0 ≤ off ∧ off < 18446744073709551616 then .some off.toNat else .none

/-- `read_by_ref_path` -/
def readPath : RVal → List PathSeg → Lookup RVal
  | v, [] => .some v
  | .struct fields, .field name :: rest =>
    match fields.find? (fun f => f.1 == name) with
    | some f => readPath f.2 rest
    | none => .none
  | .arr dims elems, .index is :: rest =>
    match arrayOffset dims (is.map toI64) with
    | .panic => .panic
    | .none => .none
    | .some off =>
      match elems[off]? with
      | some e => readPath e rest
      | none => .none
  | _, _ :: _ => .none

inductive ApplyErr
  | invalidBytecode (e : Err)
  | unsupportedVersion
  | invalidMetadata
  | undefinedProgram (name : Bytes)
  | typeMismatch
  | nullReference
  | undefinedFunctionBlock
  | panic                   -- not an error value: the call did not return (overflow in `read_by_ref`)
  deriving DecidableEq, Repr, Inhabited

/-- What `apply_resource_metadata` did: the three `resize` requests (bytes) and the tasks that were
registered before it returned. -/
structure ApplyEffect where
  resize : Option (Nat × Nat × Nat) := none
  tasks : List TaskConfig := []
  deriving DecidableEq, Repr, Inhabited

/-- `Storage::read_by_ref` on an `RtView` (frames are empty between cycles) -/
def readByRef (rt : RtView) (r : ValueRef) : Lookup RVal :=
  let root := match r.location with
    | .global => rt.globals[r.offset]?
    | .local _ => none
    | .instance id => (rt.instances.find? (fun i => i.id == id)).bind (fun i => i.vars[r.offset]?)
    | _ => none
  match root with
  | none => .none
  | some v => readPath v r.path

/-- `Runtime::validate_task` -/
def validateTask (rt : RtView) (t : TaskConfig) : Except ApplyErr Unit := do
  let rec progs : List Bytes → Except ApplyErr Unit
    | [] => .ok ()
    | p :: rest =>
      if rt.programs.any (fun n => eqIgnoreCase n p) then progs rest else .error (.undefinedProgram p)
  progs t.programs
  let rec fbs : List ValueRef → Except ApplyErr Unit
    | [] => .ok ()
    | r :: rest =>
      match readByRef rt r with
      | .some (.inst id) =>
        match rt.instances.find? (fun i => i.id == id) with
        | none => .error .nullReference
        | some inst => if inst.fbKnown then fbs rest else .error .undefinedFunctionBlock
      | .some _ => .error .typeMismatch
      | .none => .error .nullReference
      | .panic => .error .panic
  fbs t.fbInstances

/-- the task loop of `apply_resource_metadata` -/
def applyTasks (rt : RtView) : List TaskConfig → List TaskConfig → (Option ApplyErr × List TaskConfig)
  | [], done => (none, done.reverse)
  | t :: rest, done =>
    match validateTask rt t with
    | .error e => (some e, done.reverse)
    | .ok _ => applyTasks rt rest (t :: done)

/-- `Runtime::apply_bytecode_metadata` + `apply_resource_metadata` -/
def applyMetadata (rt : RtView) (md : Metadata) (resourceName : Option Bytes) :
    Option ApplyErr × ApplyEffect :=
  if md.major ≠ supportedMajor then (some .unsupportedVersion, {}) else
  let chosen := match resourceName with
    | some n => (md.resources.find? (fun (r : ResourceMetadata) => eqIgnoreCase r.name n)).orElse (fun _ => md.resources.head?)
    | none => md.resources.head?
  match chosen with
  | none => (some .invalidMetadata, {})
  | some r =>
    let (err, tasks) := applyTasks rt r.tasks []
    (err, { resize := some (r.inputs, r.outputs, r.memory), tasks })

/-- `Runtime::apply_bytecode_module` -/
def applyModule (rt : RtView) (m : Module) (resourceName : Option Bytes) : Option ApplyErr × ApplyEffect :=
  match validate m with
  | .error e => (some (.invalidBytecode e), {})
  | .ok _ =>
    match metadata m with
    | .error e => (some (.invalidBytecode e), {})
    | .ok md => applyMetadata rt md resourceName

/-- `Runtime::apply_bytecode_bytes` -/
def applyBytes (crc : Bytes → UInt32) (rt : RtView) (bytes : Bytes) (resourceName : Option Bytes) :
    Option ApplyErr × ApplyEffect :=
  match decode crc bytes with
  | .error e => (some (.invalidBytecode e), {})
  | .ok m => applyModule rt m resourceName

/-! ## well-formed modules

`Module.wf` is the (decidable, executable) hypothesis of the round-trip theorem: what a
`BytecodeModule` value must satisfy for `decode (encode m) = m`.  Everything here is forced by the
wire format: lengths fit their `u32` count fields, `Some(u32::MAX)` is not representable (it is
the encoding of `None`), enum-like fields agree with the data they tag, and the redundant
`TypeTable.offsets` are the ones `encode` writes. -/

def lenOk (n : Nat) : Bool := decide (n < 4294967296)
def optOk (o : Option UInt32) : Bool := o != some u32Max

def kindMatches : TypeKind → TypeData → Bool
  | .primitive, .primitive _ _ => true
  | .array, .array _ _ => true
  | .struct, .struct _ => true
  | .enum, .enum _ _ => true
  | .alias, .alias _ => true
  | .subrange, .subrange _ _ _ => true
  | .reference, .reference _ => true
  | .union, .union _ => true
  | .functionBlock, .pou _ => true
  | .class, .pou _ => true
  | .interface, .interface _ => true
  | _, _ => false

def TypeData.wf : TypeData → Bool
  | .array _ dims => lenOk dims.length
  | .struct fs | .union fs => lenOk fs.length
  | .enum _ vs => lenOk vs.length
  | .interface ms => lenOk ms.length
  | _ => true

def TypeEntry.wf (e : TypeEntry) : Bool := kindMatches e.kind e.data && optOk e.nameIdx && e.data.wf

def TypeTable.wf (minor : UInt16) (t : TypeTable) : Bool :=
  lenOk t.entries.length && t.entries.all TypeEntry.wf
    && decide (t.offsets = if minor ≥ 1 then computeTypeOffsets (t.entries.map encTypeEntry) else [])

def stringWf (s : Bytes) : Bool := lenOk s.length && validUtf8 s
def ConstEntry.wf (c : ConstEntry) : Bool := lenOk c.payload.length

def RefSegment.wf : RefSegment → Bool
  | .index is => lenOk is.length
  | .field _ => true
def RefEntry.wf (e : RefEntry) : Bool := lenOk e.segments.length && e.segments.all RefSegment.wf

def ParamEntry.wf (minor : UInt16) (p : ParamEntry) : Bool :=
  optOk p.defaultConstIdx && (decide (minor ≥ 1) || p.defaultConstIdx.isNone)
def InterfaceImpl.wf (i : InterfaceImpl) : Bool := lenOk i.vtableSlots.length
def PouClassMeta.wf (cm : PouClassMeta) : Bool :=
  optOk cm.parentPouId && lenOk cm.interfaces.length && cm.interfaces.all InterfaceImpl.wf
    && lenOk cm.methods.length
def PouEntry.wf (minor : UInt16) (e : PouEntry) : Bool :=
  optOk e.returnTypeId && optOk e.ownerPouId && lenOk e.params.length
    && e.params.all (ParamEntry.wf minor)
    && (e.classMeta.isSome == e.kind.isClassLike)
    && (match e.classMeta with
        | some cm => cm.wf
        | none => true)

def TaskEntry.wf (t : TaskEntry) : Bool :=
  optOk t.singleNameIdx && lenOk t.programNameIdx.length && lenOk t.fbRefIdx.length
def ResourceEntry.wf (r : ResourceEntry) : Bool := lenOk r.tasks.length && r.tasks.all TaskEntry.wf
def IoBinding.wf (b : IoBinding) : Bool := optOk b.typeId
def VarMetaEntry.wf (e : VarMetaEntry) : Bool := optOk e.initConstIdx

def SectionData.wf (minor : UInt16) : SectionData → Bool
  | .stringTable t | .debugStringTable t => lenOk t.length && t.all stringWf
  | .typeTable t => t.wf minor
  | .constPool es => lenOk es.length && es.all ConstEntry.wf
  | .refTable es => lenOk es.length && es.all RefEntry.wf
  | .pouIndex es => lenOk es.length && es.all (PouEntry.wf minor)
  | .pouBodies _ => true
  | .resourceMeta rs => lenOk rs.length && rs.all ResourceEntry.wf
  | .ioMap bs => lenOk bs.length && bs.all IoBinding.wf
  | .debugMap es => lenOk es.length
  | .varMeta es => lenOk es.length && es.all VarMetaEntry.wf
  | .retainInit es => lenOk es.length
  | .raw _ => true

/-- the data variant is the one `decode_section_data` produces for this section id -/
def idMatches (id : UInt16) : SectionData → Bool
  | .stringTable _ => id == idStringTable
  | .debugStringTable _ => id == idDebugStringTable
  | .typeTable _ => id == idTypeTable
  | .constPool _ => id == idConstPool
  | .refTable _ => id == idRefTable
  | .pouIndex _ => id == idPouIndex
  | .pouBodies _ => id == idPouBodies
  | .resourceMeta _ => id == idResourceMeta
  | .ioMap _ => id == idIoMap
  | .debugMap _ => id == idDebugMap
  | .varMeta _ => id == idVarMeta
  | .retainInit _ => id == idRetainInit
  | .raw _ => !(decide (1 ≤ id.toNat ∧ id.toNat ≤ 12))

def Section.wf (minor : UInt16) (s : Section) : Bool := idMatches s.id s.data && s.data.wf minor

/-- size of the encoded container: header, table, padding, padded payloads -/
def encodedSize (minor : UInt16) (sections : List Section) : Nat :=
  align4 (headerSize + sections.length * sectionEntrySize)
    + (sections.map fun s => align4 (encodeSectionData minor s.data).length).sum

def Module.wf (m : Module) : Bool :=
  m.major == supportedMajor && decide (m.sections.length < 65536)
    && m.sections.all (Section.wf m.minor) && lenOk (encodedSize m.minor m.sections)

/-! ## the debug map of an emitted container

Not part of `validate` (which only bounds a debug entry by its POU's code range, end included): what
the compiler is expected to emit — every debug entry of a POU points at the first byte of one of its
instructions, and the entries of a POU appear in emission order. -/

/-- the entry lies inside its POU's code and on an instruction start (as the validator walks it) -/
def debugEntryOk (index : List PouEntry) (types : List TypeEntry) (bodies : Bytes) (e : DebugEntry) : Bool :=
  match index.find? (fun p => p.id == e.pouId) with
  | none => false
  | some pou =>
    let start := pou.codeOffset.toNat
    let len := pou.codeLength.toNat
    let off := e.codeOffset.toNat
    if start + len > bodies.length then false
    else if off < start ∨ off ≥ start + len then false
    else
      match walkInstructions index types len 0 (sliceOf bodies start (start + len)) {} with
      | .ok w => w.starts.contains (off - start)
      | .error _ => false

/-- consecutive entries of the same POU have non-decreasing code offsets -/
def debugOrderOk : List DebugEntry → Bool
  | a :: b :: rest => (a.pouId != b.pouId || decide (a.codeOffset.toNat ≤ b.codeOffset.toNat)) && debugOrderOk (b :: rest)
  | _ => true

def debugMapOk (m : Module) : Bool :=
  match getPouIndex m, getPouBodies m, getTypes m, m.section idDebugMap with
  | .ok index, .ok bodies, .ok types, some (.debugMap dm) =>
    dm.all (debugEntryOk index types.entries bodies) && debugOrderOk dm
  | _, _, _, _ => true

/-! ## abstract emitter (bytecode/encoder/codegen.rs)

`emit_stmt` pushes a debug entry carrying the current code length, then the statement's emitter
appends code (and, through nested statements, more debug entries).  A statement that turns out not
to be encodable is rolled back to the snapshot taken at its start — `code.truncate(code_start);
debug_entries.truncate(debug_start);` — and replaced by a NOP. -/

structure Emitter where
  code : Bytes := []
  /-- code offsets of the debug entries, in push order -/
  debug : List Nat := []
  deriving DecidableEq, Repr

namespace Emitter
/-- `debug_entries.push(DebugEntry { code_offset: code.len(), .. })` -/
def pushDebug (e : Emitter) : Emitter := { e with debug := e.debug ++ [e.code.length] }
/-- `code.push(..)` / `code.extend_from_slice(..)` -/
def emitBytes (e : Emitter) (bs : Bytes) : Emitter := { e with code := e.code ++ bs }
/-- `code.truncate(code_start); debug_entries.truncate(debug_start);` -/
def rollback (e : Emitter) (codeStart debugStart : Nat) : Emitter :=
  { code := e.code.take codeStart, debug := e.debug.take debugStart }
/-- the faulty variant: only the code is truncated -/
def rollbackCodeOnly (e : Emitter) (codeStart : Nat) : Emitter := { e with code := e.code.take codeStart }
/-- `e` was reached from the snapshot `s` by pushes and appends only -/
def Extends (e s : Emitter) : Prop := (∃ c, e.code = s.code ++ c) ∧ (∃ d, e.debug = s.debug ++ d)
/-- every debug entry points into (or at the end of) the code, and the entries are in emission order -/
def Inv (e : Emitter) : Prop := (∀ d ∈ e.debug, d ≤ e.code.length) ∧ e.debug.Pairwise (· ≤ ·)
end Emitter

/-! ## example data (non-vacuity examples and the counterexample of Props/C11.lean) -/

/-- a small module with every required section: one program whose body jumps to its end, one
resource with one task -/
def exModule (owner : UInt32) : Module :=
  { major := 1, minor := 1, flags := 0,
    sections := [
      ⟨idStringTable, 0, .stringTable [[0x52], [0x54], [0x4d]]⟩,     -- "R", "T", "M"
      ⟨idTypeTable, 0, .typeTable { offsets := [8], entries := [⟨.primitive, none, .primitive 1 0⟩] }⟩,
      ⟨idConstPool, 0, .constPool [⟨0, [1]⟩]⟩,
      ⟨idRefTable, 0, .refTable [⟨.io, owner, 0, []⟩]⟩,
      ⟨idPouIndex, 0, .pouIndex [⟨1, 2, .program, 0, 5, 0, 0, none, none, [], none⟩]⟩,
      ⟨idPouBodies, 0, .pouBodies [0x02, 0, 0, 0, 0]⟩,
      ⟨idResourceMeta, 0, .resourceMeta [⟨0, 1, 2, 3, [⟨1, 0, 1000, none, [2], [0]⟩]⟩]⟩,
      ⟨idIoMap, 0, .ioMap []⟩ ] }


def crc0 : Bytes → UInt32 := fun _ => 0

/-- a type table payload with four stray bytes between the offset table and the only entry -/
def gapPayload : Bytes :=
  [1, 0, 0, 0, 12, 0, 0, 0, 0xAA, 0xBB, 0xCC, 0xDD, 0, 0, 0, 0, 0xFF, 0xFF, 0xFF, 0xFF, 1, 0, 0, 0]
def gapTable (off : UInt32) : TypeTable :=
  { offsets := [off], entries := [⟨.primitive, none, .primitive 1 0⟩] }


end TrustVerif.C11
