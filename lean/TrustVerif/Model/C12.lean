/-
Model of the lexer post-pass, the parser infrastructure (Marker / Event) and the tree sink of
trust-syntax (property C12).

Mirrors, function by function:
  crates/trust-syntax/src/lexer/mod.rs      `Lexer::next` (the split of an `IntLiteral` that ends in
                                            `.` into Int + Dot / DotDot through the pending queue)
  crates/trust-syntax/src/parser/source.rs  `Source::{current, current_token, bump, at_end}`
  crates/trust-syntax/src/parser/parser.rs  `Parser::{start, bump, start_node, finish_node, error}`,
                                            `Marker::complete`, `CompletedMarker::precede`,
                                            `set_forward_parent`, the bracket of `Parser::parse`
  crates/trust-syntax/src/parser/sink.rs    `Sink::{finish, eat_trivia, token}`
  rowan-0.15.19 src/green/builder.rs        `GreenNodeBuilder::{token, start_node, finish_node, finish}`
                                            (trusted: modelled, not verified)

Representation.  Text is a list of bytes.  A position in a vector that is only ever advanced
(`Sink::cursor`, `Source::cursor`, the loop index `i` of `Sink::finish`) is represented by the
*remaining suffix* of that vector, so `tokens.get(cursor)` is the head of the remaining token list
and `events[i + d]` is element `d` of the remaining event list.  Indices that the Rust code keeps
(`Marker::pos`, `forward_parent`) stay numeric.  Everything the Rust code can do wrong at run time
is an explicit outcome: `panic` (index out of bounds, `unwrap` on `None`, failed assertion, slicing
outside the text or off a character boundary) and `diverge` (a loop that would not stop).

Import-free (core Lean only) so that the driver links as a `lean_exe`.
-/
namespace TrustVerif.C12

/-- Outcome of a piece of Rust code. -/
inductive Res (α : Type) where
  | ok (a : α)
  | panic
  | diverge
deriving Repr, DecidableEq

def Res.bind {α β : Type} : Res α → (α → Res β) → Res β
  | .ok a, f => f a
  | .panic, _ => .panic
  | .diverge, _ => .diverge

/-- `Token { kind, range }` (`kind` is the `u16` discriminant of `TokenKind`). -/
structure Tok where
  kind : Nat
  lo : Nat
  hi : Nat
deriving Repr, DecidableEq

/-- The facts about `TokenKind` / `SyntaxKind` the modelled functions use.  Every theorem holds for
an arbitrary `Lang`; the correspondence run fills it from the real enums. -/
structure Lang where
  /-- `TokenKind::IntLiteral`, `Dot`, `DotDot`, `Eof` -/
  int : Nat
  dot : Nat
  dotDot : Nat
  eof : Nat
  /-- `TokenKind::is_trivia` -/
  isTrivia : Nat → Bool
  /-- `SyntaxKind::from(TokenKind)` -/
  toSyntax : Nat → Nat

/-- A small language for the concrete instances in `Props/C12.lean`: kinds 0 = whitespace (trivia),
1 = ident, 2 = `+`, 10 = IntLiteral, 11 = Dot, 12 = DotDot, 99 = Eof. -/
def exL : Lang := ⟨10, 11, 12, 99, fun k => k == 0, fun k => k⟩

/-! ## Text -/

/-- `str::is_char_boundary` on the UTF-8 bytes: the end of the text, or a byte that is not a
continuation byte `10xxxxxx`. -/
def isBoundary (src : List Nat) (i : Nat) : Bool :=
  i == src.length ||
    match src[i]? with
    | some b => b / 64 != 2
    | none => false

/-- `&source[lo..hi]` does not panic. -/
def sliceOk (src : List Nat) (t : Tok) : Bool :=
  decide (t.lo ≤ t.hi) && decide (t.hi ≤ src.length) && isBoundary src t.lo && isBoundary src t.hi

/-- `&source[lo..hi]`. -/
def slice (src : List Nat) (lo hi : Nat) : List Nat := (src.drop lo).take (hi - lo)

/-- The tokens tile `[a, b)`: the first starts at `a`, each starts where the previous one ended,
none is empty, the last ends at `b`. -/
def tiles : List Tok → Nat → Nat → Bool
  | [], a, b => a == b
  | t :: ts, a, b => t.lo == a && decide (t.lo < t.hi) && tiles ts t.hi b

/-- Every token boundary is a character boundary of the text. -/
def onBoundaries (src : List Nat) : List Tok → Bool
  | [] => true
  | t :: ts => isBoundary src t.lo && isBoundary src t.hi && onBoundaries src ts

/-! ## Lexer post-pass (`lexer/mod.rs`, `impl Iterator for Lexer`) -/

/-- `text.ends_with('.')` for `text = &source[lo..hi]`: the last byte is `.` (an ASCII byte is never
part of a multi-byte character). -/
def endsWithDot (src : List Nat) (t : Tok) : Bool :=
  decide (t.lo < t.hi) && src[t.hi - 1]? == some 46

/-- The token list produced by draining `Lexer` over the raw logos stream `raw`.  When the current
raw token is an `IntLiteral` whose text ends in `.` and is longer than one byte, `next` queues the
integer without the dot, pulls one more raw token and queues either a `DotDot` (if that token is a
`Dot` that starts where the literal ended) or a `Dot` followed by the pulled token unchanged; the
pending queue is emptied (FIFO) before logos is asked again, hence the list form. -/
def postpass (L : Lang) (src : List Nat) : List Tok → List Tok
  | [] => []
  | t :: rest =>
    if t.kind = L.int ∧ endsWithDot src t = true ∧ t.hi > t.lo + 1 then
      let intTok : Tok := ⟨L.int, t.lo, t.hi - 1⟩
      match rest with
      | [] => [intTok, ⟨L.dot, t.hi - 1, t.hi⟩]
      | nx :: rest' =>
        if nx.kind = L.dot ∧ nx.lo = t.hi then
          intTok :: ⟨L.dotDot, t.hi - 1, nx.hi⟩ :: postpass L src rest'
        else
          intTok :: ⟨L.dot, t.hi - 1, t.hi⟩ :: nx :: postpass L src rest'
    else
      t :: postpass L src rest

/-! The same function as the iterator it is in the Rust code (`Lemmas.lexDrain_eq` proves the two
forms equal; the driver runs this one). -/
/-- `Lexer { inner, pending }`: `raw` is what logos has not yielded yet, `pending` the `VecDeque`. -/
structure LexSt where
  pending : List Tok
  raw : List Tok
deriving Repr

/-- `<Lexer as Iterator>::next`, statement by statement. -/
def lexNext (L : Lang) (src : List Nat) (s : LexSt) : Option (Tok × LexSt) :=
  match s.pending with
  | p :: ps => some (p, { s with pending := ps })
  | [] =>
    match s.raw with
    | [] => none
    | t :: rest =>
      if t.kind = L.int ∧ endsWithDot src t = true ∧ t.hi > t.lo + 1 then
        let intTok : Tok := ⟨L.int, t.lo, t.hi - 1⟩
        match rest with
        | [] => some (intTok, ⟨[⟨L.dot, t.hi - 1, t.hi⟩], []⟩)
        | nx :: rest' =>
          if nx.kind = L.dot ∧ nx.lo = t.hi then
            some (intTok, ⟨[⟨L.dotDot, t.hi - 1, nx.hi⟩], rest'⟩)
          else
            some (intTok, ⟨[⟨L.dot, t.hi - 1, t.hi⟩, nx], rest'⟩)
      else some (t, ⟨[], rest⟩)

/-- `Lexer::new(source).collect()` with an explicit bound on the number of `next` calls. -/
def lexDrain (L : Lang) (src : List Nat) : Nat → LexSt → List Tok
  | 0, _ => []
  | f + 1, s =>
    match lexNext L src s with
    | none => []
    | some (t, s') => t :: lexDrain L src f s'

/-- `lex(source)`: at most two tokens come out per raw token, so `2 * raw.length` calls drain it. -/
def lexAll (L : Lang) (src : List Nat) (raw : List Tok) : List Tok :=
  lexDrain L src (2 * raw.length) ⟨[], raw⟩

/-! ### Trivia insertion at the lexer level (used by `Props.c12_lex_trivia_insertion`) -/

/-- A token moved `d` bytes to the right (what happens to every token behind an insertion of `d`
bytes). -/
def shiftTok (d : Nat) (t : Tok) : Tok := ⟨t.kind, t.lo + d, t.hi + d⟩

/-- The kinds of the significant (non-trivia) tokens of a token list, in order: the part of the
lexer's output the parser looks at. -/
def sigKinds (L : Lang) (ts : List Tok) : List Nat :=
  (ts.filter fun t => !L.isTrivia t.kind).map (·.kind)

/-! ## Events (`parser/event.rs`) -/

inductive Event where
  | start (kind : Nat) (fp : Option Nat)
  | token (kind : Nat) (n : Nat)
  | finish
  | placeholder
deriving Repr, DecidableEq

/-- What an event does to the nesting depth when forward parents are ignored. -/
inductive Cls where
  | up
  | down
  | flat
deriving Repr, DecidableEq

/-- `virt = true` reads a `Placeholder` as the `Start` it will become when its marker is completed. -/
def Event.cls (virt : Bool) : Event → Cls
  | .start _ _ => .up
  | .finish => .down
  | .placeholder => if virt then .up else .flat
  | .token _ _ => .flat

def Event.isStartOrPh : Event → Bool
  | .start _ _ => true
  | .placeholder => true
  | _ => false

/-! ## rowan `GreenNodeBuilder` (trusted) and trees -/

inductive Tree where
  | node (kind : Nat) (children : List Tree)
  | token (kind : Nat) (text : List Nat)
deriving Repr

mutual
/-- Text of a green element: a token's text, or the concatenation of the children's texts. -/
def Tree.text : Tree → List Nat
  | .token _ s => s
  | .node _ cs => textList cs
def textList : List Tree → List Nat
  | [] => []
  | c :: cs => c.text ++ textList cs
end

mutual
/-- The leaf tokens of a green element in document order: (kind, text). -/
def Tree.leaves : Tree → List (Nat × List Nat)
  | .token k s => [(k, s)]
  | .node _ cs => leavesList cs
def leavesList : List Tree → List (Nat × List Nat)
  | [] => []
  | c :: cs => c.leaves ++ leavesList cs
end

/-- `GreenNodeBuilder { parents: Vec<(SyntaxKind, usize)>, children: Vec<GreenElement> }`
(`parents` as a stack, head = last pushed). -/
structure Builder where
  parents : List (Nat × Nat)
  children : List Tree
deriving Repr

def Builder.empty : Builder := ⟨[], []⟩

/-- `token`: `children.push(token)`. -/
def Builder.token (b : Builder) (k : Nat) (s : List Nat) : Builder :=
  { b with children := b.children ++ [Tree.token k s] }

/-- `start_node`: `parents.push((kind, children.len()))`. -/
def Builder.startNode (b : Builder) (k : Nat) : Builder :=
  { b with parents := (k, b.children.length) :: b.parents }

/-- `finish_node`: `parents.pop().unwrap()`, drain `children[first_child..]` into a new node and push
it. -/
def Builder.finishNode (b : Builder) : Res Builder :=
  match b.parents with
  | [] => .panic
  | (k, fc) :: ps => .ok { parents := ps, children := b.children.take fc ++ [Tree.node k (b.children.drop fc)] }

/-- `finish`: `assert_eq!(children.len(), 1)` and the element must be a node. -/
def Builder.finish (b : Builder) : Res Tree :=
  match b.children with
  | [Tree.node k cs] => .ok (Tree.node k cs)
  | _ => .panic

/-! ## Sink (`parser/sink.rs`) -/

/-- `Sink` state: `toks` is `tokens[cursor..]`. -/
structure SinkSt where
  toks : List Tok
  b : Builder
deriving Repr

/-- `Sink::token`: nothing at the end of the tokens; otherwise slice the text (can panic), push the
token with the *given* kind and advance the cursor. -/
def sinkToken (src : List Nat) (k : Nat) (st : SinkSt) : Res SinkSt :=
  match st.toks with
  | [] => .ok st
  | t :: ts =>
    if sliceOk src t then .ok { toks := ts, b := st.b.token k (slice src t.lo t.hi) } else .panic

/-- `Sink::eat_trivia`: while the token under the cursor is trivia, `self.token(kind.into())`. -/
def eatTrivia (L : Lang) (src : List Nat) : List Tok → Builder → Res SinkSt
  | [], b => .ok ⟨[], b⟩
  | t :: ts, b =>
    if L.isTrivia t.kind then
      if sliceOk src t then eatTrivia L src ts (b.token (L.toSyntax t.kind) (slice src t.lo t.hi))
      else .panic
    else .ok ⟨t :: ts, b⟩

/-- `for _ in 0..n_tokens { self.token(kind) }`. -/
def tokenN (src : List Nat) (k : Nat) : Nat → SinkSt → Res SinkSt
  | 0, st => .ok st
  | n + 1, st => (sinkToken src k st).bind (tokenN src k n)

/-- The forward-parent walk of `Sink::finish` (the `while let Some(fp_idx) = fp` loop).  `A` is
`events[i..]`, `idx` is relative to `i`, `ks` are the collected kinds, last pushed first.  Every
visited event is replaced by `Placeholder` (`mem::replace`) *before* it is inspected, so a target
that is not a `Start` is overwritten too.  Each continuing step removes a `Start`, so the Rust loop
terminates; `diverge` (fuel exhausted) is unreachable for `fuel > number of Starts`. -/
def walk : Nat → List Event → Nat → Option Nat → List Nat → Res (List Event × List Nat)
  | _, A, _, none, ks => .ok (A, ks)
  | 0, _, _, some _, _ => .diverge
  | f + 1, A, idx, some d, ks =>
    match A[idx + d]? with
    | none => .panic
    | some (.start k fp') => walk f (A.set (idx + d) .placeholder) (idx + d) fp' (k :: ks)
    | some _ => .ok (A.set (idx + d) .placeholder, ks)

/-- `for kind in kinds.into_iter().rev() { builder.start_node(kind) }` (`ks` is already reversed). -/
def startNodes (b : Builder) (ks : List Nat) : Builder := ks.foldl Builder.startNode b

/-- The `for i in 0..self.events.len()` loop of `Sink::finish`; the first argument counts the
remaining iterations, the second is `events[i..]`. -/
def sinkLoop (L : Lang) (src : List Nat) : Nat → List Event → SinkSt → Res SinkSt
  | 0, _, st => .ok st
  | _ + 1, [], st => .ok st
  | n + 1, e :: tl, st =>
    match e with
    | .start k fp =>
      match walk (tl.length + 1) (.placeholder :: tl) 0 fp [k] with
      | .ok (A, ks) => sinkLoop L src n A.tail { st with b := startNodes st.b ks }
      | .panic => .panic
      | .diverge => .diverge
    | .token k m =>
      ((eatTrivia L src st.toks st.b).bind (tokenN src k m)).bind (sinkLoop L src n tl)
    | .finish =>
      (eatTrivia L src st.toks st.b).bind fun st1 =>
        st1.b.finishNode.bind fun b' => sinkLoop L src n tl { st1 with b := b' }
    | .placeholder => sinkLoop L src n tl st

/-- `Sink::new(tokens, source, events).finish()`: the tree (the returned error list is always empty,
`Sink::error` is never called). -/
def sink (L : Lang) (src : List Nat) (toks : List Tok) (events : List Event) : Res Tree :=
  (sinkLoop L src events.length events ⟨toks, Builder.empty⟩).bind fun st => st.b.finish

/-- The text of the tree the sink builds (used to state concrete instances decidably). -/
def sinkText (L : Lang) (src : List Nat) (toks : List Tok) (events : List Event) : Res (List Nat) :=
  (sink L src toks events).bind fun t => .ok t.text

/-! ## Premises of the sink theorem, as executable checks (also run on the real stream) -/

/-- One step of the nesting depth; `none` = a `Finish` without an open node, or a token /
placeholder outside every node. -/
def stepDepth (d : Nat) : Cls → Option Nat
  | .up => some (d + 1)
  | .down => if d ≥ 1 then some (d - 1) else none
  | .flat => if d ≥ 1 then some d else none

/-- Starting at depth `d`, the depth stays ≥ 1 until the last event and is 0 after it. -/
def bal : Nat → List Cls → Bool
  | d, [] => d == 0
  | d, c :: tl =>
    match stepDepth d c with
    | none => false
    | some d' => (decide (d' ≥ 1) || tl.isEmpty) && bal d' tl

/-- E1: ignoring forward parents, the event list is one non-empty bracket. -/
def eventsBalanced (events : List Event) : Bool :=
  !events.isEmpty && bal 0 (events.map (Event.cls false))

/-- E2: every forward parent is positive and points inside the list at a `Start` or `Placeholder`. -/
def fpOkAt (A : List Event) (i : Nat) : Event → Bool
  | .start _ (some d) =>
    decide (d ≥ 1) &&
      match A[i + d]? with
      | some e => e.isStartOrPh
      | none => false
  | _ => true

def fpOkFrom (A : List Event) : Nat → List Event → Bool
  | _, [] => true
  | i, e :: tl => fpOkAt A i e && fpOkFrom A (i + 1) tl

def fpOk (A : List Event) : Bool := fpOkFrom A 0 A

/-- `tokens[cursor..]` after skipping trivia. -/
def dropTrivia (L : Lang) : List Tok → List Tok
  | [] => []
  | t :: ts => if L.isTrivia t.kind then dropTrivia L ts else t :: ts

/-- The sink's token cursor alone: what one event does to `tokens[cursor..]`. -/
def stepCursor (L : Lang) (ts : List Tok) : Event → List Tok
  | .token _ n => (dropTrivia L ts).drop n
  | .finish => dropTrivia L ts
  | _ => ts

/-- E3: replaying only the cursor over all events consumes every token. -/
def consumesAll (L : Lang) (toks : List Tok) (events : List Event) : Bool :=
  (events.foldl (stepCursor L) toks).isEmpty

/-- E4 (only for the token-level statement): every `Token` event carries the syntax kind of the
token(s) it makes the sink consume — the parser's cursor and the sink's cursor are in step. -/
def kindsAgree (L : Lang) : List Tok → List Event → Bool
  | _, [] => true
  | ts, e :: es =>
    (match e with
     | .token k n => ((dropTrivia L ts).take n).all fun t => L.toSyntax t.kind == k
     | _ => true) && kindsAgree L (stepCursor L ts e) es

/-- What the lexer's tokens look like as leaves: `(SyntaxKind::from(kind), text)`. -/
def lexLeaves (L : Lang) (src : List Nat) (toks : List Tok) : List (Nat × List Nat) :=
  toks.map fun t => (L.toSyntax t.kind, slice src t.lo t.hi)

/-- No token carries the kind `Eof` (logos has no pattern for it). -/
def noEof (L : Lang) (toks : List Tok) : Bool := toks.all fun t => t.kind != L.eof

/-! ## Parser infrastructure (`parser/parser.rs`, `parser/source.rs`) -/

/-- `Parser` state: `toks` is `source.tokens[source.cursor..]`. -/
structure PState where
  events : List Event
  toks : List Tok
  errors : List (Nat × Nat)
deriving Repr

def PState.init (toks : List Tok) : PState := ⟨[], toks, []⟩

/-- `Source::current()` = `peek_kind_n(0)`: kind of the next non-trivia token, else `Eof`. -/
def currentKind (L : Lang) (s : PState) : Nat :=
  match dropTrivia L s.toks with
  | [] => L.eof
  | t :: _ => t.kind

/-- `Source::at_end()`. -/
def atEnd (L : Lang) (s : PState) : Bool := currentKind L s == L.eof

/-- `Source::bump()`: skip trivia, then one more token if there is one. -/
def sourceBump (L : Lang) (ts : List Tok) : List Tok := (dropTrivia L ts).drop 1

/-- `Parser::error`: the range of `current_token()`, or the empty range at 0. -/
def errorRange (L : Lang) (s : PState) : Nat × Nat :=
  match dropTrivia L s.toks with
  | [] => (0, 0)
  | t :: _ => (t.lo, t.hi)

/-- `set_forward_parent(events, from, to)`; `cur` is the walking index.  `events[current]` out of
bounds panics; a zero forward parent would loop forever (`diverge`, fuel exhausted). -/
def setForwardParent : Nat → List Event → Nat → Nat → Res (List Event)
  | 0, _, _, _ => .diverge
  | f + 1, es, cur, to =>
    match es[cur]? with
    | none => .panic
    | some (.start _ (some d)) => setForwardParent f es (cur + d) to
    | some (.start k none) => if to ≥ cur then .ok (es.set cur (.start k (some (to - cur)))) else .panic
    | some _ => .ok es

/-- The operations the grammar functions perform on the parser. -/
inductive POp where
  | start
  | complete (pos : Nat) (kind : Nat)
  | precede (pos : Nat)
  | bump
  | startNode (kind : Nat)
  | finishNode
  | error
deriving Repr, DecidableEq

/-- One parser operation. -/
def step (L : Lang) (s : PState) : POp → Res PState
  | .start => .ok { s with events := s.events ++ [.placeholder] }
  | .complete pos kind =>
    let es :=
      match s.events[pos]? with
      | some .placeholder => s.events.set pos (.start kind none)
      | some (.start _ fp) => s.events.set pos (.start kind fp)
      | _ => s.events
    .ok { s with events := es ++ [.finish] }
  | .precede pos =>
    let es := s.events ++ [.placeholder]
    (setForwardParent es.length es pos s.events.length).bind fun es' => .ok { s with events := es' }
  | .bump =>
    .ok { s with events := s.events ++ [.token (L.toSyntax (currentKind L s)) 1], toks := sourceBump L s.toks }
  | .startNode k => .ok { s with events := s.events ++ [.start k none] }
  | .finishNode => .ok { s with events := s.events ++ [.finish] }
  | .error => .ok { s with errors := s.errors ++ [errorRange L s] }

def run (L : Lang) : PState → List POp → Res PState
  | s, [] => .ok s
  | s, op :: ops => (step L s op).bind fun s' => run L s' ops

/-- What Rust's types enforce about markers (`Marker` is consumed by `complete`, a `CompletedMarker`
only comes out of `complete`, a dropped `Marker` panics through its `DropBomb`) plus what the
grammar functions keep by construction and nothing enforces: `start_node`/`finish_node` are paired.
`opens` / `dones` are the positions of the live `Marker`s / issued `CompletedMarker`s, `raw` the
number of open `start_node`s, `n` the current `events.len()`. -/
structure Ghost where
  opens : List Nat
  dones : List Nat
  raw : Nat
deriving Repr

def disc (g : Ghost) (n : Nat) : List POp → Bool
  | [] => g.opens.isEmpty && g.raw == 0
  | op :: rest =>
    match op with
    | .start => disc { g with opens := n :: g.opens } (n + 1) rest
    | .complete p _ =>
      g.opens.contains p && disc { g with opens := g.opens.erase p, dones := p :: g.dones } (n + 1) rest
    | .precede p => g.dones.contains p && disc { g with opens := n :: g.opens } (n + 1) rest
    | .bump => disc g (n + 1) rest
    | .startNode _ => disc { g with raw := g.raw + 1 } (n + 1) rest
    | .finishNode => decide (g.raw ≥ 1) && disc { g with raw := g.raw - 1 } (n + 1) rest
    | .error => disc g n rest

/-- `Parser::parse`: `start_node(SourceFile)`, the grammar's operations, `finish_node()`. -/
def parseOps (root : Nat) (body : List POp) : List POp := .startNode root :: body ++ [.finishNode]

/-- The grammar's operations respect the discipline. -/
def Disciplined (body : List POp) : Prop := disc ⟨[], [], 0⟩ 1 body = true

instance (body : List POp) : Decidable (Disciplined body) := by
  unfold Disciplined; infer_instance

end TrustVerif.C12
