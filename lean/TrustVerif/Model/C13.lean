/-
Model of the file-set bookkeeping of `trust_hir::Database` and `trust_hir::Project` (property C13).

Mirrors, function by function:
  crates/trust-hir/src/db/queries.rs                 `Database` (fields), `Default for Database`
  crates/trust-hir/src/db/queries/database.rs        `set_source_text`, `remove_source_text`,
                                                     `with_synced_salsa_state`, `prepare_salsa_project`,
                                                     `source_input_for_file`, `source_handle_for_file`,
                                                     `analyze_salsa` / `diagnostics_salsa` / `type_of_salsa`,
                                                     `file_symbols` / `expr_id_at_offset`
  crates/trust-hir/src/db/queries/salsa_backend.rs   `SalsaState`, `sync_project_inputs`,
                                                     `project_inputs` (the `expect`), the two salsa
                                                     inputs `SourceInput { text }`, `ProjectInputs { files }`
  crates/trust-hir/src/project.rs                    `SourceRegistry::{ensure_file_id, remove}`,
                                                     `Project::{set_source_text, remove_source}`

What is *not* modelled (trusted, DESIGN §4): salsa itself.  A tracked query is taken to return the
function of the current values of the inputs it is keyed on; therefore the model's queries return
*what the query reads* (`Reads`): for the project-keyed family the resolved `ProjectInputs.files`
list, for the per-file family the text behind the file's `SourceInput`.  The real answer is
`F reads` for a fixed (uninterpreted) `F`.

Import-free (core Lean only) so that the driver links as a `lean_exe`.
-/
namespace TrustVerif.C13

/-! ### Finite maps (`FxHashMap`) as association lists keyed by `Nat`

Rust's iteration order over a hash map is unspecified; in the code every order-sensitive use goes
through `sort_by_key(|(id, _)| id.0)`, and so it does here (`sortById`). -/

def lookup {α : Type} : List (Nat × α) → Nat → Option α
  | [], _ => none
  | (k, v) :: m, x => if k = x then some v else lookup m x

/-- `HashMap::insert`: replaces the value of an existing key, otherwise adds the key. -/
def insert {α : Type} : List (Nat × α) → Nat → α → List (Nat × α)
  | [], x, v => [(x, v)]
  | (k, w) :: m, x, v => if k = x then (k, v) :: m else (k, w) :: insert m x v

/-- `HashMap::remove`. -/
def erase {α : Type} (m : List (Nat × α)) (x : Nat) : List (Nat × α) :=
  m.filter (fun p => p.1 != x)

def keys {α : Type} (m : List (Nat × α)) : List Nat := m.map (·.1)

/-- Insertion step of `sortById`. -/
def insertSorted {α : Type} (p : Nat × α) : List (Nat × α) → List (Nat × α)
  | [] => [p]
  | q :: r => if p.1 ≤ q.1 then p :: q :: r else q :: insertSorted p r

/-- `files.sort_by_key(|(file_id, _)| file_id.0)` (stable insertion sort; structural, so that
`decide` can evaluate it). -/
def sortById {α : Type} : List (Nat × α) → List (Nat × α)
  | [] => []
  | p :: r => insertSorted p (sortById r)

/-! ### The database -/

/-- `Database` + `SalsaState` + the part of the salsa storage that holds the two kinds of inputs.
`FileId`s and `SourceInput` handles are natural numbers. -/
structure Db (Text : Type) where
  /-- `Database.sources : FxHashMap<FileId, Arc<String>>` -/
  sources : List (Nat × Text)
  /-- `Database.source_revision` -/
  rev : Nat
  /-- `SalsaState.sources : FxHashMap<FileId, SourceInput>` -/
  salsaSrc : List (Nat × Nat)
  /-- salsa storage: the `text` field of every `SourceInput` ever created (never deleted) -/
  inputs : List (Nat × Text)
  /-- id of the next `SourceInput::new` -/
  nextInput : Nat
  /-- `SalsaState.project_inputs`: the `files` field of the single `ProjectInputs` input -/
  project : Option (List (Nat × Nat))
  /-- `SalsaState.synced_revision` -/
  synced : Nat

/-- `Database::default()`: revision 1, nothing synced (`synced_revision = 0`). -/
def Db.new {Text : Type} : Db Text :=
  { sources := [], rev := 1, salsaSrc := [], inputs := [], nextInput := 0, project := none, synced := 0 }

variable {Text : Type} [DecidableEq Text]

/-- `salsa_backend::sync_project_inputs`. -/
def syncProjectInputs (s : Db Text) : Db Text :=
  { s with project := some (sortById s.salsaSrc) }

/-- `SourceInput::new(&state.db, text)`. -/
def newInput (s : Db Text) (t : Text) : Db Text × Nat :=
  ({ s with inputs := insert s.inputs s.nextInput t, nextInput := s.nextInput + 1 }, s.nextInput)

/-- `source.set_text(&mut state.db).to(text)`. -/
def setInputText (s : Db Text) (h : Nat) (t : Text) : Db Text :=
  { s with inputs := insert s.inputs h t }

/-- `SourceDatabase::set_source_text`. -/
def setSourceText (s : Db Text) (f : Nat) (t : Text) : Db Text :=
  if lookup s.sources f = some t then s            -- same content: early return
  else
    let newRev := s.rev + 1
    match lookup s.salsaSrc f with
    | some h =>
      let s1 := { setInputText s h t with sources := insert s.sources f t, rev := newRev }
      let s2 := if s.project.isNone then syncProjectInputs s1 else s1
      { s2 with synced := newRev }
    | none =>
      let (s1, h) := newInput s t
      let s2 := { s1 with sources := insert s.sources f t, rev := newRev,
                          salsaSrc := insert s1.salsaSrc f h }
      { syncProjectInputs s2 with synced := newRev }

/-- `Database::remove_source_text`. -/
def removeSourceText (s : Db Text) (f : Nat) : Db Text :=
  if (lookup s.sources f).isNone then s            -- unknown file: early return
  else
    let newRev := s.rev + 1
    let s1 := { s with sources := erase s.sources f, rev := newRev, salsaSrc := erase s.salsaSrc f }
    { syncProjectInputs s1 with synced := newRev }

/-- The `for (&known_file_id, text) in &self.sources` loop of `prepare_salsa_project`;
the Boolean is `project_changed`. -/
def prepareLoop (s : Db Text) : List (Nat × Text) → Bool → Db Text × Bool
  | [], ch => (s, ch)
  | (f, t) :: rest, ch =>
    match lookup s.salsaSrc f with
    | some h =>
      if lookup s.inputs h = some t then prepareLoop s rest ch
      else prepareLoop (setInputText s h t) rest ch
    | none =>
      let (s1, h) := newInput s t
      prepareLoop { s1 with salsaSrc := insert s1.salsaSrc f h } rest true

/-- `Database::prepare_salsa_project`. -/
def prepareSalsaProject (s : Db Text) : Db Text :=
  let removedFiles := s.salsaSrc.any (fun p => (lookup s.sources p.1).isNone)
  let s1 := { s with salsaSrc := s.salsaSrc.filter (fun p => (lookup s.sources p.1).isSome) }
  let r := prepareLoop s1 s.sources false
  if removedFiles || r.2 || r.1.project.isNone then syncProjectInputs r.1 else r.1

/-- The state part of `with_synced_salsa_state`. -/
def withSynced (s : Db Text) : Db Text :=
  if s.synced ≠ s.rev then { prepareSalsaProject s with synced := s.rev } else s

/-- `Database::source_input_for_file`. -/
def sourceInputForFile (s : Db Text) (f : Nat) : Db Text × Option Nat :=
  match lookup s.salsaSrc f with
  | some h =>
    match lookup s.sources f with
    | none => (syncProjectInputs { s with salsaSrc := erase s.salsaSrc f }, none)
    | some t =>
      if lookup s.inputs h = some t then (s, some h) else (setInputText s h t, some h)
  | none =>
    match lookup s.sources f with
    | none => (s, none)
    | some t =>
      let (s1, h) := newInput s t
      (syncProjectInputs { s1 with salsaSrc := insert s1.salsaSrc f h }, some h)

/-- `Database::source_handle_for_file`. -/
def sourceHandleForFile (s : Db Text) (f : Nat) : Db Text × Option Nat :=
  match lookup s.salsaSrc f with
  | some h => (s, some h)
  | none => sourceInputForFile s f

/-! ### Queries -/

/-- The five observed queries (`observe_at` of the property). -/
inductive QKind where
  | analyze
  | diagnostics
  | typeOf (expr : Nat)
  | fileSymbols
  | exprIdAt (offset : Nat)
deriving DecidableEq, Repr

/-- `analyze`, `diagnostics`, `type_of` are keyed on `(ProjectInputs, FileId)`; `file_symbols`,
`expr_id_at_offset` on the file's `SourceInput`. -/
def QKind.projectKeyed : QKind → Bool
  | .analyze | .diagnostics | .typeOf _ => true
  | .fileSymbols | .exprIdAt _ => false

/-- What a query reads.  Under the salsa-soundness assumption the answer is a fixed function of
this value. -/
inductive Reads (Text : Type) where
  /-- `analyze_query / diagnostics_query / type_of_query (db, project, file_id)`: the values of
  `project.files(db)` with every `SourceInput` resolved to its text, in salsa's order. -/
  | proj (k : QKind) (files : List (Nat × Text)) (f : Nat)
  /-- `file_symbols_query / parse_green (db, source)`: the text of the file's input. -/
  | file (k : QKind) (t : Text)
  /-- the file is unknown: the default answer (`SymbolTable::default()`, no diagnostics,
  `TypeId::UNKNOWN`, `None`). -/
  | dflt (k : QKind)
deriving DecidableEq, Repr

inductive Outcome (α : Type) where
  | ok (a : α)
  /-- `project_inputs(state).expect(..)` failed, or a dangling salsa id was dereferenced. -/
  | panic
deriving DecidableEq, Repr

/-- `project.files(db)` with every handle resolved to the current value of its `text` field. -/
def resolve (s : Db Text) : List (Nat × Nat) → Option (List (Nat × Text))
  | [] => some []
  | (f, h) :: r =>
    match lookup s.inputs h, resolve s r with
    | some t, some l => some ((f, t) :: l)
    | _, _ => none

/-- One query through the public API: the state afterwards and what was read. -/
def query (s : Db Text) (k : QKind) (f : Nat) : Db Text × Outcome (Reads Text) :=
  if k.projectKeyed then
    -- analyze_salsa / diagnostics_salsa / type_of_salsa
    -- `state.sources.contains_key(&file_id).then_some((state.db.clone(), project_inputs(state)))`:
    -- `then_some` evaluates its argument eagerly, so the `expect` in `project_inputs` is reached on
    -- every call, also for a file salsa does not know
    let s1 := withSynced s
    match s1.project with
    | none => (s1, .panic)
    | some files =>
      if (lookup s1.salsaSrc f).isSome then
        match resolve s1 files with
        | some v => (s1, .ok (.proj k v f))
        | none => (s1, .panic)
      else (s1, .ok (.dflt k))
  else
    -- file_symbols / expr_id_at_offset
    match sourceHandleForFile s f with
    | (s1, some h) =>
      match lookup s1.inputs h with
      | some t => (s1, .ok (.file k t))
      | none => (s1, .panic)
    | (s1, none) => (s1, .ok (.dflt k))

/-! ### Histories -/

inductive Op (Text : Type) where
  | set (f : Nat) (t : Text)
  | remove (f : Nat)
  | query (k : QKind) (f : Nat)
deriving DecidableEq, Repr

def step (s : Db Text) : Op Text → Db Text
  | .set f t => setSourceText s f t
  | .remove f => removeSourceText s f
  | .query k f => (query s k f).1

def run (h : List (Op Text)) : Db Text := h.foldl step Db.new

/-- The three views shown by the `verif_views()` hook, texts resolved. -/
def viewSources (s : Db Text) : List (Nat × Text) := sortById s.sources

def viewSalsa (s : Db Text) : Option (List (Nat × Text)) := resolve s (sortById s.salsaSrc)

def viewProject (s : Db Text) : Option (Option (List (Nat × Text))) :=
  match s.project with
  | none => some none
  | some p => (resolve s p).map some

/-! ### Specification: the final texts of a history -/

namespace Spec

/-- Effect of one operation on "the current text of every file" (queries have none). -/
def step (m : Nat → Option Text) : Op Text → Nat → Option Text
  | .set f t => fun g => if g = f then some t else m g
  | .remove f => fun g => if g = f then none else m g
  | .query _ _ => m

/-- `final_texts(h)`. -/
def final (h : List (Op Text)) : Nat → Option Text := h.foldl step (fun _ => none)

/-- `v` is *the* listing of `m`: strictly increasing file ids, exactly the files of `m`. -/
def IsListing (m : Nat → Option Text) (v : List (Nat × Text)) : Prop :=
  v.Pairwise (fun a b => a.1 < b.1) ∧ ∀ f t, (f, t) ∈ v ↔ m f = some t

/-- What a query must read, as a function of the final texts `m` and their listing `v`. -/
def reads (m : Nat → Option Text) (v : List (Nat × Text)) (k : QKind) (f : Nat) : Reads Text :=
  match m f with
  | none => .dflt k
  | some t => if k.projectKeyed then .proj k v f else .file k t

end Spec

/-- A fresh load of the texts `l`, in the order given. -/
def loadFresh (l : List (Nat × Text)) : List (Op Text) := l.map fun p => .set p.1 p.2

/-! ### One level up: `Project` and its `SourceRegistry` -/

def u32Max : Nat := 4294967295

/-- `Project`: the database plus `SourceRegistry { next_id, ids_by_key }` (`keys_by_id` is the
inverse table and carries no extra information).  Keys are natural numbers. -/
structure Proj (Text : Type) where
  db : Db Text
  nextId : Nat
  ids : List (Nat × Nat)

def Proj.new : Proj Text := { db := Db.new, nextId := 0, ids := [] }

/-- `SourceRegistry::ensure_file_id` (`next_id.saturating_add(1)` on `u32`). -/
def ensureFileId (p : Proj Text) (key : Nat) : Proj Text × Nat :=
  match lookup p.ids key with
  | some id => (p, id)
  | none =>
    ({ p with nextId := min (p.nextId + 1) u32Max, ids := insert p.ids key p.nextId }, p.nextId)

/-- `Project::set_source_text`. -/
def projSet (p : Proj Text) (key : Nat) (t : Text) : Proj Text :=
  let (p1, id) := ensureFileId p key
  { p1 with db := setSourceText p1.db id t }

/-- `Project::remove_source` (`SourceRegistry::remove` then `remove_source_text`). -/
def projRemove (p : Proj Text) (key : Nat) : Proj Text :=
  match lookup p.ids key with
  | none => p
  | some id => { p with ids := erase p.ids key, db := removeSourceText p.db id }

/-- A query for a key, as the language server does it (`file_id_for_key`, then the database). -/
def projQuery (p : Proj Text) (k : QKind) (key : Nat) : Proj Text × Option (Outcome (Reads Text)) :=
  match lookup p.ids key with
  | none => (p, none)
  | some id =>
    let r := query p.db k id
    ({ p with db := r.1 }, some r.2)

def projStep (p : Proj Text) : Op Text → Proj Text
  | .set key t => projSet p key t
  | .remove key => projRemove p key
  | .query k key => (projQuery p k key).1

def projRun (h : List (Op Text)) : Proj Text := h.foldl projStep Proj.new


/-! ### The document layer's rename (`crates/trust-lsp/src/state/documents.rs`, `rename_document`)

Keys are *canonical* `SourceKey`s (`source_key_for_uri`): two different URIs of one file are one
key, so `old = new` is possible (case-only rename, symbolic link, percent-encoding).  The document's
content is the text the project holds for the old key (`open_document` / `update_document` set both
together). -/

/-- The text the project currently holds for a key. -/
def projText (p : Proj Text) (key : Nat) : Option Text :=
  (lookup p.ids key).bind (lookup p.db.sources)

/-- `rename_document`: `docs.remove(old_uri)?`, then — in this order —
`project.remove_source(&old_key); project.remove_source(&new_key);
project.set_source_text(new_key, doc.content)`. -/
def projRename (p : Proj Text) (old new : Nat) : Proj Text :=
  match projText p old with
  | none => p
  | some t => projSet (projRemove (projRemove p old) new) new t

/-- The alphabet of the document layer: the project operations plus rename. -/
inductive POp (Text : Type) where
  | op (o : Op Text)
  | rename (old new : Nat)
deriving DecidableEq, Repr

def projStepX (p : Proj Text) : POp Text → Proj Text
  | .op o => projStep p o
  | .rename old new => projRename p old new

def projRunX (h : List (POp Text)) : Proj Text := h.foldl projStepX Proj.new

namespace Spec

/-- Effect of a rename on "the current text of every key": the new key takes the old key's text,
the old key (if it is another one) loses it; nothing happens if the old key has no text. -/
def stepX (m : Nat → Option Text) : POp Text → Nat → Option Text
  | .op o => step m o
  | .rename old new =>
    match m old with
    | none => m
    | some t => fun g => if g = new then some t else if g = old then none else m g

def finalX (h : List (POp Text)) : Nat → Option Text := h.foldl stepX (fun _ => none)

end Spec

/-! ### The document layer's own bookkeeping (`crates/trust-lsp/src/state/documents.rs`)

`ServerState.documents` (by URI) next to the project's sources (by `SourceKey`).  Modelled over ONE
spelling per file (URI = key; the other case is where known finding `C13-lsp-symlink-stale-key`
lives) and over the project's *texts by key* (`projText`, tied to `Project` by `c13_project_view`).
Function by function: `open_document`, `index_document_impl`, `update_document`, `close_document`,
`remove_document`, and the victim loop of `enforce_memory_budget` (`[indexing] memory_budget_mb`):
every victim is a CLOSED document (`if doc.is_open { continue; }`) and is dropped with
`remove_document`.  Which closed documents are chosen (least recently used first, until the total is
under `evict_to_percent`) is policy and left open: `evict` takes any list of keys. -/

structure DocLayer (Text : Type) where
  /-- `documents`: content and `is_open` -/
  doc : Nat → Option (Text × Bool)
  /-- the project's text for the key (`Project::set_source_text` / `remove_source`) -/
  src : Nat → Option Text

def DocLayer.new : DocLayer Text := { doc := fun _ => none, src := fun _ => none }

def upd {α : Type} (f : Nat → α) (k : Nat) (v : α) : Nat → α := fun x => if x = k then v else f x

/-- `remove_document`: `let doc = documents.remove(uri)?;` (nothing else happens without a
document), then `project.remove_source(&key)`. -/
def docRemove (s : DocLayer Text) (k : Nat) : DocLayer Text :=
  match s.doc k with
  | none => s
  | some _ => { doc := upd s.doc k none, src := upd s.src k none }

/-- One victim of `enforce_memory_budget`: closed documents only. -/
def docEvict1 (s : DocLayer Text) (k : Nat) : DocLayer Text :=
  match s.doc k with
  | some (_, false) => docRemove s k
  | _ => s

inductive DOp (Text : Type) where
  /-- didOpen: `open_document` -/
  | openDoc (k : Nat) (t : Text)
  /-- indexing pass, watcher CREATED / CHANGED, `ensure_document`: `index_document_impl` -/
  | index (k : Nat) (t : Text)
  /-- didChange: `update_document` -/
  | change (k : Nat) (t : Text)
  /-- didClose: `close_document` (the budget pass that follows is an `evict`) -/
  | close (k : Nat)
  /-- watcher DELETED / didDeleteFiles: `remove_document` -/
  | remove (k : Nat)
  /-- `enforce_memory_budget` with this list of victims -/
  | evict (ks : List Nat)

def docStep (s : DocLayer Text) : DOp Text → DocLayer Text
  | .openDoc k t => { doc := upd s.doc k (some (t, true)), src := upd s.src k (some t) }
  | .index k t =>
    match s.doc k with
    | some (_, true) => s                       -- an open document is owned by the editor
    | some (c, false) =>
      if c = t then s                           -- `!doc.is_open && doc.content == content`
      else { doc := upd s.doc k (some (t, false)), src := upd s.src k (some t) }
    | none => { doc := upd s.doc k (some (t, false)), src := upd s.src k (some t) }
  | .change k t =>
    -- `project.set_source_text` unconditionally, the document only `if let Some(doc)`
    { doc := upd s.doc k ((s.doc k).map fun _ => (t, true)), src := upd s.src k (some t) }
  | .close k => { s with doc := upd s.doc k ((s.doc k).map fun d => (d.1, false)) }
  | .remove k => docRemove s k
  | .evict ks => ks.foldl docEvict1 s

def docRun (h : List (DOp Text)) : DocLayer Text := h.foldl docStep DocLayer.new

/-- The client keeps the protocol: `didChange` only for a document it has opened.  (Without a
document `update_document` still writes the project: a source nobody can remove.) -/
def docWf : DocLayer Text → List (DOp Text) → Prop
  | _, [] => True
  | s, o :: rest =>
    (match o with
     | .change k _ => ∃ c, s.doc k = some (c, true)
     | _ => True) ∧ docWf (docStep s o) rest

/-! ### A fragment of the analysis itself: enumeration values (finding
`C13-enum-next-value-overflow`, fixed in /repo by 0bd32a4)

`collect_enum_type` (crates/trust-hir/src/db/queries/collector/types.rs) walks the values of an
enumeration with `let mut next_value: i64 = 0`; a value with an explicit `:= expr` (folded by the
collector's constant evaluator to an `i64`) takes that value, one without takes `next_value`, and
after each value `next_value = value.saturating_add(1)` (before the fix: a plain `value + 1`, which
panicked on overflow in the dev profile). -/

def i64Max : Int := 9223372036854775807
def i64Min : Int := -9223372036854775808

/-- `i64::saturating_add(v, 1)` for an `i64` value `v`. -/
def satSucc (v : Int) : Int := if v + 1 > i64Max then i64Max else v + 1

/-- The values assigned to an enumeration whose entries are `some v` (explicit, already folded to
an `i64`) or `none` (implicit), starting with `next_value = next`. -/
def enumAssign : List (Option Int) → Int → List Int
  | [], _ => []
  | e :: rest, next =>
    let value := e.getD next          -- `self.extract_enum_value(&child).unwrap_or(next_value)`
    value :: enumAssign rest (satSucc value)

end TrustVerif.C13
