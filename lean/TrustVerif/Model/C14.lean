/-
Model of the document synchronisation of trust-lsp (property C14).

Mirrors, function by function:
  crates/trust-lsp/src/handlers/lsp_utils.rs   `offset_to_line_col`, `offset_to_position`,
                                               `position_to_offset`, the position/length part of
                                               `semantic_tokens_to_lsp`
  crates/trust-lsp/src/handlers/sync.rs        `apply_content_changes`, `did_open`, `did_change`,
                                               `did_close` (text/version part)
  crates/trust-lsp/src/state/documents.rs      `open_document`, `update_document`, `close_document`,
                                               `index_document_impl`, `remove_document` (fields
                                               `content`, `version`, `is_open`, and the text handed to
                                               `project.set_source_text` for the document's key)
  crates/trust-lsp/src/handlers/workspace.rs   `did_change_watched_files` (CREATED/CHANGED/DELETED of the
                                               document's own file), the per-file step of
                                               `index_workspace_root`

A Rust `&str` is modelled as `List Char` (a sequence of Unicode scalar values, which is exactly what
a valid `str` is); byte offsets are recovered with `utf8Len`, LSP columns with `utf16Len`.

`Spec` is the independent editor-side definition: the editor holds the document as a sequence of
UTF-16 code units (`List Nat`), lines end at `\n`, `\r\n` or `\r` (LSP 3.17, "Text Documents"), a
position is (line, UTF-16 units into the line) and a change replaces the unit range [start, end).

Import-free (core Lean only) so that the driver links as a `lean_exe`.
-/
namespace TrustVerif.C14

/-! ## Encodings -/

/-- `char::len_utf8`. -/
def utf8Len (c : Char) : Nat :=
  if c.toNat < 0x80 then 1 else if c.toNat < 0x800 then 2 else if c.toNat < 0x10000 then 3 else 4

/-- `char::len_utf16`. -/
def utf16Len (c : Char) : Nat := if c.toNat < 0x10000 then 1 else 2

/-- `str::len` (bytes). -/
def len8 : List Char → Nat
  | [] => 0
  | c :: cs => utf8Len c + len8 cs

/-- Number of UTF-16 code units of a text (`str::encode_utf16().count()`). -/
def len16 : List Char → Nat
  | [] => 0
  | c :: cs => utf16Len c + len16 cs

/-- UTF-16 encoding of one scalar value (`char::encode_utf16`). -/
def encUnits (c : Char) : List Nat :=
  if c.toNat < 0x10000 then [c.toNat]
  else [0xD800 + (c.toNat - 0x10000) / 0x400, 0xDC00 + (c.toNat - 0x10000) % 0x400]

/-- The editor's view of a text: its UTF-16 code units. -/
def encode16 : List Char → List Nat
  | [] => []
  | c :: cs => encUnits c ++ encode16 cs

def isHighSurrogate (u : Nat) : Bool := 0xD800 ≤ u && u < 0xDC00
def isLowSurrogate (u : Nat) : Bool := 0xDC00 ≤ u && u < 0xE000

/-- Decoder for well-formed UTF-16 (used to state that `encode16` loses nothing, and by the
driver to print the editor's text).  An unpaired surrogate is dropped. -/
def decode16 : List Nat → List Char
  | [] => []
  | [u] => if isHighSurrogate u || isLowSurrogate u then [] else [Char.ofNat u]
  | u :: v :: rest =>
    if isHighSurrogate u && isLowSurrogate v then
      Char.ofNat (0x10000 + (u - 0xD800) * 0x400 + (v - 0xDC00)) :: decode16 rest
    else if isHighSurrogate u || isLowSurrogate u then decode16 (v :: rest)
    else Char.ofNat u :: decode16 (v :: rest)

/-! ## Implementation (server side) -/

namespace Impl

/-- Loop of `offset_to_line_col`: `for (i, c) in content.char_indices()` with the mutable
`line`, `col`; `i` is the byte index of `c`. -/
def offsetToLineColAux (off : Nat) : List Char → Nat → Nat → Nat → Nat × Nat
  | [], _, line, col => (line, col)
  | c :: cs, i, line, col =>
    if i ≥ off then (line, col)
    else if c = '\n' then offsetToLineColAux off cs (i + utf8Len c) (line + 1) 0
    else offsetToLineColAux off cs (i + utf8Len c) line (col + utf16Len c)

/-- `offset_to_line_col(content, offset)` (= `offset_to_position`). -/
def offsetToLineCol (s : List Char) (off : Nat) : Nat × Nat :=
  offsetToLineColAux off s 0 0 0

/-- Loop of `position_to_offset`; the `[]` case is the code after the loop. -/
def positionToOffsetAux (pl pc : Nat) : List Char → Nat → Nat → Nat → Option Nat
  | [], i, line, _ => if line = pl then some i else none
  | c :: cs, i, line, col =>
    if line = pl ∧ col ≥ pc then some i
    else if c = '\n' then
      if line = pl then some i
      else positionToOffsetAux pl pc cs (i + utf8Len c) (line + 1) 0
    else positionToOffsetAux pl pc cs (i + utf8Len c) line (col + utf16Len c)

/-- `position_to_offset(content, Position { line, character })`. -/
def positionToOffset (s : List Char) (pl pc : Nat) : Option Nat :=
  positionToOffsetAux pl pc s 0 0 0

/-- `&s[..n]`: `none` when `n` is not a char boundary of `s` or is out of range (Rust panics). -/
def takeBytes : Nat → List Char → Option (List Char)
  | n, [] => if n = 0 then some [] else none
  | n, c :: cs =>
    if n = 0 then some []
    else if utf8Len c ≤ n then (takeBytes (n - utf8Len c) cs).map (c :: ·)
    else none

/-- `&s[n..]`: `none` when `n` is not a char boundary of `s` or is out of range (Rust panics). -/
def dropBytes : Nat → List Char → Option (List Char)
  | n, [] => if n = 0 then some [] else none
  | n, c :: cs =>
    if n = 0 then some (c :: cs)
    else if utf8Len c ≤ n then dropBytes (n - utf8Len c) cs
    else none

/-- `str::is_char_boundary(s, n)`: 0, the length, or the first byte of a character. -/
def isCharBoundary (s : List Char) (n : Nat) : Bool := (takeBytes n s).isSome

/-- `TextDocumentContentChangeEvent`: `range: Some(..)` or `None` (full text). `range_length` is
ignored by the server. -/
inductive Change where
  | range (sl sc el ec : Nat) (text : List Char)
  | full (text : List Char)
deriving Repr, DecidableEq

/-- Result of `apply_content_changes`: `Some(text)`, `None`, or a slice panic. -/
inductive Outcome where
  | ok (s : List Char)
  | rejected
  | panic
deriving Repr, DecidableEq

/-- Body of the `for change in changes` loop of `apply_content_changes`. -/
def applyChange (s : List Char) : Change → Outcome
  | .full t => .ok t
  | .range sl sc el ec t =>
    match positionToOffset s sl sc with
    | none => .rejected
    | some start =>
      match positionToOffset s el ec with
      | none => .rejected
      | some stop =>
        if start > stop ∨ stop > len8 s then .rejected
        else
          match takeBytes start s, dropBytes stop s with
          | some a, some b => .ok (a ++ t ++ b)
          | _, _ => .panic

/-- `apply_content_changes(content, changes)`: every position is resolved on the evolving text. -/
def applyContentChanges (s : List Char) : List Change → Outcome
  | [] => .ok s
  | c :: cs =>
    match applyChange s c with
    | .ok s' => applyContentChanges s' cs
    | o => o

/-- The fields of `Document` the property speaks about, and `analysed`: the text last handed to
`project.set_source_text(key, ·)` for the document's key, i.e. what the analysis database reads
(every answer is computed from it and mapped to positions through `text`). -/
structure Doc where
  text : List Char
  version : Int
  isOpen : Bool
  analysed : List Char
deriving Repr, DecidableEq

/-- Notifications that concern one document (one URI, backed by one file). -/
inductive Event where
  | didOpen (version : Int) (text : List Char)
  | didChange (version : Int) (changes : List Change)
  | didClose
  /-- `textDocument/didSave`: only re-publishes diagnostics. -/
  | didSave
  /-- `workspace/didChangeWatchedFiles` CREATED or CHANGED for the document's file, or the
  per-file step of a workspace indexing pass: `disk` is what `read_to_string` returns
  (`none` = unreadable, the event is skipped). -/
  | watchedChanged (disk : Option (List Char))
  /-- `workspace/didChangeWatchedFiles` DELETED for the document's file. -/
  | watchedDeleted
deriving Repr, DecidableEq

/-- `did_open` / `did_change` / `did_close` on the entry of one URI in `ServerState.documents`
(`none` = not tracked).  `did_change`: empty change list ⇒ nothing (not even the version);
unknown document ⇒ nothing; `apply_content_changes` = `None` ⇒ nothing; a panic unwinds the
handler before `update_document`, so nothing either. -/
def step (d : Option Doc) : Event → Option Doc
  | .didOpen v t => some { text := t, version := v, isOpen := true, analysed := t }
  | .didChange v cs =>
    if cs.isEmpty then d
    else match d with
      | none => none
      | some doc =>
        match applyContentChanges doc.text cs with
        | .ok t => some { text := t, version := v, isOpen := true, analysed := t }
        | _ => some doc
  | .didClose => d.map fun doc => { doc with isOpen := false }
  | .didSave => d
  -- `index_document_impl`: a closed document with identical content, or an open document ⇒ `None`
  -- before anything is touched; otherwise `set_source_text` and a closed entry with version 0
  | .watchedChanged none => d
  | .watchedChanged (some disk) =>
    match d with
    | some doc =>
      if doc.isOpen then some doc
      else if doc.text = disk then some doc
      else some { text := disk, version := 0, isOpen := false, analysed := disk }
    | none => some { text := disk, version := 0, isOpen := false, analysed := disk }
  -- `did_change_watched_files`, DELETED: an open document is owned by the editor and is kept
  -- (the `is_open` guard in front of `remove_document`); a closed one is removed
  | .watchedDeleted =>
    match d with
    | some doc => if doc.isOpen then some doc else none
    | none => none

def run (d : Option Doc) : List Event → Option Doc
  | [] => d
  | e :: es => run (step d e) es

/-- `ServerState.documents` (and the project's sources): the entry of every URI.  URIs are
numbered. -/
def Store := Nat → Option Doc

def Store.set (st : Store) (u : Nat) (d : Option Doc) : Store :=
  fun v => if v = u then d else st v

/-- Events of a workspace: an event of one document, or `workspace/didRenameFiles` for one file
(`disk` = what `read_to_string(new path)` returns; the client has already moved the file). -/
inductive WEvent where
  | doc (u : Nat) (e : Event)
  | renamed (old new : Nat) (disk : Option (List Char))
deriving Repr, DecidableEq

/-- `did_rename_files` for one file.  An OPEN document is moved by `rename_document`: the entry
keeps `content`, `version` and `is_open`, the new key's source text is set to the content, whatever
was tracked under the new URI is overwritten.  Otherwise the old entry is removed
(`remove_document`) and the new path is registered from disk through `index_document`. -/
def wstep (st : Store) : WEvent → Store
  | .doc u e => st.set u (step (st u) e)
  | .renamed o n disk =>
    match st o with
    | some d =>
      if d.isOpen then ((st.set o none).set n (some { d with analysed := d.text }))
      else
        let st1 := st.set o none
        st1.set n (step (st1 n) (.watchedChanged disk))
    | none => st.set n (step (st n) (.watchedChanged disk))

def wrun (st : Store) : List WEvent → Store
  | [] => st
  | e :: es => wrun (wstep st e) es

/-! ### The analysis database is keyed by `source_key_for_uri`, not by URI

`Doc.analysed` above is the text a URI last handed to `project.set_source_text(key, ·)`.  The
project stores it under `source_key_for_uri(uri)` (`state/path.rs`), the documents are stored under
the URI.  `key u` is the number of the key of URI number `u`; what the analysis reads for `u` is
`db (key u)`. -/

/-- The parts of a `Url` that `source_key_for_uri` looks at.  `path` is the decoded path
(`Url::to_file_path`); the authority is not modelled (two spellings of one `file:` URI — percent
encoding, a `localhost` host — are one `Uri` here). -/
structure Uri where
  scheme : String
  path : String
  query : Option String
  fragment : Option String
deriving Repr, DecidableEq

/-- `trust_hir::SourceKey`. -/
inductive SourceKey where
  | path (p : String)
  | virtual (u : Uri)
deriving Repr, DecidableEq

/-- `source_key_for_uri`: `SourceKey::Path(uri_to_path(uri))` for a `file:` URI without query and
fragment (`uri_to_path` answers `None` for every other scheme), else
`SourceKey::Virtual(uri.to_string())`. -/
def sourceKey (u : Uri) : SourceKey :=
  if u.scheme = "file" ∧ u.query = none ∧ u.fragment = none then .path u.path else .virtual u

/-- `source_key_for_uri` before the repair (defect C14-uri-scheme-shares-path-key): the path alone,
whatever the scheme, the query and the fragment (absolute paths). -/
def sourceKeyOld (u : Uri) : SourceKey := .path u.path

/-- `Project` sources by key number. -/
def Db := Nat → Option (List Char)

def Db.set (db : Db) (k : Nat) (t : Option (List Char)) : Db :=
  fun j => if j = k then t else db j

/-- The `set_source_text` of `index_document_impl` (same guards as `step … (.watchedChanged ·)`). -/
def dbIndex (key : Nat → Nat) (docs : Store) (db : Db) (u : Nat) : Option (List Char) → Db
  | none => db
  | some disk =>
    match docs u with
    | some doc =>
      if doc.isOpen then db else if doc.text = disk then db else db.set (key u) (some disk)
    | none => db.set (key u) (some disk)

/-- The `set_source_text` / `remove_source` calls of every handler, next to `wstep`. -/
def dbStep (key : Nat → Nat) (docs : Store) (db : Db) : WEvent → Db
  | .doc u (.didOpen _ t) => db.set (key u) (some t)
  | .doc u (.didChange _ cs) =>
    if cs.isEmpty then db
    else match docs u with
      | none => db
      | some doc =>
        match applyContentChanges doc.text cs with
        | .ok t => db.set (key u) (some t)
        | _ => db
  | .doc _ .didClose => db
  | .doc _ .didSave => db
  | .doc u (.watchedChanged disk) => dbIndex key docs db u disk
  | .doc u .watchedDeleted =>
    match docs u with
    | some doc => if doc.isOpen then db else db.set (key u) none
    | none => db
  | .renamed o n disk =>
    match docs o with
    | some d =>
      if d.isOpen then ((db.set (key o) none).set (key n) none).set (key n) (some d.text)
      else dbIndex key (docs.set o none) (db.set (key o) none) n disk
    | none => dbIndex key docs db n disk

/-- Documents by URI and sources by key. -/
structure KStore where
  docs : Store
  db : Db

def kstep (key : Nat → Nat) (st : KStore) (e : WEvent) : KStore :=
  { docs := wstep st.docs e, db := dbStep key st.docs st.db e }

def krun (key : Nat → Nat) (st : KStore) : List WEvent → KStore
  | [] => st
  | e :: es => krun key (kstep key st e) es

def kInit : KStore := { docs := fun _ => none, db := fun _ => none }

/-! ### `semanticTokens/full/delta` -/

/-- Length of the longest common prefix (`while prefix < min_len && previous[prefix] ==
current[prefix]`). -/
def lcp {α : Type} [DecidableEq α] : List α → List α → Nat
  | a :: as, b :: bs => if a = b then lcp as bs + 1 else 0
  | _, _ => 0

/-- One `SemanticTokensEdit` in token units (the wire format multiplies `start` and
`deleteCount` by 5). -/
structure TokEdit (α : Type) where
  start : Nat
  deleteCount : Nat
  data : List α
deriving Repr, DecidableEq

/-- `semantic_tokens_delta_edits(previous, current)`: nothing when equal, else one edit that
replaces what lies between the common prefix and the common suffix — the suffix is searched only
in what the prefix leaves of the SHORTER array (`suffix < min_len - prefix`). -/
def deltaEdits {α : Type} [DecidableEq α] (previous current : List α) : List (TokEdit α) :=
  if previous = current then []
  else
    let minLen := min previous.length current.length
    let pre := lcp previous current
    let suf := min (minLen - pre) (lcp previous.reverse current.reverse)
    [{ start := pre,
       deleteCount := previous.length - (pre + suf),
       data := (current.drop pre).take (current.length - suf - pre) }]

/-! ### The semantic-token cache: `state/cache.rs`, `semantic_tokens_full`,
`semantic_tokens_full_delta` -/

/-- The entry of one URI in `ServerState.semantic_tokens` (`SemanticTokensCache { result_id,
tokens }`) and the global counter `semantic_tokens_id` result ids are drawn from. -/
structure TokSrv (α : Type) where
  nextId : Nat
  cache : Option (Nat × List α)
deriving Repr, DecidableEq

/-- `SemanticTokensResult::Tokens` / `SemanticTokensFullDeltaResult::{Tokens, TokensDelta}`. -/
inductive TokAns (α : Type) where
  | full (id : Nat) (data : List α)
  | delta (id : Nat) (edits : List (TokEdit α))
deriving Repr, DecidableEq

/-- `semantic_tokens_full`: `store_semantic_tokens` draws a new id and overwrites the entry. -/
def tokFull {α : Type} (s : TokSrv α) (cur : List α) : TokSrv α × TokAns α :=
  ({ nextId := s.nextId + 1, cache := some (s.nextId, cur) }, .full s.nextId cur)

/-- `semantic_tokens_full_delta`: the entry is read, then overwritten with the new result; edits
are answered only when the cached result id IS the `previous_result_id` of the request
(`semantic_tokens_delta_edits` always answers `Some`), otherwise the full array. -/
def tokDelta {α : Type} [DecidableEq α] (s : TokSrv α) (prevId : Nat) (cur : List α) :
    TokSrv α × TokAns α :=
  let s' : TokSrv α := { nextId := s.nextId + 1, cache := some (s.nextId, cur) }
  match s.cache with
  | some (id, prev) =>
    if id = prevId then (s', .delta s.nextId (deltaEdits prev cur)) else (s', .full s.nextId cur)
  | none => (s', .full s.nextId cur)

/-- `remove_document` / `rename_document`: the entry of the URI goes. -/
def tokForget {α : Type} (s : TokSrv α) : TokSrv α := { s with cache := none }

/-- A token request for another URI: only the global counter moves. -/
def tokOther {α : Type} (s : TokSrv α) : TokSrv α := { s with nextId := s.nextId + 1 }

/-- Position and length of one semantic token as `semantic_tokens_to_lsp` computes them from the
token's byte range `[a, b)`: `offset_to_line_col(content, a)` and the UTF-16 length of
`content[a..b]` (`b - a` when the range is not sliceable). -/
def tokenPos (s : List Char) (a b : Nat) : Nat × Nat × Nat :=
  let lc := offsetToLineCol s a
  let len :=
    if a ≤ b then
      match dropBytes a s with
      | some rest =>
        match takeBytes (b - a) rest with
        | some t => len16 t
        | none => b - a
      | none => b - a
    else b - a
  (lc.1, lc.2, len)

end Impl

/-! ## Specification (editor side, UTF-16 code units) -/

namespace Spec

/-- Units of the first line, without its terminator. -/
def lineLen : List Nat → Nat
  | [] => 0
  | u :: rest => if u = 10 ∨ u = 13 then 0 else lineLen rest + 1

/-- Units up to and including the first line terminator (`\n`, `\r\n` or `\r`); `none` when the
text has no terminator, i.e. consists of a single (last) line. -/
def afterEol : List Nat → Option Nat
  | [] => none
  | u :: rest =>
    if u = 10 then some 1
    else if u = 13 then (if rest.head? = some 10 then some 2 else some 1)
    else (afterEol rest).map (· + 1)

/-- Unit offset of the LSP position (line, character); `none` when the editor has no such position
(line beyond the last line, or character beyond the end of the line). -/
def offsetOf (us : List Nat) : Nat → Nat → Option Nat
  | 0, c => if c ≤ lineLen us then some c else none
  | l + 1, c =>
    match afterEol us with
    | none => none
    | some k => (offsetOf (us.drop k) l c).map (· + k)

/-- Offset `k` does not split a surrogate pair of the (well-formed) text. -/
def onBoundary (us : List Nat) (k : Nat) : Bool :=
  match us[k]? with
  | some u => !isLowSurrogate u
  | none => true

/-- The document uses `\n` or `\r\n` line ends only: every `\r` is followed by `\n`. -/
def lfOrCrlf : List Nat → Bool
  | [] => true
  | u :: rest => (u != 13 || rest.head? == some 10) && lfOrCrlf rest

/-- A change as the editor produces it. -/
inductive Change where
  | range (sl sc el ec : Nat) (text : List Nat)
  | full (text : List Nat)
deriving Repr, DecidableEq

/-- The editor applies one change to its own buffer: replace the unit range [start, end).  `none`
when the editor could not have produced the change (no such position, reversed range, or an end
point inside a surrogate pair). -/
def applyChange (us : List Nat) : Change → Option (List Nat)
  | .full t => some t
  | .range sl sc el ec t =>
    match offsetOf us sl sc, offsetOf us el ec with
    | some a, some b =>
      if a ≤ b ∧ onBoundary us a ∧ onBoundary us b then some (us.take a ++ t ++ us.drop b)
      else none
    | _, _ => none

/-- One notification with several changes: applied in order, each on the result of the previous
one. -/
def applyChanges (us : List Nat) : List Change → Option (List Nat)
  | [] => some us
  | c :: cs =>
    match applyChange us c with
    | some us' => applyChanges us' cs
    | none => none

/-- Guard of the agreement theorems: every intermediate buffer that is addressed by a ranged change
uses `\n`/`\r\n` line ends (see `c14_counterexample_lone_cr` for why it is needed); a full-text
change needs no guard. -/
def lfChange (us : List Nat) : Change → Bool
  | .full _ => true
  | .range .. => lfOrCrlf us

def lfChanges (us : List Nat) : List Change → Bool
  | [] => true
  | c :: cs =>
    lfChange us c &&
    (match applyChange us c with
      | some us' => lfChanges us' cs
      | none => true)

/-- The editor's copy of one document: units and version, `none` = closed. -/
structure Doc where
  units : List Nat
  version : Int
deriving Repr, DecidableEq

inductive Event where
  | didOpen (version : Int) (text : List Nat)
  | didChange (version : Int) (changes : List Change)
  | didClose
  | didSave
  /-- the file of the document was created / rewritten on disk (by anybody), or indexed -/
  | watchedChanged
  /-- the file of the document was deleted on disk -/
  | watchedDeleted
deriving Repr, DecidableEq

/-- Editor-side protocol: open only when closed, change/close/save only when open, a change
notification carries at least one change.  What happens to the file on disk never touches the
editor's buffer: an open document is owned by the editor (LSP 3.17, "Text Document
Synchronization").  Outer `none` = not a history an editor produces. -/
def step (d : Option Doc) : Event → Option (Option Doc)
  | .didOpen v t =>
    match d with
    | none => some (some { units := t, version := v })
    | some _ => none
  | .didChange v cs =>
    match d with
    | none => none
    | some doc =>
      if cs.isEmpty then none
      else (applyChanges doc.units cs).map fun us => some { units := us, version := v }
  | .didClose =>
    match d with
    | none => none
    | some _ => some none
  | .didSave =>
    match d with
    | none => none
    | some doc => some (some doc)
  | .watchedChanged => some d
  | .watchedDeleted => some d

def run (d : Option Doc) : List Event → Option (Option Doc)
  | [] => some d
  | e :: es =>
    match step d e with
    | some d' => run d' es
    | none => none

/-- The guard of `c14_history`, per event: `lfChanges` for a change notification (known finding
C14-lone-cr).  Other events — the file events included — need no guard. -/
def lfEvent (d : Option Doc) : Event → Bool
  | .didChange _ cs =>
    match d with
    | some doc => lfChanges doc.units cs
    | none => true
  | _ => true

/-- Guard of `c14_history`: `lfEvent` for every event of the history. -/
def lfHistory (d : Option Doc) : List Event → Bool
  | [] => true
  | e :: es =>
    lfEvent d e &&
    (match step d e with
      | some d' => lfHistory d' es
      | none => true)

/-- The editor's open documents, by URI. -/
def Store := Nat → Option Doc

def Store.set (st : Store) (u : Nat) (d : Option Doc) : Store :=
  fun v => if v = u then d else st v

inductive WEvent where
  | doc (u : Nat) (e : Event)
  | renamed (old new : Nat)
deriving Repr, DecidableEq

/-- Renaming the file of an open document moves the buffer to the new URI — same text, same
version, still open (not onto a URI that is open itself); renaming a file that is not open leaves
every buffer alone. -/
def wstep (st : Store) : WEvent → Option Store
  | .doc u e => (step (st u) e).map fun d => st.set u d
  | .renamed o n =>
    match st o with
    | some d =>
      if n = o ∨ (st n).isNone then some ((st.set o none).set n (some d)) else none
    | none => some st

def wrun (st : Store) : List WEvent → Option Store
  | [] => some st
  | e :: es =>
    match wstep st e with
    | some st' => wrun st' es
    | none => none

/-- Guard of `c14_workspace_history`: `lfEvent` of the document concerned. -/
def lfWEvent (st : Store) : WEvent → Bool
  | .doc u e => lfEvent (st u) e
  | .renamed .. => true

def lfWHistory (st : Store) : List WEvent → Bool
  | [] => true
  | e :: es =>
    lfWEvent st e &&
    (match wstep st e with
      | some st' => lfWHistory st' es
      | none => true)

/-- The editor applies one `SemanticTokensEdit` to the token array it holds (LSP 3.17:
`start`, `deleteCount`, `data`). -/
def applyTokEdit {α : Type} (held : List α) (e : Impl.TokEdit α) : List α :=
  held.take e.start ++ e.data ++ held.drop (e.start + e.deleteCount)

def applyTokEdits {α : Type} (held : List α) : List (Impl.TokEdit α) → List α
  | [] => held
  | e :: es => applyTokEdits (applyTokEdit held e) es

/-- The editor consumes a token answer: a full array replaces what it holds, edits are applied to
the array it holds; either way it now holds the answer's result id. -/
def tokConsume {α : Type} (held : Option (Nat × List α)) : Impl.TokAns α → Option (Nat × List α)
  | .full id data => some (id, data)
  | .delta id edits => held.map fun h => (id, applyTokEdits h.2 edits)

end Spec

/-! ### Token sessions: the server's cache and the editor's array -/

/-- Server cache of the document's URI and what the editor holds (result id, token array). -/
structure TokState (α : Type) where
  srv : Impl.TokSrv α
  held : Option (Nat × List α)

/-- What can happen in a token session.  `cur` is the token array of the text the document has
when the request is handled (arbitrary: the text changes between requests); `consume = false` is
an answer the editor drops — a request cancelled by the next key stroke, or the request of another
view of the same document: the server has cached the result all the same. -/
inductive TokEv (α : Type) where
  | full (cur : List α) (consume : Bool)
  /-- `semanticTokens/full/delta` naming the result id the editor holds -/
  | delta (cur : List α) (consume : Bool)
  /-- the server drops the entry (`remove_document`, `rename_document`) -/
  | forget
  /-- a token request for another document -/
  | other

/-- `none`: not a session an editor produces (a delta request without a held result). -/
def tokStep {α : Type} [DecidableEq α] (st : TokState α) : TokEv α → Option (TokState α)
  | .full cur c =>
    let r := Impl.tokFull st.srv cur
    some { srv := r.1, held := if c then Spec.tokConsume st.held r.2 else st.held }
  | .delta cur c =>
    match st.held with
    | none => none
    | some h =>
      let r := Impl.tokDelta st.srv h.1 cur
      some { srv := r.1, held := if c then Spec.tokConsume st.held r.2 else st.held }
  | .forget => some { st with srv := Impl.tokForget st.srv }
  | .other => some { st with srv := Impl.tokOther st.srv }

def tokRun {α : Type} [DecidableEq α] (st : TokState α) : List (TokEv α) → Option (TokState α)
  | [] => some st
  | e :: es =>
    match tokStep st e with
    | some st' => tokRun st' es
    | none => none

/-- A server that has answered nothing, an editor that holds nothing. -/
def tokInit {α : Type} : TokState α := { srv := { nextId := 0, cache := none }, held := none }

/-- What the editor sends for a change computed on its buffer: the same range, the inserted text
as characters (JSON string). -/
def encodeChange : Impl.Change → Spec.Change
  | .range sl sc el ec t => .range sl sc el ec (encode16 t)
  | .full t => .full (encode16 t)

def encodeEvent : Impl.Event → Spec.Event
  | .didOpen v t => .didOpen v (encode16 t)
  | .didChange v cs => .didChange v (cs.map encodeChange)
  | .didClose => .didClose
  | .didSave => .didSave
  | .watchedChanged _ => .watchedChanged
  | .watchedDeleted => .watchedDeleted

def encodeWEvent : Impl.WEvent → Spec.WEvent
  | .doc u e => .doc u (encodeEvent e)
  | .renamed o n _ => .renamed o n

/-- The byte offset `len8 pre` of `pre ++ post` lies between the `\r` and the `\n` of a `\r\n`
line end — the only character boundary that is not a position of the editor. -/
def splitsCrlf (pre post : List Char) : Bool :=
  pre.getLast? == some '\r' && post.head? == some '\n'

/-- The refinement relation of `c14_history`: the server's entry for the document agrees with the
editor's copy — same text (as UTF-16 units), same version, open, and the analysis database reads
that same text; a document the editor has closed (or never opened) is not open on the server
(it may be tracked as a closed document holding the file's text). -/
def Agree (srv : Option Impl.Doc) (ed : Option Spec.Doc) : Prop :=
  match ed with
  | some e => ∃ d, srv = some d ∧ encode16 d.text = e.units ∧ d.version = e.version ∧
      d.isOpen = true ∧ d.analysed = d.text
  | none => ∀ d, srv = some d → d.isOpen = false

/-- Pointwise agreement of the server's documents with the editor's. -/
def AgreeAll (srv : Impl.Store) (ed : Spec.Store) : Prop := ∀ u, Agree (srv u) (ed u)

end TrustVerif.C14
