import TrustVerif.Generated.Glue
/-
Model of the two Structured-Text formatters of trust-platform (property C15).

Mirrors, function by function:
  crates/trust-lsp/src/handlers/formatting.rs
      format_config / apply_format_overrides / format_profile_overrides   `formatConfig`
      should_glue / is_symbolic_operator                                  `shouldGlue` (lists generated)
      format_line_tokens                                                  `formatLineTokens`
      format_document (per-line loop)                                     `stepLine`, `runLines`
      find_type_colon, align_var_block_colons                             `findTypeColon`, `alignVarColons`
      find_assignment_op, leading_whitespace, align_assignment_ops        `findAssignOp`, `alignAssignOps`
      wrap_long_lines                                                     `wrapLongLines`
      format_lines_edit, expand_range_to_block, block_spans               `formatLinesEdit`, `expandRange`
      formatting / range_formatting / on_type_formatting                  `fullFormat`, `rangeFormat`, `onTypeFormat`
  crates/trust-runtime/src/web/ide.rs
      format_structured_text_document, is_dedent_line, is_indent_line     `webFormat`, ...
The lexer (`trust_syntax::lex`) is NOT modelled: the token stream is an input of the model (the harness
passes the real lexer's tokens), and the theorems about re-lexing are stated against an abstract lexer
interface (`LexIface`).  Texts are `List Char`; wherever the Rust code counts bytes (`str::len`, byte
indices of `find`) the model counts UTF-8 bytes (`utf8Len`).

Import-free apart from the generated, import-free table `TrustVerif.Generated.Glue`.
-/
namespace TrustVerif.C15
open TrustVerif.C15.Gen

abbrev Text := List Char

/-! ## Characters and small text functions -/

/-- Rust `char::is_whitespace` (Unicode `White_Space`). -/
def isWs (c : Char) : Bool :=
  let v := c.toNat
  v == 0x20 || (0x09 ≤ v && v ≤ 0x0D) || v == 0x85 || v == 0xA0 || v == 0x1680 ||
  (0x2000 ≤ v && v ≤ 0x200A) || v == 0x2028 || v == 0x2029 || v == 0x202F || v == 0x205F ||
  v == 0x3000

/-- `u8::to_ascii_uppercase` lifted to chars. -/
def asciiUpper (c : Char) : Char :=
  if 'a' ≤ c ∧ c ≤ 'z' then Char.ofNat (c.toNat - 32) else c

/-- `u8::to_ascii_lowercase` lifted to chars. -/
def asciiLower (c : Char) : Char :=
  if 'A' ≤ c ∧ c ≤ 'Z' then Char.ofNat (c.toNat + 32) else c

def upperText (t : Text) : Text := t.map asciiUpper
def lowerText (t : Text) : Text := t.map asciiLower

/-- `str::len` (UTF-8 bytes). -/
def utf8Len (t : Text) : Nat := t.foldl (fun n c => n + c.utf8Size) 0

/-- UTF-16 code units (`char::len_utf16`). -/
def utf16Len (t : Text) : Nat := t.foldl (fun n c => n + (if c.toNat ≥ 0x10000 then 2 else 1)) 0

/-- `str::trim_start` -/
def trimStart (t : Text) : Text := t.dropWhile isWs
/-- `str::trim_end` -/
def trimEnd (t : Text) : Text := (t.reverse.dropWhile isWs).reverse
/-- `str::trim` -/
def trim (t : Text) : Text := trimEnd (trimStart t)

/-- `str::strip_suffix('\r').unwrap_or(s)` -/
def stripCR (t : Text) : Text :=
  match t.reverse with
  | '\r' :: r => r.reverse
  | _ => t

/-- `needle` is a prefix of `t` (`str::starts_with`). -/
def startsWith (t needle : Text) : Bool := needle.isPrefixOf t

/-- `str::contains(&str)`. -/
def containsText : Text → Text → Bool
  | [], needle => needle.isEmpty
  | c :: cs, needle => needle.isPrefixOf (c :: cs) || containsText cs needle

/-- `str::find(&str)` as a BYTE index. -/
def findText (t needle : Text) : Option Nat :=
  go t 0
where
  go : Text → Nat → Option Nat
    | [], off => if needle.isEmpty then some off else none
    | c :: cs, off => if needle.isPrefixOf (c :: cs) then some off else go cs (off + c.utf8Size)

/-- Split a text at a BYTE index that is a char boundary: `(&s[..i], &s[i..])`. -/
def splitAtByte : Text → Nat → Text × Text
  | [], _ => ([], [])
  | c :: cs, i =>
    if i = 0 then ([], c :: cs)
    else
      let (a, b) := splitAtByte cs (i - c.utf8Size)
      (c :: a, b)

def spaces (n : Nat) : Text := List.replicate n ' '

/-- The text without its white space (what a pure re-layout must preserve). -/
def nonWs (t : Text) : Text := t.filter fun c => !isWs c

/-- `' '`, `'\t'` or `'\r'`: what `trim_end_matches([' ', '\t', '\r'])` removes (web formatter). -/
def isBlank (c : Char) : Bool := c == ' ' || c == '\t' || c == '\r'

/-- `String::repeat`. -/
def repeatText (t : Text) : Nat → Text
  | 0 => []
  | n + 1 => t ++ repeatText t n

/-- `str::split(sep)` for a single char: never empty. -/
def splitOn (sep : Char) : Text → List Text
  | [] => [[]]
  | c :: cs =>
    if c = sep then [] :: splitOn sep cs
    else
      match splitOn sep cs with
      | h :: t => (c :: h) :: t
      | [] => [[c]]

/-- `[..].join(sep)`. -/
def joinWith (sep : Text) : List Text → Text
  | [] => []
  | [a] => a
  | a :: b :: rest => a ++ sep ++ joinWith sep (b :: rest)

/-! ## Configuration (`format_config`) -/

inductive Style where
  | spaced | compact
  deriving DecidableEq, Repr, Inhabited

inductive KwCase where
  | preserve | upper | lower
  deriving DecidableEq, Repr, Inhabited

inductive EndStyle where
  | aligned | indented
  deriving DecidableEq, Repr, Inhabited

/-- `FormatConfig`. -/
structure Config where
  indentWidth : Nat
  insertSpaces : Bool
  kwCase : KwCase
  alignVar : Bool
  alignAsg : Bool
  maxLen : Option Nat
  style : Style
  endStyle : EndStyle
  deriving DecidableEq, Repr, Inhabited

/-- The client's `format` section as the server reads it (absent key = `none`). -/
structure Settings where
  indentWidth : Option Nat := none
  insertSpaces : Option Bool := none
  keywordCase : Option String := none
  alignVarDecls : Option Bool := none
  alignAssignments : Option Bool := none
  maxLineLength : Option Nat := none
  spacingStyle : Option String := none
  endKeywordStyle : Option String := none
  deriving Repr, Inhabited

def lowerStr (s : String) : String := String.ofList (lowerText s.toList)

def kwCaseOfName (s : String) : KwCase :=
  if s = "Upper" then .upper else if s = "Lower" then .lower else .preserve
def styleOfName (s : String) : Style := if s = "Compact" then .compact else .spaced
def endStyleOfName (s : String) : EndStyle := if s = "Indented" then .indented else .aligned

/-- `format_profile_overrides` + `apply_format_overrides` (table generated). -/
def applyProfile (c : Config) (profile : String) : Config :=
  let p := lowerStr (String.ofList (trim profile.toList))
  match profiles.find? (fun r => r.1 = p) with
  | none => c
  | some (_, indent, spaces, kc, av, aa, maxLen, sp, ek) =>
    { indentWidth := max indent 1, insertSpaces := spaces, kwCase := kwCaseOfName kc, alignVar := av,
      alignAsg := aa, maxLen := if maxLen > 0 then some maxLen else c.maxLen,
      style := styleOfName sp, endStyle := endStyleOfName ek }

/-- `format_config`: LSP `FormattingOptions`, then the vendor profile of the workspace, then the
client settings. -/
def formatConfig (tabSize : Nat) (insertSpaces : Bool) (profile : Option String) (s : Settings) : Config :=
  let c0 : Config := { indentWidth := tabSize, insertSpaces := insertSpaces, kwCase := .preserve,
                       alignVar := true, alignAsg := true, maxLen := none, style := .spaced,
                       endStyle := .aligned }
  let c1 := match profile with
    | some p => applyProfile c0 p
    | none => c0
  let c2 := match s.indentWidth with | some w => { c1 with indentWidth := max w 1 } | none => c1
  let c3 := match s.insertSpaces with | some b => { c2 with insertSpaces := b } | none => c2
  let c4 := match s.keywordCase with
    | some k =>
      let k := lowerStr k
      { c3 with kwCase := if k = "upper" then .upper else if k = "lower" then .lower else .preserve }
    | none => c3
  let c5 := match s.alignVarDecls with | some b => { c4 with alignVar := b } | none => c4
  let c6 := match s.alignAssignments with | some b => { c5 with alignAsg := b } | none => c5
  let c7 := match s.maxLineLength with
    | some m => if m > 0 then { c6 with maxLen := some m } else c6
    | none => c6
  let c8 := match s.spacingStyle with
    | some k =>
      let k := lowerStr k
      { c7 with style := if k = "compact" || k = "tight" then .compact else .spaced }
    | none => c7
  match s.endKeywordStyle with
  | some k =>
    let k := lowerStr k
    { c8 with endStyle := if k = "indented" || k = "indent" then .indented else .aligned }
  | none => c8

/-- `indent_unit`. -/
def indentUnit (c : Config) : Text :=
  if c.insertSpaces then spaces (max c.indentWidth 1) else ['\t']

/-! ## Tokens and the glue rule -/

/-- A non-trivia token as `format_document` sees it. -/
structure Tok where
  name : String        -- `TokenKind` variant name
  kind : K             -- its class
  text : Text
  deriving DecidableEq, Repr, Inhabited

def Tok.isKw (t : Tok) : Bool := keywordKinds.contains t.name

/-- `is_symbolic_operator`. -/
def isSymbolic (k : K) : Bool := symbolicOps.contains k

/-- `should_glue(prev, current, spacing_style)`: same tests in the same order. -/
def shouldGlue (prev cur : K) (st : Style) : Bool :=
  if st == .compact && (isSymbolic prev || isSymbolic cur) then true
  else if st == .compact && gluePrevCompact.contains prev then true
  else if gluePrev.contains prev then true
  else if glueCur.contains cur then true
  else if glueCallCur.contains cur && prev == .Ident then true
  else false

/-- Keyword re-casing of `format_line_tokens`. -/
def recase (kc : KwCase) (t : Tok) : Text :=
  match kc with
  | .preserve => t.text
  | .upper => if t.isKw then upperText t.text else t.text
  | .lower => if t.isKw then lowerText t.text else t.text

/-- Separator emitted before `cur` when the previous token has kind `prev`. -/
def sepBefore (prev : Option K) (cur : K) (st : Style) : Text :=
  match prev with
  | none => []
  | some p => if shouldGlue p cur st then [] else [' ']

def formatLineTokensFrom (kc : KwCase) (st : Style) : Option K → List Tok → Text
  | _, [] => []
  | prev, t :: rest => sepBefore prev t.kind st ++ recase kc t ++ formatLineTokensFrom kc st (some t.kind) rest

/-- First loop of `format_line_tokens`: the tokens glued by `should_glue`. -/
def gluedLine (ts : List Tok) (kc : KwCase) (st : Style) : Text :=
  formatLineTokensFrom kc st none ts

/-- Fallback of `format_line_tokens`: one space between all tokens. -/
def spacedLine (ts : List Tok) (kc : KwCase) : Text :=
  joinWith [' '] (ts.map (recase kc))

/-- `format_line_tokens`.  `relexOk` is the verdict of `relexes_to(&out, tokens, source)`: the glued text
lexes to exactly these tokens (keywords up to case).  The lexer is not modelled, so the verdict is an input
(the harness computes it with `trust_syntax::lex` on the model's glued text; the theorems tie it to
`LexIface`). -/
def formatLineTokens (ts : List Tok) (kc : KwCase) (st : Style) (relexOk : Bool) : Text :=
  if relexOk then gluedLine ts kc st else spacedLine ts kc

/-! ## Which glued pairs re-lex to themselves: the class-level characterisation `classSafe`

`classSafe a b = true` claims: for all texts `ta` of class `a`, `tb` of class `b` and every continuation,
the lexer splits `ta ++ tb ++ …` after `ta` (and goes on as it would on `tb ++ …`).  The table is derived
from the token regexes of `lexer/tokens.rs` (last characters of `a`, first characters of `b`) and is
validated against `trust_syntax::lex` on every run (harness case 0: every class pair × representative
texts × continuations).  It is deliberately *exact* on the pairs the formatter can glue. -/

/-- Token classes refined where the text matters: a `TypedLiteralPrefix` whose name is one of the
date/time prefixes (`T#`, `D#`, `TOD#`, `DT#`, …) can absorb the following literal tokens. -/
inductive Cls where
  | k (k : K)
  | temporal
  deriving DecidableEq, Repr, Inhabited

def Cls.kind : Cls → K
  | .k x => x
  | .temporal => .TypedLiteralPrefix

def Cls.name : Cls → String
  | .k x => x.name
  | .temporal => "TypedLiteralPrefixT"

def Cls.all : List Cls := K.all.map .k ++ [.temporal]

def temporalPrefixes : List String :=
  ["T#", "TIME#", "LT#", "LTIME#", "D#", "DATE#", "LD#", "LDATE#", "TOD#", "TIME_OF_DAY#", "LTOD#",
   "LTIME_OF_DAY#", "DT#", "DATE_AND_TIME#", "LDT#", "LDATE_AND_TIME#"]

/-- Class of a token. -/
def classify (k : K) (text : Text) : Cls :=
  if k == .TypedLiteralPrefix && temporalPrefixes.contains (String.ofList (upperText text)) then .temporal
  else .k k

def Tok.cls (t : Tok) : Cls := classify t.kind t.text

/-- Kinds outside the guarantee: trivia never reach `format_line_tokens`; `Error` tokens have no shape. -/
def excludedKind (k : K) : Bool :=
  k == .Whitespace || k == .LineComment || k == .BlockComment || k == .Pragma || k == .Error || k == .Eof

/-- Two-character tokens and comment openers: what a one-character token can grow into. -/
def twoCharTokens : List Text :=
  ((K.all.filterMap fixedText).map (·.toList)).filter (·.length == 2) ++ [txt2 "(*", txt2 "/*", txt2 "//"]
where txt2 (s : String) : Text := s.toList

/-- Fixed-text tokens: `ta ++ tb` starts with a longer token than `ta`. -/
def symUnsafe (ta tb : Text) : Bool :=
  match ta, tb with
  | [x], y :: _ => twoCharTokens.contains [x, y]
  | _, _ => false

/-- The first characters a class can start with (`b` side of a pair).  A temporal prefix starts with
one of `T`, `L`, `D`, so only the letter / hex-letter (`D`) cases apply to it. -/
def headDigit (b : Cls) : Bool := b == .k .IntLiteral || b == .k .RealLiteral
def headLetter (b : Cls) : Bool :=
  b == .k .Ident || b == .k .Kw || b == .k .TimeLiteral || b == .k .DateLiteral ||
  b == .k .TimeOfDayLiteral || b == .k .DateAndTimeLiteral || b == .k .TypedLiteralPrefix || b == .temporal
/-- may start with `_` -/
def headUnderscore (b : Cls) : Bool := b == .k .Ident || b == .k .Kw || b == .k .TypedLiteralPrefix
/-- may start with `_` followed by a digit -/
def headUnderscoreDigit (b : Cls) : Bool := b == .k .Ident || b == .k .TypedLiteralPrefix
/-- may start with a hex letter `A-F` -/
def headHexLetter (b : Cls) : Bool :=
  b == .k .Ident || b == .k .Kw || b == .k .TypedLiteralPrefix || b == .temporal ||
  b == .k .DateLiteral || b == .k .DateAndTimeLiteral
/-- may start with `e`/`E` followed by a digit -/
def headExponent (b : Cls) : Bool := b == .k .Ident || b == .k .TypedLiteralPrefix
/-- may start with `s`/`S` -/
def headS (b : Cls) : Bool := b == .k .Ident || b == .k .Kw || b == .k .TypedLiteralPrefix

/-- `true`: the pair can be written without a separator. -/
def classSafe (a b : Cls) : Bool :=
  let ka := a.kind
  let kb := b.kind
  if excludedKind ka || excludedKind kb then false
  else
    let bad :=
      match ka with
      | .Ident | .Kw => headLetter b || headDigit b || kb == .Hash
      | .IntLiteral => headDigit b || headUnderscoreDigit b || headHexLetter b || kb == .Hash || kb == .Dot
      -- `1.5ELSE` lexes as `1.5E` `LSE`: the exponent letter is consumed even when no digits follow
      | .RealLiteral => headDigit b || headUnderscoreDigit b || headExponent b || kb == .Kw
      -- `T#5m30` lexes as one Error token
      | .TimeLiteral => headS b || headUnderscoreDigit b || headDigit b
      -- `TOD#14:30:00..` : the optional fraction looks at the first dot
      | .TimeOfDayLiteral | .DateAndTimeLiteral =>
        headDigit b || headUnderscore b || kb == .Dot || kb == .DotDot
      | .DirectAddress => headDigit b || kb == .Dot
      -- `T#-` lexes as Ident `T#`, Minus: the sign of a duration is part of the time-literal regex
      | .TypedLiteralPrefix => a == .temporal && (headDigit b || kb == .Minus || kb == .Plus)
      | .DotDot => kb == .Dot || kb == .DotDot      -- the IntLiteral-dot fix-up of the lexer looks ahead
      | _ =>
        match fixedText ka, fixedText kb with
        | some ta, some tb => symUnsafe ta.toList tb.toList
        | _, _ => false
    !bad

/-- A glued pair that does not re-lex to itself. -/
def gluedUnsafe (a b : Cls) (st : Style) : Bool :=
  shouldGlue a.kind b.kind st && !classSafe a b

/-- All (prev, current, style) triples of non-excluded classes that the formatter glues unsafely. -/
def computedHazards : List (Cls × Cls × Style) :=
  Cls.all.flatMap fun a => Cls.all.flatMap fun b => [Style.spaced, Style.compact].filterMap fun st =>
    if !excludedKind a.kind && !excludedKind b.kind && gluedUnsafe a b st then some (a, b, st) else none

/-- The pairs that `should_glue` glues in BOTH spacing styles although they do not re-lex as two tokens:
exactly where the re-lex guard of `format_line_tokens` has to fall back to one space (since fix 944815f these
are no longer defects).  Written out by hand; `c15_glue_safe_partial` proves that the generated glue rule
has no unsafe pair outside this table. -/
def hazardsAlways : List (Cls × Cls) := [
  (.k .Dot, .k .Dot), (.k .Dot, .k .DotDot), (.k .DotDot, .k .Dot), (.k .DotDot, .k .DotDot),
  (.k .LParen, .k .Star), (.k .LParen, .k .Power),
  (.k .IntLiteral, .k .Dot), (.k .IntLiteral, .k .Hash),
  (.k .TimeOfDayLiteral, .k .Dot), (.k .TimeOfDayLiteral, .k .DotDot),
  (.k .DateAndTimeLiteral, .k .Dot), (.k .DateAndTimeLiteral, .k .DotDot), (.k .DirectAddress, .k .Dot),
  (.k .Ident, .k .Hash), (.k .Kw, .k .Hash),
  (.temporal, .k .Plus), (.temporal, .k .Minus), (.temporal, .k .IntLiteral), (.temporal, .k .RealLiteral)]

/-- Hazards that exist only in the compact spacing style (operators glued to their neighbours). -/
def hazardsCompact : List (Cls × Cls) := [
  (.k .Colon, .k .Arrow), (.k .Colon, .k .Eq), (.k .Eq, .k .Gt), (.k .Eq, .k .GtEq),
  (.k .Lt, .k .Arrow), (.k .Lt, .k .Eq), (.k .Lt, .k .Gt), (.k .Lt, .k .GtEq),
  (.k .Gt, .k .Arrow), (.k .Gt, .k .Eq), (.k .Star, .k .Star), (.k .Star, .k .Power),
  (.k .Slash, .k .Star), (.k .Slash, .k .Slash), (.k .Slash, .k .Power)]

def knownHazard (a b : Cls) (st : Style) : Bool :=
  hazardsAlways.contains (a, b) || (st == .compact && hazardsCompact.contains (a, b))

/-- Adjacent token pairs of one line that are glued unsafely (includes pairs with `Error` tokens). -/
def lineHazards (st : Style) : List Tok → List (Cls × Cls)
  | a :: b :: rest =>
    (if gluedUnsafe a.cls b.cls st then [(a.cls, b.cls)] else []) ++ lineHazards st (b :: rest)
  | _ => []

/-! ## `format_document`: the per-line pass -/

/-- What the first loop of `format_document` knows about one source line. -/
structure LineIn where
  text : Text                 -- `source[line_start..line_end]` with a trailing '\r' stripped
  toks : List Tok             -- non-trivia tokens that START on this line
  inBlockComment : Bool
  hasLineComment : Bool
  hasPragma : Bool
  hasString : Bool
  relexOk : Bool := true      -- verdict of `relexes_to` for the glued text of this line's tokens
  deriving Repr, Inhabited

/-- `indent_level`, `in_var_block`. -/
structure St where
  indent : Int := 0
  inVar : Bool := false
  deriving DecidableEq, Repr, Inhabited

/-- One entry of `output_lines` together with the per-line masks built in the same loop. -/
structure OutLine where
  text : Text
  inVar : Bool                -- `line_in_var_block[i]`
  colon : Option Nat := none  -- `line_colon_index[i]` (byte index)
  skipAlign : Bool            -- `LineFormatMasks::skip_alignment`
  /-- what `find_assignment_op` gets from lexing the line: the number of non-white-space characters in front
  of the first `Assign` / `Arrow` token (`none`: the line has no such token).  White space inserted by the
  alignment passes moves the token's byte index, not this count. -/
  opSkip : Option Nat := none
  deriving DecidableEq, Repr, Inhabited

def isDedentToken (t : Tok) : Bool := dedentKinds.contains t.name
def isEndKeyword (t : Tok) : Bool := endKeywordKinds.contains t.name
def lineHasIndentStart (ts : List Tok) : Bool := ts.any fun t => indentStartKinds.contains t.name
def hasVarStart (ts : List Tok) : Bool := ts.any fun t => varKeywordKinds.contains t.name
def hasVarEnd (ts : List Tok) : Bool := ts.any fun t => t.name == "KwEndVar"

/-- `find_type_colon`: byte index of the first ':' that is not followed by '='. -/
def findTypeColon (line : Text) : Option Nat :=
  go line 0
where
  go : Text → Nat → Option Nat
    | [], _ => none
    | ':' :: '=' :: rest, off => go rest (off + 2)
    | ':' :: _, off => some off
    | c :: rest, off => go rest (off + c.utf8Size)

/-- `in_var_block` update shared by all three exits of the loop body. -/
def nextInVar (inVar : Bool) (ts : List Tok) : Bool :=
  let a := if hasVarStart ts then true else inVar
  if hasVarEnd ts then false else a

def skipAlignOf (l : LineIn) : Bool := l.inBlockComment || l.hasLineComment || l.hasPragma || l.hasString

/-- `current_indent` and `dedent_after` of one line, from `indent_level` and the first token. -/
def curIndent (cfg : Config) (indent : Int) (toks : List Tok) : Int × Bool :=
  match toks.head? with
  | some first =>
    if isDedentToken first then
      let shouldDedent := match cfg.endStyle with
        | .aligned => true
        | .indented => !isEndKeyword first
      if shouldDedent then (max (indent - 1) 0, false) else (indent, true)
    else (indent, false)
  | none => (indent, false)

/-- `first_colon_is_token`: the first ':' of the line (other than ":=") belongs to a `Colon` token. -/
def firstColonIsToken : List Tok → Bool
  | [] => false
  | t :: rest =>
    if t.name == "Colon" then true
    else if t.name == "Assign" then firstColonIsToken rest
    else if t.text.contains ':' then false
    else firstColonIsToken rest

/-- Non-white-space characters in front of the first `Assign` / `Arrow` token of a line. -/
def opSkipOf : List Tok → Option Nat := go 0
where
  go (acc : Nat) : List Tok → Option Nat
    | [] => none
    | t :: rest =>
      if t.name == "Assign" || t.name == "Arrow" then some acc else go (acc + (nonWs t.text).length) rest

/-- The formatted line of a non-blank line outside block comments, with its masks. -/
def emitLine (cfg : Config) (l : LineIn) (lineInVar : Bool) (cur : Nat) : OutLine :=
  let prefix_ := repeatText (indentUnit cfg) cur
  let verbatim := l.hasLineComment || l.hasPragma
  let line :=
    if verbatim then prefix_ ++ trim l.text
    else prefix_ ++ formatLineTokens l.toks cfg.kwCase cfg.style l.relexOk
  { text := line, inVar := lineInVar, colon := if lineInVar && !verbatim && firstColonIsToken l.toks then findTypeColon line else none,
    skipAlign := skipAlignOf l, opSkip := if verbatim then none else opSkipOf l.toks }

/-- `indent_level` after the line. -/
def nextIndent (cur : Int) (dedentAfter : Bool) (toks : List Tok) : Int :=
  let lvl := if lineHasIndentStart toks then cur + 1 else cur
  if dedentAfter then max (lvl - 1) 0 else lvl

/-- Body of the `for i in 0..line_count` loop.  `none` = the Rust code panics
(`indent_unit.repeat(current_indent as usize)` with a negative `current_indent`). -/
def stepLine (cfg : Config) (st : St) (l : LineIn) : Option (OutLine × St) :=
  let lineInVar := st.inVar && !hasVarEnd l.toks
  let inVar' := nextInVar st.inVar l.toks
  if l.inBlockComment then
    some ({ text := l.text, inVar := lineInVar, skipAlign := skipAlignOf l }, { st with inVar := inVar' })
  else if (trim l.text).isEmpty then
    some ({ text := [], inVar := lineInVar, skipAlign := skipAlignOf l }, { st with inVar := inVar' })
  else
    let ci := curIndent cfg st.indent l.toks
    if ci.1 < 0 then none
    else some (emitLine cfg l lineInVar ci.1.toNat,
               { indent := nextIndent ci.1 ci.2 l.toks, inVar := inVar' })

/-- The whole first loop. -/
def runLines (cfg : Config) : St → List LineIn → Option (List OutLine)
  | _, [] => some []
  | st, l :: rest =>
    match stepLine cfg st l with
    | none => none
    | some (o, st') =>
      match runLines cfg st' rest with
      | none => none
      | some os => some (o :: os)

/-! ## Post passes (compared with the implementation on every run; proved: they leave verbatim lines alone,
`c15_verbatim_document`; that they only insert white space elsewhere is tested, not proved) -/

/-- Insert `n` spaces at byte index `i`. -/
def padAt (line : Text) (i n : Nat) : Text :=
  let (a, b) := splitAtByte line i
  a ++ spaces n ++ b

/-- `align_var_block_colons`: groups are maximal runs of consecutive lines that are in a VAR block and
have a colon index; within a group every colon is moved to the largest index (unless that is 0). -/
def alignVarColons (ls : List OutLine) : List OutLine :=
  go ls ls.length
where
  inGroup (o : OutLine) : Bool := o.inVar && o.colon.isSome
  go : List OutLine → Nat → List OutLine
    | [], _ => []
    | ls, 0 => ls
    | o :: rest, fuel + 1 =>
      if !inGroup o then o :: go rest fuel
      else
        let grp := (o :: rest).takeWhile inGroup
        let tail := (o :: rest).dropWhile inGroup
        let maxColon := grp.foldl (fun m x => max m (x.colon.getD 0)) 0
        let grp' :=
          if maxColon == 0 then grp
          else grp.map fun x =>
            match x.colon with
            | some c => if c ≥ maxColon then x else { x with text := padAt x.text c (maxColon - c) }
            | none => x
        grp' ++ go tail fuel

/-- `leading_whitespace`. -/
def leadingWs (t : Text) : Text := t.takeWhile isWs

/-- Byte index of the first non-white-space character behind `n` non-white-space characters. -/
def offsetAfter (t : Text) (n : Nat) : Nat := go t n 0
where
  go : Text → Nat → Nat → Nat
    | [], _, off => off
    | c :: cs, n, off =>
      if isWs c then go cs n (off + c.utf8Size)
      else match n with
        | 0 => off
        | m + 1 => go cs m (off + c.utf8Size)

/-- `find_assignment_op` (since the fix PENDING-C15-align-assign): byte index of the first `Assign` / `Arrow`
TOKEN of the line as `lex(line)` finds it - the line is the re-emitted token line (which lexes to its tokens:
re-lex guard) plus white space at token boundaries, so that token starts behind `opSkip` non-white-space
characters.  (Before the fix: the first TEXT occurrence of ":=" / "=>", which compact `a<=>b` has across the
boundary of `<=` `>`.) -/
def findAssignOp (o : OutLine) : Option Nat := o.opSkip.map (offsetAfter o.text)

/-- `align_assignment_ops`. -/
def alignAssignOps (ls : List OutLine) : List OutLine :=
  go ls ls.length
where
  go : List OutLine → Nat → List OutLine
    | [], _ => []
    | ls, 0 => ls
    | o :: rest, fuel + 1 =>
      if o.skipAlign then o :: go rest fuel
      else
        match findAssignOp o with
        | none => o :: go rest fuel
        | some op0 =>
          let indent := leadingWs o.text
          let cont := rest.takeWhile fun x =>
            !x.skipAlign && leadingWs x.text == indent && (findAssignOp x).isSome
          let tail := rest.drop cont.length
          let maxOp := cont.foldl (fun m x => max m ((findAssignOp x).getD 0)) op0
          let fix := fun (x : OutLine) =>
            match findAssignOp x with
            | some op => if op < maxOp then { x with text := padAt x.text op (maxOp - op) } else x
            | none => x
          (o :: cont).map fix ++ go tail fuel

/-- Inner loop of `wrap_long_lines` over `parts.iter().skip(1)`. -/
def wrapParts (continuation : Text) (current : Text) : List Text → List Text
  | [] => [current]
  | p :: ps => (current ++ [',']) :: wrapParts continuation (continuation ++ trimStart p) ps

/-- `wrap_long_lines`, one line. -/
def wrapLine (unit : Text) (maxLen : Nat) (o : OutLine) : List Text :=
  if o.inVar then [o.text]
  else if o.skipAlign then [o.text]
  else if utf8Len o.text ≤ maxLen || !o.text.contains ',' then [o.text]
  else
    let indent := leadingWs o.text
    let continuation := indent ++ unit
    match splitOn ',' o.text with
    | [] => [o.text]
    | [_] => [o.text]
    | p0 :: parts => wrapParts continuation (trimEnd p0) parts

def wrapLongLines (unit : Text) (maxLen : Nat) (ls : List OutLine) : List Text :=
  ls.flatMap (wrapLine unit maxLen)

/-- Lines the post passes must not touch: skipped by alignment / wrapping (block comment, line comment,
pragma, string lines) and without a type-colon index (which string lines in a VAR block may have). -/
def OutLine.verbatim (o : OutLine) : Bool := o.skipAlign && o.colon.isNone

/-! ## `format_document` -/

/-- Pre-wrap lines (`output_lines` after the two alignment passes). -/
def alignedLines (cfg : Config) (ls : List OutLine) : List OutLine :=
  let a := if cfg.alignVar then alignVarColons ls else ls
  if cfg.alignAsg then alignAssignOps a else a

def finalLines (cfg : Config) (ls : List OutLine) : List Text :=
  let a := alignedLines cfg ls
  match cfg.maxLen with
  | some m => wrapLongLines (indentUnit cfg) m a
  | none => a.map (·.text)

/-- The document as `format_document` receives it, after the token-to-line assignment. -/
structure Doc where
  lines : List LineIn
  crlf : Bool                 -- `source.contains("\r\n")`
  endsNl : Bool               -- `source.ends_with('\n')`
  deriving Repr, Inhabited

def newlineOf (crlf : Bool) : Text := if crlf then ['\r', '\n'] else ['\n']

def endsWithNl (t : Text) : Bool := t.getLast? == some '\n'

/-- `format_document`; `none` = panic. -/
def formatDocument (cfg : Config) (d : Doc) : Option Text :=
  match runLines cfg {} d.lines with
  | none => none
  | some outs =>
    let nl := newlineOf d.crlf
    let r := joinWith nl (finalLines cfg outs)
    some (if d.endsNl && !endsWithNl r then r ++ nl else r)

/-! ## From the source text and the lexer's tokens to `Doc` (first loop of `format_document`) -/

/-- A token as `trust_syntax::lex` returns it: variant name and byte range. -/
structure RawTok where
  name : String
  start : Nat
  stop : Nat
  deriving Repr, Inhabited

/-- `line_starts`. -/
def lineStartsOf (b : ByteArray) : Array Nat := Id.run do
  let mut starts : Array Nat := #[0]
  for i in [0:b.size] do
    if b.get! i == 10 then starts := starts.push (i + 1)
  return starts

/-- `line_index`: `binary_search` for the offset, `Err(idx) => idx - 1`, i.e. the last start `≤ offset`. -/
def lineIndex (starts : Array Nat) (off : Nat) : Nat :=
  (starts.foldl (fun n s => if s ≤ off then n + 1 else n) 0) - 1

def decodeSlice (b : ByteArray) (s e : Nat) : Option Text :=
  (String.fromUTF8? (b.extract s e)).map (·.toList)

def bytesContainCRLF (b : ByteArray) : Bool := Id.run do
  for i in [0:b.size - 1] do
    if b.get! i == 13 && b.get! (i + 1) == 10 then return true
  return false

/-- A token for `block_spans`: variant name and the line it starts on. -/
structure SpanTok where
  name : String
  line : Nat
  deriving Repr, Inhabited

/-- Everything the formatter derives from (source, tokens). -/
structure Built where
  src : Text
  doc : Doc
  spanToks : List SpanTok        -- non-trivia tokens with their start line (`block_spans`)
  multiLinePragma : Bool         -- a Pragma token covers more than one line
  openError : Bool               -- an Error token runs to the end of its line / the text or contains '\n'
                                 -- (unterminated string, comment or pragma)
  multiLineComment : Bool        -- a BlockComment token covers more than one line
  hasError : Bool
  exoticSpace : Bool             -- an Error token made of Unicode white space only
  deriving Repr, Inhabited

/-- First loop of `format_document` (token-to-line assignment and the four line masks). -/
def buildDoc (b : ByteArray) (toks : List RawTok) (noRelex : List Nat := []) : Option Built := do
  let src ← decodeSlice b 0 b.size
  let starts := lineStartsOf b
  let n := starts.size
  let mut lineToks : Array (List Tok) := Array.replicate n []
  let mut inBlock : Array Bool := Array.replicate n false
  let mut hasLC : Array Bool := Array.replicate n false
  let mut hasPragma : Array Bool := Array.replicate n false
  let mut hasStr : Array Bool := Array.replicate n false
  let mut spanToks : List SpanTok := []
  let mut mlPragma := false
  let mut openErr := false
  let mut mlComment := false
  let mut hasError := false
  let mut exotic := false
  for t in toks do
    let kind ← K.ofName t.name
    let startLine := lineIndex starts t.start
    let endLine := lineIndex starts (t.stop - 1)
    if t.name == "BlockComment" then
      for idx in [startLine:endLine + 1] do
        if idx < n then inBlock := inBlock.set! idx true
      if endLine > startLine then mlComment := true
      continue
    -- every other token (no Whitespace tokens are passed in) that spans several lines - a pragma, an
    -- unterminated comment / pragma (Error) - makes its lines verbatim, like a block comment
    if endLine > startLine then
      for idx in [startLine:endLine + 1] do
        if idx < n then inBlock := inBlock.set! idx true
    if t.name == "LineComment" then
      if startLine < n then hasLC := hasLC.set! startLine true
      continue
    if t.name == "Pragma" then
      if startLine < n then hasPragma := hasPragma.set! startLine true
      if endLine > startLine then mlPragma := true
      continue
    if t.name == "StringLiteral" || t.name == "WideStringLiteral" then
      if startLine < n then hasStr := hasStr.set! startLine true
    if triviaKinds.contains t.name then continue
    let text ← decodeSlice b t.start t.stop
    if t.name == "Error" then
      hasError := true
      let atEol := t.stop ≥ b.size || b.get! t.stop == 10 || b.get! t.stop == 13
      if endLine > startLine || atEol || text.contains '\n' then openErr := true
      if text.all isWs then exotic := true
    spanToks := { name := t.name, line := startLine } :: spanToks
    if startLine < n then
      lineToks := lineToks.modify startLine (fun l => { name := t.name, kind := kind, text := text } :: l)
  let mut lines : List LineIn := []
  for j in [0:n] do
    let i := n - 1 - j
    let lineStart := starts[i]!
    let lineEnd := if i + 1 < n then starts[i + 1]! - 1 else b.size
    let text ← decodeSlice b lineStart lineEnd
    lines := { text := stripCR text, toks := (lineToks[i]!).reverse, inBlockComment := inBlock[i]!,
               hasLineComment := hasLC[i]!, hasPragma := hasPragma[i]!, hasString := hasStr[i]!,
               relexOk := !noRelex.contains i } :: lines
  return { src := src,
           doc := { lines := lines, crlf := bytesContainCRLF b,
                    endsNl := b.size > 0 && b.get! (b.size - 1) == 10 },
           spanToks := spanToks.reverse, multiLinePragma := mlPragma, openError := openErr,
           multiLineComment := mlComment, hasError := hasError, exoticSpace := exotic }

/-! ## Decidable guards of the `_partial` theorems (also used to classify failures of the oracle) -/

/-- Layout of the tokens of a formatted line: byte offset of every token (after `prefix` bytes). -/
def tokenOffsetsFrom (kc : KwCase) (st : Style) : Option K → Nat → List Tok → List (Nat × Tok)
  | _, _, [] => []
  | prev, off, t :: rest =>
    let off1 := off + utf8Len (sepBefore prev t.kind st)
    (off1, t) :: tokenOffsetsFrom kc st (some t.kind) (off1 + utf8Len (recase kc t)) rest

/-- The colon picked by `find_type_colon` on a VAR-block line is a `Colon` token of that line. -/
def colonIsToken (cfg : Config) (l : LineIn) (o : OutLine) : Bool :=
  match o.colon with
  | none => true
  | some c =>
    let lead := utf8Len o.text - utf8Len (formatLineTokens l.toks cfg.kwCase cfg.style l.relexOk)
    (tokenOffsetsFrom cfg.kwCase cfg.style none lead l.toks).any fun (off, t) => off == c && t.kind == .Colon

/-- A line whose tokens are re-emitted by `format_line_tokens` (no mask, not blank). -/
def LineIn.isTokenLine (l : LineIn) : Bool :=
  !(l.inBlockComment || l.hasLineComment || l.hasPragma || (trim l.text).isEmpty)

/-- Lines for which the verdict of the re-lex guard matters (glued and spaced text differ), with the glued
text: what the harness lexes with the real lexer. -/
def relexQueries (cfg : Config) (d : Doc) : List (Nat × Text) :=
  (d.lines.zipIdx.filterMap fun (l, i) =>
    let g := gluedLine l.toks cfg.kwCase cfg.style
    if l.isTokenLine && g != spacedLine l.toks cfg.kwCase then some (i, g) else none)

/-- Names of the guards that a (configuration, document) pair violates.  Only the guards of findings that
are still open explain a failure of the oracle; the others are kept as coverage counters (`glue-fallback`:
the re-lex guard took the one-space fallback) or as alarms (`var-colon-in-token`, `indent-underflow-panic`
must never fire on the repaired code). -/
def docGuards (cfg : Config) (bd : Built) : List String :=
  let d := bd.doc
  let fallback := if d.lines.any (fun l => l.isTokenLine && !l.relexOk) then ["glue-fallback"] else []
  let unrecorded := d.lines.flatMap fun l =>
    if !l.isTokenLine then []
    else (lineHazards cfg.style l.toks).filterMap fun (a, b) =>
      if knownHazard a b cfg.style || excludedKind a.kind || excludedKind b.kind then none
      else some s!"glue-unrecorded:{a.name}+{b.name}"
  let core := runLines cfg {} d.lines
  let panic := if core.isNone then ["indent-underflow-panic"] else []
  let wrapped := match core with
    | some outs =>
      let a := alignedLines cfg outs
      if (finalLines cfg outs).length != a.length then ["wrapped"] else []
    | none => []
  let colon := match core with
    | some outs =>
      if cfg.alignVar && ((d.lines.zip outs).any fun (l, o) => !colonIsToken cfg l o) then ["var-colon-in-token"]
      else []
    | none => []
  fallback ++ unrecorded.eraseDups ++ panic ++ wrapped ++ colon ++
    (if bd.multiLinePragma then ["multiline-pragma"] else []) ++
    (if bd.openError then ["open-ended-error-token"] else []) ++
    (if bd.hasError then ["error-token"] else [])

/-! ## Edits: `formatting`, `format_lines_edit`, `range_formatting`, `on_type_formatting` -/

/-- An LSP `TextEdit` (positions in lines / UTF-16 columns). -/
structure Edit where
  sl : Nat
  sc : Nat
  el : Nat
  ec : Nat
  newText : Text
  deriving DecidableEq, Repr, Inhabited

/-- Reply of a formatting request. -/
inductive Reply where
  | edits (es : List Edit)    -- `Some(vec)`
  | null                      -- `None`
  | panic
  deriving DecidableEq, Repr, Inhabited

/-- Lines of the source as `line_starts` cuts them (split at '\n'; a '\r' stays in the line). -/
def srcLines (src : Text) : List Text := splitOn '\n' src

/-- `offset_to_position(content, content.len())`. -/
def endPosition (src : Text) : Nat × Nat :=
  let ls := srcLines src
  (ls.length - 1, utf16Len (ls.getLast?.getD []))

/-- `formatting`. -/
def fullFormat (cfg : Config) (src : Text) (d : Doc) : Reply :=
  match formatDocument cfg d with
  | none => .panic
  | some f =>
    if f = src then .edits []
    else
      let (l, c) := endPosition src
      .edits [{ sl := 0, sc := 0, el := l, ec := c, newText := f }]

/-- `format_lines_edit(source, formatted, start_line, end_line)`; `none` = `None`. -/
def formatLinesEdit (src formatted : Text) (startLine endLine : Nat) : Option Edit :=
  let sls := srcLines src
  let n := sls.length                       -- `line_starts.len()`
  if startLine ≥ n then none                -- `line_starts.get(start_line)?`
  else
    let crlf := containsText src ['\r', '\n']
    let nl := newlineOf crlf
    let fls := (splitOn '\n' formatted).map stripCR
    if startLine ≥ fls.length || endLine ≥ fls.length then none
    else
      let picked := (fls.drop startLine).take (endLine + 1 - startLine)
      let t := joinWith nl picked
      let t := if endLine + 1 < n || (endsWithNl src && !endsWithNl t) then t ++ nl else t
      let (el, ec) := if endLine + 1 < n then (endLine + 1, 0) else endPosition src
      some { sl := startLine, sc := 0, el := el, ec := ec, newText := t }

/-- `block_spans`: (start_line, end_line) in the order the spans are pushed. -/
def blockSpans (ts : List SpanTok) : List (Nat × Nat) :=
  go ts [] []
where
  /-- remove the LAST stack entry of kind `k` (`rposition` + `remove`) -/
  removeLast (k : String) (stack : List (String × Nat)) : Option (Nat × List (String × Nat)) :=
    -- the stack is kept top-first, so the last entry is the first match
    let rec find : List (String × Nat) → List (String × Nat) → Option (Nat × List (String × Nat))
      | _, [] => none
      | acc, (k', l) :: rest =>
        if k' = k then some (l, acc.reverse ++ rest) else find ((k', l) :: acc) rest
    find [] stack
  go : List SpanTok → List (String × Nat) → List (Nat × Nat) → List (Nat × Nat)
    | [], _, spans => spans.reverse
    | t :: rest, stack, spans =>
      match blockStart.find? (fun r => r.1 = t.name) with
      | some (_, kind) => go rest ((kind, t.line) :: stack) spans
      | none =>
        match blockEnd.find? (fun r => r.1 = t.name) with
        | none => go rest stack spans
        | some (_, kind) =>
          match removeLast kind stack with
          | some (startLine, stack') => go rest stack' ((startLine, t.line) :: spans)
          | none => go rest stack spans

/-- `expand_range_to_block`: the first smallest span that contains the range. -/
def expandRange (spans : List (Nat × Nat)) (startLine endLine : Nat) : Nat × Nat :=
  let best := spans.foldl (fun (best : Option (Nat × Nat)) sp =>
    if sp.1 ≤ startLine && sp.2 ≥ endLine then
      let len := sp.2 - sp.1
      match best with
      | none => some sp
      | some b => if len < b.2 - b.1 then some sp else best
    else best) none
  best.getD (startLine, endLine)

/-- `range_formatting`. -/
def rangeFormat (cfg : Config) (src : Text) (d : Doc) (spanToks : List SpanTok)
    (sl _sc el ec : Nat) : Reply :=
  -- `config.max_line_length = None`: the edit is assembled by source line index
  match formatDocument { cfg with maxLen := none } d with
  | none => .panic
  | some f =>
    if f = src then .edits []
    else
      let n := (srcLines src).length
      let endLine := if ec = 0 && el > sl then el - 1 else el
      if sl ≥ n || endLine ≥ n || sl > endLine then .edits []
      else
        let (a, b) := expandRange (blockSpans spanToks) sl endLine
        match formatLinesEdit src f a b with
        | some e => .edits [e]
        | none => .null

/-- `on_type_formatting`. -/
def onTypeFormat (cfg : Config) (src : Text) (d : Doc) (line : Nat) : Reply :=
  match formatDocument { cfg with maxLen := none } d with
  | none => .panic
  | some f =>
    if f = src then .edits []
    else if line ≥ (srcLines src).length then .edits []
    else
      match formatLinesEdit src f line line with
      | some e => .edits [e]
      | none => .null

/-- Applying an edit whose range starts at column 0 of line `sl` and ends at column 0 of line `el`
(or at the end of the text): the shape of every edit `format_lines_edit` builds. -/
def applyLineEdit (src : Text) (e : Edit) : Text :=
  let ls := srcLines src
  let pre := (ls.take e.sl).flatMap (· ++ ['\n'])
  let post := if e.ec = 0 then joinWith ['\n'] (ls.drop e.el) else []
  pre ++ e.newText ++ post

/-! ## The abstract lexer interface of the re-lexing theorems -/

/-- `format_line_tokens` re-cases keyword tokens. -/
def recaseTok (kc : KwCase) (t : Tok) : Tok := { t with text := recase kc t }

/-- Text of a token sequence with a glue decision per adjacent pair. -/
def renderFrom (glue : Tok → Tok → Bool) : Option Tok → List Tok → Text
  | _, [] => []
  | prev, t :: rest =>
    (match prev with
     | none => []
     | some p => if glue p t then [] else [' ']) ++ t.text ++ renderFrom glue (some t) rest

def render (glue : Tok → Tok → Bool) (ts : List Tok) : Text := renderFrom glue none ts

/-- `P` holds for every adjacent pair. -/
def AdjAll (P : Tok → Tok → Prop) : List Tok → Prop
  | a :: b :: rest => P a b ∧ AdjAll P (b :: rest)
  | _ => True

/-- What the proofs assume about `trust_syntax::lex` (restricted to the non-trivia tokens of one line).
`classSafe` is validated against the real lexer on every run (harness case 0); `locality` is the
assumption that pair-safety composes, exercised by the oracle on every generated text. -/
structure LexIface where
  /-- non-trivia tokens of a text -/
  lex : Text → List Tok
  /-- the tokens the lexer can produce (kind and class fit the text; no `Error`) -/
  valid : Tok → Prop
  /-- keyword variants have class `Kw` -/
  valid_kw : ∀ t, valid t → t.isKw = true → t.kind = .Kw
  /-- keywords are lexed case-insensitively: re-casing a valid token gives a valid token -/
  valid_recase : ∀ kc t, valid t → valid (recaseTok kc t)
  /-- LOCALITY: a rendering of valid tokens in which every glued pair is class-safe (all other pairs
  are separated by one space) lexes to exactly these tokens -/
  locality : ∀ (glue : Tok → Tok → Bool) (ts : List Tok), (∀ t ∈ ts, valid t) →
    AdjAll (fun a b => glue a b = true → classSafe a.cls b.cls = true) ts → lex (render glue ts) = ts

/-! ## The web IDE formatter (`format_structured_text_document`) -/

/-- `str::lines()`: split at '\n', strip one '\r' before each '\n'; a final piece without '\n' is
returned as it is; no empty final piece. -/
def rustLines (s : Text) : List Text :=
  go (splitOn '\n' s)
where
  go : List Text → List Text
    | [] => []
    | [last] => if last.isEmpty then [] else [last]
    | l :: rest => stripCR l :: go rest

/-- `str::trim_end_matches([' ', '\t', '\r'])`. -/
def trimEndBlanks (t : Text) : Text :=
  (t.reverse.dropWhile isBlank).reverse

def txt (s : String) : Text := s.toList

/-- `is_dedent_line`. -/
def isDedentLine (u : Text) : Bool :=
  startsWith u (txt "END_") || u == txt "ELSE" || startsWith u (txt "ELSE ") ||
  startsWith u (txt "ELSIF ") || startsWith u (txt "UNTIL ")

/-- `is_indent_line`. -/
def isIndentLine (u : Text) : Bool :=
  (["PROGRAM ", "FUNCTION ", "FUNCTION_BLOCK ", "CONFIGURATION ", "RESOURCE ", "CLASS ", "INTERFACE ",
    "METHOD ", "PROPERTY ", "ACTION ", "TRANSITION "].any fun p => startsWith u (txt p)) ||
  u == txt "ELSE" || startsWith u (txt "ELSE ") || startsWith u (txt "ELSIF ") ||
  startsWith u (txt "REPEAT") ||
  (["VAR", "VAR_INPUT", "VAR_OUTPUT", "VAR_IN_OUT", "VAR_TEMP", "VAR_GLOBAL", "VAR_EXTERNAL",
    "VAR_CONFIG", "VAR_ACCESS"].any fun k => u == txt k || startsWith u (txt (k ++ " "))) ||
  (startsWith u (txt "IF ") && containsText u (txt " THEN")) ||
  (startsWith u (txt "CASE ") && containsText u (txt " OF")) ||
  (startsWith u (txt "FOR ") && containsText u (txt " DO")) ||
  (startsWith u (txt "WHILE ") && containsText u (txt " DO"))

/-- The part of a raw line that the web formatter keeps. -/
def webCore (raw : Text) : Text := trimStart (trimEndBlanks raw)

def webIndent (lvl : Nat) : Text := spaces (2 * lvl)

/-- Body of the `for raw_line in source.lines()` loop on the kept part `t` of the line: output line and
next `indent_level`. -/
def webStepCore (lvl : Nat) (t : Text) : Text × Nat :=
  if t.isEmpty then ([], lvl)
  else if startsWith t (txt "//") || startsWith t (txt "(*") then (webIndent lvl ++ t, lvl)
  else
    let u := upperText t
    let lvl1 := if isDedentLine u && lvl > 0 then lvl - 1 else lvl
    (webIndent lvl1 ++ t, if isIndentLine u then lvl1 + 1 else lvl1)

def webStep (lvl : Nat) (raw : Text) : Text × Nat := webStepCore lvl (webCore raw)

def webLines : Nat → List Text → List Text
  | _, [] => []
  | lvl, raw :: rest => (webStep lvl raw).1 :: webLines (webStep lvl raw).2 rest

/-- `format_structured_text_document`. -/
def webFormat (s : Text) : Text :=
  let f := joinWith ['\n'] (webLines 0 (rustLines s))
  if !f.isEmpty && (endsWithNl s || !s.isEmpty) then f ++ ['\n'] else f

/-- Guard of web idempotence: no kept line ends in a carriage return (`"a\r\r\n"`: `lines()` strips only
one '\r', the formatter writes the other one back in front of its '\n', and the next run strips it). -/
def noStrayCR (s : Text) : Bool :=
  (rustLines s).all fun raw => (webCore raw).getLast? != some '\r'

/-- Guards that concern the web formatter and the text as a whole. -/
def webGuards (bd : Built) : List String :=
  (if noStrayCR bd.src then [] else ["web-stray-cr"]) ++
  (if bd.multiLineComment then ["multiline-comment"] else []) ++
  (if bd.exoticSpace then ["exotic-space-token"] else [])

end TrustVerif.C15
