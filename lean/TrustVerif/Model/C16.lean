import TrustVerif.Generated.C16Keywords

/-!
# C16 — model of `trust_ide::rename::rename` on a scope model of a Structured Text project

Mirrors, function by function (crates/trust-ide/src and crates/trust-hir/src):

* `ident.rs::is_valid_identifier`, `is_reserved_keyword` (table generated from the Rust source)   → `validIdent`, `reserved`
* `symbols/defs.rs::normalize_name`, `Scope::lookup_local`                                         → `norm`, `eqv`, `lookup`
* `symbols/table.rs::SymbolTable::resolve` (scope chain) on the table produced by
  `db/symbol_import.rs::import_table` (own globals first, then the root symbols of the other
  files in FileId order; configuration globals are not root symbols)                                → `chain`, `globalView`, `cands`, `resolveName`
* `util.rs::resolve_type_symbol`                                                                     → `resolveType`
* `references.rs::resolve_field_expr_member` / `field_expr_base_type` /
  `table.rs::resolve_member_symbol_in_type` / `find_references_to_field_in_context`                 → `resolveMember`
* `util.rs::resolve_target_at_position_with_context`                                                 → `target`
* `rename.rs::has_conflict` / `field_has_conflict` / `find_declaring_scope`                          → `conflict`
* `references.rs::find_references_to_symbol_across_project` / `find_type_references_across_project`
  / `find_references_to_field` / `declaration_reference`                                             → `refsTo`
* `references.rs::resolve_named_arg_parameter` (formal name of a named argument)                     → `resolveArg`
* `references.rs::resolve_program_config_task` / `resolve_program_config_type`                       → `resolveCTask`, `resolveCProg`
* `rename.rs::rename` / `rename_symbol` / `rename_field`                                             → `renameOcc`, `rename`

The text of a project is abstracted to its identifier occurrences: every occurrence carries the
number of non-identifier bytes that precede it (`pre`), so byte ranges are *derived* (`layout`) and
a rename only changes names.  `binding` is the reference semantics of an occurrence.  Formal names of
named arguments, `WITH task` and the program type of a program configuration are `Name` nodes (not
`NameRef`s); since the repair of C16-missed-arg / -ctask / -cprog the reference search scans `Arg` and
`ProgramConfig` nodes and reports them with the same resolution the analysis uses.
-/
namespace TrustVerif.C16

/-- An identifier as bytes. -/
abbrev Name := List Nat

/-- `u8::to_ascii_uppercase`. -/
def upper (b : Nat) : Nat := if 97 ≤ b ∧ b ≤ 122 then b - 32 else b

/-- `normalize_name` (symbols/defs.rs). -/
def norm (n : Name) : Name := n.map upper

/-- Case-insensitive identifier equality (`eq_ignore_ascii_case`, `normalize_name` keys). -/
def eqv (a b : Name) : Bool := norm a == norm b

/-! ## the validity gate -/

def isAlpha (b : Nat) : Bool := (65 ≤ b && b ≤ 90) || (97 ≤ b && b ≤ 122)
def isDigit (b : Nat) : Bool := 48 ≤ b && b ≤ 57
def isAlnum (b : Nat) : Bool := isAlpha b || isDigit b

/-- the loop of `is_valid_identifier`: only `[A-Za-z0-9_]`, no two consecutive underscores -/
def validBody : Bool → List Nat → Bool
  | _, [] => true
  | prevUnderscore, b :: bs =>
    if !(isAlnum b || b == 95) then false
    else if b == 95 then (if prevUnderscore then false else validBody true bs)
    else validBody false bs

/-- `trust_hir::is_valid_identifier`. -/
def validIdent (n : Name) : Bool :=
  match n with
  | [] => false
  | first :: _ =>
    if !(isAlpha first || first == 95) then false
    else if n.getLast? == some 95 then false
    else validBody false n

/-- `trust_hir::is_reserved_keyword` (table translated from ident.rs on every run). -/
def reserved (n : Name) : Bool := Generated.c16Keywords.contains (norm n)

/-! ## project structure -/

inductive DKind
  | var | param | func | fb | prog | method | stype | field | cfg | task | inst | enumval
  deriving DecidableEq, Repr, Inhabited

inductive OKind
  | decl | ref | typ | mem | arg | ctask | cprog | misc
  deriving DecidableEq, Repr, Inhabited

/-- A declaration (symbol, or struct field).  `scope = 0` is the GLOBAL scope of its file; every
other scope id is project-wide unique.  `tyocc` = index of the type-name occurrence of a variable
whose declared type is user-defined. -/
structure Decl where
  id : Nat
  file : Nat
  scope : Nat
  kind : DKind
  name : Name
  tyocc : Option Nat
  deriving DecidableEq, Repr, Inhabited

/-- An identifier occurrence.  `scope` is what `scope_at_position` computes for it (the scope of the
innermost enclosing POU, else GLOBAL).  `link`: the declaration id for `decl`, the base occurrence
for `mem`, the callee occurrence for `arg`, the configuration scope for `ctask`. -/
structure Occ where
  file : Nat
  pre : Nat
  name : Name
  scope : Nat
  kind : OKind
  link : Option Nat
  deriving DecidableEq, Repr, Inhabited

/-- Scope `i+1` is `scopes[i]`; `owner` = declaration id of the owning POU / configuration / struct. -/
structure Scope where
  parent : Nat
  owner : Nat
  deriving DecidableEq, Repr, Inhabited

structure Project where
  /-- bytes after the last identifier of each file -/
  tails : List Nat
  scopes : List Scope
  decls : List Decl
  occs : List Occ
  deriving DecidableEq, Repr, Inhabited

/-- SymbolKind::{Type, FunctionBlock, Class, Interface} (`is_type_symbol_kind`, `Symbol::is_type`). -/
def isType (k : DKind) : Bool := k == .fb || k == .stype

/-! ## resolution -/

/-- `Scope::lookup_local` over an ordered candidate list: first declaration whose name matches. -/
def lookup (L : List Decl) (k : Name) : Option Decl := L.find? (fun c => eqv c.name k)

/-- Scope ids from `s` outwards, GLOBAL excluded (fuel = number of scopes + 1). -/
def chain (scopes : List Scope) : Nat → Nat → List Nat
  | 0, _ => []
  | fuel + 1, s =>
    if s = 0 then [] else
    match scopes[s - 1]? with
    | none => []
    | some sc => s :: chain scopes fuel sc.parent

def declsIn (P : Project) (s : Nat) : List Decl := P.decls.filter (fun c => c.scope == s)

/-- The GLOBAL scope of file `f` after `import_table`: own global declarations, then the root
symbols of the other files in file order (a name already present is not imported, which first-match
lookup reproduces).  VAR_GLOBAL variables of a CONFIGURATION are children of the configuration
symbol, hence not root symbols, hence not imported; the same holds for enum values (children of the
TYPE symbol).  `stype` stands for every TYPE declaration (struct, enum, alias). -/
def globalView (P : Project) (f : Nat) : List Decl :=
  P.decls.filter (fun c => c.scope == 0 && c.file == f) ++
  P.decls.filter (fun c => c.scope == 0 && c.file != f && c.kind != .var && c.kind != .enumval)

/-- All declarations `SymbolTable::resolve(name, s)` can see from scope `s` of file `f`, in lookup order. -/
def cands (P : Project) (f s : Nat) : List Decl :=
  (chain P.scopes (P.scopes.length + 1) s).flatMap (declsIn P) ++ globalView P f

/-- `symbols.resolve(ref_name, scope_at_position(..))`. -/
def resolveName (P : Project) (o : Occ) : Option Decl := lookup (cands P o.file o.scope) o.name

/-- the `lookup_type` fallback of `resolve_type_symbol`: the type symbol of that name in the merged table -/
def typeFallback (P : Project) (o : Occ) : Option Decl :=
  (lookup (globalView P o.file) o.name).filter (fun c => isType c.kind)

/-- `util.rs::resolve_type_symbol` for a single-part name. -/
def resolveType (P : Project) (o : Occ) : Option Decl :=
  match resolveName P o with
  | some c => if isType c.kind then some c else typeFallback P o
  | none => typeFallback P o

/-- scope owned by declaration `d` (`scope_for_owner`; for a struct: its field list) -/
def scopeOwnedBy (P : Project) (d : Nat) : Option Nat :=
  (P.scopes.findIdx? (fun sc => sc.owner == d)).map (· + 1)

/-- the user-defined type of a variable / parameter declaration -/
def typeOfDecl (P : Project) (v : Decl) : Option Decl :=
  match v.tyocc with
  | none => none
  | some ti =>
    match P.occs[ti]? with
    | none => none
    | some t => resolveType P t

/-- members of a type: symbols whose parent is the FB (`resolve_member_symbol_in_hierarchy`), or the
fields of a struct (`resolve_struct_field`) -/
def membersOf (P : Project) (T : Decl) : List Decl :=
  match scopeOwnedBy P T.id with
  | none => []
  | some s => declsIn P s

def isVarLike (k : DKind) : Bool := k == .var || k == .param

/-- the member list consulted for `b.x`: the members of the declared type of the variable `b` resolves to -/
def memberList (P : Project) (b : Occ) : List Decl :=
  match resolveName P b with
  | none => []
  | some v =>
    if !isVarLike v.kind then [] else
    match typeOfDecl P v with
    | none => []
    | some T => membersOf P T

/-- member lookup `name` in the declared type of what `b` resolves to -/
def memberVia (P : Project) (b : Occ) (name : Name) : Option Decl := lookup (memberList P b) name

/-- the base occurrence of a member access -/
def baseOf (P : Project) (o : Occ) : Option Occ :=
  match o.link with
  | none => none
  | some bi => P.occs[bi]?

/-- `references.rs::resolve_field_expr_member` / field access matching of `find_references_to_field`. -/
def resolveMember (P : Project) (o : Occ) : Option Decl :=
  match baseOf P o with
  | none => none
  | some b => memberVia P b o.name

/-- what the callee occurrence of a call denotes -/
def resolveCallee (P : Project) (c : Occ) : Option Decl :=
  if c.kind == .mem then resolveMember P c else resolveName P c

/-- the parameters a named argument of the call with callee occurrence `c` can name
(`type_check/calls/resolve.rs::resolve_call_target` + `callable_parameters`, mirrored by
`references.rs::resolve_named_arg_parameter`): a FUNCTION, METHOD or FUNCTION_BLOCK symbol owns its
parameters itself, anything else is an instance whose declared type must be a function block; the
parameters are the `Parameter` children of the owner (VAR_INPUT / VAR_OUTPUT / VAR_IN_OUT). -/
def paramList (P : Project) (c : Occ) : List Decl :=
  match resolveCallee P c with
  | none => []
  | some callee =>
    let owner := if callee.kind == .func || callee.kind == .method || callee.kind == .fb then some callee
                 else typeOfDecl P callee
    match owner with
    | none => []
    | some ow => (membersOf P ow).filter (fun c => c.kind == .param)

/-- `references.rs::resolve_named_arg_parameter`: the parameter the formal name of a named argument
denotes (`f(p := x)`, `fb(p := x, q => y)`, `inst.m(p := x)`). -/
def resolveArg (P : Project) (o : Occ) : Option Decl :=
  match baseOf P o with
  | none => none
  | some c => lookup (paramList P c) o.name

/-- `references.rs::resolve_program_config_task` (and `check_scope_tasks_and_programs`): the TASK of
that name declared in the same CONFIGURATION as the program instance (`link` = the configuration scope). -/
def resolveCTask (P : Project) (o : Occ) : Option Decl :=
  lookup ((declsIn P (o.link.getD 0)).filter (fun c => c.kind == .task)) o.name

/-- `references.rs::resolve_program_config_type` (and `resolve_program_type`): the global symbol of that
name in the merged table, if it is a PROGRAM. -/
def resolveCProg (P : Project) (o : Occ) : Option Decl :=
  (lookup (globalView P o.file) o.name).filter (fun c => c.kind == .prog)

def declById (P : Project) (i : Nat) : Option Decl := P.decls.find? (fun c => c.id == i)

/-- **Reference semantics**: the declaration an occurrence denotes. -/
def binding (P : Project) (o : Occ) : Option Decl :=
  match o.kind with
  | .decl => o.link.bind (declById P)
  | .ref => resolveName P o
  | .typ => resolveType P o
  | .mem => resolveMember P o
  | .arg => resolveArg P o
  | .ctask => resolveCTask P o
  | .cprog => resolveCProg P o
  | .misc => none

/-- Is occurrence `o` the base of a field expression (`b.x`)? -/
def isBase (P : Project) (o : Occ) : Bool :=
  P.occs.any (fun m => m.kind == .mem && (match m.link with | some bi => P.occs[bi]? == some o | none => false))

def orElse {α} (a b : Option α) : Option α := match a with | some x => some x | none => b

/-- `util.rs::resolve_target_at_position_with_context`: the symbol (or struct field) a rename at
occurrence `o` operates on.  Step 2 (declaration range), `resolve_field_target` (which for the BASE
of `b.x` first looks for a member called `b` in the type of `b`), `is_type_name_node`, then the
fallbacks `symbols.resolve(name, scope)` and the type lookups. -/
def target (P : Project) (o : Occ) : Option Decl :=
  match o.kind with
  | .decl => o.link.bind (declById P)
  | .typ => orElse (resolveType P o) (resolveName P o)
  | .mem => orElse (resolveMember P o) (orElse (resolveName P o) (typeFallback P o))
  | .ref =>
    orElse (if isBase P o then memberVia P o o.name else none)
      (orElse (resolveName P o) (typeFallback P o))
  | _ => orElse (resolveName P o) (typeFallback P o)

/-- `has_conflict` / `field_has_conflict`: only the declaring scope, and only in the single-file
table of the file the request came from (an imported symbol id is unknown there ⇒ no check). -/
def conflict (P : Project) (reqFile : Nat) (d : Decl) (n : Name) : Bool :=
  d.file == reqFile &&
  P.decls.any (fun c => c.id != d.id && c.file == d.file && c.scope == d.scope && eqv c.name n)

/-- Does the implementation report occurrence `o` as a reference to `d` (declaration included)?
Non-type symbols: NameRef nodes, FieldExpr members, the formal names of named arguments (`Name` under
`Arg`) and the task / program type names of program configurations (`Name`s under `ProgramConfig`);
type symbols: names inside TypeRef; struct fields: field declarations and FieldExpr members. -/
def refsTo (P : Project) (d : Decl) (o : Occ) : Bool :=
  match o.kind with
  | .decl => o.link == some d.id
  | .ref => !isType d.kind && (resolveName P o).map (·.id) == some d.id
  | .typ => isType d.kind && (resolveType P o).map (·.id) == some d.id
  | .mem => !isType d.kind && (resolveMember P o).map (·.id) == some d.id
  | .arg => !isType d.kind && (resolveArg P o).map (·.id) == some d.id
  | .ctask => !isType d.kind && (resolveCTask P o).map (·.id) == some d.id
  | .cprog => !isType d.kind && (resolveCProg P o).map (·.id) == some d.id
  | .misc => false

/-! ## the guards of the partial theorems (all decidable, all evaluated by the driver) -/

/-- The candidate list searched by the last lookup of `binding P o` (the earlier lookups belong to the
base / callee / type-name occurrences and are accounted for there). -/
def finalList (P : Project) (o : Occ) : List Decl :=
  match o.kind with
  | .decl => []
  | .ref => cands P o.file o.scope
  | .typ => globalView P o.file
  | .mem => (match baseOf P o with | none => [] | some b => memberList P b)
  | .arg => (match baseOf P o with | none => [] | some c => paramList P c)
  | .ctask => (declsIn P (o.link.getD 0)).filter (fun c => c.kind == .task)
  | .cprog => globalView P o.file
  | .misc => []

/-- Renaming `d` to `n` leaves the answer of the lookup `(L, k)` unchanged.  `edited` = the occurrence
that asks is itself renamed.  An edited occurrence must still reach `d` first (nothing called `n` before
`d`: no capture); an unedited occurrence called `n` must not meet `d` before its own answer (no shadowing). -/
def stableQ (d : Decl) (n : Name) (L : List Decl) (k : Name) (edited : Bool) : Bool :=
  if eqv n d.name then true
  else if edited then (L.takeWhile (fun c => c != d)).all (fun c => !eqv c.name n)
  else if eqv k n then (L.takeWhile (fun c => !eqv c.name k)).all (fun c => c != d)
  else true

/-- **NoClash**: no lookup of any occurrence is disturbed by giving `d` the name `n`. -/
def noClash (P : Project) (d : Decl) (n : Name) : Bool :=
  P.occs.all (fun o => stableQ d n (finalList P o) o.name (refsTo P d o))

/-- **NoBlind**: every occurrence whose lookup finds `d` is one the implementation reports as a
reference.  Since named arguments and program configurations are scanned (`c16_reference_search_complete`)
this only excludes a name reference (NameRef) that denotes a TYPE symbol, and type-name / program-type
occurrences whose global lookup finds a symbol of the wrong kind (unresolved names: not error-free). -/
def noBlind (P : Project) (d : Decl) : Bool :=
  P.occs.all (fun o => lookup (finalList P o) o.name != some d || refsTo P d o)

/-- structural well-formedness of a project description (checked by the driver for every case) -/
def wf (P : Project) : Bool :=
  -- declaration ids are the list positions
  P.decls.map (·.id) == List.range P.decls.length &&
  -- type symbols live in the GLOBAL scope only
  P.decls.all (fun c => !isType c.kind || c.scope == 0) &&
  -- a member access hangs off a name reference, a named argument off a name reference or a member access
  P.occs.all (fun o =>
    (o.kind != .mem || (match baseOf P o with | some b => b.kind == .ref | none => true)) &&
    (o.kind != .arg || (match baseOf P o with | some c => c.kind == .ref || c.kind == .mem | none => true))) &&
  -- the declared type of a variable is a type-name occurrence
  P.decls.all (fun v => match v.tyocc with
    | none => true
    | some ti => (match P.occs[ti]? with | some t => t.kind == .typ | none => true))

/-- no two declarations of one scope of one file share a name (an error-free project has no duplicates) -/
def noDupScope (P : Project) : Bool :=
  P.decls.all (fun a => P.decls.all (fun b => a == b || !(a.file == b.file && a.scope == b.scope && eqv a.name b.name)))

/-- name-free view of a project: the structure with every occurrence replaced by the id it denotes -/
def erase (P : Project) : List (OKind × Option Nat) := P.occs.map (fun o => (o.kind, (binding P o).map (·.id)))

/-! ## text layout -/

structure Edit where
  file : Nat
  start : Nat
  stop : Nat
  deriving DecidableEq, Repr, Inhabited

def updOff (offs : Nat → Nat) (f e : Nat) : Nat → Nat := fun g => if g = f then e else offs g

/-- byte range of every occurrence, derived from the gaps -/
def layoutAux : (Nat → Nat) → List Occ → List (Occ × Edit)
  | _, [] => []
  | offs, o :: os =>
    let s := offs o.file + o.pre
    let e := s + o.name.length
    (o, ⟨o.file, s, e⟩) :: layoutAux (updOff offs o.file e) os

def layout (P : Project) : List (Occ × Edit) := layoutAux (fun _ => 0) P.occs

def endOffs : (Nat → Nat) → List Occ → (Nat → Nat)
  | offs, [] => offs
  | offs, o :: os => endOffs (updOff offs o.file (offs o.file + o.pre + o.name.length)) os

/-- length of file `f` -/
def fileLen (P : Project) (f : Nat) : Nat := endOffs (fun _ => 0) P.occs f + P.tails.getD f 0

/-- `ident_at_offset`: the identifier token containing the offset -/
def occAt (P : Project) (f off : Nat) : Option Occ :=
  ((layout P).find? (fun p => p.2.file == f && p.2.start ≤ off && off < p.2.stop)).map (·.1)

/-! ## rename -/

def renameDecl (d : Decl) (n : Name) (c : Decl) : Decl := if c.id == d.id then { c with name := n } else c
def renameOccName (P : Project) (d : Decl) (n : Name) (o : Occ) : Occ :=
  if refsTo P d o then { o with name := n } else o

/-- the project after applying the edits -/
def applyRename (P : Project) (d : Decl) (n : Name) : Project :=
  { P with decls := P.decls.map (renameDecl d n), occs := P.occs.map (renameOccName P d n) }

/-- `rename.rs::rename` for a request at occurrence `o`: `none` = refused. -/
def renameTarget (P : Project) (o : Occ) (n : Name) : Option Decl :=
  match target P o with
  | none => none
  | some d =>
    if !validIdent n || reserved n then none
    else if conflict P o.file d n then none
    else some d

def renameOcc (P : Project) (o : Occ) (n : Name) : Option Project :=
  (renameTarget P o n).map (fun d => applyRename P d n)

/-- the edit list of an accepted rename (sorted by file-major position as the occurrences are) -/
def editsFor (P : Project) (d : Decl) : List Edit :=
  ((layout P).filter (fun p => refsTo P d p.1)).map (·.2)

/-- `rename(db, file, offset, new_name)`: refusal or the edit list. -/
def rename (P : Project) (f off : Nat) (n : Name) : Option (List Edit) :=
  match occAt P f off with
  | none => none
  | some o => (renameTarget P o n).map (editsFor P)

/-! ## classification of what an accepted rename does to the bindings (executable, used by the
check to tell the recorded defects from anything else) -/

def isPouKind (k : DKind) : Bool := k == .prog || k == .func || k == .fb || k == .method

def bindingId (P : Project) (o : Occ) : Option Nat := (binding P o).map (·.id)

/-- Does every occurrence keep its binding when `d` is renamed to `n`? -/
def bindingsKept (P : Project) (d : Decl) (n : Name) : Bool :=
  P.occs.all (fun o => bindingId (applyRename P d n) (renameOccName P d n o) == bindingId P o)

/-- the kinds of damage an accepted rename of `d` to `n` does (empty = every binding kept) -/
def damage (P : Project) (d : Decl) (n : Name) : List String :=
  let P' := applyRename P d n
  let changed := P.occs.filter (fun o => bindingId P' (renameOccName P d n o) != bindingId P o)
  let cls (o : Occ) : String := if refsTo P d o then "capture" else "shadow"
  (changed.map cls).eraseDups

/-- after the rename two POU-kind symbols share a name (`util.rs::scope_for_pou` finds POU scopes by name) -/
def pouDup (P : Project) (d : Decl) (n : Name) : Bool :=
  isPouKind d.kind && P.decls.any (fun c => c.id != d.id && isPouKind c.kind && eqv c.name n)

/-- The runtime keeps program instances in its global variable table, while the analysis declares them
in the CONFIGURATION scope: a global symbol and a program instance with the same name collide at run time. -/
def instClash (P : Project) (d : Decl) (n : Name) : Bool :=
  (d.scope == 0 && P.decls.any (fun c => c.kind == .inst && (eqv c.name n || eqv c.name d.name))) ||
  (d.kind == .inst && P.decls.any (fun c => c.scope == 0 && c.id != d.id && (eqv c.name n || eqv c.name d.name)))

/-- After the rename another file declares a global symbol of the same name: the analysis of each file
stays consistent (own symbols win over imported ones, no occurrence changes its binding) but the project
now has two POUs / types / globals of one name, which the compiler rejects. -/
def xfileDup (P : Project) (d : Decl) (n : Name) : Bool :=
  d.scope == 0 && P.decls.any (fun c => c.scope == 0 && c.file != d.file && eqv c.name n)

/-- The declaring scope already has the new name but the request came from another file, where
`has_conflict` / `field_has_conflict` cannot see the symbol (imported symbol ids and type ids are
unknown to the requesting file's single-file table): the rename is accepted and creates a duplicate
declaration. -/
def skippedConflict (P : Project) (reqFile : Nat) (d : Decl) (n : Name) : Bool :=
  d.file != reqFile && conflict P d.file d n

/-- indices of type-name occurrences whose plain scope lookup finds a non-type symbol (a variable
named like the type): `resolve_type_symbol` falls back to the type table, the unused-symbol pass does not -/
def typeShadowed (P : Project) : List Nat :=
  (List.range P.occs.length).filter (fun i =>
    match P.occs[i]? with
    | some o => o.kind == .typ && (match resolveName P o with | some c => !isType c.kind | none => false)
    | none => false)

/-- standard-function names the case generator uses as new names -/
def stdFns : List Name := [[65, 66, 83]]  -- ABS

/-- Some reference resolves (by the analysis) to an FB instance variable while a FUNCTION of the same
name exists in the project: the runtime's call dispatch looks functions up first, so the program does
not run as analysed and run-time behaviour is no evidence about the rename. -/
def fnShadow (P : Project) : Bool :=
  P.occs.any (fun o => o.kind == .ref &&
    (match resolveName P o with
     | some v => isVarLike v.kind && (match typeOfDecl P v with | some T => T.kind == .fb | none => false) &&
                 (P.decls.any (fun c => c.kind == .func && eqv c.name o.name) || stdFns.any (eqv o.name))
     | none => false))

/-- A POU body refers to a configuration global while a variable of the same name is local to some
other POU: the runtime looks a name up in the calling instance before the globals (dynamic scoping),
so the program may not run as analysed. -/
def dynScope (P : Project) : Bool :=
  P.occs.any (fun o => o.kind == .ref && o.scope != 0 &&
    (match resolveName P o with
     | some g => g.kind == .var && g.scope == 0 &&
        P.decls.any (fun c => isVarLike c.kind && c.scope != 0 && eqv c.name g.name)
     | none => false))

/-- Two declarations of different files have the same name and the same byte range: the analysis'
`find_symbol_by_name_range` (trust-hir, db/diagnostics/context.rs) compares name and range without the
file, so it may pick the imported symbol and type-check a POU body in the wrong scope. -/
def rangeAlias (P : Project) : Bool :=
  let ds := (layout P).filter (fun p => p.1.kind == .decl)
  -- `find_symbol_by_name_range` is asked for the name token of a POU node, so one of the two is a POU
  let isPou (o : Occ) : Bool := match o.link.bind (declById P) with | some c => isPouKind c.kind | none => false
  ds.any (fun a => isPou a.1 && ds.any (fun b => a.2.file != b.2.file && a.2.start == b.2.start && a.2.stop == b.2.stop &&
    eqv a.1.name b.1.name))

/-- Number of ordered pairs of same-named VARIABLE / parameter declarations of different files that sit at
the same byte range (template twins).  The analysis (trust-hir, not rename) then drops the
`ImplicitConversion` warning of assignments to such a variable in both files; a rename that changes
the length of an identifier in front of one of them ends the coincidence and the warnings appear (or
the reverse).  The check tolerates exactly that diagnostic when this number changes. -/
def varAlias (P : Project) : Nat :=
  let ds := (layout P).filter (fun p => p.1.kind == .decl &&
    (match p.1.link.bind (declById P) with | some c => isVarLike c.kind | none => false))
  (ds.map (fun a => (ds.filter (fun b => a.2.file != b.2.file && a.2.start == b.2.start && a.2.stop == b.2.stop &&
    eqv a.1.name b.1.name)).length)).sum

/-- A struct-field rename searches member accesses of every file by comparing raw TypeIds that belong
to different per-file symbol tables (`find_references_to_field_in_context`): a member access of the
same name on another type may be rewritten too.  The model does not predict that; the region is:
`d` is a struct field and some member access with the searched name (old name now, new name when
renaming back) denotes something else. -/
def fieldX (P : Project) (d : Decl) (n : Name) : Bool :=
  d.kind == .field &&
  P.occs.any (fun o => o.kind == .mem && (eqv o.name d.name || eqv o.name n) && bindingId P o != some d.id)

/-- number of occurrences bound to `d` that the implementation does not report as references -/
def blindRefs (P : Project) (d : Decl) : Nat :=
  (P.occs.filter (fun o => bindingId P o == some d.id && !refsTo P d o)).length

/-- all edited occurrences are spelled exactly like the declaration -/
def uniform (P : Project) (d : Decl) : Bool :=
  P.occs.all (fun o => !refsTo P d o || o.name == d.name)

end TrustVerif.C16
