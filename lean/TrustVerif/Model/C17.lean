import TrustVerif.Generated.C17Allow

/-
Model of the debugger monitor of trust-runtime (property C17).

Mirrors, function by function:
  crates/trust-runtime/src/debug/control.rs      `DebugState`, `DebugControl::new`, `apply_action`,
                                                 `set_breakpoints_for_file`, `clear_breakpoints`,
                                                 `pause_entry`, `set_current_thread`,
                                                 `on_statement_inner`, `emit_stop`
  crates/trust-runtime/src/debug/breakpoints.rs  `matches_breakpoint`
  crates/trust-runtime/src/debug/types.rs        `HitCondition::is_met`
  crates/trust-runtime/src/runtime/cycle.rs      the cycle-boundary section that applies queued writes
  crates/trust-debug/src/adapter/stop.rs         `StopCoordinator::should_emit_stop` (second layer)
  crates/trust-debug/src/adapter/handlers/run_control.rs  `handle_pause`, `handle_continue`

The monitor is a labelled transition system (`Sys`, `step`) whose atomic steps are the
mutex-protected sections of the Rust code: one call of `on_statement_inner` up to its first
`cvar.wait` (or its return), one wake-up of the waiting thread (one iteration of the wait loop),
one controller call (`apply_action`, `set_breakpoints_for_file`, ...).

Import-free (core Lean only) so that the driver links as a `lean_exe`.
-/
namespace TrustVerif.C17

/-! ## Data (debug/types.rs, debug/control.rs) -/

/-- `DebugMode`. -/
inductive Mode | running | paused
deriving DecidableEq, Repr

/-- `DebugStopReason`. -/
inductive Reason | breakpoint | step | pause | entry
deriving DecidableEq, Repr

/-- `StepKind`. -/
inductive StepKind | into | over | out
deriving DecidableEq, Repr

/-- `StepState`. -/
structure StepState where
  kind : StepKind
  targetDepth : Nat
  started : Bool
deriving DecidableEq, Repr

/-- `SourceLocation` (`file_id`, `start`, `end`). -/
structure Loc where
  file : Nat
  start : Nat
  stop : Nat
deriving DecidableEq, Repr

/-- `HitCondition`. -/
inductive HitCond
  | eq (n : Nat)
  | ge (n : Nat)
  | gt (n : Nat)
deriving DecidableEq, Repr

/-- `HitCondition::is_met`. -/
def HitCond.isMet : HitCond → Nat → Bool
  | .eq n, hits => hits == n
  | .ge n, hits => decide (hits ≥ n)
  | .gt n, hits => decide (hits > n)

/-- `DebugBreakpoint`.  `cond` abstracts `condition: Option<Expr>`: `some b` = there is a condition
and it evaluates to `b` whenever an evaluation context is available; `isLog` = `log_message.is_some()`.
`hits`/`generation` are `u64` with saturating increments in Rust; the model uses `Nat` (the two
differ only after 2^64 increments). -/
structure Bp where
  loc : Loc
  cond : Option Bool
  hitCond : Option HitCond
  isLog : Bool
  hits : Nat
  gen : Nat
deriving DecidableEq, Repr

/-- `DebugStop`. -/
structure Stop where
  reason : Reason
  loc : Option Loc
  thread : Option Nat
  gen : Option Nat
deriving DecidableEq, Repr

/-- `ControlAction`. -/
inductive Action
  | pause (thread : Option Nat)
  | continue_
  | stepIn (thread : Option Nat)
  | stepOver (thread : Option Nat)
  | stepOut (thread : Option Nat)
deriving DecidableEq, Repr

/-- `ControlOutcome`. -/
inductive Outcome | applied | ignored
deriving DecidableEq, Repr

/-! ## Small association lists standing for the `HashMap`s of `DebugState` -/

def alookup {β : Type} : List (Nat × β) → Nat → Option β
  | [], _ => none
  | (k, v) :: rest, key => if k = key then some v else alookup rest key

def ainsert {β : Type} : List (Nat × β) → Nat → β → List (Nat × β)
  | [], key, v => [(key, v)]
  | (k, w) :: rest, key, v => if k = key then (k, v) :: rest else (k, w) :: ainsert rest key v

def aerase {β : Type} : List (Nat × β) → Nat → List (Nat × β)
  | [], _ => []
  | (k, w) :: rest, key => if k = key then aerase rest key else (k, w) :: aerase rest key

def acontains {β : Type} (m : List (Nat × β)) (key : Nat) : Bool := (alookup m key).isSome

/-- The property-relevant part of `DebugState`.  `stops` is the cumulative log of everything
`emit_stop` produced (the Rust field is drained by the observer; the stop channel sees the same
sequence).  `logs` counts emitted log lines. -/
structure DState where
  mode : Mode := .running
  lastLocation : Option Loc := none
  lastCallDepth : Nat := 0
  lastCallDepths : List (Nat × Nat) := []
  currentThread : Option Nat := some 1
  targetThread : Option Nat := none
  breakpoints : List Bp := []
  bpGeneration : List (Nat × Nat) := []
  pendingStop : Option Reason := none
  stops : List Stop := []
  lastStop : Option Stop := none
  steps : List (Nat × StepState) := []
  logs : Nat := 0
deriving DecidableEq, Repr

/-- `DebugControl::new`. -/
def DState.init : DState := {}

/-! ## Controller side -/

/-- `target_thread.and_then(|id| last_call_depths.get(&id).copied()).unwrap_or(last_call_depth)`. -/
def stepTargetDepth (d : DState) (target : Option Nat) : Nat :=
  match target with
  | some id => (alookup d.lastCallDepths id).getD d.lastCallDepth
  | none => d.lastCallDepth

/-- `thread_id.or(state.current_thread)`. -/
def orCurrent (d : DState) (thread : Option Nat) : Option Nat :=
  match thread with
  | some t => some t
  | none => d.currentThread

/-- The common tail of the three step arms of `apply_action`. -/
def armStep (d : DState) (thread : Option Nat) (kind : StepKind) (depth : Nat) (started : Bool) : DState :=
  let target := orCurrent d thread
  let key := target.getD 0
  { d with steps := [(key, { kind := kind, targetDepth := depth, started := started })],
           mode := .running, pendingStop := none, targetThread := target }

/-- `DebugControl::apply_action`: new state, outcome, and whether `cvar.notify_all()` is called
(inside the same critical section). -/
def applyAction (d : DState) (a : Action) : DState × Outcome × Bool :=
  let stepStarted := d.mode == .paused
  match a with
  | .pause thread =>
    if d.mode == .paused then (d, .ignored, false)
    else ({ d with mode := .paused, steps := [], pendingStop := some .pause, targetThread := thread },
          .applied, false)
  | .continue_ =>
    ({ d with mode := .running, steps := [], pendingStop := none, targetThread := none }, .applied, true)
  | .stepIn thread =>
    (armStep d thread .into d.lastCallDepth stepStarted, .applied, true)
  | .stepOver thread =>
    let target := orCurrent d thread
    (armStep d thread .over (stepTargetDepth d target) stepStarted, .applied, true)
  | .stepOut thread =>
    let target := orCurrent d thread
    (armStep d thread .out (stepTargetDepth d target - 1) stepStarted, .applied, true)

/-- `DebugControl::pause_entry`. -/
def pauseEntry (d : DState) : DState :=
  if d.mode == .paused then d
  else { d with mode := .paused, steps := [], pendingStop := some .entry, targetThread := none }

/-- `DebugControl::set_breakpoints_for_file`. -/
def setBreakpointsForFile (d : DState) (file : Nat) (bps : List Bp) : DState :=
  let generation := (alookup d.bpGeneration file).getD 0 + 1
  { d with bpGeneration := ainsert d.bpGeneration file generation,
           breakpoints := d.breakpoints.filter (fun bp => bp.loc.file != file)
                          ++ bps.map (fun bp => { bp with gen := generation }) }

/-- `DebugControl::clear_breakpoints`. -/
def clearBreakpoints (d : DState) : DState :=
  { d with breakpoints := [], bpGeneration := [] }

/-- `DebugControl::set_current_thread`. -/
def setCurrentThread (d : DState) (t : Option Nat) : DState := { d with currentThread := t }

/-! ## Runtime side: the statement hook -/

/-- What the body of the `for breakpoint in breakpoints.iter_mut()` loop of `matches_breakpoint`
does with one breakpoint: `skip` = other file or no overlap (`continue` before the hit counter),
`miss` = counted, but the hit condition or the condition fails (a condition without an evaluation
context fails), `log` = logpoint (`continue`), `pause` = `return Some(generation)`. -/
inductive BpOutcome | skip | miss | log | pause
deriving DecidableEq, Repr

def bpOutcome (bp : Bp) (loc : Loc) (ctx : Bool) : BpOutcome :=
  if bp.loc.file != loc.file then .skip
  else if !(decide (loc.start < bp.loc.stop) && decide (bp.loc.start < loc.stop)) then .skip
  else if !(match bp.hitCond with | some hc => hc.isMet (bp.hits + 1) | none => true) then .miss
  else if !(match bp.cond with | some c => ctx && c | none => true) then .miss
  else if bp.isLog then .log else .pause

/-- `matches_breakpoint`: updated breakpoints (hit counters), number of log lines produced,
generation of the breakpoint that pauses (the loop returns at the first one). -/
def matchBps : List Bp → Loc → Bool → List Bp × Nat × Option Nat
  | [], _, _ => ([], 0, none)
  | bp :: rest, loc, ctx =>
    match bpOutcome bp loc ctx with
    | .skip => let r := matchBps rest loc ctx; (bp :: r.1, r.2.1, r.2.2)
    | .miss => let r := matchBps rest loc ctx; ({ bp with hits := bp.hits + 1 } :: r.1, r.2.1, r.2.2)
    | .log =>
      let r := matchBps rest loc ctx
      ({ bp with hits := bp.hits + 1 } :: r.1, r.2.1 + (if ctx then 1 else 0), r.2.2)
    | .pause => ({ bp with hits := bp.hits + 1 } :: rest, 0, some bp.gen)

/-- `target_thread.is_none() || target_thread == current_thread`. -/
def isTarget (d : DState) : Bool := d.targetThread.isNone || d.targetThread == d.currentThread

/-- `emit_stop`. -/
def emitStop (d : DState) (r : Reason) (loc : Option Loc) (gen : Option Nat) : DState :=
  let st : Stop := { reason := r, loc := loc, thread := d.currentThread, gen := gen }
  { d with lastStop := some st, stops := d.stops ++ [st] }

/-- `if Paused && is_target_thread { if let Some(reason) = pending_stop.take() { emit_stop } }`
(occurs twice in `on_statement_inner`). -/
def consumePending (d : DState) (tgt : Bool) (loc : Option Loc) : DState :=
  if d.mode == .paused && tgt then
    match d.pendingStop with
    | some r => emitStop { d with pendingStop := none } r loc none
    | none => d
  else d

/-- `current_thread.filter(|id| steps.contains_key(id)).or_else(|| steps.contains_key(&0).then_some(0))`. -/
def stepKey (d : DState) : Option Nat :=
  match d.currentThread with
  | some id => if acontains d.steps id then some id
               else if acontains d.steps 0 then some 0 else none
  | none => if acontains d.steps 0 then some 0 else none

/-- `should_pause = match step.kind { Into => true, Over | Out => call_depth <= step.target_depth }`. -/
def StepState.pausesAt (st : StepState) (depth : Nat) : Bool :=
  match st.kind with
  | .into => true
  | .over => decide (depth ≤ st.targetDepth)
  | .out => decide (depth ≤ st.targetDepth)

/-- The step part of the `Running` block: arm an unstarted step, or decide whether a started one
pauses here (and remove it).  Returns the new state and `should_pause`. -/
def stepCheck (d : DState) (depth : Nat) : DState × Bool :=
  match stepKey d with
  | none => (d, false)
  | some k =>
    match alookup d.steps k with
    | none => (d, false)
    | some st =>
      if !st.started then
        ({ d with steps := ainsert d.steps k { st with started := true } }, false)
      else if st.pausesAt depth then ({ d with steps := aerase d.steps k }, true)
      else (d, false)

/-- The `if !should_pause { matches_breakpoint ... }` part of the `Running` block together with
the resulting `if should_pause { mode = Paused; pending_stop = None; emit_stop(Breakpoint) }`. -/
def bpBlock (d : DState) (loc : Loc) (ctx : Bool) : DState :=
  let m := matchBps d.breakpoints loc ctx
  let d2 := { d with breakpoints := m.1, logs := d.logs + m.2.1 }
  match m.2.2 with
  | some g =>
    emitStop { d2 with steps := [], targetThread := none, mode := .paused, pendingStop := none }
      .breakpoint (some loc) (some g)
  | none => d2

/-- The `if let (DebugMode::Running, Some(location)) = (effective_mode, location)` block. -/
def runningBlock (d : DState) (tgt : Bool) (loc : Loc) (depth : Nat) (ctx : Bool) : DState :=
  let r := if tgt then stepCheck d depth else (d, false)
  if r.2 then
    emitStop { r.1 with mode := .paused, pendingStop := none } .step (some loc) none
  else bpBlock r.1 loc ctx

/-- The bookkeeping at the top of `on_statement_inner` (`last_location`, `last_call_depth`,
`last_call_depths[current_thread]`). -/
def recordHook (d : DState) (loc : Option Loc) (depth : Nat) : DState :=
  { d with lastLocation := loc, lastCallDepth := depth,
           lastCallDepths := match d.currentThread with
             | some t => ainsert d.lastCallDepths t depth
             | none => d.lastCallDepths }

/-- `on_statement_inner` after the bookkeeping, up to (not including) the wait loop; `tgt` is the
value of `is_target_thread` computed once at the top. -/
def hookBody (d1 : DState) (tgt : Bool) (loc : Option Loc) (depth : Nat) (ctx : Bool) : DState :=
  let d2 := consumePending d1 tgt loc
  let eff := if tgt then d2.mode else .running
  match eff, loc with
  | .running, some l => runningBlock d2 tgt l depth ctx
  | _, _ => d2

/-- `on_statement_inner` from the lock acquisition up to (not including) the wait loop. -/
def hookEntry (d : DState) (loc : Option Loc) (depth : Nat) (ctx : Bool) : DState :=
  hookBody (recordHook d loc depth) (isTarget (recordHook d loc depth)) loc depth ctx

/-- One iteration of the wait loop of `on_statement_inner`: the new state and whether the hook
returns (`true`) or calls `cvar.wait` (`false`). -/
def hookLoop (d : DState) (loc : Option Loc) : DState × Bool :=
  let tgt := isTarget d
  let d1 := consumePending d tgt loc
  match d1.mode with
  | .running => (d1, true)
  | .paused => if !tgt then (d1, true) else (d1, false)

/-- `on_statement_inner` up to its return or its first wait. -/
def onStatement (d : DState) (loc : Option Loc) (depth : Nat) (ctx : Bool) : DState × Bool :=
  hookLoop (hookEntry d loc depth ctx) loc

/-! ## The transition system (runtime thread × controller) -/

/-- What the cycle thread does next (its own program order). -/
inductive Item
  /-- `exec_stmt`: hook call with the statement's location and `ctx.call_depth`, then the statement. -/
  | stmt (loc : Option Loc) (depth : Nat) (ctx : Bool)
  /-- `execute_task` / `execute_background_programs`: `set_current_thread`. -/
  | thread (t : Option Nat)
  /-- the head of `execute_cycle`: queued debugger writes are applied. -/
  | boundary
deriving DecidableEq, Repr

/-- Where the cycle thread is: outside the monitor, or blocked in `cvar.wait` inside the hook of
the statement with location `loc` (the lock is released). -/
inductive Rt
  | idle
  | waiting (loc : Option Loc)
deriving DecidableEq, Repr

/-- The program as seen by the monitor: the items the cycle thread executes, the effect of each
item on the program state `M`, and the effect of a user write `W`. -/
structure Prog (M W : Type) where
  item : Nat → Item
  exec : Nat → M → M
  applyW : W → M → M

/-- Global state: monitor state, cycle thread, program state and queued writes.  `notified` records
that `notify_all` was called since the cycle thread went to sleep. -/
structure Sys (M W : Type) where
  d : DState
  rt : Rt
  notified : Bool
  pc : Nat
  mem : M
  queue : List W

inductive Label (W : Type)
  /-- the cycle thread (when outside the monitor) performs its next item -/
  | run
  /-- the sleeping cycle thread wakes up (notified or spuriously) and runs one loop iteration -/
  | wake
  | act (a : Action)
  | pauseEntry
  | setBps (file : Nat) (bps : List Bp)
  | clearBps
  /-- `enqueue_*_write`: an explicit user write, queued -/
  | enqueue (w : W)

def Sys.init {M W : Type} (m0 : M) : Sys M W :=
  { d := DState.init, rt := .idle, notified := false, pc := 0, mem := m0, queue := [] }

/-- One atomic step.  A label that is not enabled in the state leaves it unchanged. -/
def step {M W : Type} (p : Prog M W) (s : Sys M W) : Label W → Sys M W
  | .run =>
    match s.rt with
    | .waiting _ => s
    | .idle =>
      match p.item s.pc with
      | .stmt loc depth ctx =>
        let r := onStatement s.d loc depth ctx
        if r.2 then { s with d := r.1, pc := s.pc + 1, mem := p.exec s.pc s.mem }
        else { s with d := r.1, rt := .waiting loc, notified := false }
      | .thread t => { s with d := setCurrentThread s.d t, pc := s.pc + 1 }
      | .boundary => { s with mem := s.queue.foldl (fun m w => p.applyW w m) s.mem, queue := [],
                              pc := s.pc + 1 }
  | .wake =>
    match s.rt with
    | .idle => s
    | .waiting loc =>
      let r := hookLoop s.d loc
      if r.2 then { s with d := r.1, rt := .idle, notified := false, pc := s.pc + 1,
                           mem := p.exec s.pc s.mem }
      else { s with d := r.1, notified := false }
  | .act a =>
    let r := applyAction s.d a
    { s with d := r.1, notified := s.notified || r.2.2 }
  | .pauseEntry => { s with d := pauseEntry s.d }
  | .setBps file bps => { s with d := setBreakpointsForFile s.d file bps }
  | .clearBps => { s with d := clearBreakpoints s.d }
  | .enqueue w => { s with queue := s.queue ++ [w] }

/-- Run a sequence of labels. -/
def exec {M W : Type} (p : Prog M W) (s : Sys M W) : List (Label W) → Sys M W
  | [] => s
  | l :: ls => exec p (step p s l) ls

/-- States reachable from the initial state by any interleaving. -/
inductive Reachable {M W : Type} (p : Prog M W) (m0 : M) : Sys M W → Prop
  | init : Reachable p m0 (Sys.init m0)
  | step {s : Sys M W} (l : Label W) : Reachable p m0 s → Reachable p m0 (step p s l)

/-- Program state of the undebugged run after `n` items (no writes are ever queued). -/
def undebugged {M W : Type} (p : Prog M W) (m0 : M) : Nat → M
  | 0 => m0
  | n + 1 =>
    match p.item n with
    | .stmt _ _ _ => p.exec n (undebugged p m0 n)
    | _ => undebugged p m0 n

def Label.isEnqueue {W : Type} : Label W → Bool
  | .enqueue _ => true
  | _ => false

def Action.isStep : Action → Bool
  | .stepIn _ | .stepOver _ | .stepOut _ => true
  | _ => false

def Action.isResume : Action → Bool
  | .pause _ => false
  | _ => true

def Label.isStepAct {W : Type} : Label W → Bool
  | .act a => a.isStep
  | _ => false

def Item.depth : Item → Nat
  | .stmt _ d _ => d
  | _ => 0

/-- Stop notifications produced along a run, each paired with the call depth of the statement the
cycle thread is at (entering, or parked in) when the notification is produced. -/
def stopEvents {M W : Type} (p : Prog M W) (s : Sys M W) : List (Label W) → List (Stop × Nat)
  | [] => []
  | l :: ls =>
    ((step p s l).d.stops.drop s.d.stops.length).map (fun st => (st, (p.item s.pc).depth))
      ++ stopEvents p (step p s l) ls

/-! ## Second layer: the DAP adapter's stop filter (crates/trust-debug/src/adapter/stop.rs) -/

/-- `is_paused() && last_stop().is_some_and(|last| last.location == stop.location && last.thread_id
== stop.thread_id && last.breakpoint_generation == stop.breakpoint_generation)` (commit d5a9ac8): the
runtime is still parked on this very stop.  The three getters take the monitor lock one after the
other; the model reads them in one step (if the runtime stays parked on the stop across the reads
they all say so, and if it was resumed in between, a drop is a drop after a resume either way). -/
def stillParkedOn (d : DState) (st : Stop) : Bool :=
  d.mode == .paused &&
  (match d.lastStop with
   | some last => last.loc == st.loc && last.thread == st.thread && last.gen == st.gen
   | none => false)

/-- `StopCoordinator::should_emit_stop` as a pure function of the stop, the `pause_expected` flag,
the control's current `breakpoint_generation` map and the `still_parked` input:
(emit?, new `pause_expected`). -/
def shouldEmitStop (st : Stop) (pauseExpected : Bool) (gens : List (Nat × Nat)) (stillParked : Bool) :
    Bool × Bool :=
  match st.reason with
  | .pause | .entry =>
    -- `if !pause_expected.swap(false)` : dropped when not expected; flag is false afterwards
    (pauseExpected, false)
  | .step => (true, false)
  | .breakpoint =>
    -- `pause_expected.store(false)` happens before the generation check
    match st.loc with
    | none => (false, false)
    | some l =>
      match st.gen with
      | none => (false, false)
      | some g =>
        -- `if current != Some(generation) && !still_parked { drop }`
        (decide (alookup gens l.file = some g) || stillParked, false)

/-- Adapter + runtime, abstracted to what matters for "is the client told about a parked runtime":
the monitor state, whether (and where) the cycle thread is parked, the stop channel (FIFO), the
`pause_expected` flag, the `stopped` events written to the client, and what the client believes
(`clientStopped`: it received a `stopped` event after its last continue/step request). -/
structure ASys where
  d : DState
  parked : Bool
  parkLoc : Option Loc
  chan : List Stop
  pauseExpected : Bool
  emitted : List Stop
  clientStopped : Bool
deriving DecidableEq, Repr

inductive ALabel
  /-- the cycle thread calls the hook (from outside the monitor) -/
  | hook (loc : Option Loc) (depth : Nat)
  /-- the parked cycle thread wakes up -/
  | wake
  /-- DAP `pause` (`handle_pause`) -/
  | reqPause
  /-- DAP `continue` (`handle_continue`) -/
  | reqContinue
  /-- DAP `next` / `stepIn` / `stepOut` (`handle_next`, `handle_step_in`, `handle_step_out`) -/
  | reqStep (a : Action)
  /-- DAP `setBreakpoints` for one file -/
  | reqSetBps (file : Nat) (bps : List Bp)
  /-- the coordinator thread takes one stop from the channel (`StopCoordinator::spawn` loop body) -/
  | coord
deriving DecidableEq, Repr

def astep (s : ASys) : ALabel → ASys
  | .hook loc depth =>
    if s.parked then s else
    let r := onStatement s.d loc depth false
    { s with d := r.1, parked := !r.2, parkLoc := loc, chan := s.chan ++ r.1.stops.drop s.d.stops.length }
  | .wake =>
    if !s.parked then s else
    let r := hookLoop s.d s.parkLoc
    { s with d := r.1, parked := !r.2, chan := s.chan ++ r.1.stops.drop s.d.stops.length }
  | .reqPause =>
    -- `if matches!(mode(), Paused) { "pause ignored" } else { pause_expected = true; pause() }`
    if s.d.mode == .paused then s
    else { s with pauseExpected := true, d := (applyAction s.d (.pause none)).1 }
  | .reqContinue =>
    { s with pauseExpected := false, d := (applyAction s.d .continue_).1, clientStopped := false }
  | .reqStep a =>
    if a.isStep then { s with d := (applyAction s.d a).1, clientStopped := false } else s
  | .reqSetBps file bps => { s with d := setBreakpointsForFile s.d file bps }
  | .coord =>
    match s.chan with
    | [] => s
    | st :: rest =>
      let r := shouldEmitStop st s.pauseExpected s.d.bpGeneration (stillParkedOn s.d st)
      { s with chan := rest, pauseExpected := r.2,
               emitted := if r.1 then s.emitted ++ [st] else s.emitted,
               clientStopped := s.clientStopped || r.1 }

def aexec (s : ASys) : List ALabel → ASys
  | [] => s
  | l :: ls => aexec (astep s l) ls

def ASys.init : ASys :=
  { d := DState.init, parked := false, parkLoc := none, chan := [], pauseExpected := false,
    emitted := [], clientStopped := false }

/-- The cycle thread is parked for good: a wake-up would leave it parked and announce nothing, and
the coordinator has nothing left to process. -/
def ASys.quiescentParked (s : ASys) : Bool :=
  s.parked && s.chan.isEmpty && decide (hookLoop s.d s.parkLoc = (s.d, false))

/-- "Every runtime stop is either emitted or followed by a resume", as a state predicate: when the
cycle thread is parked for good, the client has been told (a `stopped` event after its last
continue/step request). -/
def ASys.told (s : ASys) : Bool := !s.quiescentParked || s.clientStopped

/-- Guard of the partial adapter theorem: a `continue` / step request is *safe* in a state when no
Breakpoint stop is still waiting in the stop channel, i.e. the client does not resume a breakpoint
stop it has not been told about yet.  (Breakpoint changes are unrestricted.) -/
def ASys.okLabel (s : ASys) : ALabel → Bool
  | .reqContinue => s.chan.all (fun st => st.reason != .breakpoint)
  | .reqStep a => !a.isStep || s.chan.all (fun st => st.reason != .breakpoint)
  | _ => true

/-- Every resume request of the run is safe at the moment it is handled. -/
def ASys.runOk (s : ASys) : List ALabel → Bool
  | [] => true
  | l :: ls => s.okLabel l && ASys.runOk (astep s l) ls

/-! ## Third surface: expressions evaluated by the debugger (watch expressions, breakpoint
conditions, logpoint fragments, assignment targets)

`crates/trust-runtime/src/harness/parse.rs`: `parse_debug_expression` / `parse_debug_lvalue` reject an
expression when `expression_has_side_effects` says so; everything they accept is later evaluated by
the hook on the LIVE evaluation context of the cycle thread (`update_watch_snapshot`,
`matches_breakpoint`), so this guard is what keeps those evaluations from changing program state. -/

/-- The part of the syntax tree the guard looks at: calls (with the name `call_target_name_node`
resolves for the call target — `none` when there is no target expression or it is neither a name
nor a field access over a name) and any other node with its children. -/
inductive DExpr
  | leaf
  | node (children : List DExpr)
  | call (target : Option String) (children : List DExpr)

mutual
/-- `node.descendants().filter(|c| c.kind() == CallExpr)`: the targets of all calls, pre-order. -/
def DExpr.calls : DExpr → List (Option String)
  | .leaf => []
  | .node cs => callsList cs
  | .call t cs => t :: callsList cs
def callsList : List DExpr → List (Option String)
  | [] => []
  | e :: es => e.calls ++ callsList es
end

/-- `split_once(sep)`. -/
def splitOnce (s sep : String) : Option (String × String) :=
  match s.splitOn sep with
  | a :: b :: rest => some (a, sep.intercalate (b :: rest))
  | _ => none

def isBuiltinType (s : String) : Bool := Gen.builtinTypeNames.contains s

/-- `is_conversion_name` = `parse_conversion_spec(name).is_some()` (stdlib/conversions/spec.rs), on the
upper-cased name; the patterns are tried in the source order and the first that applies decides. -/
def isConversionName (upper : String) : Bool :=
  if upper == "TRUNC" then true
  else if upper.startsWith "TRUNC_" then isBuiltinType (upper.drop 6).toString
  else match splitOnce upper "_TRUNC_" with
  | some (a, b) => isBuiltinType a && isBuiltinType b
  | none =>
  if upper.startsWith "TO_BCD_" then isBuiltinType (upper.drop 7).toString
  else match splitOnce upper "_TO_BCD_" with
  | some (a, b) => isBuiltinType a && isBuiltinType b
  | none =>
  if upper.startsWith "BCD_TO_" then isBuiltinType (upper.drop 7).toString
  else match splitOnce upper "_BCD_TO_" with
  | some (a, b) => isBuiltinType a && isBuiltinType b
  | none =>
  if upper.startsWith "TO_" then isBuiltinType (upper.drop 3).toString
  else match splitOnce upper "_TO_" with
  | some (a, b) => isBuiltinType a && isBuiltinType b
  | none => false

/-- `is_allowed_watch_call` (as of 140f0e8: pure standard functions and conversions; the `SPLIT_*`
functions, which write their output arguments, are no longer allowed). -/
def isAllowedWatchCall (name : String) : Bool :=
  let upper := name.toUpper
  Gen.pureNames.contains upper || isConversionName upper

/-- One iteration of the loop of `expression_has_side_effects`: does this call make it return `true`?
(no target / unresolvable target name => `true`; name not on the allow-list => `true`). -/
def offending (allowed : String → Bool) : Option String → Bool
  | none => true
  | some n => !allowed n

/-- `expression_has_side_effects`: the loop returns `true` at the first offending call, `false` when
every call passed. -/
def hasSideEffects (allowed : String → Bool) (e : DExpr) : Bool := e.calls.any (offending allowed)

/-- Independent of `calls`: the expression contains, anywhere, a call whose target resolves to `t`. -/
inductive HasCall : DExpr → Option String → Prop
  | here (t : Option String) (cs : List DExpr) : HasCall (.call t cs) t
  | inCall (t' : Option String) (cs : List DExpr) (e : DExpr) (t : Option String) :
      e ∈ cs → HasCall e t → HasCall (.call t' cs) t
  | inNode (cs : List DExpr) (e : DExpr) (t : Option String) :
      e ∈ cs → HasCall e t → HasCall (.node cs) t

end TrustVerif.C17
