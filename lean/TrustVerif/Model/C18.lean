import TrustVerif.Generated.Control

/-!
# C18 — model of the control endpoint's request gate

Mirrors, function by function,
* `crates/trust-runtime/src/control/transport.rs` `handle_unix_client` / `handle_client` /
  `read_request_line` (one reply line per request line, the connection stays open; the line's bytes
  without the trailing `\n` / `\r\n` are decoded with `String::from_utf8_lossy`, so bytes that are not
  valid UTF-8 reach the parser as U+FFFD and the line is treated like any other text),
* `crates/trust-runtime/src/control.rs` `handle_request_line`, `handle_request_value`,
  `resolve_request_role`, `required_role_for_control_request`, `required_role_for_config_set`,
  `is_debug_request`, `handle_config_set` (as far as it touches the endpoint's own gates),
  `handle_pair_start/claim/list/revoke`,
* `crates/trust-runtime/src/control/handlers/mod.rs` `dispatch` (module chain),
* `crates/trust-runtime/src/security.rs` `AccessRole::{allows, parse}`,
* `crates/trust-runtime/src/web/pairing.rs` `PairingStore::{start_pairing, claim, validate_with_role,
  list, revoke, revoke_all}`, `sanitize_requested_role`, `prune_expired_tokens`.

The permission table, the config.set key tables, the debug-request list and the dispatcher's names
are NOT written here: they are `TrustVerif.C18.Gen.*`, regenerated from the Rust sources on every run.
What is hand-written is (a) the control flow of the gate, (b) the classification `staticEffect` of
what each dispatched request changes (total over the generated dispatcher list by theorem
`c18_classification_total`, validated against state probes by the correspondence run).

This file imports nothing but the generated tables.
-/
namespace TrustVerif.C18
open Gen

/-! ## Roles -/

/-- `AccessRole::allows` (security.rs:44): `self >= required` under the derived `Ord`. -/
def allows (self required : Role) : Bool := decide (required.rank ≤ self.rank)

/-- White space as far as `str::trim` is modelled (the ASCII part of `char::is_whitespace`). -/
def isSpace (c : Char) : Bool :=
  c = ' ' || c = '\t' || c = '\n' || c = '\r' || c = '\x0b' || c = '\x0c'

/-- `str::trim` (ASCII white space; written over `List Char` so that the kernel can evaluate it). -/
def trimmed (s : String) : String :=
  String.ofList ((s.toList.dropWhile isSpace).reverse.dropWhile isSpace).reverse

/-- `str::to_ascii_lowercase`. -/
def lowered (s : String) : String := String.ofList (s.toList.map Char.toLower)

/-- `AccessRole::parse`: `text.trim().to_ascii_lowercase()` looked up in the generated table. -/
def parseRole (text : String) : Option Role :=
  let norm := lowered (trimmed text)
  (roleParseTable.find? (fun p => p.1 = norm)).map (·.2)

/-- `sanitize_requested_role` (pairing.rs): default operator, admin is lowered to engineer. -/
def sanitizeRequestedRole : Option Role → Role
  | none => .operator
  | some .admin => .engineer
  | some r => r

/-! ## Pairing store (pairing.rs) -/

structure PToken where
  id : String
  token : String
  role : Role
  enabled : Bool
  expiresAt : Nat
  deriving DecidableEq, Repr

structure Pairing where
  tokens : List PToken
  /-- pending pairing code and its expiry -/
  pending : Option (String × Nat)
  deriving DecidableEq, Repr

/-- `PAIRING_CODE_TTL_SECS` -/
def codeTtl : Nat := 300
/-- `PAIRING_TOKEN_TTL_SECS` -/
def tokenTtl : Nat := 30 * 24 * 60 * 60
/-- `PAIRING_MAX_TOKENS` -/
def maxTokens : Nat := 256

/-- `prune_expired_tokens`: `retain(|e| e.expires_at >= now)`. -/
def prune (now : Nat) (ts : List PToken) : List PToken :=
  ts.filter (fun t => decide (now ≤ t.expiresAt))

/-- The role `validate_with_role` finds for a token string among already pruned tokens. -/
def lookupToken (ts : List PToken) (tok : String) : Option Role :=
  (ts.find? (fun e => e.enabled && decide (e.token = tok))).map (·.role)

/-- `validate_with_role`: prune, then first enabled entry with that token. -/
def Pairing.validate (p : Pairing) (now : Nat) (tok : String) : Pairing × Option Role :=
  let ts := prune now p.tokens
  ({ p with tokens := ts }, lookupToken ts tok)

/-- `start_pairing`; `code` is the fresh random code (opaque to the model). -/
def Pairing.start (p : Pairing) (now : Nat) (code : String) : Pairing :=
  { tokens := prune now p.tokens, pending := some (code, now + codeTtl) }

/-- `claim`; `fresh` is the random token the implementation mints (opaque to the model). -/
def Pairing.claim (p : Pairing) (now : Nat) (code : String) (requested : Option Role) (fresh : String) :
    Pairing × Bool :=
  let ts := prune now p.tokens
  match p.pending with
  | none => ({ tokens := ts, pending := none }, false)
  | some (pcode, exp) =>
    if exp < now then ({ tokens := ts, pending := none }, false)
    else if pcode ≠ trimmed code then ({ tokens := ts, pending := some (pcode, exp) }, false)
    else if (ts.filter (·.enabled)).length ≥ maxTokens then ({ tokens := ts, pending := none }, false)
    else
      ({ tokens := ts ++ [{ id := "pair-" ++ toString now, token := fresh,
                            role := sanitizeRequestedRole requested, enabled := true,
                            expiresAt := now + tokenTtl }],
         pending := none }, true)

/-- `list` (only its pruning is a state change). -/
def Pairing.list (p : Pairing) (now : Nat) : Pairing := { p with tokens := prune now p.tokens }

/-- `revoke`: disables every entry with that id; true iff one existed. -/
def Pairing.revoke (p : Pairing) (now : Nat) (id : String) : Pairing × Bool :=
  let ts := prune now p.tokens
  ({ p with tokens := ts.map (fun t => if t.id = id then { t with enabled := false } else t) },
   ts.any (fun t => decide (t.id = id)))

/-- `revoke_all`. -/
def Pairing.revokeAll (p : Pairing) (now : Nat) : Pairing :=
  { p with tokens := (prune now p.tokens).map (fun t => { t with enabled := false }) }

/-- The store re-opened from its file (`PairingStore::load` / `with_clock` after a runtime restart).
Every change other than dropping expired tokens is written to the file at once (`claim`, `revoke`,
`revoke_all` save; `start_pairing`, `validate_with_role`, `list` save when pruning removed something),
so the file can lag behind memory only by tokens whose expiry has already passed, which the first access
after the reload drops again: the tokens — id, token string, role, enabled flag, expiry — survive exactly.
The pending pairing code lives in memory only and is gone.  (`normalize_loaded_tokens` only touches
entries with `expires_at = 0` from old files; the store never writes such entries.) -/
def Pairing.reload (p : Pairing) : Pairing := { p with pending := none }

/-! ## Endpoint state (the part of `ControlState` the gate reads) -/

structure Endpoint where
  /-- `auth_token` -/
  authToken : Option String
  /-- `control_requires_auth` -/
  requiresAuth : Bool
  /-- `debug_enabled` -/
  debugEnabled : Bool
  /-- `control_mode == ControlMode::Debug` -/
  debugMode : Bool
  /-- `pairing` -/
  pairing : Option Pairing
  /-- the pairing store's clock (seconds) -/
  now : Nat
  deriving DecidableEq, Repr

/-- The same endpoint with expired pairing tokens dropped (what every access to the store does first). -/
def Endpoint.pruned (ep : Endpoint) : Endpoint :=
  { ep with pairing := ep.pairing.map (fun p => { p with tokens := prune ep.now p.tokens }) }

/-! ## Requests -/

/-- A JSON value as far as the modelled handlers distinguish it. -/
inductive CVal where
  | null
  | bool (b : Bool)
  | str (s : String)
  | other
  deriving DecidableEq, Repr

/-- One member of a `params` object.  `good` is only read for config.set keys whose value the model
does not interpret: whether it is a well-formed value for that key. -/
structure Entry where
  key : String
  val : CVal
  good : Bool := true
  deriving DecidableEq, Repr

inductive Params where
  /-- no `params` member, or `null` -/
  | missing
  /-- any JSON value that is not an object -/
  | nonObject
  | object (entries : List Entry)
  deriving DecidableEq, Repr

/-- A line that deserialised into `ControlRequest`. -/
structure Request where
  id : Nat
  type : String
  auth : Option String
  params : Params
  /-- the generator's assertion that `params` are well-formed and effective for `type` in the
  correspondence run's standard world (only read for requests the model does not interpret itself) -/
  effective : Bool := true
  /-- the fresh random code/token the implementation minted for pair.start / pair.claim -/
  nonce : String := ""
  deriving DecidableEq, Repr

/-- What arrives on the socket, after `read_request_line`: the text of the line (lossily decoded, so
there is no "not text" case any more) either fails to parse or is a request. -/
inductive Line where
  /-- `serde_json::from_str::<Value>` fails on the (lossily decoded) text -/
  | notJson
  /-- JSON, but `serde_json::from_value::<ControlRequest>` fails -/
  | notRequest
  | request (r : Request)
  deriving DecidableEq, Repr

/-! ## The gate -/

/-- `resolve_request_role` (control.rs:438).  Returns the endpoint too because
`validate_with_role` prunes expired tokens. -/
def resolveRole (ep : Endpoint) (auth : Option String) : Endpoint × Option Role :=
  let viaPairing : Endpoint × Option Role :=
    match auth, ep.pairing with
    | some tok, some store =>
      let (store', role) := store.validate ep.now tok
      ({ ep with pairing := some store' }, role)
    | _, _ => (ep, none)
  match ep.authToken with
  | some expected =>
    if auth = some expected then (ep, some .admin)
    else viaPairing
  | none =>
    match viaPairing with
    | (ep', some role) => (ep', some role)
    | (ep', none) => (ep', some .admin)

/-- First explicit arm of `required_role_for_control_request` that lists `t`. -/
def lookupArm (t : String) : Option Required :=
  (permissionArms.find? (fun a => a.1 = t)).map (·.2)

/-- `required_role_for_config_set` (control.rs:520). -/
def requiredRoleForConfigSet : Params → Role
  | .object es =>
    if es.any (fun e => configSetListedKeys.contains e.key) then configSetIfListed else configSetOtherwise
  | _ => configSetNoObject

/-- `required_role_for_control_request` (control.rs:467). -/
def requiredRole (t : String) (p : Params) : Role :=
  match lookupArm t with
  | some (.fixed r) => r
  | some .configSet => requiredRoleForConfigSet p
  | none => permissionDefault

/-- `is_debug_request` (control.rs:410). -/
def isDebugRequest (t : String) : Bool := debugRequests.contains t

/-- `handlers::dispatch`: first module of the chain whose `match` lists `t`. -/
def findHandler (t : String) : Option (String × Handler) :=
  dispatchModules.findSome? (fun m => (m.2.find? (fun h => h.name = t)).map (fun h => (m.1, h)))

/-- All request names some handler module dispatches. -/
def dispatched : List String := dispatchModules.flatMap (fun m => m.2.map (·.name))

/-! ## What the requests change -/

/-- Observable parts of the running system ("probes" of the correspondence run). -/
inductive Probe where
  /-- acknowledged alarms -/
  | alarms
  /-- commands sent to the resource thread (pause/resume, watchdog/fault/retain updates, bytecode reload) -/
  | commands
  /-- `debug_enabled` -/
  | dbgen
  /-- `DebugControl`: mode, steps, breakpoints, queued variable and I/O writes, forced values -/
  | debug
  /-- files under the project root -/
  | files
  /-- HMI descriptor / schema revision -/
  | hmidesc
  /-- `control_mode` -/
  | mode
  /-- pairing tokens -/
  | pairing
  /-- resource stop flag -/
  | resource
  /-- `pending_restart` -/
  | restart
  /-- runtime settings -/
  | settings
  /-- `auth_token` -/
  | token
  deriving DecidableEq, Repr

/-- What a dispatched request with well-formed, effective parameters changes, outside the endpoint
state the model tracks itself (hand-written; `none` = unclassified).  For the requests the model
interprets (`config.set`, `pair.*`) this is the upper bound; `runHandler` computes the exact set. -/
def staticEffect (debugMode : Bool) : String → Option (List Probe)
  | "status" | "health" | "tasks.stats" | "events.tail" | "events" | "faults" | "config.get"
  | "historian.query" | "historian.alerts" | "io.list" | "io.read" | "hmi.schema.get"
  | "hmi.values.get" | "hmi.trends.get" | "hmi.alarms.get" | "hmi.descriptor.get"
  | "debug.state" | "debug.stops" | "debug.stack" | "debug.scopes" | "debug.variables"
  | "debug.evaluate" | "debug.breakpoint_locations" | "breakpoints.list" | "eval" | "var.forced"
  | "pair.list" => some []
  | "pause" | "resume" => some (if debugMode then [.debug] else [.commands])
  | "step_in" | "step_over" | "step_out" | "breakpoints.set" | "breakpoints.clear"
  | "breakpoints.clear_all" | "breakpoints.clear_id" | "set" | "var.force" | "var.unforce"
  | "io.write" | "io.force" | "io.unforce" | "hmi.write" => some [.debug]
  | "hmi.descriptor.update" | "hmi.scaffold.reset" => some [.files, .hmidesc]
  | "hmi.alarm.ack" => some [.alarms]
  | "config.set" => some [.commands, .dbgen, .mode, .settings, .token]
  | "shutdown" => some [.resource]
  | "restart" => some [.restart]
  | "bytecode.reload" => some [.commands]
  | "pair.start" | "pair.claim" | "pair.revoke" => some [.pairing]
  | _ => none

/-- A request type that can change runtime state, I/O, configuration, program or pairing data. -/
def mutating (t : String) : Bool :=
  match staticEffect true t, staticEffect false t with
  | some [], some [] => false
  | _, _ => true

/-! ### config.set (handle_config_set, control.rs:1649) -/

def lookupEntry (es : List Entry) (k : String) : Option Entry := es.find? (fun e => e.key = k)

structure CfgAcc where
  authToken : Option String
  debugEnabled : Bool
  debugMode : Bool
  settingsTouched : Bool

/-- One iteration of `for (key, value) in params`; `none` = `return ControlResponse::error(..)`. -/
def configSetEntry (acc : CfgAcc) (e : Entry) : Option CfgAcc :=
  if e.key = "control.auth_token" then some acc
  else if e.key = "control.debug_enabled" then
    match e.val with
    | .bool b => some { acc with debugEnabled := b }
    | _ => none
  else if e.key = "control.mode" then
    match e.val with
    | .str s =>
      if trimmed s = "" then none
      else if lowered (trimmed s) = "production" then some { acc with debugMode := false }
      else if lowered (trimmed s) = "debug" then some { acc with debugMode := true }
      else none
    | _ => none
  else if e.key = "web.auth" then
    match e.val with
    | .str s =>
      if trimmed s = "" then none
      else if lowered (trimmed s) = "token" && acc.authToken.isNone then none
      else if !(lowered (trimmed s) = "local" || lowered (trimmed s) = "token") then none
      else some { acc with settingsTouched := true }
    | _ => none
  else if e.key = "mesh.auth_token" then
    match e.val with
    | .null => some { acc with settingsTouched := true }
    | .str s => if trimmed s = "" then none else some { acc with settingsTouched := true }
    | _ => none
  else if configSetHandledKeys.contains e.key then
    if e.good then some { acc with settingsTouched := true } else none
  else none

/-- `handle_config_set`: `none` = an error reply, nothing applied; otherwise the new endpoint and
whether a settings field was written. -/
def configSet (ep : Endpoint) (p : Params) : Option (Endpoint × Bool) :=
  match p with
  | .missing => none
  | .nonObject => none
  | .object es =>
    -- `if let Some(value) = params.get("control.auth_token")`
    let tok? : Option (Option String) :=
      match lookupEntry es "control.auth_token" with
      | none => some ep.authToken
      | some e =>
        match e.val with
        | .null => if ep.requiresAuth then none else some none
        | .str s => if trimmed s = "" then none else some (some (trimmed s))
        | _ => none
    match tok? with
    | none => none
    | some tok =>
      let start : CfgAcc := ⟨tok, ep.debugEnabled, ep.debugMode, false⟩
      match es.foldlM configSetEntry start with
      | none => none
      | some acc =>
        some ({ ep with authToken := acc.authToken, debugEnabled := acc.debugEnabled,
                        debugMode := acc.debugMode }, acc.settingsTouched)

/-! ### pair.* (control.rs:3130-3201) -/

def strParam (es : List Entry) (k : String) : Option String :=
  match lookupEntry es k with
  | some ⟨_, .str s, _⟩ => some s
  | _ => none

/-- `handle_pair_claim`. -/
def pairClaim (ep : Endpoint) (p : Params) (fresh : String) : Endpoint :=
  match p with
  | .object es =>
    match strParam es "code", ep.pairing with
    | some code, some store =>
      -- `role: Option<String>`: absent or null = None, a string is parsed, anything else is a params error
      let role? : Option (Option Role) :=
        match lookupEntry es "role" with
        | none => some none
        | some ⟨_, .null, _⟩ => some none
        | some ⟨_, .str s, _⟩ => (parseRole s).map some
        | some _ => none
      match role? with
      | none => ep
      | some requested => { ep with pairing := some (store.claim ep.now code requested fresh).1 }
    | _, _ => ep
  | _ => ep

/-- `handle_pair_revoke`. -/
def pairRevoke (ep : Endpoint) (p : Params) : Endpoint :=
  match p with
  | .object es =>
    match strParam es "id", ep.pairing with
    | some id, some store =>
      if id = "all" then { ep with pairing := some (store.revokeAll ep.now) }
      else { ep with pairing := some (store.revoke ep.now id).1 }
    | _, _ => ep
  | _ => ep

/-- The pairing list as `PairingStore::list` shows it. -/
def Endpoint.pairingView (ep : Endpoint) : Option (List PToken) :=
  ep.pairing.map (fun p => prune ep.now p.tokens)

/-- Probes of the endpoint's own state that differ between two endpoints. -/
def stateDiff (a b : Endpoint) : List Probe :=
  (if a.debugEnabled ≠ b.debugEnabled then [.dbgen] else []) ++
  (if a.debugMode ≠ b.debugMode then [.mode] else []) ++
  (if a.pairingView ≠ b.pairingView then [.pairing] else []) ++
  (if a.authToken ≠ b.authToken then [.token] else [])

/-- Run the handler `h` found for `r` (the gate has already let the request through). -/
def runHandler (ep : Endpoint) (r : Request) : Endpoint × List Probe :=
  if r.type = "config.set" then
    match configSet ep r.params with
    | none => (ep, [])
    | some (ep', touched) =>
      (ep', [.commands] ++ stateDiff ep ep' ++ (if touched then [.settings] else []))
  else if r.type = "pair.start" then
    match ep.pairing with
    | none => (ep, [])
    | some store =>
      let ep' := { ep with pairing := some (store.start ep.now r.nonce) }
      (ep', stateDiff ep ep')
  else if r.type = "pair.claim" then
    let ep' := pairClaim ep r.params r.nonce
    (ep', stateDiff ep ep')
  else if r.type = "pair.list" then
    ({ ep with pairing := ep.pairing.map (·.list ep.now) }, [])
  else if r.type = "pair.revoke" then
    let ep' := pairRevoke ep r.params
    (ep', stateDiff ep ep')
  else
    (ep, if r.effective then (staticEffect ep.debugMode r.type).getD [] else [])

/-! ## Replies and the step function -/

inductive Reply where
  /-- `ControlResponse::error(0, "invalid request: …")` -/
  | invalid
  /-- `ControlResponse::error(id, "unauthorized")` -/
  | unauthorized (id : Nat)
  /-- `ControlResponse::error(id, "forbidden: requires role <required>")` -/
  | forbidden (id : Nat) (required : Role)
  /-- `ControlResponse::error(id, "debug disabled")` -/
  | debugDisabled (id : Nat)
  /-- `ControlResponse::error(id, "unsupported request")` -/
  | unsupported (id : Nat)
  /-- whatever the handler `fn` of module `module` answers (ok or error; may carry runtime data) -/
  | handled (id : Nat) (module fn : String)
  deriving DecidableEq, Repr

/-- A reply that can carry runtime data (everything else is a constant string plus the caller's own id
and, for `forbidden`, the static role requirement). -/
def Reply.carriesData : Reply → Bool
  | .handled .. => true
  | _ => false

structure Out where
  reply : Reply
  /-- probes that change -/
  fx : List Probe
  deriving DecidableEq, Repr

/-- `handle_request_value` (control.rs:302): parse → role → required → debug gate → dispatch. -/
def handleRequest (ep : Endpoint) (r : Request) : Endpoint × Out :=
  match resolveRole ep r.auth with
  | (ep1, none) => (ep1, ⟨.unauthorized r.id, []⟩)
  | (ep1, some role) =>
    let required := requiredRole r.type r.params
    if !allows role required then (ep1, ⟨.forbidden r.id required, []⟩)
    else if !ep1.debugEnabled && isDebugRequest r.type then (ep1, ⟨.debugDisabled r.id, []⟩)
    else
      match findHandler r.type with
      | none => (ep1, ⟨.unsupported r.id, []⟩)
      | some (m, h) =>
        let (ep2, fx) := runHandler ep1 r
        (ep2, ⟨.handled r.id m h.fn, fx⟩)

/-- One line on a connection (`handle_unix_client` + `handle_request_line`). -/
def step (ep : Endpoint) : Line → Endpoint × Out
  | .notJson => (ep, ⟨.invalid, []⟩)
  | .notRequest => (ep, ⟨.invalid, []⟩)
  | .request r => handleRequest ep r

/-- The runtime restarts: the pairing store is re-opened from its file (the other gates come from the
runtime's configuration and are taken to be the same). -/
def Endpoint.reload (ep : Endpoint) : Endpoint := { ep with pairing := ep.pairing.map (·.reload) }

/-- Things that happen to an endpoint. -/
inductive Event where
  | line (l : Line)
  /-- the pairing clock advances -/
  | tick (dt : Nat)
  /-- the runtime restarts and re-opens the pairing store from its file -/
  | reload
  deriving DecidableEq, Repr

def stepEvent (ep : Endpoint) : Event → Endpoint × Option Out
  | .line l => let (ep', o) := step ep l; (ep', some o)
  | .tick dt => ({ ep with now := ep.now + dt }, none)
  | .reload => (ep.reload, none)

/-- The events of a history that are not lines: what the environment alone does. -/
def envOnly : List Event → List Event
  | [] => []
  | .line _ :: es => envOnly es
  | e :: es => e :: envOnly es

/-- A whole history. -/
def run (ep : Endpoint) : List Event → Endpoint × List Out
  | [] => (ep, [])
  | e :: es =>
    let (ep1, o) := stepEvent ep e
    let (ep2, os) := run ep1 es
    (ep2, o.toList ++ os)

/-- The role a credential maps to (pure part of `resolveRole`). -/
def credentialRole (ep : Endpoint) (auth : Option String) : Option Role := (resolveRole ep auth).2

/-- Hand-written classification of the config.set keys: `some true` = the key holds a credential or
selects how clients authenticate / which control mode applies (changing it is an administrator's
business), `some false` = ordinary engineering configuration, `none` = unclassified. -/
def sensitiveKey : String → Option Bool
  | "control.auth_token" | "mesh.auth_token" | "control.mode" | "web.auth" => some true
  | "log.level" | "watchdog.enabled" | "watchdog.timeout_ms" | "watchdog.action" | "fault.policy"
  | "retain.save_interval_ms" | "retain.mode" | "web.enabled" | "web.listen" | "web.tls"
  | "discovery.enabled" | "discovery.service_name" | "discovery.advertise" | "discovery.interfaces"
  | "mesh.enabled" | "mesh.listen" | "mesh.tls" | "mesh.publish" | "mesh.subscribe"
  | "control.debug_enabled" => some false
  | _ => none

/-- Modules of `control/handlers/` whose requests are the debugger's ("debug-class"). -/
def debugModules : List String := ["debug", "variables"]

/-- Names dispatched by the debug-class modules. -/
def debugClass : List String :=
  (dispatchModules.filter (fun m => debugModules.contains m.1)).flatMap (fun m => m.2.map (·.name))

/-- Total clock advance of a history. -/
def ticks : List Event → Nat
  | [] => 0
  | .tick dt :: es => dt + ticks es
  | .line _ :: es => ticks es
  | .reload :: es => ticks es

end TrustVerif.C18
