/-!
# C19 — model of the web IDE file API (`crates/trust-runtime/src/web/ide.rs`)

Import-free, executable.  Four parts:

* **A** `normalizeParts` = `normalize_workspace_path` (pure string function) on top of a
  transcription of `std::path::Path::components` for Unix.
* **B** an abstract file system (physical paths → file / dir / symbolic link) with the `std::fs`
  primitives the code uses, each returning the *physical* location it acts on.
* **C** `IdeStateInner` (sessions, tracked documents) and every API operation as its sequence of
  gates and effects **in program order**.
* **D** the document/version protocol as a transition system in which the unlocked disk read and
  the locked section of `open_source` / `apply_source` are separate steps of concurrent clients.
  The locked sections are the same functions (`syncDoc`, `applyDoc`) that part C uses.
-/
namespace TrustVerif.C19

/-! ## A. `normalize_workspace_path` -/

/-- `IdeErrorKind` -/
inductive Err where
  | unauthorized | forbidden | notFound | conflict | invalidInput | tooLarge | limitExceeded | internal
  deriving DecidableEq, Repr, Inhabited

abbrev Name := List Char
abbrev Path := List Name

/-- Unicode `White_Space`: the characters `str::trim` removes (`char::is_whitespace`). -/
def isWs (c : Char) : Bool :=
  let n := c.toNat
  (9 ≤ n && n ≤ 13) || n == 0x20 || n == 0x85 || n == 0xA0 || n == 0x1680 ||
  (0x2000 ≤ n && n ≤ 0x200A) || n == 0x2028 || n == 0x2029 || n == 0x202F || n == 0x205F ||
  n == 0x3000

def trimStart (s : List Char) : List Char := s.dropWhile isWs
/-- `str::trim` -/
def trim (s : List Char) : List Char := (trimStart (trimStart s).reverse).reverse

/-- Split at every `/`, keeping empty pieces (never returns `[]`). -/
def splitSlash : List Char → List (List Char)
  | [] => [[]]
  | c :: cs =>
    if c = '/' then [] :: splitSlash cs
    else match splitSlash cs with
      | [] => [[c]]
      | p :: ps => (c :: p) :: ps

def joinSlash : List Name → List Char
  | [] => []
  | [a] => a
  | a :: b :: rest => a ++ '/' :: joinSlash (b :: rest)

/-- `std::path::Component` (Unix: no `Prefix`). -/
inductive Component where
  | rootDir | curDir | parentDir
  | normal (s : Name)
  deriving DecidableEq, Repr

/-- `Path::components()` on Unix: a leading `/` is `RootDir`; empty pieces and `.` pieces are
dropped, except that a leading `.` of a relative path is reported as `CurDir`; `..` is
`ParentDir`; everything else is `Normal`. -/
def components (t : List Char) : List Component :=
  let pieces := splitSlash t
  let body := pieces.filterMap fun p =>
    if p = [] then none
    else if p = ['.'] then none
    else if p = ['.', '.'] then some Component.parentDir
    else some (Component.normal p)
  if t.head? = some '/' then Component.rootDir :: body
  else if pieces.head? = some ['.'] then Component.curDir :: body
  else body

def isHiddenName (c : Name) : Bool := c.head? == some '.'

/-- The `for component in raw.components()` loop of `normalize_workspace_path`. -/
def normLoop : List Component → Except Err (List Name)
  | [] => .ok []
  | .normal s :: rest =>
    if isHiddenName s then .error .forbidden     -- "hidden workspace paths are not allowed"
    else match normLoop rest with
      | .ok ps => .ok (s :: ps)
      | .error e => .error e
  | .curDir :: rest => normLoop rest
  | .parentDir :: _ => .error .forbidden          -- "workspace path escapes project root"
  | .rootDir :: _ => .error .forbidden

/-- `normalize_workspace_path(path, allow_root = false)`; the result string is `joinSlash parts`. -/
def normalizeParts (p : List Char) : Except Err (List Name) :=
  let t := trim p
  if t = [] then .error .invalidInput
  else if t.head? = some '/' then .error .forbidden  -- `raw.is_absolute()`
  else match normLoop (components t) with
    | .error e => .error e
    | .ok [] => .error .invalidInput
    | .ok ps => .ok ps

def normalize (p : List Char) : Except Err (List Char) :=
  match normalizeParts p with
  | .ok ps => .ok (joinSlash ps)
  | .error e => .error e

def asciiLower (c : Char) : Char :=
  if 'A' ≤ c ∧ c ≤ 'Z' then Char.ofNat (c.toNat + 32) else c

/-- `normalize_source_path`: additionally requires the `.st` extension (ASCII case-insensitive). -/
def normalizeSourceParts (p : List Char) : Except Err (List Name) :=
  match normalizeParts p with
  | .error e => .error e
  | .ok ps =>
    let s := (joinSlash ps).map asciiLower
    if ['.', 's', 't'].isSuffixOf s then .ok ps else .error .invalidInput

/-! ## B. Abstract file system

Keys are *physical* absolute paths (component lists relative to a sentinel base directory `[]`,
which always exists): the location of a node after all symbolic links on the way were resolved.
Link targets are absolute logical paths. -/

inductive Node where
  | file (content : List Char)
  | dir
  | link (target : Path)
  deriving DecidableEq, Repr

abbrev FS := List (Path × Node)

def FS.get : FS → Path → Option Node
  | [], _ => none
  | (k, n) :: rest, p => if k = p then some n else FS.get rest p

def FS.erase (fs : FS) (p : Path) : FS := fs.filter fun e => e.1 ≠ p
def FS.set (fs : FS) (p : Path) (n : Node) : FS := (p, n) :: fs.erase p
/-- remove the whole subtree rooted at `p` -/
def FS.removeTree (fs : FS) (p : Path) : FS := fs.filter fun e => !p.isPrefixOf e.1
/-- move the whole subtree rooted at `old` to `new` -/
def FS.moveTree (fs : FS) (old new : Path) : FS :=
  fs.map fun e => if old.isPrefixOf e.1 then (new ++ e.1.drop old.length, e.2) else e

/-- node at a physical location (the base directory always exists) -/
def node (fs : FS) (q : Path) : Option Node := if q = [] then some .dir else fs.get q

def isDirNode : Option Node → Bool
  | some .dir => true
  | _ => false
def isLinkNode : Option Node → Bool
  | some (.link _) => true
  | _ => false

/-- One level of `realpath`: resolve the (reversed) path, calling `follow` on link targets. -/
def canonStep (fs : FS) (follow : Path → Option Path) : List Name → Option Path
  | [] => some []
  | c :: rp =>
    match canonStep fs follow rp with
    | none => none
    | some d =>
      if isDirNode (node fs d) then
        match fs.get (d ++ [c]) with
        | none => none
        | some (.link t) => follow t
        | some _ => some (d ++ [c])
      else none

/-- `realpath` with at most `n` nested link expansions (`ELOOP` beyond). -/
def canonN (fs : FS) : Nat → Path → Option Path
  | 0, _ => none
  | n + 1, p => canonStep fs (canonN fs n) p.reverse

def linkFuel : Nat := 40
/-- `Path::canonicalize` (`None` = any error: ENOENT, ENOTDIR, ELOOP) -/
def canon (fs : FS) (p : Path) : Option Path := canonN fs linkFuel p

/-- `Path::exists()` (follows links) -/
def pexists (fs : FS) (p : Path) : Bool := (canon fs p).isSome
/-- `fs::metadata` (follows links): physical location and node -/
def stat (fs : FS) (p : Path) : Option (Path × Node) :=
  match canon fs p with
  | none => none
  | some q => match node fs q with
    | none => none
    | some n => some (q, n)
/-- `Path::is_dir()` -/
def pisDir (fs : FS) (p : Path) : Bool :=
  match stat fs p with
  | some (_, .dir) => true
  | _ => false

/-- Physical location of the directory entry named by `p` itself (last component not followed):
what `lstat`, `unlink`, `rename`, `mkdir` act on. -/
def lloc (fs : FS) (p : Path) : Option Path :=
  match p.getLast? with
  | none => some []
  | some l =>
    match canon fs p.dropLast with
    | none => none
    | some d => if isDirNode (node fs d) then some (d ++ [l]) else none

/-- `fs::symlink_metadata(p).is_ok_and(|m| m.file_type().is_symlink())` -/
def lstatIsLink (fs : FS) (p : Path) : Bool :=
  match lloc fs p with
  | none => false
  | some q => isLinkNode (node fs q)

/-- `closest_existing_parent`: walk up until `exists()` holds (the base always exists). -/
def closestExisting (fs : FS) : Nat → Path → Path
  | 0, p => p
  | n + 1, p => if pexists fs p then p else closestExisting fs n p.dropLast

/-- `fs::read_to_string`: physical file read and its content -/
def readFile (fs : FS) (p : Path) : Option (Path × List Char) :=
  match stat fs p with
  | some (q, .file c) => some (q, c)
  | _ => none

/-- Where `fs::write(p, _)` lands (`O_CREAT|O_TRUNC` follows a final link, also a dangling one). -/
def writeLoc (fs : FS) : Nat → Path → Option Path
  | 0, _ => none
  | n + 1, p =>
    match lloc fs p with
    | none => none
    | some q =>
      match node fs q with
      | none => some q
      | some (.file _) => some q
      | some .dir => none
      | some (.link t) => writeLoc fs n t

def writeFile (fs : FS) (p : Path) (content : List Char) : Option (FS × Path) :=
  match writeLoc fs linkFuel p with
  | none => none
  | some q => some (fs.set q (.file content), q)

def mkdirs (fs : FS) (ca : Path) : List Name → Path → FS × List Path
  | [], _ => (fs, [])
  | r :: rest, acc =>
    let q := ca ++ acc ++ [r]
    let (fs', made) := mkdirs (fs.set q .dir) ca rest (acc ++ [r])
    (fs', q :: made)

/-- `fs::create_dir_all(p)` in closed form: the closest existing ancestor must be a directory, the
first missing component must not be occupied by a dangling link (`mkdir` = EEXIST, `is_dir()` =
false), then every missing component is created.  Returns the created physical directories. -/
def mkdirAll (fs : FS) (p : Path) : Option (FS × List Path) :=
  let a := closestExisting fs p.length p
  match stat fs a with
  | some (ca, .dir) =>
    match p.drop a.length with
    | [] => some (fs, [])
    | r :: rest =>
      if (fs.get (ca ++ [r])).isSome then none
      else some (mkdirs fs ca (r :: rest) [])
  | _ => none

/-- `fs::rename(old, new)` (`rename(2)`: neither last component is followed; an existing
non-directory target is replaced).  Returns the physical source and target. -/
def renamePath (fs : FS) (old new : Path) : Option (FS × Path × Path) :=
  match lloc fs old, lloc fs new with
  | some qo, some qn =>
    match node fs qo with
    | none => none
    | some no =>
      if qo = [] ∨ qn = [] then none
      else if qo = qn then some (fs, qo, qn)
      else if qo.isPrefixOf qn then none                      -- EINVAL (into its own subtree)
      else match node fs qn with
        | some .dir => none                                    -- not reachable from the API
        | some _ => if no = .dir then none else some ((fs.erase qn).moveTree qo qn, qo, qn)
        | none => some (fs.moveTree qo qn, qo, qn)
  | _, _ => none

/-- `fs::remove_file` -/
def removeFile (fs : FS) (p : Path) : Option (FS × Path) :=
  match lloc fs p with
  | none => none
  | some q =>
    match node fs q with
    | none => none
    | some .dir => none
    | some _ => if q = [] then none else some (fs.erase q, q)

/-- `fs::remove_dir_all`: a link is unlinked; a directory is emptied (links inside are not
followed) and then removed *by path*, a `NotFound` of that last `rmdir` being ignored
(`ignore_notfound` in std): if the path led through a link that was inside the directory, the
emptied directory itself stays. -/
def removeDirAll (fs : FS) (p : Path) : Option (FS × Path) :=
  match lloc fs p with
  | none => none
  | some q =>
    match node fs q with
    | none => none
    | some (.file _) => none
    | some (.link _) => some (fs.erase q, q)
    | some .dir =>
      if q = [] then none
      else
        let fs1 : FS := fs.filter fun e => !(q.isPrefixOf e.1 && decide (e.1 ≠ q))
        if lloc fs1 p = some q then some (fs1.erase q, q) else some (fs1, q)

/-- entries of the physical directory `d` (`fs::read_dir`) -/
def children (fs : FS) (d : Path) : List (Name × Node) :=
  fs.filterMap fun e =>
    match e.1.getLast? with
    | none => none
    | some l => if e.1.dropLast = d then some (l, e.2) else none

def charsLe : List Char → List Char → Bool
  | [], _ => true
  | _ :: _, [] => false
  | a :: as, b :: bs => if a.toNat < b.toNat then true else if b.toNat < a.toNat then false else charsLe as bs

def insertName (x : List Char) : List (List Char) → List (List Char)
  | [] => [x]
  | y :: ys => if charsLe x y then x :: y :: ys else y :: insertName x ys

/-- `sort()` / `sort_by_key(file_name)`: byte-wise (= code point) order; insertion sort, so that it
reduces in the kernel -/
def sortNames (xs : List (List Char)) : List (List Char) := xs.foldr insertName []

/-- `…to_string_lossy().replace('\\', "/")` -/
def unBackslash (s : List Char) : List Char := s.map fun c => if c = '\\' then '/' else c

/-- `collect_workspace_files`: hidden names and symbolic links are skipped, directories are
descended into, everything else is a file.  `d` = physical directory, `rel` = relative path. -/
def walkFiles (fs : FS) : Nat → Path → List Name → List (List Name)
  | 0, _, _ => []
  | n + 1, d, rel =>
    (children fs d).flatMap fun (name, nd) =>
      if isHiddenName name then []
      else match nd with
        | .link _ => []
        | .dir => walkFiles fs n (d ++ [name]) (rel ++ [name])
        | .file _ => [rel ++ [name]]

def walkFuel (fs : FS) : Nat := fs.length + 1

/-- directories whose listing `collect_workspace_files` reads -/
def walkDirs (fs : FS) : Nat → Path → List Path
  | 0, _ => []
  | n + 1, d =>
    d :: (children fs d).flatMap fun (name, nd) =>
      if isHiddenName name then []
      else match nd with
        | .dir => walkDirs fs n (d ++ [name])
        | _ => []

/-- `collect_workspace_tree`, flattened in preorder: (is_directory, relative path). -/
def walkTree (fs : FS) : Nat → Path → List Name → List (Bool × List Name)
  | 0, _, _ => []
  | n + 1, d, rel =>
    let names := sortNames ((children fs d).map (·.1))
    names.flatMap fun name =>
      if isHiddenName name then []
      else match fs.get (d ++ [name]) with
        | some (.link _) => []
        | some .dir => (true, rel ++ [name]) :: walkTree fs n (d ++ [name]) (rel ++ [name])
        | some (.file _) => [(false, rel ++ [name])]
        | none => []

/-! ## C. `IdeStateInner` and the API operations -/

def u64Max : Nat := 18446744073709551615
/-- `u64::saturating_add(1)` -/
def satSucc (v : Nat) : Nat := if v < u64Max then v + 1 else v
def satAdd (a b : Nat) : Nat := if a + b ≤ u64Max then a + b else u64Max

def sessionTtl : Nat := 15 * 60
def maxSessions : Nat := 16
def maxFileBytes : Nat := 256 * 1024
def maxAudit : Nat := 1024

def utf8Len (s : List Char) : Nat := (s.map Char.utf8Size).sum

structure Session where
  editor : Bool
  expiresAt : Nat
  deriving DecidableEq, Repr

/-- `IdeDocumentEntry` (content, version) -/
structure Doc where
  content : List Char
  version : Nat
  deriving DecidableEq, Repr

structure Inner where
  sessions : List (Nat × Session) := []
  docs : List (List Name × Doc) := []
  /-- `retired_version`: highest version of any document that is no longer tracked (as of the
  repair of C19-version-reuse) -/
  floor : Nat := 0
  audit : Nat := 0
  nextTok : Nat := 0
  deriving Repr

structure World where
  fs : FS
  root : Path
  now : Nat := 0
  inner : Inner := {}

def lookupKey {α β} [DecidableEq α] : List (α × β) → α → Option β
  | [], _ => none
  | (k, v) :: rest, a => if k = a then some v else lookupKey rest a

def setKey {α β} [DecidableEq α] (xs : List (α × β)) (a : α) (b : β) : List (α × β) :=
  (a, b) :: xs.filter fun e => e.1 ≠ a

def dropKey {α β} [DecidableEq α] (xs : List (α × β)) (a : α) : List (α × β) :=
  xs.filter fun e => e.1 ≠ a

/-- `prune_expired` -/
def prune (i : Inner) (now : Nat) : Inner :=
  { i with sessions := i.sessions.filter fun s => !(s.2.expiresAt ≤ now) }

/-- `ensure_session`: prune, look the token up, renew the TTL (sliding).  The pruned / renewed
state is returned in every case (the mutation happens before the `?`). -/
def ensureSession (i : Inner) (tok now : Nat) : Inner × Option Session :=
  let i := prune i now
  match lookupKey i.sessions tok with
  | none => (i, none)                                             -- Unauthorized
  | some s =>
    let s' := { s with expiresAt := satAdd now sessionTtl }
    ({ i with sessions := setKey i.sessions tok s' }, some s')

/-- `ensure_editor_session`: `none` = passed -/
def ensureEditor (i : Inner) (tok now : Nat) : Inner × Option Err :=
  match ensureSession i tok now with
  | (i, none) => (i, some .unauthorized)
  | (i, some s) => if s.editor then (i, none) else (i, some .forbidden)

/-- `record_fs_audit_event` (only the length is observable through `health`) -/
def recordAudit (i : Inner) : Inner := { i with audit := min (i.audit + 1) maxAudit }

/-- `IdeStateInner::first_version`: a document that starts being tracked gets a version above
every retired one -/
def firstVersion (floor : Nat) : Nat := satSucc floor

/-- maximum of `floor` and the versions of the documents in `dropped` (`retire_document` for each) -/
def retireAll (floor : Nat) (dropped : List (List Name × Doc)) : Nat :=
  dropped.foldl (fun m e => max m e.2.version) floor

/-- The `or_insert_with` + "disk differs ⇒ take it and bump" block shared by `open_source`,
`apply_source`, `build_analysis_context` and `upsert_tracked_document`; `first` is
`first_version()`. -/
def syncDoc (e : Option Doc) (disk : List Char) (first : Nat) : Doc :=
  match e with
  | none => { content := disk, version := first }
  | some e => if e.content ≠ disk then { content := disk, version := satSucc e.version } else e

/-- Locked section of `apply_source` after the role check.  `inl (cur, doc)` = conflict (the synced
entry is kept), `inr doc` = success (content written). -/
def applyDoc (e : Option Doc) (disk : List Char) (expected : Nat) (new : List Char) (first : Nat) :
    Doc × Option Nat :=
  let d := syncDoc e disk first
  if d.version ≠ expected then (d, none)
  else ({ content := new, version := satSucc d.version }, some (satSucc d.version))

/-- `canonical_root` -/
def canonRoot (fs : FS) (root : Path) : Path := (canon fs root).getD root

/-- `workspace_root` + `resolve_workspace_path` (as of commits 3aeec1a / fc6049d). -/
def resolveWs (fs : FS) (root : Path) (parts : List Name) : Except Err Path :=
  if !pisDir fs root then .error .notFound                       -- workspace_root()
  else
    let joined := root ++ parts
    let cr := canonRoot fs root
    let a := closestExisting fs joined.dropLast.length joined.dropLast
    match canon fs a with
    | none => .error .notFound
    | some ca =>
      if !cr.isPrefixOf ca then .error .forbidden                 -- escapes project root
      else if (ca.drop cr.length).any isHiddenName then .error .forbidden  -- hidden through a link
      else if lstatIsLink fs joined then .error .forbidden        -- last component is a link
      else .ok joined

/-- what an operation did to the file system, by physical location -/
inductive Effect where
  | read (q : Path)          -- file content read
  | list (q : Path)          -- directory listed
  | write (q : Path)         -- file created or overwritten
  | mkdir (q : Path)
  | remove (q : Path)        -- entry (with its subtree) removed
  | move (q q' : Path)       -- entry (with its subtree) moved
  deriving DecidableEq, Repr

def Effect.paths : Effect → List Path
  | .read q | .list q | .write q | .mkdir q | .remove q => [q]
  | .move q q' => [q, q']

def Effect.isMutation : Effect → Bool
  | .read _ | .list _ => false
  | _ => true

inductive Res where
  | err (e : Err) (current : Option Nat)
  | session (tok : Nat)
  | opened (path : List Name) (content : List Char) (version : Nat) (readOnly : Bool)
  | written (path : List Name) (version : Nat)
  | fsres (path : List Name) (isDir : Bool) (version : Option Nat)
  | listing (paths : List (List Char))
  | tree (nodes : List (Bool × List Char))
  | hits (hs : List (List Char × Nat × Nat))
  | formatted (path : List Name)
  | health (active editors docs audit : Nat)
  deriving Repr

structure Out where
  res : Res
  world : World
  effects : List Effect := []

def fail (w : World) (e : Err) (effects : List Effect := []) : Out :=
  { res := .err e none, world := w, effects := effects }

/-- `create_session` -/
def createSession (w : World) (editor : Bool) : Out :=
  let i := prune w.inner w.now
  if i.sessions.length ≥ maxSessions then fail { w with inner := i } .limitExceeded
  else
    let tok := i.nextTok
    let s : Session := { editor := editor, expiresAt := satAdd w.now sessionTtl }
    { res := .session tok
      world := { w with inner := { i with sessions := i.sessions ++ [(tok, s)], nextTok := tok + 1 } } }

/-- `open_source` -/
def openSource (w : World) (tok : Nat) (path : List Char) : Out :=
  match normalizeParts path with
  | .error e => fail w e
  | .ok parts =>
  match resolveWs w.fs w.root parts with
  | .error e => fail w e
  | .ok joined =>
  match readFile w.fs joined with                                  -- unlocked disk read
  | none => fail w .notFound
  | some (q, disk) =>
  if utf8Len disk > maxFileBytes then fail w .tooLarge [.read q]
  else
  match ensureSession w.inner tok w.now with                       -- state lock taken here
  | (i, none) => fail { w with inner := i } .unauthorized [.read q]
  | (i, some s) =>
    let d := syncDoc (lookupKey i.docs parts) disk (firstVersion i.floor)
    { res := .opened parts disk d.version (!s.editor)
      world := { w with inner := { i with docs := setKey i.docs parts d } }
      effects := [.read q] }

/-- `apply_source` -/
def applySource (w : World) (tok : Nat) (path : List Char) (expected : Nat) (content : List Char)
    (writeEnabled : Bool) : Out :=
  if !writeEnabled then fail w .forbidden
  else if utf8Len content > maxFileBytes then fail w .tooLarge
  else
  match normalizeParts path with
  | .error e => fail w e
  | .ok parts =>
  match resolveWs w.fs w.root parts with
  | .error e => fail w e
  | .ok joined =>
  match readFile w.fs joined with                                  -- unlocked disk read
  | none => fail w .notFound
  | some (q, disk) =>
  match ensureSession w.inner tok w.now with                       -- state lock taken here
  | (i, none) => fail { w with inner := i } .unauthorized [.read q]
  | (i, some s) =>
  if !s.editor then fail { w with inner := i } .forbidden [.read q]
  else
    match applyDoc (lookupKey i.docs parts) disk expected content (firstVersion i.floor) with
    | (d, none) =>
      { res := .err .conflict (some d.version)
        world := { w with inner := { i with docs := setKey i.docs parts d } }
        effects := [.read q] }
    | (d, some v) =>
      match writeFile w.fs joined content with
      | none =>
        -- `fs::write` failed: the synced (not yet updated) entry stays
        { res := .err .internal none
          world := { w with inner := { i with docs := setKey i.docs parts (syncDoc (lookupKey i.docs parts) disk (firstVersion i.floor)) } }
          effects := [.read q] }
      | some (fs', q') =>
        { res := .written parts v
          world := { w with fs := fs', inner := recordAudit { i with docs := setKey i.docs parts d } }
          effects := [.read q, .write q'] }

/-- `create_entry` -/
def createEntry (w : World) (tok : Nat) (path : List Char) (isDir : Bool)
    (content : Option (List Char)) (writeEnabled : Bool) : Out :=
  if !writeEnabled then fail w .forbidden
  else
  match normalizeParts path with
  | .error e => fail w e
  | .ok parts =>
  match resolveWs w.fs w.root parts with
  | .error e => fail w e
  | .ok joined =>
  if pexists w.fs joined then fail w .conflict
  else
  match ensureEditor w.inner tok w.now with                        -- state lock taken here
  | (i, some e) => fail { w with inner := i } e
  | (i, none) =>
  if isDir then
    match mkdirAll w.fs joined with
    | none => fail { w with inner := i } .internal
    | some (fs', made) =>
      { res := .fsres parts true none
        world := { w with fs := fs', inner := recordAudit i }
        effects := made.map .mkdir }
  else
    let payload := content.getD []
    if utf8Len payload > maxFileBytes then fail { w with inner := i } .tooLarge
    else
    match mkdirAll w.fs joined.dropLast with
    | none => fail { w with inner := i } .internal
    | some (fs1, made) =>
    match writeFile fs1 joined payload with
    | none => fail { w with fs := fs1, inner := i } .internal (made.map .mkdir)
    | some (fs2, q) =>
      -- the path did not exist: a document still tracked for it is retired, the new one starts
      -- above every retired version
      let floor' :=
        match lookupKey i.docs parts with
        | none => i.floor
        | some e => max i.floor e.version
      let version := firstVersion floor'
      { res := .fsres parts false (some version)
        world := { w with fs := fs2
                          inner := recordAudit { i with docs := setKey i.docs parts { content := payload, version := version }
                                                        floor := floor' } }
        effects := made.map .mkdir ++ [.write q] }

/-- re-key the tracked documents below a renamed directory (`old_norm` → `new_norm`): every moved
document is retired under its old key and starts under the new key with `version` -/
def remapDocs (docs : List (List Name × Doc)) (old new : List Name) (version : Nat) :
    List (List Name × Doc) :=
  let moved := docs.filter fun e => old.isPrefixOf e.1
  let kept := docs.filter fun e => !old.isPrefixOf e.1
  moved.foldl (fun acc e =>
    setKey acc (new ++ e.1.drop old.length) { e.2 with version := version }) kept

/-- `rename_entry` (as of commit 60787ea: session check before `create_dir_all`) -/
def renameEntry (w : World) (tok : Nat) (path newPath : List Char) (writeEnabled : Bool) : Out :=
  if !writeEnabled then fail w .forbidden
  else
  match normalizeParts path with
  | .error e => fail w e
  | .ok oldParts =>
  match normalizeParts newPath with
  | .error e => fail w e
  | .ok newParts =>
  match resolveWs w.fs w.root oldParts with
  | .error e => fail w e
  | .ok oldJ =>
  let oldIsDir := pisDir w.fs oldJ
  match resolveWs w.fs w.root newParts with
  | .error e => fail w e
  | .ok newJ =>
  if !pexists w.fs oldJ then fail w .notFound
  else if pexists w.fs newJ then fail w .conflict
  else
  match ensureEditor w.inner tok w.now with                        -- state lock taken here
  | (i, some e) => fail { w with inner := i } e
  | (i, none) =>
  match mkdirAll w.fs newJ.dropLast with
  | none => fail { w with inner := i } .internal
  | some (fs1, made) =>
  match renamePath fs1 oldJ newJ with
  | none => fail { w with fs := fs1, inner := i } .internal (made.map .mkdir)
  | some (fs2, qo, qn) =>
    let floor' :=
      if oldIsDir then retireAll i.floor (i.docs.filter fun e => oldParts.isPrefixOf e.1)
      else match lookupKey i.docs oldParts with
        | none => i.floor
        | some e => max i.floor e.version
    let docs :=
      if oldIsDir then remapDocs i.docs oldParts newParts (firstVersion floor')
      else match lookupKey i.docs oldParts with
        | none => i.docs
        | some e => setKey (dropKey i.docs oldParts) newParts { e with version := firstVersion floor' }
    { res := .fsres newParts oldIsDir none
      world := { w with fs := fs2, inner := recordAudit { i with docs := docs, floor := floor' } }
      effects := made.map .mkdir ++ [.move qo qn] }

/-- `delete_entry` -/
def deleteEntry (w : World) (tok : Nat) (path : List Char) (writeEnabled : Bool) : Out :=
  if !writeEnabled then fail w .forbidden
  else
  match normalizeParts path with
  | .error e => fail w e
  | .ok parts =>
  match resolveWs w.fs w.root parts with
  | .error e => fail w e
  | .ok joined =>
  if !pexists w.fs joined then fail w .notFound
  else
  let isDir := pisDir w.fs joined
  match ensureEditor w.inner tok w.now with                        -- state lock taken here
  | (i, some e) => fail { w with inner := i } e
  | (i, none) =>
  match (if isDir then removeDirAll w.fs joined else removeFile w.fs joined) with
  | none => fail { w with inner := i } .internal
  | some (fs', q) =>
    let docs :=
      if isDir then i.docs.filter fun e => !parts.isPrefixOf e.1
      else dropKey i.docs parts
    -- `retire_document` for every dropped key
    let floor' :=
      if isDir then retireAll i.floor (i.docs.filter fun e => parts.isPrefixOf e.1)
      else match lookupKey i.docs parts with
        | none => i.floor
        | some e => max i.floor e.version
    { res := .fsres parts isDir none
      world := { w with fs := fs', inner := recordAudit { i with docs := docs, floor := floor' } }
      effects := [.remove q] }

/-- the `ensure_session(..)?; drop(guard)` prologue of the read-only operations -/
def withSession (w : World) (tok : Nat) (k : World → Out) : Out :=
  match ensureSession w.inner tok w.now with
  | (i, none) => fail { w with inner := i } .unauthorized
  | (i, some _) => k { w with inner := i }

/-- `list_sources` -/
def listSources (w : World) (tok : Nat) : Out :=
  withSession w tok fun w =>
    if !pisDir w.fs w.root then fail w .notFound
    else
      let cr := canonRoot w.fs w.root
      let files := walkFiles w.fs (walkFuel w.fs) cr []
      { res := .listing (sortNames (files.map fun r => unBackslash (joinSlash r)))
        world := w
        effects := (walkDirs w.fs (walkFuel w.fs) cr).map .list }

/-- `list_tree` -/
def listTree (w : World) (tok : Nat) : Out :=
  withSession w tok fun w =>
    if !pisDir w.fs w.root then fail w .notFound
    else
      let cr := canonRoot w.fs w.root
      { res := .tree ((walkTree w.fs (walkFuel w.fs) cr []).map fun (d, r) => (d, unBackslash (joinSlash r)))
        world := w
        effects := (walkDirs w.fs (walkFuel w.fs) cr).map .list }

/-- `str::lines`: `split_inclusive('\n')`, then strip the `\n` and a `\r` directly before it -/
def linesAux : List Char → List Char → List (List Char)
  | [], cur => if cur = [] then [] else [cur.reverse]
  | c :: rest, cur =>
    if c = '\n' then
      (match cur with
        | '\r' :: cur' => cur'.reverse
        | _ => cur.reverse) :: linesAux rest []
    else linesAux rest (c :: cur)
def lines (s : List Char) : List (List Char) := linesAux s []

def enumFrom {α} : Nat → List α → List (α × Nat)
  | _, [] => []
  | n, a :: as => (a, n) :: enumFrom (n + 1) as

/-- byte offset of the first occurrence of `needle` (`str::find`) -/
def findSub (needle : List Char) : List Char → Nat → Option Nat
  | [], off => if needle = [] then some off else none
  | c :: cs, off => if needle.isPrefixOf (c :: cs) then some off else findSub needle cs (off + c.utf8Size)

def searchFile (needle : List Char) (path : List Char) (content : List Char) :
    List (List Char × Nat × Nat) :=
  let ls := lines content
  (enumFrom 0 ls).filterMap fun (l, idx) =>
    match findSub needle (l.map asciiLower) 0 with
    | none => none
    | some b => some (path, idx, b)

/-- the `hits.len() >= limit` early return (checked after every push) -/
def takeHits (limit : Nat) (hs : List (List Char × Nat × Nat)) : List (List Char × Nat × Nat) :=
  hs.take (max limit 1)

/-- `workspace_search` without include/exclude globs (as of commit 60b0564) -/
def workspaceSearch (w : World) (tok : Nat) (query : List Char) (limit : Nat) : Out :=
  withSession w tok fun w =>
    let needle := (trim query).map asciiLower
    if needle = [] then { res := .hits [], world := w }
    else if !pisDir w.fs w.root then fail w .notFound
    else
      let cr := canonRoot w.fs w.root
      let files := walkFiles w.fs (walkFuel w.fs) cr []
      let paths := sortNames (files.map fun r => unBackslash (joinSlash r))
      -- listed names are display names (backslashes rewritten): each one is normalised and
      -- resolved through the workspace gate before it is read (commits 41f5544, 60b0564)
      let reads := paths.map fun p =>
        (p, match normalizeParts p with
            | .error _ => none
            | .ok parts =>
              match resolveWs w.fs w.root parts with
              | .error _ => none
              | .ok joined => readFile w.fs joined)
      let hits := reads.flatMap fun (p, r) =>
        match r with
        | none => []
        | some (_, content) => searchFile needle p content
      { res := .hits (takeHits limit hits)
        world := w
        effects := (walkDirs w.fs (walkFuel w.fs) cr).map .list ++
          reads.filterMap fun (_, r) => r.map fun (q, _) => Effect.read q }

/-- `format_source` (the formatted text itself is not modelled) -/
def formatSource (w : World) (tok : Nat) (path : List Char) (content : Option (List Char)) : Out :=
  match normalizeSourceParts path with
  | .error e => fail w e
  | .ok parts =>
  withSession w tok fun w =>
    match content with
    | some c =>
      if utf8Len c > maxFileBytes then fail w .tooLarge
      else { res := .formatted parts, world := w }
    | none =>
      match resolveWs w.fs w.root parts with
      | .error e => fail w e
      | .ok joined =>
      match readFile w.fs joined with
      | none => fail w .notFound
      | some (q, disk) =>
        if utf8Len disk > maxFileBytes then fail w .tooLarge [.read q]
        else { res := .formatted parts, world := w, effects := [.read q] }

/-- `health` -/
def health (w : World) (tok : Nat) : Out :=
  withSession w tok fun w =>
    { res := .health w.inner.sessions.length (w.inner.sessions.filter (·.2.editor)).length
        w.inner.docs.length w.inner.audit
      world := w }

/-- every modelled API operation -/
inductive Op where
  | createSession (editor : Bool)
  | listSources (tok : Nat)
  | listTree (tok : Nat)
  | search (tok : Nat) (query : List Char) (limit : Nat)
  | open (tok : Nat) (path : List Char)
  | apply (tok : Nat) (path : List Char) (expected : Nat) (content : List Char) (we : Bool)
  | create (tok : Nat) (path : List Char) (isDir : Bool) (content : Option (List Char)) (we : Bool)
  | rename (tok : Nat) (path newPath : List Char) (we : Bool)
  | delete (tok : Nat) (path : List Char) (we : Bool)
  | format (tok : Nat) (path : List Char) (content : Option (List Char))
  | health (tok : Nat)

def step (w : World) : Op → Out
  | .createSession e => createSession w e
  | .listSources t => listSources w t
  | .listTree t => listTree w t
  | .search t q l => workspaceSearch w t q l
  | .open t p => openSource w t p
  | .apply t p e c we => applySource w t p e c we
  | .create t p d c we => createEntry w t p d c we
  | .rename t p n we => renameEntry w t p n we
  | .delete t p we => deleteEntry w t p we
  | .format t p c => formatSource w t p c
  | .health t => health w t

/-- `tok` names an editor session that has not expired at time `now` -/
def liveEditor (i : Inner) (tok now : Nat) : Bool :=
  match lookupKey (prune i now).sessions tok with
  | some s => s.editor
  | none => false

/-- the only situations in which an operation may change the file system: a mutating operation,
called with `write_enabled`, by a live editor session -/
def Op.mayMutate (w : World) : Op → Bool
  | .apply t _ _ _ we => we && liveEditor w.inner t w.now
  | .create t _ _ _ we => we && liveEditor w.inner t w.now
  | .rename t _ _ we => we && liveEditor w.inner t w.now
  | .delete t _ we => we && liveEditor w.inner t w.now
  | _ => false

/-! ## D. The document/version protocol under concurrency

One file, any number of clients.  `open_source` / `apply_source` read the disk *before* taking the
state lock, so an operation is two steps: `begin…` (the unlocked `read_to_string`) and `finish`
(the locked section, which sees only what the earlier read returned).  Steps of different clients
interleave arbitrarily.  The locked sections are `syncDoc` / `applyDoc`, the very functions the
sequential model of part C calls.  Everything else that touches the tracked document under the
lock is a single atomic step. -/
namespace Proto

abbrev Content := List Char

structure Pending where
  isApply : Bool
  expected : Nat
  new : Content
  /-- result of the unlocked `read_to_string` -/
  disk : Content
  /-- ghost: the content this client was given together with `expected` (honest client) -/
  base : Option Content
  /-- ghost: version of the tracked document when the read happened (0 = untracked) -/
  seenVersion : Nat

structure Client where
  /-- `(version, content)` pairs returned to this client so far -/
  issued : List (Nat × Content) := []
  pending : Option Pending := none
  /-- only used by the NON-atomic variant (`splitCheck` …): passed the version check, not yet
  committed -/
  passed : Option Pending := none

/-- a successful write of the file: `apply_source`, `create_entry` (`expected` = the retired floor
the new document starts above, `diskBefore = none`) or `rename_symbol` (`expected` = the version
of the document it read under the lock) -/
structure Success where
  client : Nat
  expected : Nat
  version : Nat
  content : Content
  /-- ghost: content the writer had been given with `expected` (`rename_symbol`: what it read
  under the lock) -/
  base : Option Content
  /-- ghost: what was on disk when the write happened -/
  diskBefore : Option Content

structure PState where
  disk : Option Content
  entry : Option Doc := none
  /-- `retired_version` (one counter for all documents of the state) -/
  floor : Nat := 0
  clients : Nat → Client := fun _ => {}
  /-- chronological -/
  successes : List Success := []

/-- the version a reader of the tracked state sees: the document's, or the retired floor while no
document is tracked (ghost: only `Pending.seenVersion` uses it) -/
def curVer (s : PState) : Nat :=
  match s.entry with
  | some e => e.version
  | none => s.floor

/-- `retired_version` after `retire_document` of this file's key -/
def retired (s : PState) : Nat :=
  match s.entry with
  | some e => max s.floor e.version
  | none => s.floor

def upd (f : Nat → Client) (i : Nat) (c : Client) : Nat → Client := fun j => if j = i then c else f j

def lookupIssued : List (Nat × Content) → Nat → Option Content
  | [], _ => none
  | (v, c) :: rest, e => if v = e then some c else lookupIssued rest e

inductive Step where
  | beginOpen (i : Nat)
  | beginApply (i : Nat) (expected : Nat) (new : Content)
  | finish (i : Nat)
  /-- `upsert_tracked_document` with a client-supplied text (diagnostics / hover / completion with
  a content override, by any session) -/
  | override (t : Content)
  /-- `build_analysis_context`: read under the lock and sync -/
  | syncAll
  /-- `delete_entry` (or `rename_entry` away): the file is removed and its tracked document is
  retired (`retire_document`) -/
  | delete
  /-- the tracked document is retired while the file stays (`ensure_analysis_cache` evictions,
  `set_active_project` away and back) -/
  | evict
  /-- a document of ANOTHER file with version `k` is retired: the floor is shared -/
  | retireOther (k : Nat)
  /-- `create_entry` by client `i` (or `rename_entry` of another file to this path): a document
  still tracked is retired, the new one starts at `first_version()` -/
  | create (i : Nat) (payload : Content)
  /-- `rename_symbol` by client `i`: under ONE lock hold it refuses a buffer that differs from the
  disk (as of the repair of C19-rename-symbol-bypass), otherwise reads the file, writes `result`
  and bumps — a read-modify-write on the latest content -/
  | symRename (i : Nat) (buffer : Option Content) (result : Content)
  /-- a successful `apply_source` through ANOTHER document key that names the same file (the key is
  the normalised request string, so an in-root directory link gives one file several keys): the
  disk changes, this key's tracked document does not -/
  | aliasWrite (new : Content)
  /-- NOT what the code does — the locked section of `apply_source` torn into three: version check
  under the lock, unlock; disk write; re-lock and commit.  Present only to show what the theorems
  rest on (`c19_counterexample_split_apply`). -/
  | splitCheck (i : Nat)
  | splitWrite (i : Nat)
  | splitCommit (i : Nat)

/-- the steps covered by the optimistic-concurrency protocol: everything the code does to one
document key; excluded are a write through a second key of the same file (open finding
C19-alias-keys) and the torn variant that is not the code's behaviour -/
def Step.covered : Step → Bool
  | .aliasWrite _ | .splitCheck _ | .splitWrite _ | .splitCommit _ => false
  | _ => true

/-- how far a step can raise the version counters (`u64` versions saturate; the theorems assume
the sum over the trace stays below `u64::MAX`) -/
def Step.cost : Step → Nat
  | .retireOther k => k + 2
  | _ => 2

def traceCost : List Step → Nat
  | [] => 0
  | st :: rest => st.cost + traceCost rest

/-- **The locked section of `apply_source` as ONE transition**: resync with the earlier unlocked
read, version check, `fs::write`, bump and commit all happen while `inner` is held
(`ide.rs`, `apply_source`: one `guard` from `ensure_session` to the end of the function), so no
step of another client can fall between the check and the commit.  `c19_no_lost_update_partial`,
`c19_version_chain_partial`, `c19_one_success_per_version_partial` and
`c19_disk_is_last_success_partial` depend on exactly this.  `rename_symbol` runs the same section
with a read taken under the lock. -/
def applyLocked (s : PState) (i : Nat) (p : Pending) : PState :=
  match applyDoc s.entry p.disk p.expected p.new (firstVersion s.floor) with
  | (d, none) =>
    { s with entry := some d, clients := upd s.clients i { (s.clients i) with pending := none } }
  | (d, some v) =>
    { s with entry := some d, disk := some p.new
             clients := upd s.clients i { issued := (v, p.new) :: (s.clients i).issued, pending := none }
             successes := s.successes ++ [{ client := i, expected := p.expected, version := v
                                            content := p.new, base := p.base, diskBefore := s.disk }] }

def next (s : PState) : Step → PState
  | .beginOpen i =>
    match s.disk, (s.clients i).pending with
    | some d, none =>
      let p : Pending :=
        { isApply := false, expected := 0, new := [], disk := d, base := none, seenVersion := curVer s }
      { s with clients := upd s.clients i { (s.clients i) with pending := some p } }
    | _, _ => s
  | .beginApply i expected new =>
    match s.disk, (s.clients i).pending with
    | some d, none =>
      let p : Pending :=
        { isApply := true, expected := expected, new := new, disk := d
          base := lookupIssued (s.clients i).issued expected, seenVersion := curVer s }
      { s with clients := upd s.clients i { (s.clients i) with pending := some p } }
    | _, _ => s
  | .finish i =>
    match (s.clients i).pending with
    | none => s
    | some p =>
      if !p.isApply then
        let d := syncDoc s.entry p.disk (firstVersion s.floor)
        { s with entry := some d
                 clients := upd s.clients i { issued := (d.version, p.disk) :: (s.clients i).issued, pending := none } }
      else applyLocked s i p
  | .override t => { s with entry := some (syncDoc s.entry t (firstVersion s.floor)) }
  | .syncAll =>
    match s.disk with
    | some d => { s with entry := some (syncDoc s.entry d (firstVersion s.floor)) }
    | none => s
  | .delete => { s with disk := none, entry := none, floor := retired s }
  | .evict => { s with entry := none, floor := retired s }
  | .retireOther k => { s with floor := max s.floor k }
  | .create i payload =>
    match s.disk, (s.clients i).pending with
    | none, none =>
      let v := firstVersion (retired s)
      { s with disk := some payload
               entry := some { content := payload, version := v }
               floor := retired s
               clients := upd s.clients i { (s.clients i) with issued := (v, payload) :: (s.clients i).issued }
               successes := s.successes ++ [{ client := i, expected := retired s, version := v
                                              content := payload, base := none, diskBefore := none }] }
    | _, _ => s
  | .symRename i buffer result =>
    match s.disk, (s.clients i).pending with
    | some d, none =>
      if buffer.any (· ≠ d) then
        -- refused with a conflict; the tracked document is synced with the disk
        { s with entry := some (syncDoc s.entry d (firstVersion s.floor)) }
      else
        -- `build_analysis_context` syncs with the disk, the result is written and the version
        -- bumped: exactly the locked section of a save whose read happened under the lock and
        -- whose expected version is the current one
        applyLocked s i { isApply := true, expected := (syncDoc s.entry d (firstVersion s.floor)).version
                          new := result, disk := d, base := some d, seenVersion := curVer s }
    | _, _ => s
  | .aliasWrite new =>
    match s.disk with
    | none => s
    | some _ => { s with disk := some new }
  | .splitCheck i =>
    match (s.clients i).pending with
    | none => s
    | some p =>
      let d := syncDoc s.entry p.disk (firstVersion s.floor)
      if d.version ≠ p.expected then
        { s with entry := some d, clients := upd s.clients i { (s.clients i) with pending := none } }
      else
        { s with entry := some d
                 clients := upd s.clients i { (s.clients i) with pending := none, passed := some p } }
  | .splitWrite i =>
    match (s.clients i).passed with
    | none => s
    | some p => { s with disk := some p.new }
  | .splitCommit i =>
    match (s.clients i).passed with
    | none => s
    | some p =>
      let v := satSucc (curVer s)
      { s with entry := some { content := p.new, version := v }
               clients := upd s.clients i { issued := (v, p.new) :: (s.clients i).issued }
               successes := s.successes ++ [{ client := i, expected := p.expected, version := v
                                              content := p.new, base := p.base, diskBefore := s.disk }] }

/-- content of the last successful write, `d0` if there was none -/
def lastContent (d0 : Content) (l : List Success) : Content :=
  match l.getLast? with
  | some ev => ev.content
  | none => d0

/-- every success found on disk exactly the content of the previous success (or the initial one),
or no file at all (it had been removed by `delete_entry`) -/
def chainOk : Content → List Success → Prop
  | _, [] => True
  | d, ev :: rest => (ev.diskBefore = some d ∨ ev.diskBefore = none) ∧ chainOk ev.content rest

def run (s : PState) : List Step → PState
  | [] => s
  | st :: rest => run (next s st) rest

def init (d0 : Content) : PState := { disk := some d0 }

end Proto

end TrustVerif.C19
