/-
Model of the resource threads of trust-runtime (property C20) as a labelled transition system.

Mirrors, function by function:
  crates/trust-runtime/src/scheduler.rs
      `ManualClock::{advance, interrupt, sleep_until}`      -> `Clock`, `Env.advance/interrupt`, pc `sleep`
      `StartGate::{open, wait_open}`                          -> `State.gateOpen`, pc `gate`
      `run_resource_loop_with_shared`                         -> `localStep`, `secStep`, `post`, `rstep`
      `scaled_time`, `scaled_sleep_interval`                  -> `scaledTime`, `sleepInterval`
      `ResourceControl::{pause, resume, stop, send_command}`  -> `Env.send/setStop/interrupt`
      `SharedGlobals::{from_runtime, with_lock, sync_into_locked, sync_from_locked}`
                                                              -> `fromRuntime`, `State.lock`, `syncInto`, `syncFrom`
  crates/trust-runtime/src/runtime/mesh.rs
      `snapshot_globals`, `apply_mesh_updates`                -> `snapshotGlobals`, `applyMesh`

One thread = one resource `r`; `rstep S r` is the next atomic action of that thread (`none` = the
thread is blocked or has ended).  The controller and the clocks are the environment (`estep`).
The locked section `with_lock(sync_into; execute_cycle; if ok { sync_from })` is split into its five
actions (acquire, sync_into, execute_cycle, sync_from, release) so that *every* interleaving of
several resources is an execution of the model; that the section nevertheless behaves as one
atomic action is a theorem (Props/C20), not an assumption.

Abstract (parameters of `Sys`): what `Runtime::execute_cycle` computes (`cycle`), what the I/O
driver delivers at the k-th cycle (`input`), what `Runtime::restart(Warm)` does (`restart`).
Not modelled: restart signal, simulation hooks, wall-clock watchdog (all `None`/disabled in the
configurations the correspondence run uses), panics (mutex poisoning).

Import-free (core Lean only) so that the driver links as a `lean_exe`.
-/
namespace TrustVerif.C20

def i64Max : Int := 9223372036854775807
def i64Min : Int := -9223372036854775808

/-- Rust `i64::saturating_add/mul` applied to an exact result. -/
def sat64 (x : Int) : Int :=
  if x > i64Max then i64Max else if x < i64Min then i64Min else x

/-- `scaled_time(now, scale)`. -/
def scaledTime (now : Int) (scale : Nat) : Int :=
  if scale ≤ 1 then now else sat64 (now * (scale : Int))

/-- `scaled_sleep_interval(interval, scale)`. -/
def sleepInterval (interval : Int) (scale : Nat) : Int :=
  if scale ≤ 1 then interval
  else if interval ≤ 0 then 0
  else if interval / (scale : Int) < 1 then 1 else interval / (scale : Int)

/-! ## Variable stores (`IndexMap<SmolStr, Value>`; names are numbered, values are integers) -/

abbrev Store := Nat → Option Int

def Store.empty : Store := fun _ => none

def Store.set (st : Store) (n : Nat) (v : Int) : Store :=
  fun m => if m = n then some v else st m

/-- `SharedGlobals::from_runtime`: `none` = `UndefinedVariable`. -/
def fromRuntime : List Nat → Store → Option Store
  | [], _ => some Store.empty
  | n :: ns, st =>
    match st n, fromRuntime ns st with
    | some v, some sh => some (sh.set n v)
    | _, _ => none

/-- `sync_into_locked`: copy every shared name into the runtime; stops at the first name missing in
the shared map (`UndefinedVariable`, flag `false`) and keeps what was copied before. -/
def syncInto : List Nat → Store → Store → Store × Bool
  | [], _, st => (st, true)
  | n :: ns, sh, st =>
    match sh n with
    | none => (st, false)
    | some v => syncInto ns sh (st.set n v)

/-- `sync_from_locked`: copy every shared name back; stops at the first name missing in the runtime. -/
def syncFrom : List Nat → Store → Store → Store × Bool
  | [], _, sh => (sh, true)
  | n :: ns, st, sh =>
    match st n with
    | none => (sh, false)
    | some v => syncFrom ns st (sh.set n v)

/-- `Runtime::snapshot_globals` (unknown names are skipped; an `IndexMap` keeps one entry per key). -/
def snapshotGlobals (st : Store) (names : List Nat) : List (Nat × Int) :=
  names.eraseDups.filterMap fun n => (st n).map fun v => (n, v)

/-- `Runtime::apply_mesh_updates` (unknown names are skipped). -/
def applyMesh (st : Store) : List (Nat × Int) → Store
  | [] => st
  | (n, v) :: us => applyMesh (if (st n).isSome then st.set n v else st) us

/-! ## Threads -/

/-- `ResourceState`. -/
inductive RState | boot | ready | running | paused | faulted | stopped
deriving DecidableEq, Repr

/-- How a thread ended: stopped while waiting at the gate, stopped from the loop, faulted. -/
inductive Exit | gate | stopped | faulted
deriving DecidableEq, Repr

/-- Result of the locked closure: `Ok`, `Err` of `execute_cycle`, `Err(UndefinedVariable)` of a sync. -/
inductive Outcome | ok | fault | undefined
deriving DecidableEq, Repr

/-- `last_error` classes. -/
inductive Err | cycle | undefined | restart
deriving DecidableEq, Repr

/-- `ResourceCommand` (the variants that touch what the property speaks about). -/
inductive Cmd
  | pause
  | resume
  | meshApply (ups : List (Nat × Int))
  | meshSnap (names : List Nat)
deriving DecidableEq, Repr

/-- Program counter of `run_resource_loop_with_shared`. -/
inductive Pc
  | start                 -- thread spawned, nothing done yet
  | gate                  -- inside `StartGate::wait_open`
  | top                   -- loop head: `if stop.load()`
  | drain                 -- `while let Ok(command) = commands.try_recv()`
  | pauseChk              -- `if paused { .. }`, reads the clock
  | sleep (deadline : Int) -- inside `clock.sleep_until(deadline)` (either branch)
  | lockWait              -- `shared.with_lock(..)`: waiting for the mutex
  | locked0               -- mutex held, before `sync_into_locked`
  | locked1               -- before `execute_cycle`
  | locked2 (ok : Bool)   -- after `execute_cycle` returned `ok`, before `if ok { sync_from_locked }`
  | locked3 (o : Outcome) -- before the guard is dropped
  | done (e : Exit)       -- thread ended
deriving DecidableEq, Repr

def Pc.inLocked : Pc → Bool
  | .locked0 | .locked1 | .locked2 _ | .locked3 _ => true
  | _ => false

/-- Inside `with_lock(..)`: waiting for the mutex or holding it. -/
def Pc.inCycle : Pc → Bool
  | .lockWait | .locked0 | .locked1 | .locked2 _ | .locked3 _ => true
  | _ => false

def Pc.isDone : Pc → Bool
  | .done _ => true
  | _ => false

/-- Everything that belongs to one resource: the thread's locals, its runtime, and the control
block it shares with the controller (`stop`, command channel, `state`, `last_error`). -/
structure Res where
  pc : Pc := .start
  paused : Bool := false
  store : Store := Store.empty     -- the runtime's global storage
  nowRaw : Int := 0                -- `now_raw` of the current iteration
  curTime : Int := 0               -- `runtime.current_time`
  stop : Bool := false             -- `stop: AtomicBool`
  queue : List Cmd := []           -- command channel (FIFO)
  state : RState := .boot          -- `state: Mutex<ResourceState>`
  lastErr : Option Err := none
  saves : Nat := 0                 -- calls of `save_retain_store`
  saved : Option Store := none     -- the storage that call saw
  execs : Nat := 0                 -- calls of `execute_cycle`
  oks : Nat := 0                   -- of which returned `Ok`
  outbox : List (List (Nat × Int)) := []  -- answers to `MeshSnapshot`

/-- `ResourceRunner` configuration of one resource. -/
structure Cfg where
  interval : Int := 0
  scale : Nat := 1
  gated : Bool := false
  clk : Nat := 0                   -- which `ManualClock` the runner uses (clocks may be shared)
  restartOnFault : Bool := false   -- `FaultPolicy::Restart`

/-- `ManualClockState` (the `interrupted` flag is never cleared by the code). -/
structure Clock where
  now : Int := 0
  intr : Bool := false

structure Sys where
  n : Nat
  names : List Nat
  cycle : Nat → Store → Int → Int → Store × Bool
  input : Nat → Nat → Int
  restart : Nat → Store → Option Store
  cfg : Nat → Cfg
  initStore : Nat → Store
  initShared : Store

structure State where
  res : Nat → Res
  shared : Store
  lock : Option Nat := none
  clocks : Nat → Clock := fun _ => {}
  gateOpen : Bool := false

def upd {α : Type} (f : Nat → α) (r : Nat) (x : α) : Nat → α :=
  fun i => if i = r then x else f i

def State.setRes (s : State) (r : Nat) (R : Res) : State := { s with res := upd s.res r R }

def init (S : Sys) : State :=
  { res := fun r => { store := S.initStore r }, shared := S.initShared }

/-- One command of the drain loop. -/
def applyCmd (c : Cmd) (R : Res) : Res :=
  match c with
  | .pause => { R with paused := true, state := .paused }
  | .resume => { R with paused := false, state := .running }
  | .meshApply ups => { R with store := applyMesh R.store ups }
  | .meshSnap names => { R with outbox := R.outbox ++ [snapshotGlobals R.store names] }

/-- Actions of the loop that touch only the thread's own data (reading its clock and the gate). -/
def localStep (cfg : Cfg) (clk : Clock) (gateOpen : Bool) (R : Res) : Option Res :=
  match R.pc with
  | .start =>
    if cfg.gated then some { R with state := .ready, pc := .gate }
    else some { R with state := .running, pc := .top }
  | .gate =>
    if gateOpen then some { R with state := .running, pc := .top }
    else if R.stop then some { R with state := .stopped, pc := .done .gate }
    else none
  | .top =>
    if R.stop then
      some { R with saves := R.saves + 1, saved := some R.store, state := .stopped, pc := .done .stopped }
    else some { R with pc := .drain }
  | .drain =>
    match R.queue with
    | [] => some { R with pc := .pauseChk }
    | c :: q => some (applyCmd c { R with queue := q })
  | .pauseChk =>
    if R.paused then
      if cfg.interval ≤ 0 then some { R with pc := .top }
      else some { R with pc := .sleep (sat64 (clk.now + sleepInterval cfg.interval cfg.scale)) }
    else
      some { R with nowRaw := clk.now, curTime := scaledTime clk.now cfg.scale, pc := .lockWait }
  | .sleep d =>
    if clk.intr || decide (d ≤ clk.now) then some { R with pc := .top } else none
  | _ => none

/-- What follows the locked closure (after the guard is dropped). -/
def post (S : Sys) (r : Nat) (o : Outcome) (R : Res) : Res :=
  match o with
  | .ok =>
    if (S.cfg r).interval ≤ 0 then { R with pc := .top }
    else { R with pc := .sleep (sat64 (R.nowRaw + sleepInterval (S.cfg r).interval (S.cfg r).scale)) }
  | _ =>
    if (S.cfg r).restartOnFault then
      match S.restart r R.store with
      | some st => { R with store := st, pc := .top }
      | none => { R with lastErr := some .restart, state := .faulted, pc := .done .faulted }
    else
      { R with lastErr := some (if o = .fault then .cycle else .undefined),
               state := .faulted, pc := .done .faulted }

/-- One action inside the locked closure, on (own data, shared map).  The flag says whether the
mutex is released by this action. -/
def secStep (S : Sys) (r : Nat) (R : Res) (sh : Store) : Res × Store × Bool :=
  match R.pc with
  | .locked0 =>
    let p := syncInto S.names sh R.store
    ({ R with store := p.1, pc := if p.2 then .locked1 else .locked3 .undefined }, sh, false)
  | .locked1 =>
    let p := S.cycle r R.store (S.input r R.execs) R.curTime
    ({ R with store := p.1, execs := R.execs + 1, oks := if p.2 then R.oks + 1 else R.oks,
              pc := .locked2 p.2 }, sh, false)
  | .locked2 ok =>
    -- `if result.is_ok() { sync_from_locked(..)? }`: a faulted cycle is not written back
    if ok then
      let p := syncFrom S.names R.store sh
      ({ R with pc := .locked3 (if p.2 then .ok else .undefined) }, p.1, false)
    else ({ R with pc := .locked3 .fault }, sh, false)
  | .locked3 o => (post S r o R, sh, true)
  | _ => (R, sh, false)

/-- The next action of thread `r`. -/
def rstep (S : Sys) (r : Nat) (s : State) : Option State :=
  match (s.res r).pc with
  | .lockWait =>
    match s.lock with
    | none => some { s with res := upd s.res r { s.res r with pc := .locked0 }, lock := some r }
    | some _ => none
  | .locked0 | .locked1 | .locked2 _ | .locked3 _ =>
    let t := secStep S r (s.res r) s.shared
    some { s with res := upd s.res r t.1, shared := t.2.1, lock := if t.2.2 then none else s.lock }
  | _ =>
    (localStep (S.cfg r) (s.clocks (S.cfg r).clk) s.gateOpen (s.res r)).map (s.setRes r)

/-- Controller and clock actions. -/
inductive Env
  | send (r : Nat) (c : Cmd)        -- `cmd_tx.send(c)`; after the thread has ended the real call
                                    -- returns `Err(channel closed)`: nobody reads the queue then
  | setStop (r : Nat)               -- `stop.store(true)`
  | interrupt (c : Nat)             -- `clock.wake()` = `ManualClock::interrupt`
  | advance (c : Nat) (dt : Int)    -- `ManualClock::advance`
  | openGate                        -- `StartGate::open`

def estep (e : Env) (s : State) : State :=
  match e with
  | .send r c => s.setRes r { s.res r with queue := (s.res r).queue ++ [c] }
  | .setStop r => s.setRes r { s.res r with stop := true }
  | .interrupt c => { s with clocks := upd s.clocks c { s.clocks c with intr := true } }
  | .advance c dt =>
    { s with clocks := upd s.clocks c { s.clocks c with now := sat64 ((s.clocks c).now + dt) } }
  | .openGate => { s with gateOpen := true }

inductive Label
  | res (r : Nat)
  | env (e : Env)

def step (S : Sys) (s : State) : Label → Option State
  | .res r => if r < S.n then rstep S r s else none
  | .env e => some (estep e s)

def run (S : Sys) : State → List Label → Option State
  | s, [] => some s
  | s, l :: ls =>
    match step S s l with
    | some s' => run S s' ls
    | none => none

def Reachable (S : Sys) (s : State) : Prop := ∃ ls, run S (init S) ls = some s

/-! ## The atomic reference system

`finish S q s` completes the locked closure of the thread `q` that holds the mutex; `aview` is the
state in which the section in progress (if any) is completed.  In the reference system `astep`
every locked closure is ONE action, so its executions are the serial executions of whole cycles
in the order in which the mutex is acquired. -/

def finishN (S : Sys) (q : Nat) : Nat → State → State
  | 0, s => s
  | k + 1, s =>
    if (s.res q).pc.inLocked then
      let t := secStep S q (s.res q) s.shared
      finishN S q k { s with res := upd s.res q t.1, shared := t.2.1,
                             lock := if t.2.2 then none else s.lock }
    else s

def finish (S : Sys) (q : Nat) (s : State) : State := finishN S q 4 s

def aview (S : Sys) (s : State) : State :=
  match s.lock with
  | some q => finish S q s
  | none => s

def astep (S : Sys) (s : State) (l : Label) : Option State := (step S s l).map (aview S)

def arun (S : Sys) : State → List Label → Option State
  | s, [] => some s
  | s, l :: ls =>
    match astep S s l with
    | some s' => arun S s' ls
    | none => none

/-- The locked closure on (own data, shared map) alone. -/
def critN (S : Sys) (r : Nat) : Nat → Res → Store → Res × Store
  | 0, R, sh => (R, sh)
  | k + 1, R, sh =>
    if R.pc.inLocked then
      let t := secStep S r R sh
      critN S r k t.1 t.2.1
    else (R, sh)

/-- The whole locked closure (from just after the mutex is acquired to just after it is released)
as a function of (own data, shared map). -/
def crit (S : Sys) (r : Nat) (R : Res) (sh : Store) : Res × Store :=
  critN S r 4 { R with pc := .locked0 } sh

/-! ## Steps to termination once `stop` is set and the clock is interrupted -/

/-- Upper bound of the number of own actions thread `R` still takes when its `stop` flag is set and
its clock is interrupted. -/
def stopFuel (R : Res) : Nat :=
  match R.pc with
  | .start => 3
  | .gate => 2
  | .top => 1
  | .drain => R.queue.length + 9
  | .pauseChk => 8
  | .sleep _ => 2
  | .lockWait => 7
  | .locked0 => 6
  | .locked1 => 5
  | .locked2 _ => 4
  | .locked3 _ => 3
  | .done _ => 0

/-! ## The program family of the correspondence run

Every resource runs the same kind of program on globals 0 = `cnt`, 1 = `pa`, 2 = `pb` (shared),
3 = `lc` (own), 4 = `rc` (own, RETAIN):

    IF fm = 1 THEN x := 1 / zero; END_IF;
    cnt := cnt + inc;  pa := pa + 1;
    IF fm = 2 THEN x := 1 / zero; END_IF;
    pb := pb + 1;  lc := lc + 1;  rc := rc + 1;

where `fm` is the input byte delivered by the I/O driver for this cycle. -/

def counterCycle (inc : Nat → Int) (r : Nat) (st : Store) (inp : Int) (_t : Int) : Store × Bool :=
  if inp = 1 then (st, false)
  else
    let st1 := (st.set 0 ((st 0).getD 0 + inc r)).set 1 ((st 1).getD 0 + 1)
    if inp = 2 then (st1, false)
    else (((st1.set 2 ((st 2).getD 0 + 1)).set 3 ((st 3).getD 0 + 1)).set 4 ((st 4).getD 0 + 1), true)

/-- Initial globals of every resource: `cnt = c0`, `pa = pb = p0`, `lc = rc = 0`. -/
def counterInit (c0 p0 : Int) : Store :=
  fun n => if n = 0 then some c0 else if n = 1 ∨ n = 2 then some p0 else if n = 3 ∨ n = 4 then some 0 else none

/-- `Runtime::restart(Warm)`: every global is re-initialised except the retained one. -/
def counterRestart (c0 p0 : Int) (_r : Nat) (st : Store) : Option Store :=
  some fun n => if n = 4 then st 4 else counterInit c0 p0 n

def counterSys (n : Nat) (inc : Nat → Int) (input : Nat → Nat → Int) (cfg : Nat → Cfg)
    (c0 p0 : Int) : Sys :=
  { n := n, names := [0, 1, 2], cycle := counterCycle inc, input := input,
    restart := counterRestart c0 p0, cfg := cfg,
    initStore := fun _ => counterInit c0 p0,
    initShared := fun m => if m < 3 then counterInit c0 p0 m else none }

/-- What the `k`-th cycles of resource `r` for `k < m` add to `cnt` (a cycle that faults, at either
fault point, is not written back). -/
def contrib (inc : Nat → Int) (input : Nat → Nat → Int) (r : Nat) : Nat → Int
  | 0 => 0
  | m + 1 => contrib inc input r m + (if input r m = 1 ∨ input r m = 2 then 0 else inc r)

def sumTo (f : Nat → Int) : Nat → Int
  | 0 => 0
  | n + 1 => sumTo f n + f n

def Label.isRes (r : Nat) : Label → Bool
  | .res q => q == r
  | _ => false

def Label.isSend (r : Nat) : Label → Bool
  | .env (.send q _) => q == r
  | _ => false

end TrustVerif.C20
