/-!
# `eval/expr/access.rs: array_offset` — subscripts of a multi-dimensional array

```rust
if dimensions.len() != indices.len() { return Err(TypeMismatch); }
let mut offset: i128 = 0;
let mut stride: i128 = 1;
for ((lower, upper), index_value) in dimensions.iter().zip(indices).rev() {
    let idx = index_to_i64(index_value.clone())?;
    if idx < *lower || idx > *upper { return Err(IndexOutOfBounds { index: idx, lower, upper }); }
    let len = (*upper - *lower + 1) as i128;
    offset += (idx - *lower) as i128 * stride;
    stride *= len;
}
usize::try_from(offset).map_err(|_| TypeMismatch)
```

The model works on the subscripts after `index_to_i64` (modelled in `StCore.indexToI64`).  Bounds
are `i32` literals in an accepted program, so `upper - lower + 1` cannot overflow `i64` and the
`i128` accumulators cannot overflow for any array that fits in memory; the model uses ℤ.
-/
namespace TrustVerif.StArray

inductive Err
  | typeMismatch
  | outOfBounds (idx lo hi : Int)
  deriving DecidableEq, Repr

/-- One dimension with its subscript. -/
abbrev Pair := (Int × Int) × Int

/-- The loop body: bounds check of the subscript against ITS dimension, then
`offset += (idx - lower) * stride; stride *= len`. -/
def step (acc : Int × Int) (d : Pair) : Except Err (Int × Int) :=
  if d.2 < d.1.1 ∨ d.2 > d.1.2 then .error (.outOfBounds d.2 d.1.1 d.1.2)
  else .ok (acc.1 + (d.2 - d.1.1) * acc.2, acc.2 * (d.1.2 - d.1.1 + 1))

/-- The `for` loop over the pairs in the order given. -/
def loop : List Pair → Int × Int → Except Err (Int × Int)
  | [], acc => .ok acc
  | d :: rest, acc =>
    match step acc d with
    | .error e => .error e
    | .ok acc' => loop rest acc'

/-- `array_offset`: the pairs are walked innermost dimension first (`zip(..).rev()`). -/
def arrayOffset (dims : List (Int × Int)) (idx : List Int) : Except Err Nat :=
  if dims.length ≠ idx.length then .error .typeMismatch else
  match loop (dims.zip idx).reverse (0, 1) with
  | .error e => .error e
  | .ok (off, _) => if off < 0 then .error .typeMismatch else .ok off.toNat

/-! ## The reference: row-major order -/

/-- Number of elements of the (remaining) dimensions. -/
def size : List Pair → Int
  | [] => 1
  | d :: rest => (d.1.2 - d.1.1 + 1) * size rest

/-- Row-major position (the last subscript varies fastest). -/
def rowMajor : List Pair → Int
  | [] => 0
  | d :: rest => (d.2 - d.1.1) * size rest + rowMajor rest

/-- Every subscript lies within its own dimension. -/
def InBounds (ps : List Pair) : Prop := ∀ d ∈ ps, d.1.1 ≤ d.2 ∧ d.2 ≤ d.1.2

end TrustVerif.StArray
