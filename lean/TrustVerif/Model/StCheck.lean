import TrustVerif.Model.StCore

/-!
# ST-core: model of what the real compiler accepts (`Program.accepted`)

A decidable judgment written from the rules `trust-hir` applies to the fragment
(`type_check/{expr,stmt,literals,helpers,compatibility}.rs`) plus the compile-time failures of
the lowering (`harness/lower/expr.rs: lower_literal`, `harness/coerce.rs`).  It is *not* a
line-by-line model of the 7 k-line checker; it is tied to the real one by the correspondence run
(`check` operation: same verdict on every generated program, well-typed or ill-typed in one place).

This is the **lenient** judgment: it accepts what the real checker accepts, including the
programs on which the interpreter then faults with a static-class error (see Props/C01).
-/
namespace TrustVerif.StCore

/-- The literal parser goes through `i64` (`parse_int_literal`: `str::parse::<i64>` on the digits,
sign applied afterwards): a magnitude above `i64::MAX` cannot be written, typed or not. -/
def writable (v : Int) : Bool := decide (-i64Max ≤ v) && decide (v ≤ i64Max)

/-- `const_eval.rs: eval_const_int_expr` on an index expression (literals, unary minus, checked
`+ - * / MOD`); a typed literal contributes only its digits (the sign inside `K#-n` is dropped). -/
def constIdx : Expr → Option Int
  | .lit none v => some v
  | .lit (some _) v => some (Int.ofNat v.natAbs)
  | .un .neg e => (constIdx e).map (fun v => -v)
  | .bin op l r =>
    match constIdx l, constIdx r with
    | some a, some b =>
      match op with
      | .add => some (a + b)
      | .sub => some (a - b)
      | .mul => some (a * b)
      | .div => if b = 0 then none else some (Int.tdiv a b)
      | .mod => if b = 0 then none else some (Int.tmod a b)
      | _ => none
    | _, _ => none
  | _ => none

/-- `expr.rs: check_expression` restricted to the fragment; `none` = an error diagnostic (or a
lowering error) somewhere inside. -/
def inferL (Γ : Ctx) : Expr → Option Ty
  | .lit none v => (smallestSigned v).map Ty.int
  | .lit (some k) v => if k.inRange v && writable v then some (.int k) else none
  | .blit _ => some .bool
  | .var x => Γ.lookup x
  | .un .neg e =>
    match inferL Γ e with
    | some (.int k) => some (.int k)          -- "negation requires numeric type": any integer kind
    | _ => none
  | .un .not e =>
    match inferL Γ e with
    | some .bool => some .bool
    | _ => none
  | .bin op l r =>
    match inferL Γ l, inferL Γ r with
    | some tl, some tr =>
      if op.isArith then
        match tl, tr with
        | .int a, .int b => some (.int (wider a b))      -- helpers.rs wider_numeric (same order as numeric.rs)
        | _, _ => none
      else if op.isCmp then
        match tl, tr with
        | .bool, .bool => some .bool                     -- check_comparable: lhs == rhs
        | .int _, .int _ => some .bool                   -- "numeric types are comparable to each other"
        | _, _ => none
      else
        match tl, tr with
        | .bool, .bool => some .bool
        | _, _ => none
    | _, _ => none
  | .idx a i =>
    -- index of integer type; a constant index is checked against the bounds (E304)
    match Γ.aggs.lookup a with
    | some (.arr lo hi t) =>
      match inferL Γ i with
      | some (.int _) =>
        match constIdx i with
        | some n => if lo ≤ n ∧ n ≤ hi then some t else none
        | none => some t
      | _ => none
    | _ => none
  | .fld s f =>
    -- the checker finds the field case-insensitively ("no field on struct" otherwise)
    match Γ.aggs.lookup s with
    | some (.str _ fields) => (fields.find? (fun q => q.1.toUpper = f.toUpper)).map (·.2)
    | _ => none

/-- `literals.rs: is_untyped_int_literal_expr` (parentheses are transparent in the AST). -/
def isLitExpr : Expr → Bool
  | .lit none _ => true
  | .un .neg e => isLitExpr e
  | .bin op l r => op.isArith && isLitExpr l && isLitExpr r
  | _ => false

/-- `compatibility.rs: is_assignable` / `types_compatible`: identity or widening inside the
signed chain or inside the unsigned chain. -/
def assignable (target source : Ty) : Bool :=
  match target, source with
  | .bool, .bool => true
  | .int t, .int s => decide (t = s) || (decide (t.signed = s.signed) && decide (s.rank < t.rank))
  | _, _ => false

def Ty.isInt : Ty → Bool
  | .int _ => true
  | .bool => false

/-- Assignment-like compatibility: `is_assignable || is_contextual_int_literal`. -/
def assignOk (Γ : Ctx) (target : Ty) (e : Expr) : Bool :=
  match inferL Γ e with
  | none => false
  | some s => assignable target s || (target.isInt && isLitExpr e)

/-- State of `CaseLabelTracker`. -/
structure Tracker where
  ints : List Int := []
  ranges : List (Int × Int) := []

/-- Key under which the checker records a label (`const_eval.rs: eval_const_int_expr`): for a
typed literal `parse_int_literal_from_node` reads only the digits, so the sign is dropped. -/
def LabLit.key (a : LabLit) : Int :=
  match a.ty with
  | none => a.v
  | some _ => Int.ofNat a.v.natAbs

/-- A label literal is acceptable for a selector of kind `sel`: untyped → contextual literal
(must survive the lowering: magnitude within `i32`), typed → in range of its own kind and
assignable to the selector type. -/
def LabLit.ok (sel : IKind) (a : LabLit) : Bool :=
  match a.ty with
  | none => decide (-i32Max ≤ a.v) && decide (a.v ≤ i32Max)
  | some k => k.inRange a.v && writable a.v && assignable (.int sel) (.int k)

/-- `stmt.rs: record_case_label_value` / `record_case_label_range`; `none` = "duplicate CASE label". -/
def Tracker.add (t : Tracker) : Label → Option Tracker
  | .single a =>
    let v := a.key
    if t.ints.contains v || t.ranges.any (fun r => decide (r.1 ≤ v) && decide (v ≤ r.2)) then none
    else some { t with ints := v :: t.ints }
  | .range a b =>
    let lo := min a.key b.key
    let hi := max a.key b.key
    if t.ints.any (fun v => decide (lo ≤ v) && decide (v ≤ hi))
        || t.ranges.any (fun r => !(decide (hi < r.1) || decide (lo > r.2))) then none
    else some { t with ranges := (lo, hi) :: t.ranges }

def Label.ok (sel : IKind) : Label → Bool
  | .single a => a.ok sel
  | .range a b => a.ok sel && b.ok sel

def labelsOk (sel : IKind) : Tracker → List Label → Option Tracker
  | t, [] => some t
  | t, l :: ls => if l.ok sel then (t.add l).bind (fun t' => labelsOk sel t' ls) else none

/-- `resolve_simple_symbol` on a FOR bound: a plain variable reference. -/
def simpleVar : Expr → List String
  | .var x => [x]
  | _ => []

/-- FOR bound: integer typed, and equal to the control type unless it is an untyped literal
expression (`stmt.rs: check_for_stmt`).  `ctl = none`: the control variable does not resolve,
in which case the real checker only requires integer bounds (and reports nothing else). -/
def forBoundOk (Γ : Ctx) (ctl : Option IKind) (e : Expr) : Bool :=
  match inferL Γ e with
  | some (.int k) =>
    match ctl with
    | some c => decide (k = c) || isLitExpr e
    | none => true
  | _ => false

mutual
/-- `stmt.rs: check_statement`; `ce` = also check the ELSE branch of CASE (see `.case`); `restricted` = the union of the enclosing FOR loops'
`LoopContext.restricted`, `inLoop` = `!loop_stack.is_empty()`. -/
def checkStmt (ce : Bool) (Γ : Ctx) (restricted : List String) (inLoop : Bool) : Stmt → Bool
  | .assign x e =>
    match Γ.lookup x with
    | none => false
    | some t => !restricted.contains x && assignOk Γ t e
  | .assignIdx a i e =>
    match inferL Γ (.idx a i) with
    | some t => assignOk Γ t e
    | none => false
  | .assignFld s f e =>
    match inferL Γ (.fld s f) with
    | some t => assignOk Γ t e
    | none => false
  | .ite c t elifs el =>
    inferL Γ c = some .bool && checkBlock ce Γ restricted inLoop t
      && checkElifs ce Γ restricted inLoop elifs && checkBlock ce Γ restricted inLoop el
  | .case sel brs el =>
    match inferL Γ sel with
    | some (.int k) =>
      -- `check_case_stmt` checks the statements of the ELSE branch like any other block since
      -- 22a8b8f (`ce = true`, the real checker); `ce = false` is the checker before that fix,
      -- kept so that the regression witness can be stated
      (checkBranches ce Γ restricted inLoop k {} brs).isSome && (!ce || checkBlock ce Γ restricted inLoop el)
    | _ => false     -- BOOL selector: labels cannot be lowered ("expected integer constant")
  | .for x s e step body =>
    let ctl : Option (Option IKind) :=
      match Γ.lookup x with
      | none => none            -- "undefined identifier" (the control variable is resolved)
      | some (.int k) => some (some k)
      | some .bool => none
    match ctl with
    | none => false
    | some c =>
      forBoundOk Γ c s && forBoundOk Γ c e
        && (match step with | none => true | some st => forBoundOk Γ c st)
        && checkBlock ce Γ (x :: simpleVar s ++ simpleVar e ++ restricted) true body
  | .while c body => inferL Γ c = some .bool && checkBlock ce Γ restricted true body
  | .repeat body c => inferL Γ c = some .bool && checkBlock ce Γ restricted true body
  | .exit => inLoop
  | .continue => inLoop
  | .ret => true       -- `RETURN;` in a PROGRAM: (None, None) — no diagnostic

def checkBlock (ce : Bool) (Γ : Ctx) (restricted : List String) (inLoop : Bool) : Block → Bool
  | .nil => true
  | .cons s rest => checkStmt ce Γ restricted inLoop s && checkBlock ce Γ restricted inLoop rest

def checkElifs (ce : Bool) (Γ : Ctx) (restricted : List String) (inLoop : Bool) : Elifs → Bool
  | .nil => true
  | .cons c b rest =>
    inferL Γ c = some .bool && checkBlock ce Γ restricted inLoop b && checkElifs ce Γ restricted inLoop rest

def checkBranches (ce : Bool) (Γ : Ctx) (restricted : List String) (inLoop : Bool) (sel : IKind) :
    Tracker → Branches → Option Tracker
  | t, .nil => some t
  | t, .cons ls b rest =>
    match labelsOk sel t ls with
    | none => none
    | some t' =>
      if !ls.isEmpty && checkBlock ce Γ restricted inLoop b then checkBranches ce Γ restricted inLoop sel t' rest
      else none
end

/-- A declaration compiles: the initialiser is coercible to the declared type
(`coerce_value_to_type`: range check) and, when written untyped, survives `lower_literal`. -/
def VarDecl.ok (d : VarDecl) : Bool :=
  match d.ty with
  | .bool => d.init = 0 || d.init = 1
  | .int k => k.inRange d.init && writable d.init
      && (d.typedInit || (decide (-i32Max ≤ d.init) && decide (d.init ≤ i32Max)))

def distinctNames : List String → Bool
  | [] => true
  | x :: xs => !xs.contains x && distinctNames xs

/-- `harness/lower/expr.rs: lower_literal` succeeds on every literal of the expression (this runs
on the whole syntax tree, also where the checker does not look). -/
def Expr.lowerable : Expr → Bool
  | .lit none v => decide (0 ≤ v) && decide (v ≤ i32Max)
  | .lit (some k) v => k.inRange v && writable v
  | .blit _ => true
  | .var _ => true
  | .un _ e => e.lowerable
  | .bin _ l r => l.lowerable && r.lowerable
  | .idx _ i => i.lowerable
  | .fld _ _ => true

mutual
def Stmt.lowerable : Stmt → Bool
  | .assign _ e => e.lowerable
  | .assignIdx _ i e => i.lowerable && e.lowerable
  | .assignFld _ _ e => e.lowerable
  | .ite c t elifs el => c.lowerable && t.lowerable && elifs.lowerable && el.lowerable
  | .case sel brs el => sel.lowerable && brs.lowerable && el.lowerable
  | .for _ s e step body =>
    s.lowerable && e.lowerable && (match step with | none => true | some st => st.lowerable) && body.lowerable
  | .while c body => c.lowerable && body.lowerable
  | .repeat body c => body.lowerable && c.lowerable
  | .exit | .continue | .ret => true
def Block.lowerable : Block → Bool
  | .nil => true
  | .cons s rest => s.lowerable && rest.lowerable
def Elifs.lowerable : Elifs → Bool
  | .nil => true
  | .cons c b rest => c.lowerable && b.lowerable && rest.lowerable
def Branches.lowerable : Branches → Bool
  | .nil => true
  | .cons _ b rest => b.lowerable && rest.lowerable
end

def Program.acceptedWith (ce : Bool) (p : Program) : Bool :=
  distinctNames (p.decls.map (·.name) ++ p.aggs.map (·.1)) && p.decls.all VarDecl.ok
    && p.aggs.all (fun (_, d) => match d with
        -- bounds are untyped literals: `lower_literal` limits them to `i32`
        | .arr lo hi _ => decide (lo ≤ hi) && decide (-i32Max ≤ lo) && decide (hi ≤ i32Max)
        | .str _ fs => distinctNames (fs.map (·.1.toUpper)))
    && checkBlock ce p.ctx [] false p.body && p.body.lowerable

/-- The model's verdict on a program: the real compiler (`TestHarness::from_source`) accepts it. -/
def Program.accepted (p : Program) : Bool := p.acceptedWith true

/-- Verdict of the checker before 22a8b8f (ELSE branch of CASE unchecked). -/
def Program.acceptedBefore22a8b8f (p : Program) : Bool := p.acceptedWith false

end TrustVerif.StCore
