import TrustVerif.Generated.StFaults

/-!
# ST-core: the shared executable model behind C01, C02 and C03

Fragment (stages S1+S2 of DESIGN.md): BOOL and the eight integer kinds with **dynamic tags**,
literals, variables, unary/binary operators, and the statements
`:=  IF/ELSIF/ELSE  CASE  FOR  WHILE  REPEAT  EXIT  CONTINUE  RETURN`.

Every definition mirrors one Rust function of `/repo/crates/trust-runtime` (cited in the doc
comment) as the code is *now* — including the places where it violates C01/C02/C03.
Import-free apart from the generated error enum, so the driver links.
-/
namespace TrustVerif.StCore

/-! ## Integer kinds (`numeric.rs: NumericKind`, integer part) -/

inductive IKind
  | sint | int | dint | lint | usint | uint | udint | ulint
  deriving DecidableEq, Repr, Inhabited

namespace IKind

def signed : IKind → Bool
  | sint | int | dint | lint => true
  | usint | uint | udint | ulint => false

/-- Minimum of the Rust carrier type (`i8 … i64`, `u8 … u64`). -/
def lo : IKind → Int
  | sint => -128
  | int => -32768
  | dint => -2147483648
  | lint => -9223372036854775808
  | usint | uint | udint | ulint => 0

/-- Maximum of the Rust carrier type. -/
def hi : IKind → Int
  | sint => 127
  | int => 32767
  | dint => 2147483647
  | lint => 9223372036854775807
  | usint => 255
  | uint => 65535
  | udint => 4294967295
  | ulint => 18446744073709551615

/-- `numeric.rs: numeric_rank` — every unsigned kind outranks every signed kind. -/
def rank : IKind → Nat
  | sint => 0 | int => 1 | dint => 2 | lint => 3
  | usint => 4 | uint => 5 | udint => 6 | ulint => 7

def inRange (k : IKind) (v : Int) : Bool := decide (k.lo ≤ v) && decide (v ≤ k.hi)

def name : IKind → String
  | sint => "SINT" | int => "INT" | dint => "DINT" | lint => "LINT"
  | usint => "USINT" | uint => "UINT" | udint => "UDINT" | ulint => "ULINT"

/-- Name of the `Value` variant (`value/types.rs`). -/
def tag : IKind → String
  | sint => "SInt" | int => "Int" | dint => "DInt" | lint => "LInt"
  | usint => "USInt" | uint => "UInt" | udint => "UDInt" | ulint => "ULInt"

def all : List IKind := [sint, int, dint, lint, usint, uint, udint, ulint]

end IKind

/-- `numeric.rs: wider_numeric`. -/
def wider (a b : IKind) : IKind := if b.rank ≤ a.rank then a else b

def i64Min : Int := -9223372036854775808
def i64Max : Int := 9223372036854775807
def i32Max : Int := 2147483647
def u32Max : Int := 4294967295
def i128Min : Int := -170141183460469231731687303715884105728
def i128Max : Int := 170141183460469231731687303715884105727
def u128Max : Int := 340282366920938463463374607431768211455

/-! ## Types, values, outcomes -/

inductive Ty
  | bool
  | int (k : IKind)
  deriving DecidableEq, Repr, Inhabited

def Ty.name : Ty → String
  | .bool => "BOOL"
  | .int k => k.name

/-- `value/types.rs: Value`, restricted to `Bool` and the eight integer variants.  The payload
of `i k v` is a mathematical integer; the Rust carrier guarantees `k.inRange v` (`Val.WF`). -/
inductive Val
  | b (v : Bool)
  | i (k : IKind) (v : Int)
  deriving DecidableEq, Repr, Inhabited

def Val.WF : Val → Bool
  | .b _ => true
  | .i k v => k.inRange v

def Val.hasTy : Val → Ty → Bool
  | .b _, .bool => true
  | .i k v, .int k' => decide (k = k') && k.inRange v
  | _, _ => false

/-- `value/defaults.rs: default_value_for_type_id` for the fragment. -/
def Ty.default : Ty → Val
  | .bool => .b false
  | .int k => .i k 0

/-- Where in the modelled code an error is raised (used to attribute a fault to a known finding;
the implementation only reports the `RuntimeError` variant). -/
inductive Site
  | readName          -- eval/expr/access.rs read_name: UndefinedVariable
  | negMin            -- eval/ops.rs apply_unary Neg: checked_neg = None
  | negUnsigned       -- eval/ops.rs apply_unary Neg: `_ => TypeMismatch` on an unsigned integer
  | negBool           -- eval/ops.rs apply_unary Neg: `_ => TypeMismatch` on BOOL
  | notInt            -- eval/ops.rs apply_unary Not: `_ => TypeMismatch` on an integer
  | toI64Ulint        -- numeric.rs to_i64: ULINT above i64::MAX
  | toI64Bool         -- numeric.rs to_i64: `_ => TypeMismatch`
  | toU64Negative     -- numeric.rs to_u64: negative signed operand in an unsigned operation
  | toU64Bool         -- numeric.rs to_u64: `_ => TypeMismatch`
  | arithNonNumeric   -- eval/ops.rs numeric_arith: numeric_kind = None
  | cmpNonNumeric     -- eval/ops.rs numeric_cmp: numeric_kind = None
  | logicalMixed      -- eval/ops.rs logical_or_bitwise: `_ => TypeMismatch`
  | divZero           -- eval/ops.rs numeric_arith Div
  | modZero           -- eval/ops.rs numeric_arith Mod
  | powNegExp         -- eval/ops.rs numeric_arith Pow: `b < 0 => TypeMismatch`
  | powExpRange       -- eval/ops.rs numeric_arith Pow: exponent does not fit u32
  | powOverflow       -- eval/ops.rs numeric_arith Pow: checked_pow = None
  | usubUnderflow     -- eval/ops.rs numeric_arith unsigned Sub: checked_sub = None
  | narrow            -- numeric.rs signed_from_i128 / unsigned_from_u128: result out of range
  | i128Arith         -- eval/ops.rs numeric_arith: plain `+ - *` on i128/u128 (panic site)
  | condNotBool       -- eval/stmt.rs eval_bool
  | caseSelector      -- eval/stmt.rs Stmt::Case: selector is not an integer
  | forIntValue       -- eval/stmt.rs int_value: `_ => TypeMismatch`
  | forStepZero       -- eval/stmt.rs Stmt::For
  | forUnsignedNegStep -- eval/stmt.rs Stmt::For: unsigned control variable with negative step
  | forIncrement      -- eval/stmt.rs Stmt::For: current.checked_add(step) = None
  | forCoerceRange    -- eval/stmt.rs coerce_loop_value: value outside the control variable's kind
  | forCoerceNegative -- eval/stmt.rs coerce_loop_value: u64::try_from(negative) => TypeMismatch
  | forCoerceBool     -- eval/stmt.rs coerce_loop_value: `_ => TypeMismatch`
  | exitOutsideLoop   -- eval/stmt.rs Stmt::Exit / Stmt::Continue with loop_depth = 0
  | programFlow       -- runtime/cycle.rs execute_program: body result other than Continue / Return
  | callArgCount      -- eval/mod.rs prepare_bindings: positional call with the wrong number of arguments
  | callBindTarget    -- eval/mod.rs prepare_bindings: OUT / IN_OUT argument that is not an l-value
  | callUndefined     -- eval/expr/eval.rs Expr::Call: no function / instance of that name
  | fbFlow            -- eval/mod.rs call_function_block: body ended with Exit / LoopContinue
  | indexNotInt       -- eval/expr/access.rs index_to_i64: `_ => TypeMismatch`
  | indexBounds       -- eval/expr/access.rs array_offset: IndexOutOfBounds
  | indexOfNonArray   -- eval/expr/access.rs read_indices / write_indices: `_ => TypeMismatch`
  | fieldName         -- eval/expr/access.rs read_field / write_field: UndefinedField
  | fieldOfNonStruct  -- eval/expr/access.rs read_field / write_field: `_ => TypeMismatch`
  | budget            -- eval/stmt.rs check_execution_budget (model: fuel exhausted)
  | latched           -- runtime/cycle.rs execute_cycle: resource already faulted
  deriving DecidableEq, Repr, Inhabited

def Site.name (s : Site) : String :=
  let r := reprStr s
  -- `reprStr` prints `TrustVerif.StCore.Site.negMin`; keep the last component
  (r.splitOn ".").getLast!

/-- How evaluation stops abnormally: a reported `RuntimeError`, or a Rust panic (dev profile:
overflow checks on). -/
inductive Stop
  | fault (e : RustErr) (s : Site)
  | panic (s : Site)
  deriving DecidableEq, Repr, Inhabited

abbrev M := Except Stop

def fault {α} (e : RustErr) (s : Site) : M α := .error (.fault e s)

/-! ## Operators (`eval/ops.rs`) -/

inductive UnOp | neg | not
  deriving DecidableEq, Repr, Inhabited

inductive BinOp
  | add | sub | mul | div | mod | pow
  | and | or | xor
  | eq | ne | lt | le | gt | ge
  deriving DecidableEq, Repr, Inhabited

def BinOp.isArith : BinOp → Bool
  | .add | .sub | .mul | .div | .mod | .pow => true
  | _ => false

def BinOp.isCmp : BinOp → Bool
  | .eq | .ne | .lt | .le | .gt | .ge => true
  | _ => false

def BinOp.isLogic : BinOp → Bool
  | .and | .or | .xor => true
  | _ => false

/-- `eval/ops.rs: apply_unary` (`Pos` is not in the fragment). -/
def applyUnary (op : UnOp) (v : Val) : M Val :=
  match op, v with
  | .neg, .i k x =>
    if k.signed then
      -- checked_neg: None exactly at the minimum, i.e. when `-x` leaves the carrier
      if k.inRange (-x) then pure (.i k (-x)) else fault .Overflow .negMin
    else fault .TypeMismatch .negUnsigned
  | .neg, .b _ => fault .TypeMismatch .negBool
  | .not, .b x => pure (.b (!x))
  | .not, .i _ _ => fault .TypeMismatch .notInt

/-- `numeric.rs: to_i64`. -/
def toI64 : Val → M Int
  | .i .ulint x => if x ≤ i64Max then pure x else fault .Overflow .toI64Ulint
  | .i _ x => pure x
  | .b _ => fault .TypeMismatch .toI64Bool

/-- `numeric.rs: to_u64`. -/
def toU64 : Val → M Int
  | .i k x => if k.signed && decide (x < 0) then fault .TypeMismatch .toU64Negative else pure x
  | .b _ => fault .TypeMismatch .toU64Bool

/-- A plain `+`, `-`, `*` on `i128` (dev profile): panics when the result leaves `i128`. -/
def i128 (r : Int) : M Int :=
  if i128Min ≤ r ∧ r ≤ i128Max then pure r else .error (.panic .i128Arith)

/-- A plain `+`, `*` on `u128`. -/
def u128 (r : Int) : M Int :=
  if 0 ≤ r ∧ r ≤ u128Max then pure r else .error (.panic .i128Arith)

/-- `i128::checked_pow` / `u128::checked_pow` as a total function on mathematical integers:
`some (a ^ e)` when the result lies in `[lo, hi]`.  Written so that it is executable for any
`e < 2^32` (no huge intermediate numbers): bases of magnitude ≤ 1 are closed forms, and a base
of magnitude ≥ 2 overflows 128 bits once `e ≥ 128`. -/
def checkedPow (lo hi : Int) (a : Int) (e : Nat) : Option Int :=
  if a = 0 then some (if e = 0 then 1 else 0)
  else if a = 1 then some 1
  else if a = -1 then some (if e % 2 = 0 then 1 else -1)
  else if e ≥ 128 then none
  else
    let r := a ^ e
    if lo ≤ r ∧ r ≤ hi then some r else none

/-- The signed arm of `numeric_arith`: operands already widened to `i128`. -/
def signedOp (op : BinOp) (x y : Int) : M Int :=
  match op with
  | .add => i128 (x + y)
  | .sub => i128 (x - y)
  | .mul => i128 (x * y)
  | .div => if y = 0 then fault .DivisionByZero .divZero else i128 (Int.tdiv x y)
  | .mod => if y = 0 then fault .ModuloByZero .modZero else pure (Int.tmod x y)
  | .pow =>
    if y < 0 then fault .TypeMismatch .powNegExp
    else if y > u32Max then fault .Overflow .powExpRange
    else match checkedPow i128Min i128Max x y.toNat with
      | some r => pure r
      | none => fault .Overflow .powOverflow
  | _ => fault .TypeMismatch .arithNonNumeric

/-- The unsigned arm of `numeric_arith`: operands widened to `u128`. -/
def unsignedOp (op : BinOp) (x y : Int) : M Int :=
  match op with
  | .add => u128 (x + y)
  | .sub => if x < y then fault .Overflow .usubUnderflow else pure (x - y)
  | .mul => u128 (x * y)
  | .div => if y = 0 then fault .DivisionByZero .divZero else pure (x / y)
  | .mod => if y = 0 then fault .ModuloByZero .modZero else pure (x % y)
  | .pow =>
    if y > u32Max then fault .Overflow .powExpRange
    else match checkedPow 0 u128Max x y.toNat with
      | some r => pure r
      | none => fault .Overflow .powOverflow
  | _ => fault .TypeMismatch .arithNonNumeric

/-- `numeric.rs: signed_from_i128` / `unsigned_from_u128` (target kind fixed by the caller). -/
def narrow (t : IKind) (r : Int) : M Val :=
  if t.inRange r then pure (.i t r) else fault .Overflow .narrow

/-- `eval/ops.rs: numeric_arith`, integer arms. -/
def numericArith (op : BinOp) (a b : Val) : M Val :=
  match a, b with
  | .i ka _, .i kb _ =>
    let t := wider ka kb
    if t.signed then do
      let x ← toI64 a
      let y ← toI64 b
      let r ← signedOp op x y
      narrow t r
    else do
      let x ← toU64 a
      let y ← toU64 b
      let r ← unsignedOp op x y
      narrow t r
  | _, _ => fault .TypeMismatch .arithNonNumeric

def cmpInt (op : BinOp) (x y : Int) : Bool :=
  match op with
  | .lt => decide (x < y)
  | .le => decide (x ≤ y)
  | .gt => decide (x > y)
  | .ge => decide (x ≥ y)
  | .eq => decide (x = y)
  | .ne => decide (x ≠ y)
  | _ => false

/-- `eval/ops.rs: numeric_cmp`, integer arms (`op ∈ {lt, le, gt, ge}`). -/
def numericCmp (op : BinOp) (a b : Val) : M Val :=
  match a, b with
  | .i ka _, .i kb _ =>
    if (wider ka kb).signed then do
      let x ← toI64 a
      let y ← toI64 b
      pure (.b (cmpInt op x y))
    else do
      let x ← toU64 a
      let y ← toU64 b
      pure (.b (cmpInt op x y))
  | _, _ => fault .TypeMismatch .cmpNonNumeric

/-- `eval/ops.rs: numeric_eq` (`isEq = true` for `=`, `false` for `<>`): values that are not both
numeric are compared structurally (derived `PartialEq`), without an error. -/
def numericEq (a b : Val) (isEq : Bool) : M Val :=
  match a, b with
  | .i ka _, .i kb _ =>
    if (wider ka kb).signed then do
      let x ← toI64 a
      let y ← toI64 b
      pure (.b (if isEq then decide (x = y) else decide (x ≠ y)))
    else do
      let x ← toU64 a
      let y ← toU64 b
      pure (.b (if isEq then decide (x = y) else decide (x ≠ y)))
  | _, _ => pure (.b (if isEq then decide (a = b) else decide (a ≠ b)))

/-- `eval/ops.rs: logical_or_bitwise` (no bit strings in the fragment). -/
def logical (op : BinOp) (a b : Val) : M Val :=
  match a, b with
  | .b x, .b y =>
    match op with
    | .and => pure (.b (x && y))
    | .or => pure (.b (x || y))
    | .xor => pure (.b (x != y))
    | _ => fault .TypeMismatch .logicalMixed
  | _, _ => fault .TypeMismatch .logicalMixed

/-- `eval/ops.rs: apply_binary` (`time_arith` / `time_cmp` answer `None` on the fragment's values). -/
def applyBinary (op : BinOp) (a b : Val) : M Val :=
  match op with
  | .and | .or | .xor => logical op a b
  | .eq => numericEq a b true
  | .ne => numericEq a b false
  | .add | .sub | .mul | .div | .mod | .pow => numericArith op a b
  | .lt | .le | .gt | .ge =>
    match a, b with
    | .b x, .b y => pure (.b (cmpInt op (if x then 1 else 0) (if y then 1 else 0)))  -- non_numeric_cmp
    | _, _ => numericCmp op a b

/-! ## Expressions (`eval/expr/ast.rs`, `eval/expr/eval.rs`, `harness/lower/expr.rs`) -/

/-- Source form of an integer literal: `ty = none` is an untyped literal (non-negative; a leading
minus is a unary operator), `ty = some k` is `K#v` with the sign inside the literal. -/
inductive Expr
  | lit (ty : Option IKind) (v : Int)
  | blit (v : Bool)
  | var (x : String)
  | un (op : UnOp) (e : Expr)
  | bin (op : BinOp) (l r : Expr)
  | idx (a : String) (i : Expr)        -- stage S3: `array[index]` on a PROGRAM variable
  | fld (s : String) (f : String)      -- stage S3: `struct.field` on a PROGRAM variable
  deriving DecidableEq, Repr, Inhabited

/-- Declaration of an aggregate PROGRAM variable (stage S3): a one-dimensional array of
elementary elements or a flat struct. -/
inductive AggDecl
  | arr (lo hi : Int) (elem : Ty)
  | str (tyName : String) (fields : List (String × Ty))
  deriving Repr, Inhabited, DecidableEq

/-- Typing context: declared type of every elementary slot, and the aggregate declarations. -/
structure Ctx where
  vars : List (String × Ty)
  aggs : List (String × AggDecl) := []

def Ctx.lookup (Γ : Ctx) (x : String) : Option Ty := Γ.vars.lookup x

instance : Coe (List (String × Ty)) Ctx := ⟨fun l => { vars := l }⟩

/-- Switches that turn the model of the code **as it is** (`Cfg.real`, all off) into the model of
the code with the proposed repairs of the recorded findings.  Every theorem about the
implementation is stated for `Cfg.real`; the repaired variants are only used by the oracle to
attribute a failure to a recorded finding ("it disappears under this repair"). -/
structure Cfg where
  /-- repair: the write path of `Stmt::Assign` coerces the value to the slot's declared type
  (`Overflow` when it does not fit) instead of storing it as is -/
  coerce : Option Ctx := none
  /-- repair: an untyped integer literal is lowered to the smallest-fit kind the checker gave it
  (`smallest_int_type_for_literal`) instead of DINT -/
  litSmallest : Bool := false
  /-- repair: FOR bounds are converted exactly (no `ULINT as i64` wrap, no i64 counter) -/
  forExact : Bool := false
  /-- exact subscript conversion.  `index_to_i64` saturates a ULINT above `i64::MAX` to `i64::MAX`
  (c336de3); the difference is unreachable in an accepted program — array bounds are untyped
  literals, which the lowering limits to `i32` — so no repair in the driver uses this switch -/
  idxExact : Bool := false

/-- The code as it is. -/
def Cfg.real : Cfg := {}

/-- `literals.rs: smallest_int_type_for_literal` for a decimal literal, cut at `i32::MAX`
because `lower_literal` rejects larger untyped literals ("integer literal out of range"). -/
def smallestSigned (v : Int) : Option IKind :=
  if v < 0 then none
  else if v ≤ 127 then some .sint
  else if v ≤ 32767 then some .int
  else if v ≤ i32Max then some .dint
  else none

/-- `harness/lower/expr.rs: lower_literal`: an untyped integer literal becomes `DInt`, a typed one
is coerced to its type (`coerce_value_to_type`); both reject out-of-range values at compile time,
which `Expr.lowerable` records. -/
def litVal (cfg : Cfg) (ty : Option IKind) (v : Int) : Val :=
  match ty with
  | none =>
    if cfg.litSmallest then
      match smallestSigned v with
      | some k => .i k v
      | none => .i .dint v
    else .i .dint v
  | some k => .i k v

abbrev Env := List (String × Val)

def lookup (x : String) : Env → Option Val
  | [] => none
  | (y, v) :: rest => if x = y then some v else lookup x rest

/-- `IndexMap::insert` on an existing key (index kept) or append of a new key. -/
def insert (x : String) (v : Val) : Env → Env
  | [] => [(x, v)]
  | (y, w) :: rest => if x = y then (y, v) :: rest else (y, w) :: insert x v rest

/-- `memory.rs: VariableStorage` as far as the fragment needs it: the variables of the single
PROGRAM instance, the globals, and the call stack (frames carry no locals in S1+S2). -/
structure Store where
  vars : Env
  globals : Env := []
  frames : List String := []
  /-- Stage S3. The *shape* of every aggregate variable of the PROGRAM instance
  (`ArrayValue.dimensions`, the field names of a `StructValue`); execution never changes it.
  The elements themselves are kept **flattened** in `vars`: element `n` of array `a` is the slot
  `elemName a n`, field `f` of struct `s` the slot `fldName s f` (the same rendering the harness
  uses when it dumps the storage). `StExt` keeps the nested representation; the driver runs both
  on every S3 case and requires them to agree. -/
  aggs : List (String × AggDecl) := []
  deriving Repr, Inhabited, DecidableEq

/-- `read_field` / `write_field` on a struct: the field whose name equals `f` ignoring (ASCII)
case — identifiers are case-insensitive; the value lives under the DECLARED spelling. -/
def findFld (fields : List (String × Ty)) (f : String) : Option (String × Ty) :=
  fields.find? fun q => q.1.toUpper = f.toUpper

def elemName (a : String) (n : Int) : String := a ++ "[" ++ toString n ++ "]"
def fldName (s f : String) : String := s ++ "." ++ f

/-- `eval/expr/access.rs: read_name`: frame locals (none), instance variables, globals. -/
def readName (σ : Store) (x : String) : M Val :=
  match lookup x σ.vars with
  | some v => pure v
  | none =>
    match lookup x σ.globals with
    | some v => pure v
    | none => fault .UndefinedVariable .readName

/-- `eval/expr/access.rs: write_name`: an instance variable if one of that name exists, else
`set_global` (which silently creates the global). The value is stored **as is**. -/
def writeName (σ : Store) (x : String) (v : Val) : Store :=
  match lookup x σ.vars with
  | some _ => { σ with vars := insert x v σ.vars }
  | none => { σ with globals := insert x v σ.globals }

/-- `eval/expr/access.rs: index_to_i64` — a ULINT above `i64::MAX` saturates to `i64::MAX`. -/
def indexToI64 (cfg : Cfg) : Val → M Int
  | .i .ulint x => pure (if cfg.idxExact || decide (x ≤ i64Max) then x else i64Max)   -- c336de3: `try_from(v).unwrap_or(i64::MAX)`
  | .i _ x => pure x
  | .b _ => fault .TypeMismatch .indexNotInt

/-- `array_offset` for one dimension: the bounds check; the result is the checked index. -/
def arrayIndex (cfg : Cfg) (lo hi : Int) (iv : Val) : M Int := do
  let n ← indexToI64 cfg iv
  if n < lo ∨ n > hi then fault .IndexOutOfBounds .indexBounds else pure n

/-- Read of an element / field slot (`elements.get(offset)`, `fields.get(name)`). -/
def readSlot (σ : Store) (k : String) : M Val :=
  match lookup k σ.vars with
  | some v => pure v
  | none => fault .TypeMismatch .indexBounds

/-- `eval/expr/eval.rs: eval_expr` (AND/OR short-circuit on `Bool(false)` / `Bool(true)`). -/
def evalExpr (cfg : Cfg) (σ : Store) : Expr → M Val
  | .lit ty v => pure (litVal cfg ty v)
  | .blit v => pure (.b v)
  | .var x => readName σ x
  | .un op e => do
    let v ← evalExpr cfg σ e
    applyUnary op v
  | .bin op l r =>
    match op with
    | .and => do
      let a ← evalExpr cfg σ l
      if a = .b false then pure (.b false) else do
        let b ← evalExpr cfg σ r
        applyBinary .and a b
    | .or => do
      let a ← evalExpr cfg σ l
      if a = .b true then pure (.b true) else do
        let b ← evalExpr cfg σ r
        applyBinary .or a b
    | op => do
      let a ← evalExpr cfg σ l
      let b ← evalExpr cfg σ r
      applyBinary op a b
  | .idx a i =>
    -- `Expr::Index`: the array value first, then the index, then `read_indices`
    match σ.aggs.lookup a with
    | some (.arr lo hi _) =>
      match evalExpr cfg σ i >>= arrayIndex cfg lo hi with
      | .ok n => readSlot σ (elemName a n)
      | .error st => .error st
    | some (.str _ _) => fault .TypeMismatch .indexOfNonArray
    | none => do
      let _ ← readName σ a
      fault .TypeMismatch .indexOfNonArray
  | .fld s f =>
    -- `read_field` on a struct value (field names compared ignoring case)
    match σ.aggs.lookup s with
    | some (.str _ fields) =>
      match findFld fields f with
      | some (g, _) => readSlot σ (fldName s g)
      | none => fault .UndefinedField .fieldName
    | some (.arr _ _ _) => fault .TypeMismatch .fieldOfNonStruct
    | none => do
      let _ ← readName σ s
      fault .TypeMismatch .fieldOfNonStruct

/-! ## Statements (`eval/stmt.rs`) -/

/-- A CASE label literal as written: optional type prefix and value (sign included). -/
structure LabLit where
  ty : Option IKind
  v : Int
  deriving DecidableEq, Repr, Inhabited

inductive Label
  | single (a : LabLit)
  | range (a b : LabLit)
  deriving DecidableEq, Repr, Inhabited

mutual
inductive Stmt
  | assign (x : String) (e : Expr)
  | assignIdx (a : String) (i : Expr) (e : Expr)     -- stage S3: `a[i] := e;`
  | assignFld (s : String) (f : String) (e : Expr)   -- stage S3: `s.f := e;`
  | ite (c : Expr) (t : Block) (elifs : Elifs) (el : Block)
  | case (sel : Expr) (brs : Branches) (el : Block)
  | for (x : String) (s e : Expr) (step : Option Expr) (body : Block)
  | while (c : Expr) (body : Block)
  | repeat (body : Block) (c : Expr)
  | exit
  | continue
  | ret
inductive Block
  | nil
  | cons (s : Stmt) (rest : Block)
inductive Elifs
  | nil
  | cons (c : Expr) (b : Block) (rest : Elifs)
inductive Branches
  | nil
  | cons (ls : List Label) (b : Block) (rest : Branches)
end

instance : Inhabited Stmt := ⟨.exit⟩
instance : Inhabited Block := ⟨.nil⟩

/-- `eval/stmt.rs: StmtResult` without `Jump` (labels/JMP are outside the fragment). -/
inductive Flow
  | cont
  | ret
  | exit
  | loopCont
  deriving DecidableEq, Repr, Inhabited

/-- `eval/stmt.rs: eval_bool`. -/
def evalBool (cfg : Cfg) (σ : Store) (e : Expr) : M Bool :=
  match evalExpr cfg σ e with
  | .ok (.b v) => pure v
  | .ok (.i _ _) => fault .ConditionNotBool .condNotBool
  | .error s => .error s

/-- CASE selector conversion in `Stmt::Case`: `none` = an unsigned value above `i64::MAX`
(matches no label). -/
def selectorInt : Val → M (Option Int)
  | .i .ulint x => pure (if x ≤ i64Max then some x else none)
  | .i _ x => pure (some x)
  | .b _ => fault .CaseSelectorType .caseSelector

def Label.matches (n : Int) : Label → Bool
  | .single a => decide (a.v = n)
  | .range a b => decide (a.v ≤ n) && decide (n ≤ b.v)

def findBranch (n : Int) : Branches → Option Block
  | .nil => none
  | .cons ls b rest => if ls.any (Label.matches n) then some b else findBranch n rest

/-- `eval/stmt.rs: int_value`: ULINT is cast with `as i64` (wraps above `i64::MAX`). -/
def intValue (cfg : Cfg) : Val → M Int
  | .i .ulint x => pure (if cfg.forExact || decide (x ≤ i64Max) then x else x - 18446744073709551616)
  | .i _ x => pure x
  | .b _ => fault .TypeMismatch .forIntValue

def Val.isUnsignedInt : Val → Bool
  | .i k _ => !k.signed
  | .b _ => false

/-- `eval/stmt.rs: coerce_loop_value`. -/
def coerceLoopValue (template : Val) (n : Int) : M Val :=
  match template with
  | .i k _ =>
    if k.signed then
      if k.inRange n then pure (.i k n) else fault .Overflow .forCoerceRange
    else if n < 0 then fault .TypeMismatch .forCoerceNegative
    else if k.inRange n then pure (.i k n) else fault .Overflow .forCoerceRange
  | .b _ => fault .TypeMismatch .forCoerceBool

/-- `harness/coerce.rs`-style coercion used by the *repaired* write path only. -/
def coerceTo (t : Ty) (v : Val) : M Val :=
  match t, v with
  | .bool, .b x => pure (.b x)
  | .int k, .i _ x => if k.inRange x then pure (.i k x) else fault .Overflow .narrow
  | _, _ => fault .TypeMismatch .arithNonNumeric

/-- The write of `Stmt::Assign`: `write_lvalue(ctx, target, value)` stores the evaluated value
**as is** (`cfg.coerce = none`); the repaired variant coerces to the declared type first. -/
def writeVal (cfg : Cfg) (σ : Store) (x : String) (v : Val) : Store × Option Stop :=
  match cfg.coerce with
  | none => (writeName σ x v, none)
  | some Γ =>
    match Γ.lookup x with
    | none => (writeName σ x v, none)
    | some t =>
      match coerceTo t v with
      | .ok v' => (writeName σ x v', none)
      | .error st => (σ, some st)

/-- Write of an element / field slot (`write_indices`, `write_field`: the value is stored **as
is**, like `Stmt::Assign`). -/
def writeSlot (cfg : Cfg) (σ : Store) (k : String) (v : Val) : Store × Option Stop :=
  match lookup k σ.vars with
  | some _ => writeVal cfg σ k v
  | none => (σ, some (.fault .TypeMismatch .indexBounds))

/-- `harness/lower/stmt.rs: lower_for`: a missing `BY` clause is lowered to `Literal(Value::Int(1))`. -/
def stepExpr (step : Option Expr) : Expr :=
  match step with
  | some st => st
  | none => .lit (some .int) 1

/-- The prologue of `Stmt::For`: start, end and step are evaluated once, in this order, then
converted with `int_value`; step 0 is `ForStepZero`; the control variable's current value is the
template whose *kind* the counter is coerced to; an unsigned template with a negative step is
`TypeMismatch`; the first value is coerced.  Result: (start, end, step, first value). -/
def forPre (cfg : Cfg) (σ : Store) (x : String) (s e stepE : Expr) : M (Int × Int × Int × Val) := do
  let sv ← evalExpr cfg σ s
  let ev ← evalExpr cfg σ e
  let tv ← evalExpr cfg σ stepE
  let si ← intValue cfg sv
  let ei ← intValue cfg ev
  let ti ← intValue cfg tv
  if ti = 0 then fault .ForStepZero .forStepZero else do
  let tmpl ← readName σ x
  if tmpl.isUnsignedInt && decide (ti < 0) then fault .TypeMismatch .forUnsignedNegStep else do
  let first ← coerceLoopValue tmpl si
  pure (si, ei, ti, first)

/-- Result of executing something: the store as it is when execution stops (also on a fault:
the Rust code mutates storage in place) and how it stopped. -/
abbrev Res := Store × M Flow

def timeout : M Flow := fault .ExecutionTimeout .budget

mutual
/-- `eval/stmt.rs: exec_stmt`.  `fuel` bounds the recursion depth and stands for the execution
budget (`check_execution_budget`); `ld` is `ctx.loop_depth`. -/
def execStmt (cfg : Cfg) : Nat → Nat → Store → Stmt → Res
  | 0, _, σ, _ => (σ, timeout)
  | fuel + 1, ld, σ, s =>
    match s with
    | .assign x e =>
      match evalExpr cfg σ e with
      | .ok v =>
        match writeVal cfg σ x v with
        | (σ', none) => (σ', .ok .cont)
        | (σ', some st) => (σ', .error st)
      | .error st => (σ, .error st)
    | .assignIdx a i e =>
      -- value, then `read_name(a)`, the index, `write_indices`, `write_name`
      match evalExpr cfg σ e with
      | .error st => (σ, .error st)
      | .ok v =>
        match σ.aggs.lookup a with
        | some (.arr lo hi _) =>
          match evalExpr cfg σ i >>= arrayIndex cfg lo hi with
          | .error st => (σ, .error st)
          | .ok n =>
            match writeSlot cfg σ (elemName a n) v with
            | (σ', none) => (σ', .ok .cont)
            | (σ', some st) => (σ', .error st)
        | some (.str _ _) => (σ, fault .TypeMismatch .indexOfNonArray)
        | none =>
          match readName σ a with
          | .error st => (σ, .error st)
          | .ok _ => (σ, fault .TypeMismatch .indexOfNonArray)
    | .assignFld s f e =>
      match evalExpr cfg σ e with
      | .error st => (σ, .error st)
      | .ok v =>
        match σ.aggs.lookup s with
        | some (.str _ fields) =>
          match findFld fields f with
          | some (g, _) =>
            match writeSlot cfg σ (fldName s g) v with
            | (σ', none) => (σ', .ok .cont)
            | (σ', some st) => (σ', .error st)
          | none => (σ, fault .UndefinedField .fieldName)
        | some (.arr _ _ _) => (σ, fault .TypeMismatch .fieldOfNonStruct)
        | none =>
          match readName σ s with
          | .error st => (σ, .error st)
          | .ok _ => (σ, fault .TypeMismatch .fieldOfNonStruct)
    | .ite c t elifs el =>
      match evalBool cfg σ c with
      | .ok true => execBlock cfg fuel ld σ t
      | .ok false => execElifs cfg fuel ld σ elifs el
      | .error st => (σ, .error st)
    | .case sel brs el =>
      match evalExpr cfg σ sel >>= selectorInt with
      | .ok (some n) =>
        match findBranch n brs with
        | some b => execBlock cfg fuel ld σ b
        | none => execBlock cfg fuel ld σ el
      | .ok none => execBlock cfg fuel ld σ el
      | .error st => (σ, .error st)
    | .for x s e step body =>
      match forPre cfg σ x s e (stepExpr step) with
      | .error st => (σ, .error st)
      | .ok (si, ei, ti, first) =>
        -- the template keeps its *kind*; `first` has that kind
        forLoop cfg fuel ld (writeName σ x first) x first si ei ti body
    | .while c body => whileLoop cfg fuel ld σ c body
    | .repeat body c => repeatLoop cfg fuel ld σ body c
    | .exit => if ld = 0 then (σ, fault .InvalidControlFlow .exitOutsideLoop) else (σ, .ok .exit)
    | .continue => if ld = 0 then (σ, fault .InvalidControlFlow .exitOutsideLoop) else (σ, .ok .loopCont)
    | .ret => (σ, .ok .ret)

/-- `eval/stmt.rs: exec_block` (no labels in the fragment). -/
def execBlock (cfg : Cfg) : Nat → Nat → Store → Block → Res
  | 0, _, σ, _ => (σ, timeout)
  | _ + 1, _, σ, .nil => (σ, .ok .cont)
  | fuel + 1, ld, σ, .cons s rest =>
    match execStmt cfg fuel ld σ s with
    | (σ', .ok .cont) => execBlock cfg fuel ld σ' rest
    | r => r

/-- The `for (elsif_cond, elsif_block) in else_if` loop of `Stmt::If`, then the ELSE block. -/
def execElifs (cfg : Cfg) : Nat → Nat → Store → Elifs → Block → Res
  | 0, _, σ, _, _ => (σ, timeout)
  | fuel + 1, ld, σ, .nil, el => execBlock cfg fuel ld σ el
  | fuel + 1, ld, σ, .cons c b rest, el =>
    match evalBool cfg σ c with
    | .ok true => execBlock cfg fuel ld σ b
    | .ok false => execElifs cfg fuel ld σ rest el
    | .error st => (σ, .error st)

/-- The `loop { … }` of `Stmt::For`.  `tmpl` only carries the kind of the control variable as it
was when the loop started (`control_template`). -/
def forLoop (cfg : Cfg) : Nat → Nat → Store → String → Val → Int → Int → Int → Block → Res
  | 0, _, σ, _, _, _, _, _, _ => (σ, timeout)
  | fuel + 1, ld, σ, x, tmpl, cur, endV, step, body =>
    if (step > 0 ∧ cur > endV) ∨ (step < 0 ∧ cur < endV) then (σ, .ok .cont) else
    match execBlock cfg fuel (ld + 1) σ body with
    | (σ', .error st) => (σ', .error st)
    | (σ', .ok .exit) => (σ', .ok .cont)
    | (σ', .ok .ret) => (σ', .ok .ret)
    | (σ', .ok _) =>
      let next := cur + step
      if !cfg.forExact ∧ (next < i64Min ∨ next > i64Max) then (σ', fault .Overflow .forIncrement) else
      match coerceLoopValue tmpl next with
      | .error st => (σ', .error st)
      | .ok v => forLoop cfg fuel ld (writeName σ' x v) x tmpl next endV step body

/-- The `loop { … }` of `Stmt::While`. -/
def whileLoop (cfg : Cfg) : Nat → Nat → Store → Expr → Block → Res
  | 0, _, σ, _, _ => (σ, timeout)
  | fuel + 1, ld, σ, c, body =>
    match evalBool cfg σ c with
    | .error st => (σ, .error st)
    | .ok false => (σ, .ok .cont)
    | .ok true =>
      match execBlock cfg fuel (ld + 1) σ body with
      | (σ', .error st) => (σ', .error st)
      | (σ', .ok .exit) => (σ', .ok .cont)
      | (σ', .ok .ret) => (σ', .ok .ret)
      | (σ', .ok _) => whileLoop cfg fuel ld σ' c body

/-- The `loop { … }` of `Stmt::Repeat`. -/
def repeatLoop (cfg : Cfg) : Nat → Nat → Store → Block → Expr → Res
  | 0, _, σ, _, _ => (σ, timeout)
  | fuel + 1, ld, σ, body, c =>
    match execBlock cfg fuel (ld + 1) σ body with
    | (σ', .error st) => (σ', .error st)
    | (σ', .ok .exit) => (σ', .ok .cont)
    | (σ', .ok .ret) => (σ', .ok .ret)
    | (σ', .ok _) =>
      match evalBool cfg σ' c with
      | .error st => (σ', .error st)
      | .ok true => (σ', .ok .cont)
      | .ok false => repeatLoop cfg fuel ld σ' body c
end

/-! ## Programs and the scan cycle (`harness/compiler/vars.rs`, `runtime/cycle.rs`) -/

/-- One `name : TYPE := init;` of the PROGRAM's VAR block.  `init` is the value of the
initialiser (0 / FALSE when absent); `typedInit` says whether it was written as a typed literal
(an untyped literal must fit `i32`, see `lower_literal`). -/
structure VarDecl where
  name : String
  ty : Ty
  init : Int := 0
  typedInit : Bool := false
  deriving DecidableEq, Repr, Inhabited

structure Program where
  name : String := "P"
  decls : List VarDecl
  /-- stage S3: array / struct variables -/
  aggs : List (String × AggDecl) := []
  body : Block

/-- `harness/coerce.rs: coerce_value_to_type` on the initialiser (range already checked by
`Program.accepted`). -/
def VarDecl.initVal (d : VarDecl) : Val :=
  match d.ty with
  | .bool => .b (d.init != 0)
  | .int k => .i k d.init

/-- The integers `lo, lo+1, …, hi`. -/
def intRange (lo hi : Int) : List Int :=
  (List.range (hi - lo + 1).toNat).map fun (k : Nat) => lo + (k : Int)

/-- The flattened slots of one aggregate with their declared types. -/
def AggDecl.slots (a : String) : AggDecl → List (String × Ty)
  | .arr lo hi t => (intRange lo hi).map fun n => (elemName a n, t)
  | .str _ fields => fields.map fun (f, t) => (fldName a f, t)

def aggSlots (aggs : List (String × AggDecl)) : List (String × Ty) :=
  aggs.flatMap fun (a, d) => d.slots a

/-- Every storage slot of the PROGRAM instance with its declared type and initial value: the
elementary variables, then the flattened aggregates (`default_value_for_type_id`: elements /
fields get the TYPE default; declared initial values of struct fields are ignored). -/
def Program.slots (p : Program) : List (String × Ty × Val) :=
  (p.decls.map fun d => (d.name, d.ty, d.initVal)) ++
  (aggSlots p.aggs).map fun (k, t) => (k, t, t.default)

def Program.ctx (p : Program) : Ctx :=
  { vars := p.slots.map fun (k, t, _) => (k, t), aggs := p.aggs }

def Program.initStore (p : Program) : Store :=
  { vars := p.slots.map fun (k, _, v) => (k, v), aggs := p.aggs }

/-- Runtime state across cycles: storage plus the fault latch (`FaultSubsystem.faulted`). -/
structure RunState where
  store : Store
  faulted : Bool := false
  deriving Repr, Inhabited

/-- What a cycle reports (`CycleResult.errors`, empty = `none`). -/
abbrev CycleOut := Option Stop

/-- `runtime/cycle.rs: execute_cycle` → `execute_program` for the single (background) program:
latch test, frame push, body, frame pop on every path, `Continue` or `Return` required, fault latched. -/
def cycle (cfg : Cfg) (p : Program) (fuel : Nat) (st : RunState) : RunState × CycleOut :=
  if st.faulted then (st, some (.fault .ResourceFaulted .latched)) else
  let σ0 := { st.store with frames := p.name :: st.store.frames }
  let (σ1, r) := execBlock cfg fuel 0 σ0 p.body
  let σ2 := { σ1 with frames := σ1.frames.tail }
  match r with
  | .ok .cont => ({ store := σ2, faulted := false }, none)
  | .ok .ret => ({ store := σ2, faulted := false }, none)   -- RETURN ends the program for this cycle (f3b5b76)
  | .ok _ => ({ store := σ2, faulted := true }, some (.fault .InvalidControlFlow .programFlow))
  | .error s => ({ store := σ2, faulted := true }, some s)

/-- Run `n` cycles from a state, collecting the reports. -/
def runCycles (cfg : Cfg) (p : Program) (fuel : Nat) : Nat → RunState → RunState × List CycleOut
  | 0, st => (st, [])
  | n + 1, st =>
    let (st1, o) := cycle cfg p fuel st
    let (st2, os) := runCycles cfg p fuel n st1
    (st2, o :: os)

/-- Input writes applied between cycles (`TestHarness::set_input` → `set_instance_var`): per cycle
index a list of (variable, value). -/
abbrev Inputs := Nat → List (String × Val)

def applyInputs (e : Env) (ws : List (String × Val)) : Env :=
  ws.foldl (fun e (x, v) => insert x v e) e

def RunState.withInputs (st : RunState) (ws : List (String × Val)) : RunState :=
  { st with store := { st.store with vars := applyInputs st.store.vars ws } }

/-- State after `n` cycles, the inputs `ins k` being written before cycle `k`. -/
def runFrom (cfg : Cfg) (p : Program) (fuel : Nat) (ins : Inputs) : Nat → RunState → RunState
  | 0, st => st
  | n + 1, st => (cycle cfg p fuel ((runFrom cfg p fuel ins n st).withInputs (ins n))).1

/-- What cycle `n` reports. -/
def reportAt (cfg : Cfg) (p : Program) (fuel : Nat) (ins : Inputs) (n : Nat) (st : RunState) : CycleOut :=
  (cycle cfg p fuel ((runFrom cfg p fuel ins n st).withInputs (ins n))).2

/-! ## Fault classes of the property statement (C01) -/

inductive FaultClass
  | valueDependent   -- allowed by C01 for an accepted program
  | staticClass      -- must have been excluded by the checker
  | latch            -- ResourceFaulted: consequence of an earlier fault
  | foreign          -- cannot be raised by a scan cycle of the fragment at all
  deriving DecidableEq, Repr, Inhabited

/-- Classification of **every** `RuntimeError` variant (no wildcard: a new variant in
`error.rs` breaks the build until it is classified). -/
def RustErr.cls : RustErr → FaultClass
  | .DivisionByZero | .ModuloByZero | .Overflow | .IndexOutOfBounds | .NullReference
  | .ForStepZero | .DateTimeRange | .ExecutionTimeout | .WatchdogTimeout => .valueDependent
  | .UndefinedVariable | .UndefinedFunction | .UndefinedProgram | .UndefinedFunctionBlock
  | .UndefinedTask | .UndefinedLabel | .UndefinedField | .TypeMismatch
  | .InvalidArgumentCount | .InvalidArgumentName | .InvalidControlFlow | .ConditionNotBool
  | .CaseSelectorType | .InvalidTaskSingle => .staticClass
  | .ResourceFaulted => .latch
  | .InvalidIoAddress | .AssertionFailed | .InvalidFrame | .IoDriver
  | .UnsupportedBytecodeVersion | .InvalidBytecodeMetadata | .InvalidBytecode | .ThreadSpawn
  | .SimulationFault | .InvalidConfig | .InvalidBundle | .RetainStore | .ControlError => .foreign

def Stop.valueDependent : Stop → Bool
  | .fault e _ => e.cls = .valueDependent
  | .panic _ => false

end TrustVerif.StCore
