import TrustVerif.Model.StCore
import TrustVerif.Model.StCheck

/-!
# ST-core, stage S4: FUNCTION calls with an explicit frame stack

Extension of `Model/StCore.lean` (same values, same operators) by user FUNCTIONs:
`eval/mod.rs: call_function`, `prepare_bindings` (positional / named, defaults, OUT and IN_OUT
write-back), `init_locals`, `collect_outputs`, `write_output_values`, `Stmt::Return{expr}`,
`Stmt::Expr`, the return-value slot of the frame, and name resolution through the *current* frame
(`memory.rs: get_local`).  Expressions now have effects (IN_OUT / OUT write-back), so the
evaluator threads the store and consumes budget.

Proved about this model (Lemmas/StExtFrames.lean, Props/C01.lean): every exit path of every
call pops exactly the frame it pushed (`c01_call_frames_balanced`).  Everything else about stage
S4 is tied to the real code by the correspondence run and judged by the oracles — tested, not
proved (the type-soundness / refinement theorems are about stages S1+S2).
-/
namespace TrustVerif.StExt
open TrustVerif.StCore

inductive Dir | inp | out | inout
  deriving DecidableEq, Repr, Inhabited

mutual
/-- `eval/expr/ast.rs: Expr` with `Call`. -/
inductive XExpr
  | lit (ty : Option IKind) (v : Int)
  | blit (v : Bool)
  | var (x : String)
  | un (op : UnOp) (e : XExpr)
  | bin (op : BinOp) (l r : XExpr)
  | call (f : String) (args : XArgs)
  | fld (c : String) (f : String)             -- stages S5/S3: `instance.variable`, `struct.field`
  | idx (a : String) (i : XExpr)              -- stage S3: `array[index]`
/-- `Vec<CallArg>`: optional formal name, whether it was written with `=>`, the expression. -/
inductive XArgs
  | nil
  | cons (name : Option String) (arrow : Bool) (e : XExpr) (rest : XArgs)
end

instance : Inhabited XExpr := ⟨.blit false⟩

def XArgs.length : XArgs → Nat
  | .nil => 0
  | .cons _ _ _ rest => rest.length + 1

def XArgs.allPositional : XArgs → Bool
  | .nil => true
  | .cons name _ _ rest => name.isNone && rest.allPositional

/-- `find_arg_value`: first argument whose name equals the parameter name ignoring (ASCII) case. -/
def XArgs.find (p : String) : XArgs → Option XExpr
  | .nil => none
  | .cons name _ e rest => if name.map String.toUpper = some p.toUpper then some e else rest.find p

def XArgs.nth : XArgs → Nat → Option XExpr
  | .nil, _ => none
  | .cons _ _ e _, 0 => some e
  | .cons _ _ _ rest, n + 1 => rest.nth n

/-- `lower_call_arg`: an argument that parses as an l-value becomes `ArgValue::Target`. -/
def XExpr.target? : XExpr → Option String
  | .var x => some x
  | _ => none

mutual
inductive XStmt
  | assign (x : String) (e : XExpr)
  | expr (e : XExpr)                                   -- `Stmt::Expr` (a call as a statement)
  | fbcall (c : String) (args : XArgs)                 -- stage S5: `instance(args);`
  | assignIdx (a : String) (i : XExpr) (e : XExpr)     -- stage S3: `a[i] := e;`
  | assignFld (s : String) (f : String) (e : XExpr)    -- stage S3: `s.f := e;`
  | ite (c : XExpr) (t : XBlock) (elifs : XElifs) (el : XBlock)
  | case (sel : XExpr) (brs : XBranches) (el : XBlock)
  | for (x : String) (s e : XExpr) (step : Option XExpr) (body : XBlock)
  | while (c : XExpr) (body : XBlock)
  | repeat (body : XBlock) (c : XExpr)
  | exit
  | continue
  | ret (e : Option XExpr)                             -- `RETURN;` / `RETURN expr;`
inductive XBlock
  | nil
  | cons (s : XStmt) (rest : XBlock)
inductive XElifs
  | nil
  | cons (c : XExpr) (b : XBlock) (rest : XElifs)
inductive XBranches
  | nil
  | cons (ls : List Label) (b : XBlock) (rest : XBranches)
end

instance : Inhabited XStmt := ⟨.exit⟩
instance : Inhabited XBlock := ⟨.nil⟩

/-- `eval/mod.rs: Param` (`default` = the lowered initialiser of the VAR_INPUT declaration). -/
structure Param where
  name : String
  ty : Ty
  dir : Dir
  default : Option XExpr := none

/-- `eval/mod.rs: VarDef` of a FUNCTION's `VAR` block. -/
structure Local where
  name : String
  ty : Ty
  init : Option XExpr := none

/-- `eval/mod.rs: FunctionDef`. -/
structure FuncDef where
  name : String
  ret : Ty
  params : List Param
  locals : List Local
  body : XBlock

/-- `eval/mod.rs: FunctionBlockDef` (no temps, no methods, no base). -/
structure FbDef where
  name : String
  params : List Param
  vars : List Local
  body : XBlock

/-- `value/types.rs: ArrayValue` (one dimension, elementary elements) / `StructValue` (flat). -/
inductive Agg
  | arr (lo hi : Int) (elems : List Val)
  | str (fields : Env)
  deriving Repr, Inhabited

structure XProgram where
  name : String := "P"
  funcs : List FuncDef
  fbs : List FbDef := []
  /-- stage S3: array and struct variables of the PROGRAM, declaration order -/
  aggs : List (String × AggDecl) := []
  decls : List VarDecl
  /-- FB instance variables of the PROGRAM: (variable, FUNCTION_BLOCK type) -/
  insts : List (String × String) := []
  body : XBlock

/-- The POU definitions the evaluator can reach (`ctx.functions`, `ctx.function_blocks`) and the
type of each FB instance variable (`InstanceData.type_name`). -/
structure Defs where
  funcs : List FuncDef
  fbs : List FbDef := []
  instTy : List (String × String) := []

def findFb (fbs : List FbDef) (t : String) : Option FbDef :=
  fbs.find? (fun d => d.name.toUpper = t.toUpper)

/-- `functions.get(&key)` with the upper-cased call name (function lookup is case-insensitive). -/
def findFunc (fs : List FuncDef) (f : String) : Option FuncDef :=
  fs.find? (fun d => d.name.toUpper = f.toUpper)

/-- `memory.rs: LocalFrame`. -/
structure Frame where
  owner : String
  locals : Env := []
  ret : Option Val := none
  deriving Repr, Inhabited

/-- `memory.rs: VariableStorage` with real frames. -/
structure XStore where
  vars : Env
  globals : Env := []
  frames : List Frame := []
  /-- variables of the FB instances, keyed by the PROGRAM variable that holds the instance -/
  insts : List (String × Env) := []
  /-- stage S3: array / struct variables of the PROGRAM -/
  aggs : List (String × Agg) := []
  deriving Repr, Inhabited

def getAgg (σ : XStore) (a : String) : Option Agg := (σ.aggs.find? (fun p => p.1 = a)).map (·.2)

def setAgg (σ : XStore) (a : String) (v : Agg) : XStore :=
  { σ with aggs := σ.aggs.map fun p => if p.1 = a then (p.1, v) else p }

/-- `array_offset` for one dimension: bounds check, then the offset. -/
def arrayOffset (lo hi : Int) (iv : Val) : M Nat := do
  let n ← indexToI64 .real iv
  if n < lo ∨ n > hi then fault .IndexOutOfBounds .indexBounds else pure (n - lo).toNat

def instVars (σ : XStore) (c : String) : Option Env :=
  (σ.insts.find? (fun p => p.1 = c)).map (·.2)

def setInstVar (σ : XStore) (c : String) (x : String) (v : Val) : XStore :=
  { σ with insts := σ.insts.map fun p => if p.1 = c then (p.1, insert x v p.2) else p }

/-- `VariableStorage::get_local`: only the **current** (last pushed) frame is consulted. -/
def getLocal (σ : XStore) (x : String) : Option Val :=
  match σ.frames with
  | [] => none
  | fr :: _ => lookup x fr.locals

/-- `VariableStorage::set_local` (false without a frame: the value is dropped). -/
def setLocal (σ : XStore) (x : String) (v : Val) : XStore :=
  match σ.frames with
  | [] => σ
  | fr :: rest => { σ with frames := { fr with locals := insert x v fr.locals } :: rest }

/-- Variables of `ctx.current_instance`. -/
def curVars (cur : Option String) (σ : XStore) : Env :=
  match cur with
  | none => σ.vars
  | some c => (instVars σ c).getD []

/-- `eval/expr/access.rs: read_name`: current frame, current instance, globals. -/
def readNameC (cur : Option String) (σ : XStore) (x : String) : M Val :=
  match getLocal σ x with
  | some v => pure v
  | none =>
    match lookup x (curVars cur σ) with
    | some v => pure v
    | none =>
      match lookup x σ.globals with
      | some v => pure v
      | none => fault .UndefinedVariable .readName

def readNameX (σ : XStore) (x : String) : M Val := readNameC none σ x

/-- `eval/expr/access.rs: write_name`. -/
def writeNameC (cur : Option String) (σ : XStore) (x : String) (v : Val) : XStore :=
  match getLocal σ x with
  | some _ => setLocal σ x v
  | none =>
    match lookup x (curVars cur σ) with
    | some _ =>
      match cur with
      | none => { σ with vars := insert x v σ.vars }
      | some c => setInstVar σ c x v
    | none => { σ with globals := insert x v σ.globals }

def writeNameX (σ : XStore) (x : String) (v : Val) : XStore := writeNameC none σ x v

def pushFrame (σ : XStore) (owner : String) : XStore :=
  { σ with frames := { owner := owner } :: σ.frames }

def popFrame (σ : XStore) : XStore := { σ with frames := σ.frames.tail }

def setRet (σ : XStore) (v : Val) : XStore :=
  match σ.frames with
  | [] => σ
  | fr :: rest => { σ with frames := { fr with ret := some v } :: rest }

def curRet (σ : XStore) : Option Val :=
  match σ.frames with
  | [] => none
  | fr :: _ => fr.ret

/-- `StmtResult` with the value of `RETURN expr`. -/
inductive XFlow
  | cont
  | ret (v : Option Val)
  | exit
  | loopCont
  deriving Repr, Inhabited

/-- The parts of `EvalContext` that vary during evaluation. -/
structure Ctl where
  ld : Nat := 0                      -- loop_depth (NOT reset by a call)
  retName : Option String := none    -- return_name
  cur : Option String := none        -- current_instance: none = the PROGRAM, some c = FB instance c
  deriving Repr, Inhabited

abbrev XRes (α : Type) := XStore × M α

def xtimeout {α} : M α := fault .ExecutionTimeout .budget

/-- One binding step of `prepare_bindings` produces these. -/
structure Bindings where
  paramValues : List (String × Val) := []
  outTargets : List (String × String) := []     -- (parameter, target variable)

def selectorIntX (v : Val) : M (Option Int) := selectorInt v

/-- A missing `BY` clause is lowered to `Literal(Value::Int(1))`. -/
def stepXExpr (step : Option XExpr) : XExpr :=
  match step with
  | some st => st
  | none => .lit (some .int) 1

def findXBranch (n : Int) : XBranches → Option XBlock
  | .nil => none
  | .cons ls b rest => if ls.any (Label.matches n) then some b else findXBranch n rest


mutual
/-- `eval/expr/eval.rs: eval_expr`, store-threading. -/
def evalX (ds : Defs) : Nat → Ctl → XStore → XExpr → XRes Val
  | 0, _, σ, _ => (σ, xtimeout)
  | fuel + 1, ctl, σ, e =>
    match e with
    | .lit ty v => (σ, pure (litVal .real ty v))
    | .blit v => (σ, pure (.b v))
    | .var x => (σ, readNameC ctl.cur σ x)
    | .un op e =>
      match evalX ds fuel ctl σ e with
      | (σ1, .ok v) => (σ1, applyUnary op v)
      | (σ1, .error s) => (σ1, .error s)
    | .bin op l r =>
      match evalX ds fuel ctl σ l with
      | (σ1, .error s) => (σ1, .error s)
      | (σ1, .ok a) =>
        if op = .and ∧ a = .b false then (σ1, pure (.b false))
        else if op = .or ∧ a = .b true then (σ1, pure (.b true))
        else
          match evalX ds fuel ctl σ1 r with
          | (σ2, .error s) => (σ2, .error s)
          | (σ2, .ok b) => (σ2, applyBinary op a b)
    | .fld c f =>
      -- `read_field` on a PROGRAM variable holding a struct (field names compared ignoring case) or an FB instance
      match (if ctl.cur.isNone then getAgg σ c else none) with
      | some (.str fields) =>
        match fields.find? (fun q => q.1.toUpper = f.toUpper) with
        | some (_, v) => (σ, pure v)
        | none => (σ, fault .UndefinedField .fieldName)
      | some (.arr _ _ _) => (σ, fault .TypeMismatch .fieldOfNonStruct)
      | none =>
        match instVars σ c with
        | none =>
          match readNameC ctl.cur σ c with
          | .error s => (σ, .error s)
          | .ok _ => (σ, fault .TypeMismatch .fieldOfNonStruct)
        | some e =>
          match lookup f e with
          | some v => (σ, pure v)
          | none => (σ, fault .UndefinedField .fieldName)
    | .idx a i =>
      -- `Expr::Index`: the array value first, then the index, then `read_indices`
      match (if ctl.cur.isNone then getAgg σ a else none) with
      | some (.arr lo hi elems) =>
        match evalX ds fuel ctl σ i with
        | (σ1, .error s) => (σ1, .error s)
        | (σ1, .ok iv) =>
          match arrayOffset lo hi iv with
          | .error s => (σ1, .error s)
          | .ok off =>
            match elems[off]? with
            | some v => (σ1, pure v)
            | none => (σ1, fault .TypeMismatch .indexBounds)
      | some (.str _) => (σ, fault .TypeMismatch .indexOfNonArray)
      | none =>
        match readNameC ctl.cur σ a with
        | .error s => (σ, .error s)
        | .ok _ => (σ, fault .TypeMismatch .indexOfNonArray)
    | .call f args =>
      match findFunc ds.funcs f with
      | none =>
        -- not a function: `eval_expr(target)` reads the name; a non-instance value is TypeMismatch
        match readNameC ctl.cur σ f with
        | .error s => (σ, .error s)
        | .ok _ => (σ, fault .TypeMismatch .callUndefined)
      | some fd => callFunction ds fuel ctl σ fd args

/-- `eval/mod.rs: prepare_bindings` (`BindingMode::Function`), one parameter at a time, in
**parameter order**.  Runs in the caller's frame. -/
def bindParams (ds : Defs) (fbMode : Bool) : Nat → Ctl → XStore → List Param → XArgs → Bool → Nat → Bindings → XRes Bindings
  | 0, _, σ, _, _, _, _, _ => (σ, xtimeout)
  | _ + 1, _, σ, [], _, _, _, acc => (σ, pure acc)
  | fuel + 1, ctl, σ, p :: rest, args, positional, idx, acc =>
    let arg : Option XExpr := if positional then args.nth idx else args.find p.name
    match p.dir with
    | .inp =>
      -- the argument (read_arg_value; a Target reads the same value), else the declared default
      let src : Option XExpr := match arg with | some a => some a | none => p.default
      match src with
      | none =>
        bindParams ds fbMode fuel ctl σ rest args positional (idx + 1)
          { acc with paramValues := acc.paramValues ++ [(p.name, p.ty.default)] }
      | some a =>
        match evalX ds fuel ctl σ a with
        | (σ1, .error s) => (σ1, .error s)
        | (σ1, .ok v) =>
          bindParams ds fbMode fuel ctl σ1 rest args positional (idx + 1)
            { acc with paramValues := acc.paramValues ++ [(p.name, v)] }
    | .out =>
      -- `BindingMode::Function` gives the OUT parameter a fresh local; an FB keeps its instance variable
      let acc1 := if fbMode then acc else { acc with paramValues := acc.paramValues ++ [(p.name, p.ty.default)] }
      match arg with
      | none => bindParams ds fbMode fuel ctl σ rest args positional (idx + 1) acc1
      | some a =>
        match a.target? with
        | none => (σ, fault .TypeMismatch .callBindTarget)
        | some t =>
          bindParams ds fbMode fuel ctl σ rest args positional (idx + 1)
            { acc1 with outTargets := acc1.outTargets ++ [(p.name, t)] }
    | .inout =>
      match arg with
      | none => bindParams ds fbMode fuel ctl σ rest args positional (idx + 1) acc
      | some a =>
        match a.target? with
        | none => (σ, fault .TypeMismatch .callBindTarget)
        | some t =>
          match readNameC ctl.cur σ t with
          | .error s => (σ, .error s)
          | .ok v =>
            bindParams ds fbMode fuel ctl σ rest args positional (idx + 1)
              { paramValues := acc.paramValues ++ [(p.name, v)],
                outTargets := acc.outTargets ++ [(p.name, t)] }

/-- `eval/mod.rs: init_locals`: initialiser evaluated in the new frame, stored **as is**. -/
def initLocals (ds : Defs) : Nat → Ctl → XStore → List Local → XRes Unit
  | 0, _, σ, _ => (σ, xtimeout)
  | _ + 1, _, σ, [] => (σ, pure ())
  | fuel + 1, ctl, σ, l :: rest =>
    match l.init with
    | none => initLocals ds fuel ctl (setLocal σ l.name l.ty.default) rest
    | some e =>
      match evalX ds fuel ctl σ e with
      | (σ1, .error s) => (σ1, .error s)
      | (σ1, .ok v) => initLocals ds fuel ctl (setLocal σ1 l.name v) rest

/-- `eval/mod.rs: call_function`. -/
def callFunction (ds : Defs) : Nat → Ctl → XStore → FuncDef → XArgs → XRes Val
  | 0, _, σ, _, _ => (σ, xtimeout)
  | fuel + 1, ctl, σ, fd, args =>
    -- `!args.is_empty() && args.iter().all(|arg| arg.name.is_none())` (d406d2d)
    let positional := decide (args.length ≠ 0) && args.allPositional
    if positional ∧ args.length ≠ fd.params.length then
      (σ, fault .InvalidArgumentCount .callArgCount)
    else
    match bindParams ds false fuel ctl σ fd.params args positional 0 {} with
    | (σ1, .error s) => (σ1, .error s)                  -- nothing pushed yet
    | (σ1, .ok b) =>
      -- push_frame, return slot, parameters
      let σ2 := setLocal (pushFrame σ1 fd.name) fd.name fd.ret.default
      let σ3 := b.paramValues.foldl (fun σ (x, v) => setLocal σ x v) σ2
      let ctl' : Ctl := { ctl with retName := some fd.name }
      match initLocals ds fuel ctl' σ3 fd.locals with
      | (σ4, .error s) => (popFrame σ4, .error s)
      | (σ4, .ok _) =>
        match execXBlock ds fuel ctl' σ4 fd.body with
        | (σ5, .error s) => (popFrame σ5, .error s)
        | (σ5, .ok flow) =>
          let rv : Val :=
            match flow with
            | .ret (some v) => v
            | _ => match curRet σ5 with
              | some v => v
              | none => fd.ret.default
          -- collect_outputs: read every bound OUT / IN_OUT parameter in the callee frame
          let outs : M (List (String × Val)) :=
            b.outTargets.mapM fun (p, t) => (readNameC ctl.cur σ5 p).map fun v => (t, v)
          match outs with
          | .error s => (popFrame σ5, .error s)
          | .ok ws =>
            -- pop, then write_output_values in the caller's frame (`write_name` cannot fail)
            let σ6 := ws.foldl (fun σ (t, v) => writeNameC ctl.cur σ t v) (popFrame σ5)
            (σ6, pure rv)

/-- `eval/mod.rs: call_function_block`: every VAR_INPUT is (re)written — from the argument, else
from the declared default, else from the type default; the values go into the instance **as
is**; the body runs with `current_instance` = the instance; outputs are read after the body and
written in the caller's context after the pop. -/
def callFb (ds : Defs) : Nat → Ctl → XStore → String → FbDef → XArgs → XRes XFlow
  | 0, _, σ, _, _, _ => (σ, xtimeout)
  | fuel + 1, ctl, σ, c, fb, args =>
    let positional := decide (args.length ≠ 0) && args.allPositional
    if positional ∧ args.length ≠ fb.params.length then
      (σ, fault .InvalidArgumentCount .callArgCount)
    else
    match bindParams ds true fuel ctl σ fb.params args positional 0 {} with
    | (σ1, .error s) => (σ1, .error s)
    | (σ1, .ok b) =>
      let σ2 := pushFrame σ1 fb.name
      let σ3 := b.paramValues.foldl (fun σ (x, v) => setInstVar σ c x v) σ2
      let ctl' : Ctl := { ctl with cur := some c }
      match execXBlock ds fuel ctl' σ3 fb.body with
      | (σ4, .error s) => (popFrame σ4, .error s)
      | (σ4, .ok .exit) => (popFrame σ4, fault .InvalidControlFlow .fbFlow)
      | (σ4, .ok .loopCont) => (popFrame σ4, fault .InvalidControlFlow .fbFlow)
      | (σ4, .ok _) =>
        let outs : M (List (String × Val)) :=
          b.outTargets.mapM fun (p, t) => (readNameC (some c) σ4 p).map fun v => (t, v)
        match outs with
        | .error s => (popFrame σ4, .error s)
        | .ok ws => (ws.foldl (fun σ (t, v) => writeNameC ctl.cur σ t v) (popFrame σ4), .ok .cont)

/-- `eval/stmt.rs: exec_stmt`. -/
def execXStmt (ds : Defs) : Nat → Ctl → XStore → XStmt → XRes XFlow
  | 0, _, σ, _ => (σ, xtimeout)
  | fuel + 1, ctl, σ, s =>
    match s with
    | .assign x e =>
      match evalX ds fuel ctl σ e with
      | (σ1, .error st) => (σ1, .error st)
      | (σ1, .ok v) =>
        let σ2 := writeNameC ctl.cur σ1 x v
        -- `if target.name() == return_name { frame.return_value = Some(read_lvalue(target)) }`
        if ctl.retName = some x then
          match readNameC ctl.cur σ2 x with
          | .ok rv => (setRet σ2 rv, .ok .cont)
          | .error st => (σ2, .error st)
        else (σ2, .ok .cont)
    | .expr e =>
      match evalX ds fuel ctl σ e with
      | (σ1, .error st) => (σ1, .error st)
      | (σ1, .ok _) => (σ1, .ok .cont)
    | .assignIdx a i e =>
      -- value, then `read_name(a)`, the index, `write_indices` (element stored **as is**), `write_name`
      match evalX ds fuel ctl σ e with
      | (σ1, .error st) => (σ1, .error st)
      | (σ1, .ok v) =>
        match (if ctl.cur.isNone then getAgg σ1 a else none) with
        | some (.arr lo hi elems) =>
          match evalX ds fuel ctl σ1 i with
          | (σ2, .error st) => (σ2, .error st)
          | (σ2, .ok iv) =>
            match arrayOffset lo hi iv with
            | .error st => (σ2, .error st)
            | .ok off => (setAgg σ2 a (.arr lo hi (elems.set off v)), .ok .cont)
        | some (.str _) => (σ1, fault .TypeMismatch .indexOfNonArray)
        | none =>
          match readNameC ctl.cur σ1 a with
          | .error st => (σ1, .error st)
          | .ok _ => (σ1, fault .TypeMismatch .indexOfNonArray)
    | .assignFld s f e =>
      match evalX ds fuel ctl σ e with
      | (σ1, .error st) => (σ1, .error st)
      | (σ1, .ok v) =>
        match (if ctl.cur.isNone then getAgg σ1 s else none) with
        | some (.str fields) =>
          match fields.find? (fun q => q.1.toUpper = f.toUpper) with
          | some (g, _) => (setAgg σ1 s (.str (insert g v fields)), .ok .cont)
          | none => (σ1, fault .UndefinedField .fieldName)
        | some (.arr _ _ _) => (σ1, fault .TypeMismatch .fieldOfNonStruct)
        | none =>
          match readNameC ctl.cur σ1 s with
          | .error st => (σ1, .error st)
          | .ok _ => (σ1, fault .TypeMismatch .fieldOfNonStruct)
    | .fbcall c args =>
      match (ds.instTy.lookup c).bind (findFb ds.fbs) with
      | none =>
        match readNameC ctl.cur σ c with
        | .error s => (σ, .error s)
        | .ok _ => (σ, fault .TypeMismatch .callUndefined)
      | some fb => callFb ds fuel ctl σ c fb args
    | .ite c t elifs el =>
      match evalX ds fuel ctl σ c with
      | (σ1, .error st) => (σ1, .error st)
      | (σ1, .ok (.b true)) => execXBlock ds fuel ctl σ1 t
      | (σ1, .ok (.b false)) => execXElifs ds fuel ctl σ1 elifs el
      | (σ1, .ok (.i _ _)) => (σ1, fault .ConditionNotBool .condNotBool)
    | .case sel brs el =>
      match evalX ds fuel ctl σ sel with
      | (σ1, .error st) => (σ1, .error st)
      | (σ1, .ok v) =>
        match selectorInt v with
        | .error st => (σ1, .error st)
        | .ok none => execXBlock ds fuel ctl σ1 el
        | .ok (some n) =>
          match findXBranch n brs with
          | some b => execXBlock ds fuel ctl σ1 b
          | none => execXBlock ds fuel ctl σ1 el
    | .for x s e step body =>
      match evalX ds fuel ctl σ s with
      | (σ1, .error st) => (σ1, .error st)
      | (σ1, .ok sv) =>
        match evalX ds fuel ctl σ1 e with
        | (σ2, .error st) => (σ2, .error st)
        | (σ2, .ok ev) =>
          match evalX ds fuel ctl σ2 (stepXExpr step) with
          | (σ3, .error st) => (σ3, .error st)
          | (σ3, .ok tv) =>
            let pre : M (Int × Int × Int × Val) := do
              let si ← intValue .real sv
              let ei ← intValue .real ev
              let ti ← intValue .real tv
              if ti = 0 then fault .ForStepZero .forStepZero else do
              let tmpl ← readNameC ctl.cur σ3 x
              if tmpl.isUnsignedInt && decide (ti < 0) then fault .TypeMismatch .forUnsignedNegStep else do
              let first ← coerceLoopValue tmpl si
              pure (si, ei, ti, first)
            match pre with
            | .error st => (σ3, .error st)
            | .ok (si, ei, ti, first) =>
              forXLoop ds fuel ctl (writeNameC ctl.cur σ3 x first) x first si ei ti body
    | .while c body => whileXLoop ds fuel ctl σ c body
    | .repeat body c => repeatXLoop ds fuel ctl σ body c
    | .exit => if ctl.ld = 0 then (σ, fault .InvalidControlFlow .exitOutsideLoop) else (σ, .ok .exit)
    | .continue => if ctl.ld = 0 then (σ, fault .InvalidControlFlow .exitOutsideLoop) else (σ, .ok .loopCont)
    | .ret none => (σ, .ok (.ret none))
    | .ret (some e) =>
      match evalX ds fuel ctl σ e with
      | (σ1, .error st) => (σ1, .error st)
      | (σ1, .ok v) => (σ1, .ok (.ret (some v)))

def execXBlock (ds : Defs) : Nat → Ctl → XStore → XBlock → XRes XFlow
  | 0, _, σ, _ => (σ, xtimeout)
  | _ + 1, _, σ, .nil => (σ, .ok .cont)
  | fuel + 1, ctl, σ, .cons s rest =>
    match execXStmt ds fuel ctl σ s with
    | (σ', .ok .cont) => execXBlock ds fuel ctl σ' rest
    | r => r

def execXElifs (ds : Defs) : Nat → Ctl → XStore → XElifs → XBlock → XRes XFlow
  | 0, _, σ, _, _ => (σ, xtimeout)
  | fuel + 1, ctl, σ, .nil, el => execXBlock ds fuel ctl σ el
  | fuel + 1, ctl, σ, .cons c b rest, el =>
    match evalX ds fuel ctl σ c with
    | (σ1, .error st) => (σ1, .error st)
    | (σ1, .ok (.b true)) => execXBlock ds fuel ctl σ1 b
    | (σ1, .ok (.b false)) => execXElifs ds fuel ctl σ1 rest el
    | (σ1, .ok (.i _ _)) => (σ1, fault .ConditionNotBool .condNotBool)

def forXLoop (ds : Defs) : Nat → Ctl → XStore → String → Val → Int → Int → Int → XBlock → XRes XFlow
  | 0, _, σ, _, _, _, _, _, _ => (σ, xtimeout)
  | fuel + 1, ctl, σ, x, tmpl, cur, endV, step, body =>
    if (step > 0 ∧ cur > endV) ∨ (step < 0 ∧ cur < endV) then (σ, .ok .cont) else
    match execXBlock ds fuel { ctl with ld := ctl.ld + 1 } σ body with
    | (σ', .error st) => (σ', .error st)
    | (σ', .ok .exit) => (σ', .ok .cont)
    | (σ', .ok (.ret v)) => (σ', .ok (.ret v))
    | (σ', .ok _) =>
      let next := cur + step
      if next < i64Min ∨ next > i64Max then (σ', fault .Overflow .forIncrement) else
      match coerceLoopValue tmpl next with
      | .error st => (σ', .error st)
      | .ok v => forXLoop ds fuel ctl (writeNameC ctl.cur σ' x v) x tmpl next endV step body

def whileXLoop (ds : Defs) : Nat → Ctl → XStore → XExpr → XBlock → XRes XFlow
  | 0, _, σ, _, _ => (σ, xtimeout)
  | fuel + 1, ctl, σ, c, body =>
    match evalX ds fuel ctl σ c with
    | (σ1, .error st) => (σ1, .error st)
    | (σ1, .ok (.i _ _)) => (σ1, fault .ConditionNotBool .condNotBool)
    | (σ1, .ok (.b false)) => (σ1, .ok .cont)
    | (σ1, .ok (.b true)) =>
      match execXBlock ds fuel { ctl with ld := ctl.ld + 1 } σ1 body with
      | (σ', .error st) => (σ', .error st)
      | (σ', .ok .exit) => (σ', .ok .cont)
      | (σ', .ok (.ret v)) => (σ', .ok (.ret v))
      | (σ', .ok _) => whileXLoop ds fuel ctl σ' c body

def repeatXLoop (ds : Defs) : Nat → Ctl → XStore → XBlock → XExpr → XRes XFlow
  | 0, _, σ, _, _ => (σ, xtimeout)
  | fuel + 1, ctl, σ, body, c =>
    match execXBlock ds fuel { ctl with ld := ctl.ld + 1 } σ body with
    | (σ', .error st) => (σ', .error st)
    | (σ', .ok .exit) => (σ', .ok .cont)
    | (σ', .ok (.ret v)) => (σ', .ok (.ret v))
    | (σ', .ok _) =>
      match evalX ds fuel ctl σ' c with
      | (σ1, .error st) => (σ1, .error st)
      | (σ1, .ok (.i _ _)) => (σ1, fault .ConditionNotBool .condNotBool)
      | (σ1, .ok (.b true)) => (σ1, .ok .cont)
      | (σ1, .ok (.b false)) => repeatXLoop ds fuel ctl σ1 body c
end

def XProgram.defs (p : XProgram) : Defs := { funcs := p.funcs, fbs := p.fbs, instTy := p.insts }

/-- `instance.rs: create_fb_instance`: every parameter gets its **type** default
(`init_param_defaults` ignores the declared default), every VAR its coerced initialiser or the
type default. -/
def FbDef.initVars (fb : FbDef) : Env :=
  fb.params.map (fun q => (q.name, q.ty.default)) ++
    fb.vars.map (fun l => (l.name,
      match l.init, l.ty with
      | some (.lit _ v), .int k => Val.i k v
      | some (.un .neg (.lit _ v)), .int k => Val.i k (-v)
      | some (.blit b), .bool => Val.b b
      | _, t => t.default))

def XProgram.initStore (p : XProgram) : XStore :=
  { vars := p.decls.map fun d => (d.name, d.initVal),
    insts := p.insts.map fun (c, t) =>
      (c, match findFb p.fbs t with | some fb => fb.initVars | none => []),
    -- `default_value_for_type_id`: elements / fields get the TYPE default (declared initial
    -- values of struct fields are ignored)
    aggs := p.aggs.map fun (a, d) =>
      (a, match d with
        | .arr lo hi t => Agg.arr lo hi (List.replicate (hi - lo + 1).toNat t.default)
        | .str _ fields => Agg.str (fields.map fun (f, t) => (f, t.default))) }

structure XRunState where
  store : XStore
  faulted : Bool := false
  deriving Repr, Inhabited

/-- `runtime/cycle.rs: execute_cycle` → `execute_program`. -/
def xcycle (p : XProgram) (fuel : Nat) (st : XRunState) : XRunState × CycleOut :=
  if st.faulted then (st, some (.fault .ResourceFaulted .latched)) else
  let σ0 := pushFrame st.store p.name
  let (σ1, r) := execXBlock p.defs fuel {} σ0 p.body
  let σ2 := popFrame σ1
  match r with
  | .ok .cont => ({ store := σ2, faulted := false }, none)
  | .ok (.ret _) => ({ store := σ2, faulted := false }, none)      -- f3b5b76
  | .ok _ => ({ store := σ2, faulted := true }, some (.fault .InvalidControlFlow .programFlow))
  | .error s => ({ store := σ2, faulted := true }, some s)

end TrustVerif.StExt
