import TrustVerif.Model.StExt

/-!
# Stage S4: model of what the real compiler accepts for programs with FUNCTIONs

Same status as `Model/StCheck.lean`: a decidable judgment written from the rules trust-hir applies
(`type_check/calls/args.rs: bind_call_arguments`, `check_bound_call_argument_types`,
`type_check/stmt.rs: check_return_stmt`, `finish_return_checks`), tied to the real checker by the
verdict comparison of the correspondence run.
-/
namespace TrustVerif.StExt
open TrustVerif.StCore

/-- Result of `bind_call_arguments`: per parameter the bound argument (with its `=>` flag). -/
abbrev Bound := List (Option (Bool × XExpr))

def Bound.set (b : Bound) (i : Nat) (v : Bool × XExpr) : Bound :=
  b.zipIdx.map fun (x, j) => if j = i then some v else x

def paramIndex (ps : List Param) (name : String) : Option Nat :=
  ps.findIdx? (fun p => p.name.toUpper = name.toUpper)

def XArgs.anyNamed : XArgs → Bool
  | .nil => false
  | .cons name _ _ rest => name.isSome || rest.anyNamed

/-- Formal call: positional arguments first (bound to the parameters in order), then named ones;
`none` = a diagnostic (positional after formal, unknown name, duplicate, overflow). -/
def bindFormal (ps : List Param) : XArgs → Nat → Bool → Bound → Option Bound
  | .nil, _, _, b => some b
  | .cons none arrow e rest, pos, sawFormal, b =>
    if sawFormal then none
    else if pos < ps.length then bindFormal ps rest (pos + 1) false (b.set pos (arrow, e))
    else none
  | .cons (some n) arrow e rest, pos, _, b =>
    match paramIndex ps n with
    | none => none
    | some i =>
      match b.getD i none with
      | some _ => none
      | none => bindFormal ps rest pos true (b.set i (arrow, e))

def bindPositional (ps : List Param) : XArgs → Nat → Bound → Bound
  | .nil, _, b => b
  | .cons _ arrow e rest, pos, b => bindPositional ps rest (pos + 1) (b.set pos (arrow, e))

/-- `is_untyped_int_literal_expr`. -/
def isLitExprX : XExpr → Bool
  | .lit none _ => true
  | .un .neg e => isLitExprX e
  | .bin op l r => op.isArith && isLitExprX l && isLitExprX r
  | _ => false

/-- `constIdx` of `StCheck` on the extended syntax. -/
def constIdx : XExpr → Option Int
  | .lit none v => some v
  | .lit (some _) v => some (Int.ofNat v.natAbs)
  | .un .neg e => (constIdx e).map (fun v => -v)
  | .bin op l r =>
    match constIdx l, constIdx r with
    | some a, some b =>
      match op with
      | .add => some (a + b)
      | .sub => some (a - b)
      | .mul => some (a * b)
      | .div => if b = 0 then none else some (Int.tdiv a b)
      | .mod => if b = 0 then none else some (Int.tmod a b)
      | _ => none
    | _, _ => none
  | _ => none

/-- Budget of the checker model's recursion (expression depth × call nesting); ample for generated programs. -/
def checkFuel : Nat := 100000

mutual
/-- `check_expression` with calls.  `restricted` = loop-restricted variables (OUT / IN_OUT
bindings count as modifications). -/
def inferX (fs : List FuncDef) (ic : List (String × FbDef)) (ac : List (String × AggDecl)) (Γ : Ctx) (restricted : List String) : Nat → XExpr → Option Ty
  | 0, _ => none
  | fuel + 1, ex =>
  match ex with
  | .lit none v => (smallestSigned v).map Ty.int
  | .lit (some k) v => if k.inRange v && writable v then some (.int k) else none
  | .blit _ => some .bool
  | .var x => Γ.lookup x
  | .un .neg e =>
    match inferX fs ic ac Γ restricted fuel e with
    | some (.int k) => some (.int k)
    | _ => none
  | .un .not e =>
    match inferX fs ic ac Γ restricted fuel e with
    | some .bool => some .bool
    | _ => none
  | .bin op l r =>
    match inferX fs ic ac Γ restricted fuel l, inferX fs ic ac Γ restricted fuel r with
    | some tl, some tr =>
      if op.isArith then
        match tl, tr with
        | .int a, .int b => some (.int (wider a b))
        | _, _ => none
      else if op.isCmp then
        match tl, tr with
        | .bool, .bool => some .bool
        | .int _, .int _ => some .bool
        | _, _ => none
      else
        match tl, tr with
        | .bool, .bool => some .bool
        | _, _ => none
    | _, _ => none
  | .fld c f =>
    -- `instance.member`: VAR_INPUT / VAR_OUTPUT / VAR_IN_OUT are readable from outside, VAR is PROTECTED
    match ac.lookup c with
    | some (.str _ fields) => (fields.find? (fun q => q.1.toUpper = f.toUpper)).map (·.2)   -- "no field on struct"
    | some (.arr _ _ _) => none
    | none =>
      match ic.lookup c with
      | none => none
      | some fb => (fb.params.find? (fun q => q.name.toUpper = f.toUpper)).map (·.ty)
  | .idx a i =>
    -- index of integer type; a constant index is checked against the bounds (E304)
    match ac.lookup a with
    | some (.arr lo hi t) =>
      match inferX fs ic ac Γ restricted fuel i with
      | some (.int _) =>
        match constIdx i with
        | some n => if lo ≤ n ∧ n ≤ hi then some t else none
        | none => some t
      | _ => none
    | _ => none
  | .call f args =>
    match findFunc fs f with
    | none => none
    | some fd =>
      let formal := args.length = 0 || args.anyNamed
      let empty : Bound := fd.params.map fun _ => none
      let bound : Option Bound :=
        if fd.params.isEmpty then (if args.length = 0 then some [] else none)
        else if formal then bindFormal fd.params args 0 false empty
        else if args.length = fd.params.length then some (bindPositional fd.params args 0 empty)
        else none
      match bound with
      | none => none
      | some b =>
        if argsOk fs ic ac Γ restricted fuel formal fd.params b then some fd.ret else none

/-- `check_bound_call_argument_types` (+ the missing IN_OUT test of a formal call). -/
def argsOk (fs : List FuncDef) (ic : List (String × FbDef)) (ac : List (String × AggDecl)) (Γ : Ctx) (restricted : List String) : Nat → Bool → List Param → Bound → Bool
  | 0, _, _, _ => false
  | _ + 1, _, [], _ => true
  | _ + 1, _, _ :: _, [] => true
  | fuel + 1, formal, p :: ps, a :: as =>
    (match a with
      | none => !(formal && p.dir = .inout)
      | some (arrow, e) =>
        (if formal then (if p.dir = .out then arrow else !arrow) else true) &&
        (match p.dir with
          | .inp =>
            match inferX fs ic ac Γ restricted fuel e with
            | none => false
            | some s => assignable p.ty s || (p.ty.isInt && isLitExprX e)
          | .out =>
            match e with
            | .var x =>
              !restricted.contains x &&
                (match Γ.lookup x with
                  | some t => assignable t p.ty
                  | none => false)
            | _ => false
          | .inout =>
            match e with
            | .var x =>
              !restricted.contains x &&
                (match Γ.lookup x with
                  | some t => assignable p.ty t && assignable t p.ty
                  | none => false)
            | _ => false))
      && argsOk fs ic ac Γ restricted fuel formal ps as
end

def assignOkX (fs : List FuncDef) (ic : List (String × FbDef)) (ac : List (String × AggDecl)) (Γ : Ctx) (restricted : List String) (target : Ty) (e : XExpr) : Bool :=
  match inferX fs ic ac Γ restricted checkFuel e with
  | none => false
  | some s => assignable target s || (target.isInt && isLitExprX e)

def simpleVarX : XExpr → List String
  | .var x => [x]
  | _ => []

def forBoundOkX (fs : List FuncDef) (ic : List (String × FbDef)) (ac : List (String × AggDecl)) (Γ : Ctx) (restricted : List String) (ctl : Option IKind) (e : XExpr) : Bool :=
  match inferX fs ic ac Γ restricted checkFuel e with
  | some (.int k) =>
    match ctl with
    | some c => decide (k = c) || isLitExprX e
    | none => true
  | _ => false

/-- Where a statement list is checked: in a PROGRAM (`ret = none`) or in a FUNCTION with its
name and return type. -/
structure Pou where
  ret : Option (String × Ty)
  /-- VAR_INPUT parameters of a FUNCTION may not be assigned ("cannot assign to input parameter") -/
  readonly : List String := []
  /-- FB instance variables in scope (PROGRAM only) -/
  ic : List (String × FbDef) := []
  /-- array / struct variables in scope (PROGRAM only) -/
  ac : List (String × AggDecl) := []

mutual
def checkXStmt (fs : List FuncDef) (pou : Pou) (ce : Bool) (Γ : Ctx) (restricted : List String) (inLoop : Bool) :
    XStmt → Bool
  | .assign x e =>
    match Γ.lookup x with
    | none => false
    | some t => !restricted.contains x && !pou.readonly.contains x && assignOkX fs pou.ic pou.ac Γ restricted t e
  | .assignIdx a i e =>
    match inferX fs pou.ic pou.ac Γ restricted checkFuel (.idx a i) with
    | some t => assignOkX fs pou.ic pou.ac Γ restricted t e
    | none => false
  | .assignFld sv f e =>
    match pou.ac.lookup sv with
    | some (.str _ _) =>
      match inferX fs pou.ic pou.ac Γ restricted checkFuel (.fld sv f) with
      | some t => assignOkX fs pou.ic pou.ac Γ restricted t e
      | none => false
    | _ => false
  | .fbcall c args =>
    match pou.ic.lookup c with
    | none => false
    | some fb =>
      let formal := args.length = 0 || args.anyNamed
      let empty : Bound := fb.params.map fun _ => none
      let bound : Option Bound :=
        if fb.params.isEmpty then (if args.length = 0 then some [] else none)
        else if formal then bindFormal fb.params args 0 false empty
        else if args.length = fb.params.length then some (bindPositional fb.params args 0 empty)
        else none
      match bound with
      | none => false
      | some b => argsOk fs pou.ic pou.ac Γ restricted checkFuel formal fb.params b
  | .expr e => (inferX fs pou.ic pou.ac Γ restricted checkFuel e).isSome
  | .ite c t elifs el =>
    inferX fs pou.ic pou.ac Γ restricted checkFuel c = some .bool && checkXBlock fs pou ce Γ restricted inLoop t
      && checkXElifs fs pou ce Γ restricted inLoop elifs && checkXBlock fs pou ce Γ restricted inLoop el
  | .case sel brs el =>
    match inferX fs pou.ic pou.ac Γ restricted checkFuel sel with
    | some (.int k) =>
      (checkXBranches fs pou ce Γ restricted inLoop k {} brs).isSome
        && (!ce || checkXBlock fs pou ce Γ restricted inLoop el)
    | _ => false
  | .for x s e step body =>
    let ctl : Option (Option IKind) :=
      match Γ.lookup x with
      | none => none
      | some (.int k) => some (some k)
      | some .bool => none
    match ctl with
    | none => false
    | some c =>
      forBoundOkX fs pou.ic pou.ac Γ restricted c s && forBoundOkX fs pou.ic pou.ac Γ restricted c e
        && (match step with | none => true | some st => forBoundOkX fs pou.ic pou.ac Γ restricted c st)
        && checkXBlock fs pou ce Γ (x :: simpleVarX s ++ simpleVarX e ++ restricted) true body
  | .while c body => inferX fs pou.ic pou.ac Γ restricted checkFuel c = some .bool && checkXBlock fs pou ce Γ restricted true body
  | .repeat body c => inferX fs pou.ic pou.ac Γ restricted checkFuel c = some .bool && checkXBlock fs pou ce Γ restricted true body
  | .exit => inLoop
  | .continue => inLoop
  | .ret none => pou.ret.isNone                   -- bare RETURN in a FUNCTION: "missing return value"
  | .ret (some e) =>
    match pou.ret with
    | none => false                                -- "unexpected return value in procedure"
    | some (_, t) => assignOkX fs pou.ic pou.ac Γ restricted t e

def checkXBlock (fs : List FuncDef) (pou : Pou) (ce : Bool) (Γ : Ctx) (restricted : List String) (inLoop : Bool) :
    XBlock → Bool
  | .nil => true
  | .cons s rest => checkXStmt fs pou ce Γ restricted inLoop s && checkXBlock fs pou ce Γ restricted inLoop rest

def checkXElifs (fs : List FuncDef) (pou : Pou) (ce : Bool) (Γ : Ctx) (restricted : List String) (inLoop : Bool) :
    XElifs → Bool
  | .nil => true
  | .cons c b rest =>
    inferX fs pou.ic pou.ac Γ restricted checkFuel c = some .bool && checkXBlock fs pou ce Γ restricted inLoop b
      && checkXElifs fs pou ce Γ restricted inLoop rest

def checkXBranches (fs : List FuncDef) (pou : Pou) (ce : Bool) (Γ : Ctx) (restricted : List String) (inLoop : Bool)
    (sel : IKind) : Tracker → XBranches → Option Tracker
  | t, .nil => some t
  | t, .cons ls b rest =>
    match labelsOk sel t ls with
    | none => none
    | some t' =>
      if !ls.isEmpty && checkXBlock fs pou ce Γ restricted inLoop b
      then checkXBranches fs pou ce Γ restricted inLoop sel t' rest
      else none
end

mutual
/-- `saw_return_value`: some *checked* statement assigns the function's name or is `RETURN expr`
(statements in the unchecked ELSE branch of CASE do not count). -/
def sawReturnStmt (fname : String) (ce : Bool) : XStmt → Bool
  | .assign x _ => x.toUpper = fname.toUpper
  | .ret (some _) => true
  | .ite _ t elifs el => sawReturnBlock fname ce t || sawReturnElifs fname ce elifs || sawReturnBlock fname ce el
  | .case _ brs el => sawReturnBranches fname ce brs || (ce && sawReturnBlock fname ce el)
  | .for _ _ _ _ body => sawReturnBlock fname ce body
  | .while _ body => sawReturnBlock fname ce body
  | .repeat body _ => sawReturnBlock fname ce body
  | _ => false
def sawReturnBlock (fname : String) (ce : Bool) : XBlock → Bool
  | .nil => false
  | .cons s rest => sawReturnStmt fname ce s || sawReturnBlock fname ce rest
def sawReturnElifs (fname : String) (ce : Bool) : XElifs → Bool
  | .nil => false
  | .cons _ b rest => sawReturnBlock fname ce b || sawReturnElifs fname ce rest
def sawReturnBranches (fname : String) (ce : Bool) : XBranches → Bool
  | .nil => false
  | .cons _ b rest => sawReturnBlock fname ce b || sawReturnBranches fname ce rest
end

mutual
/-- Literals survive the lowering everywhere. -/
def XExpr.lowerable : XExpr → Bool
  | .lit none v => decide (0 ≤ v) && decide (v ≤ i32Max)
  | .lit (some k) v => k.inRange v && writable v
  | .blit _ => true
  | .var _ => true
  | .un _ e => e.lowerable
  | .bin _ l r => l.lowerable && r.lowerable
  | .call _ args => args.lowerable
  | .fld _ _ => true
  | .idx _ i => i.lowerable
def XArgs.lowerable : XArgs → Bool
  | .nil => true
  | .cons _ _ e rest => e.lowerable && rest.lowerable
end

mutual
def XStmt.lowerable : XStmt → Bool
  | .assign _ e => e.lowerable
  | .expr e => e.lowerable
  | .fbcall _ args => args.lowerable
  | .assignIdx _ i e => i.lowerable && e.lowerable
  | .assignFld _ _ e => e.lowerable
  | .ite c t elifs el => c.lowerable && t.lowerable && elifs.lowerable && el.lowerable
  | .case sel brs el => sel.lowerable && brs.lowerable && el.lowerable
  | .for _ s e step body =>
    s.lowerable && e.lowerable && (match step with | none => true | some st => st.lowerable) && body.lowerable
  | .while c body => c.lowerable && body.lowerable
  | .repeat body c => body.lowerable && c.lowerable
  | .ret (some e) => e.lowerable
  | _ => true
def XBlock.lowerable : XBlock → Bool
  | .nil => true
  | .cons s rest => s.lowerable && rest.lowerable
def XElifs.lowerable : XElifs → Bool
  | .nil => true
  | .cons c b rest => c.lowerable && b.lowerable && rest.lowerable
def XBranches.lowerable : XBranches → Bool
  | .nil => true
  | .cons _ b rest => b.lowerable && rest.lowerable
end

/-- A literal initialiser / default of a FUNCTION declaration: untyped (possibly negated) or typed. -/
def initOk (t : Ty) (e : Option XExpr) : Bool :=
  match e with
  | none => true
  | some e => e.lowerable &&
    match t, e with
    | .bool, .blit _ => true
    | .int _, .lit none _ => true
    | .int _, .un .neg (.lit none _) => true
    | .int k, .lit (some k') v => decide (k = k') && k.inRange v
    | _, _ => false

def FuncDef.ctx (fd : FuncDef) : Ctx :=
  fd.params.map (fun p => (p.name, p.ty)) ++ fd.locals.map (fun l => (l.name, l.ty)) ++ [(fd.name, fd.ret)]

/-- The initialiser of a FUNCTION local (`VAR x : T := e;`).  The checker does not look at it at
all — no name resolution, no type check (`trust-hir` validates only string initialisers) — so
anything that can be lowered is accepted; `init_locals` evaluates it at every call in the new
frame and stores the value as is. -/
def localInitOk (l : Local) : Bool :=
  match l.init with
  | none => true
  | some e => e.lowerable

/-- What a checker would have required of that initialiser: assignable to the declared type in
the scope of the parameters and locals.  Used by the oracle only, to attribute a failure to the
recorded finding "initialisers of frame-local variables are not checked". -/
def localInitTyped (fs : List FuncDef) (fd : FuncDef) (l : Local) : Bool :=
  match l.init with
  | none => true
  | some e => assignOkX fs [] [] fd.ctx [] l.ty e

def funcOk (fs : List FuncDef) (ce : Bool) (fd : FuncDef) : Bool :=
  distinctNames (fd.params.map (·.name) ++ fd.locals.map (·.name))
    && fd.params.all (fun p => initOk p.ty p.default)
    && fd.locals.all localInitOk
    && checkXBlock fs (Pou.mk (some (fd.name, fd.ret))
        ((fd.params.filter (fun q => q.dir = .inp)).map (·.name)) [] []) ce fd.ctx [] false fd.body
    && sawReturnBlock fd.name ce fd.body
    && fd.body.lowerable

def FbDef.ctx (fb : FbDef) : Ctx :=
  fb.params.map (fun q => (q.name, q.ty)) ++ fb.vars.map (fun l => (l.name, l.ty))

def fbOk (fs : List FuncDef) (ce : Bool) (fb : FbDef) : Bool :=
  distinctNames (fb.params.map (·.name) ++ fb.vars.map (·.name))
    && fb.params.all (fun q => initOk q.ty q.default)
    && fb.vars.all (fun l => initOk l.ty l.init)
    && checkXBlock fs { ret := none } ce fb.ctx [] false fb.body
    && fb.body.lowerable

def XProgram.instCtx (p : XProgram) : List (String × FbDef) :=
  p.insts.filterMap fun (c, t) => (findFb p.fbs t).map fun fb => (c, fb)

def XProgram.acceptedWith (ce : Bool) (p : XProgram) : Bool :=
  distinctNames (p.decls.map (·.name) ++ p.insts.map (·.1) ++ p.aggs.map (·.1)) && p.decls.all VarDecl.ok
    && p.aggs.all (fun (_, d) => match d with | .arr lo hi _ => decide (lo ≤ hi) && decide (-i32Max ≤ lo) && decide (hi ≤ i32Max) | .str _ fs => distinctNames (fs.map (·.1.toUpper)))
    && distinctNames (p.funcs.map (·.name.toUpper) ++ p.fbs.map (·.name.toUpper))
    && p.funcs.all (funcOk p.funcs ce)
    && p.fbs.all (fbOk p.funcs ce)
    && p.insts.all (fun (_, t) => (findFb p.fbs t).isSome)
    && checkXBlock p.funcs (Pou.mk none [] p.instCtx p.aggs) ce (p.decls.map fun d => (d.name, d.ty)) [] false p.body
    && p.body.lowerable

def XProgram.accepted (p : XProgram) : Bool := p.acceptedWith true

end TrustVerif.StExt
