import TrustVerif.Model.StCore
import TrustVerif.Model.StCheck
import TrustVerif.Model.C02
import TrustVerif.Model.C03

namespace TrustVerif.StCore

/-- placeholder while the pipeline is brought up -/
theorem c01_placeholder : wider .sint .usint = .usint := by decide

end TrustVerif.StCore
