import TrustVerif.Lemmas.StExec
import TrustVerif.Lemmas.StFrames
import TrustVerif.Lemmas.StWitness
import TrustVerif.Lemmas.StExtFrames
import TrustVerif.Lemmas.StNoPanic

/-!
# C01 — every scan cycle ends in success or a value-dependent fault, never a crash

Property theorems only.  The model (`Model/StCore.lean`, `Cfg.real`) mirrors the interpreter as
it is; `Model/StCheck.lean: Program.accepted` is the model of what the real compiler accepts.

The full statement — *for every accepted program … the only faults are value-dependent ones* — is
**false of the current code**: `c01_counterexample_*` prove its negation on concrete programs
that the real compiler accepts (replayed by the harness on every run, known_findings.json).
What is proved instead:

* unconditionally, for every program, accepted or not: no call frame is left behind
  (`c01_frames_balanced`, `c01_frames_every_cycle`, for calls `c01_call_frames_balanced`,
  `c01_fb_call_frames_balanced`) and no Rust panic site is reachable (`c01_never_panics`);
* inside the decidable guard `Strict` (Model/C02.lean): every cycle of every run, for all inputs
  and every budget, ends in success or a value-dependent fault, never a static-class error or a
  panic (`c01_progress_partial`, `c01_every_cycle_partial`).

The fragment of these theorems is stages S1–S3: elementary BOOL/integer variables, every
statement form, and (S3) one-dimensional arrays and flat structs of the PROGRAM with subscripted /
field reads and writes (`Expr.idx`, `Expr.fld`, `Stmt.assignIdx`, `Stmt.assignFld`).  Calls
(S4/S5, `Model/StExt.lean`) have the frame theorems only.
-/
namespace TrustVerif.StCore

/-- **Fault classes.**  The classification of `enum RuntimeError` (regenerated from `error.rs` on
every run; `RustErr.cls` has no wildcard) is exactly the property's two lists: the value-dependent
faults (division by zero, overflow, index out of bounds, null reference, FOR step zero, date/time
range, budget timeout) and the static-class errors (undefined name/field/function, type mismatch,
non-BOOL condition, unsupported CASE selector, invalid control flow, wrong argument count). -/
theorem c01_fault_classes (e : RustErr) :
    (e.cls = .valueDependent ↔
      e ∈ [.DivisionByZero, .ModuloByZero, .Overflow, .IndexOutOfBounds, .NullReference, .ForStepZero,
           .DateTimeRange, .ExecutionTimeout, .WatchdogTimeout]) ∧
    (e.cls = .staticClass ↔
      e ∈ [.UndefinedVariable, .UndefinedFunction, .UndefinedProgram, .UndefinedFunctionBlock,
           .UndefinedTask, .UndefinedLabel, .UndefinedField, .TypeMismatch, .InvalidArgumentCount,
           .InvalidArgumentName, .InvalidControlFlow, .ConditionNotBool, .CaseSelectorType,
           .InvalidTaskSingle]) := by
  cases e <;> decide

/-- **No call frame is left behind — every program, every exit path.**  Whatever the program
(accepted or not), the store, the budget and the way the cycle ends (completion, fault, budget,
a stray EXIT/CONTINUE reaching the program level), `execute_program` pops exactly the frame
it pushed. -/
theorem c01_frames_balanced (p : Program) (fuel : Nat) (st : RunState) :
    (cycle .real p fuel st).1.store.frames = st.store.frames :=
  cycle_frames .real p fuel st

/-- Frames stay empty at every cycle boundary of every run of every program, for all inputs. -/
theorem c01_frames_every_cycle (p : Program) (fuel : Nat) (ins : Inputs) (st : RunState)
    (h : st.store.frames = []) (n : Nat) : (runFrom .real p fuel ins n st).store.frames = [] := by
  induction n with
  | zero => exact h
  | succ n ih =>
    simp only [runFrom]
    rw [cycle_frames]
    exact ih

/-- **The process never panics — every compilable program.**  For every program whose literals
survive the lowering (typed or not, accepted by the checker or not), every store of well-formed
values, every budget: the cycle's report is never a Rust panic (the model's panic sites are the
plain `+ - *` on `i128`/`u128` in `numeric_arith`; everything else is checked arithmetic) and
the store stays well formed, so this holds at every cycle of every run. -/
theorem c01_never_panics (p : Program) (hl : p.body.lowerable = true) (fuel : Nat) (st : RunState)
    (hσ : StoreWF st.store) :
    StoreWF (cycle .real p fuel st).1.store ∧
    ∀ s, (cycle .real p fuel st).2 = some s → s.isPanic = false :=
  cycle_nopanic p hl fuel st hσ

/-- **Progress, one cycle, inside the guard.**  For every program in `Strict`, every well-typed
store, every budget: the cycle completes or reports a value-dependent fault — never a
static-class error, never a panic (a `Stop.panic` is not value-dependent) — and the call stack is
as before. -/
theorem c01_progress_partial (p : Program) (hS : Strict p = true) (σ : Store) (hσ : StoreWT p.ctx σ)
    (fuel : Nat) :
    (cycle .real p fuel { store := σ }).1.store.frames = σ.frames ∧
    ((cycle .real p fuel { store := σ }).2 = none ∨
      ∃ s, (cycle .real p fuel { store := σ }).2 = some s ∧ s.valueDependent = true) := by
  obtain ⟨_, h2, _, h4⟩ := cycle_rel p hS σ hσ fuel
  refine ⟨h2, ?_⟩
  revert h4
  cases (cycle .real p fuel { store := σ }).2 with
  | none => intro _; exact .inl rfl
  | some s =>
    cases (Spec.cycle p fuel (eraseEnv σ.vars)).2 with
    | none => intro h; exact absurd h (by simp)
    | some g => intro h; exact .inr ⟨s, rfl, Stop.toS_valueDependent h.1⟩

/-- **Progress, every cycle of every run, inside the guard.**  From the program's initial store,
for every input trace that writes values of the declared types, every budget and every cycle
index `n`: the call stack is empty, and cycle `n` completes, reports a value-dependent fault, or —
only after an earlier fault latched the resource — reports `ResourceFaulted`. -/
theorem c01_every_cycle_partial (p : Program) (hS : Strict p = true) (ins : Inputs)
    (hins : InputsWT p.ctx ins) (fuel : Nat) (n : Nat) :
    (runFrom .real p fuel ins n { store := p.initStore }).store.frames = [] ∧
    (reportAt .real p fuel ins n { store := p.initStore } = none ∨
      (∃ s, reportAt .real p fuel ins n { store := p.initStore } = some s ∧ s.valueDependent = true) ∨
      ((runFrom .real p fuel ins n { store := p.initStore }).faulted = true ∧
        reportAt .real p fuel ins n { store := p.initStore } = some (.fault .ResourceFaulted .latched))) := by
  have hT : Spec.typed p = true := by
    simp only [Strict, Bool.and_eq_true] at hS; exact hS.1.1
  have hσ0 := init_WT p hT
  obtain ⟨_, i2, _⟩ := run_inv p hS ins hins p.initStore hσ0 fuel n
  obtain ⟨r1, r2⟩ := run_report p hS ins hins p.initStore hσ0 fuel n
  refine ⟨i2, ?_⟩
  cases hf : (runFrom .real p fuel ins n { store := p.initStore }).faulted with
  | true => exact .inr (.inr ⟨rfl, r1 hf⟩)
  | false =>
    have h := r2 hf
    unfold ReportRel at h
    revert h
    cases reportAt .real p fuel ins n { store := p.initStore } with
    | none => intro _; exact .inl rfl
    | some s =>
      cases Spec.reportAt p fuel ins n (eraseEnv p.initStore.vars) with
      | none => intro h; exact absurd h (by simp)
      | some g => intro h; exact .inr (.inl ⟨s, rfl, Stop.toS_valueDependent h⟩)

/-- The guard is not vacuous: `Wit.strictSample` (FOR with EXIT/CONTINUE, WHILE, CASE, division,
three integer kinds) is inside it, is accepted by the model of the compiler, and completes. -/
example : Strict Wit.strictSample = true ∧ Wit.strictSample.accepted = true ∧
    (Wit.firstCycle Wit.strictSample).1 = none := by decide +kernel

/-! ## The full statement is false of the current code -/

/-- **Counterexample (mixed signed/unsigned comparison).**  `b := i < u` with `i : INT := -1`,
`u : UINT` is accepted and the first cycle ends in `TypeMismatch`, raised by `to_u64`. -/
theorem c01_counterexample_mixed_sign :
    Wit.mixedSignCompare.accepted = true ∧
    (Wit.firstCycle Wit.mixedSignCompare).1 = some (.fault .TypeMismatch .toU64Negative) ∧
    (Stop.fault .TypeMismatch .toU64Negative).valueDependent = false := by decide +kernel

/-- **Counterexample (`u := u + (-1)`, `u : UINT`).** -/
theorem c01_counterexample_unsigned_plus_negative :
    Wit.mixedSignArith.accepted = true ∧
    (Wit.firstCycle Wit.mixedSignArith).1 = some (.fault .TypeMismatch .toU64Negative) := by decide +kernel

/-- **Counterexample (unary minus on an unsigned integer).** -/
theorem c01_counterexample_neg_unsigned :
    Wit.negUnsigned.accepted = true ∧
    (Wit.firstCycle Wit.negUnsigned).1 = some (.fault .TypeMismatch .negUnsigned) := by decide +kernel

/-- **Regression fact (`RETURN` in a PROGRAM, fixed in f3b5b76).**  The program is accepted and
the cycle now completes: `x := 1; RETURN; x := 2;` leaves `x = 1` and reports nothing. -/
theorem c01_return_in_program_completes :
    Wit.returnInProgram.accepted = true ∧ Strict Wit.returnInProgram = true ∧
    Wit.firstCycle Wit.returnInProgram = (none, [("x", .i .dint 1)]) := by decide +kernel

/-- **Counterexample (integer `**` with a negative exponent).** -/
theorem c01_counterexample_pow :
    Wit.powNegativeExponent.accepted = true ∧
    (Wit.firstCycle Wit.powNegativeExponent).1 = some (.fault .TypeMismatch .powNegExp) := by decide +kernel

/-- **Counterexample (`FOR u := 3 TO 0 BY -1`, `u : UINT`).** -/
theorem c01_counterexample_for_unsigned :
    Wit.forUnsignedNegativeStep.accepted = true ∧
    (Wit.firstCycle Wit.forUnsignedNegativeStep).1 = some (.fault .TypeMismatch .forUnsignedNegStep) := by
  decide +kernel

/-- **Regression fact (undeclared FOR control variable, fixed).**  `FOR zz := 1 TO 3` with `zz`
undeclared is rejected ("undefined identifier"): the checker resolves the control variable.  Run
anyway, the loop would fault with `UndefinedVariable` before its first iteration — which is why it
must not be accepted. -/
theorem c01_for_undeclared_now_rejected :
    Wit.forUndeclaredControl.accepted = false ∧
    (Wit.firstCycle Wit.forUndeclaredControl).1 = some (.fault .UndefinedVariable .readName) := by
  decide +kernel

/-- **Regression fact (struct field spelled with another case, fixed).**  `p.X` names the field
`x`: the program is inside the guard `Strict` (so `c01_progress_partial` and `c02_refines_partial`
cover it), the cycle completes, and the value is stored under the declared spelling. -/
theorem c01_struct_field_case_resolves :
    Strict Wit.structFieldCase = true ∧
    Wit.firstCycle Wit.structFieldCase =
      (none, [("v", .i .int 10), ("p.x", .i .int 5), ("p.y", .i .dint 0)]) ∧
    Spec.cycle Wit.structFieldCase 100 (Spec.initEnv Wit.structFieldCase) =
      ([("v", .n 10), ("p.x", .n 5), ("p.y", .n 0)], none) := by
  decide +kernel

/-- **Regression fact (ELSE branch of CASE, fixed in 22a8b8f).**  `IF d THEN` with `d : DINT`
inside `CASE … ELSE` is now rejected; the checker before the fix accepted it and the cycle ended in
`ConditionNotBool`. -/
theorem c01_case_else_now_rejected :
    Wit.caseElseCondition.accepted = false ∧ Wit.caseElseCondition.acceptedBefore22a8b8f = true ∧
    (Wit.firstCycle Wit.caseElseCondition).1 = some (.fault .ConditionNotBool .condNotBool) := by
  decide +kernel

/-- **Counterexample (`ULINT as i64` in FOR bounds).**  A ULINT bound above `i64::MAX` becomes
negative and `coerce_loop_value` answers `TypeMismatch`. -/
theorem c01_counterexample_for_ulint :
    Wit.forUlintCast.accepted = true ∧
    (Wit.firstCycle Wit.forUlintCast).1 = some (.fault .TypeMismatch .forCoerceNegative) := by
  decide +kernel

/-! ## Stage S4: FUNCTION calls -/

/-- **Every call pops exactly the frame it pushed — every program, every exit path.**  Model of
`eval/mod.rs: call_function` (`Model/StExt.lean`): a fault while binding the arguments (nothing
pushed yet), while initialising the locals, inside the body (including nested and recursive
calls), while collecting the outputs, a `RETURN`, a stray EXIT/CONTINUE, or an exhausted budget —
the frame stack after the call has the length it had before.  No typing hypothesis. -/
theorem c01_call_frames_balanced (ds : StExt.Defs) (fuel : Nat) (ctl : StExt.Ctl)
    (σ : StExt.XStore) (fd : StExt.FuncDef) (args : StExt.XArgs) :
    (StExt.callFunction ds fuel ctl σ fd args).1.frames.length = σ.frames.length :=
  (StExt.xexec_frames ds fuel).2.2.2.1 ctl σ fd args

/-- **Stage S5 — FUNCTION_BLOCK calls** (`eval/mod.rs: call_function_block`): the same balance on
every exit path: a fault while binding, inside the body, a body that ends with EXIT/CONTINUE
(`InvalidControlFlow`), a fault while collecting the outputs, budget exhaustion. -/
theorem c01_fb_call_frames_balanced (ds : StExt.Defs) (fuel : Nat) (ctl : StExt.Ctl)
    (σ : StExt.XStore) (c : String) (fb : StExt.FbDef) (args : StExt.XArgs) :
    (StExt.callFb ds fuel ctl σ c fb args).1.frames.length = σ.frames.length :=
  (StExt.xexec_frames ds fuel).2.2.2.2.2.2.2.2.2.2 ctl σ c fb args

/-- … and so does every scan cycle of a program with FUNCTIONs and FB instances. -/
theorem c01_frames_balanced_s4 (p : StExt.XProgram) (fuel : Nat) (st : StExt.XRunState) :
    (StExt.xcycle p fuel st).1.store.frames.length = st.store.frames.length :=
  StExt.xcycle_frames p fuel st

/-- The S4 model computes: `d := F0(pa0 := 7); d := d + F0(8);` leaves `d = DInt 15`, no frame. -/
example : Wit.callSample.accepted = true ∧
    Wit.firstXCycle Wit.callSample = (none, [("d", .i .dint 15)], 0) := by decide +kernel

/-- **Regression fact (empty argument list, fixed in d406d2d).**  `d := F0()` for a FUNCTION whose
only input has the default 5 binds like a formal call: `d = 5`, no fault, no frame. -/
theorem c01_call_empty_args_binds_formally :
    Wit.callEmptyArgs.accepted = true ∧
    Wit.firstXCycle Wit.callEmptyArgs = (none, [("d", .i .dint 5)], 0) := by decide +kernel

/-- **Counterexample (initialisers of frame-local declarations are never checked).**  The
FUNCTION local `lt0 : DINT := nosuch` is accepted — the checker does not look at initialisers —
and every call faults with `UndefinedVariable` (static class) in `init_locals`; the frame of the
call is popped (`frames = 0`). -/
theorem c01_counterexample_local_init_undefined :
    Wit.localInitUndefined.accepted = true ∧
    Wit.firstXCycle Wit.localInitUndefined =
      (some (.fault .UndefinedVariable .readName), [("d", .i .dint 0)], 0) := by decide +kernel

/-- The full-strength statement over the accepted set does not hold of the model of the code as
it is. -/
theorem c01_full_statement_false :
    ¬ ∀ p : Program, p.accepted = true → ∀ fuel,
      (cycle .real p fuel { store := p.initStore }).2 = none ∨
        ∃ s, (cycle .real p fuel { store := p.initStore }).2 = some s ∧ s.valueDependent = true := by
  intro h
  have := h Wit.mixedSignCompare (by decide +kernel) 100
  revert this
  decide +kernel

end TrustVerif.StCore
