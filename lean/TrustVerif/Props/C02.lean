import TrustVerif.Lemmas.StExec
import TrustVerif.Lemmas.StWitness
import TrustVerif.Lemmas.StArray

/-!
# C02 — the interpreter agrees with an independent IEC reference semantics for the ST core

Property theorems only.  `Spec` (Model/C02.lean) is the reference: statically typed, exact
arithmetic in the operand type with a fault on overflow, truncating division, short-circuit
AND/OR, FOR tested before each iteration.  `Cfg.real` is the model of the interpreter as it is.

The full statement — agreement on every program of the reference's typed core — is **false of the
current code** (`c02_counterexample_*`).  Proved instead, inside the decidable guard `Strict`:
after every cycle of every run, for all inputs and every budget, every variable has the
reference's value, and a fault is raised exactly when, and of the kind, the reference says.

Fragment: stages S1–S3 (elementary variables, every statement form, one-dimensional arrays and
flat structs of the PROGRAM; a subscript outside the bounds is the fault `indexOut` ↔
`IndexOutOfBounds`).  Calls (S4/S5) are compared against the real code only.
-/
namespace TrustVerif.StCore

/-- **Refinement, one cycle, inside the guard.**  From any well-typed store: the erased variables
after the cycle are the reference's, and the cycle faults exactly when the reference does, with
the corresponding fault (`ReportRel`) — also for the partial effects of a faulting cycle. -/
theorem c02_refines_partial (p : Program) (hS : Strict p = true) (σ : Store) (hσ : StoreWT p.ctx σ)
    (fuel : Nat) :
    eraseEnv (cycle .real p fuel { store := σ }).1.store.vars = (Spec.cycle p fuel (eraseEnv σ.vars)).1 ∧
    ReportRel (cycle .real p fuel { store := σ }).2 (Spec.cycle p fuel (eraseEnv σ.vars)).2 := by
  obtain ⟨_, _, h3, h4⟩ := cycle_rel p hS σ hσ fuel
  exact ⟨h3.symm, report_weaken h4⟩

/-- **Refinement, every cycle of every run, inside the guard.**  From the initial store, for every
well-typed input trace, every budget and every `n`: as long as no earlier cycle faulted, the
variables before cycle `n` are the reference's, and cycle `n` reports what the reference reports. -/
theorem c02_every_cycle_partial (p : Program) (hS : Strict p = true) (ins : Inputs)
    (hins : InputsWT p.ctx ins) (fuel : Nat) (n : Nat)
    (hf : (runFrom .real p fuel ins n { store := p.initStore }).faulted = false) :
    eraseEnv (runFrom .real p fuel ins n { store := p.initStore }).store.vars =
      Spec.runFrom p fuel ins n (Spec.initEnv p) ∧
    ReportRel (reportAt .real p fuel ins n { store := p.initStore })
      (Spec.reportAt p fuel ins n (Spec.initEnv p)) := by
  have hT : Spec.typed p = true := by
    simp only [Strict, Bool.and_eq_true] at hS; exact hS.1.1
  have hσ0 := init_WT p hT
  have hinit : Spec.initEnv p = eraseEnv p.initStore.vars := by
    simp only [Spec.initEnv, Program.initStore, Program.slots, eraseEnv, List.map_append, List.map_map]
    congr 1
    · apply List.map_congr_left
      intro d _
      simp only [Function.comp, VarDecl.initVal]
      cases d.ty <;> rfl
    · apply List.map_congr_left
      intro q _
      obtain ⟨k, t⟩ := q
      cases t <;> rfl
  obtain ⟨_, _, i3⟩ := run_inv p hS ins hins p.initStore hσ0 fuel n
  obtain ⟨_, r2⟩ := run_report p hS ins hins p.initStore hσ0 fuel n
  rw [hinit]
  exact ⟨(i3 hf).symm, r2 hf⟩

/-- A reference fault always corresponds to a value-dependent implementation fault: "a fault is
raised exactly when the reference says so" never involves a static-class error or a panic. -/
theorem c02_fault_kinds (s : Stop) (g : SFault) (h : ReportRel (some s) (some g)) :
    s.valueDependent = true := Stop.toS_valueDependent h

/-- Non-vacuity: the sample program is inside the guard and both semantics compute
`i = 5, d = 10, u = 16, b = TRUE, g = 3` in its first cycle. -/
example : Strict Wit.strictSample = true ∧
    eraseEnv (Wit.firstCycle Wit.strictSample).2 =
      [("i", .n 5), ("d", .n 10), ("u", .n 16), ("b", .b true), ("g", .n 3)] ∧
    Spec.cycle Wit.strictSample 100 (Spec.initEnv Wit.strictSample) =
      ([("i", .n 5), ("d", .n 10), ("u", .n 16), ("b", .b true), ("g", .n 3)], none) := by
  decide +kernel

/-- Non-vacuity for stage S3 (arrays and structs): the sample is inside the guard; both semantics
fill `ar` in the FOR loop, read `ar[i - 1]` through a computed subscript and update the struct. -/
example : Strict Wit.s3Sample = true ∧
    (Wit.firstCycle Wit.s3Sample).1 = none ∧
    eraseEnv (Wit.firstCycle Wit.s3Sample).2 =
      [("i", .n 4), ("d", .n 8), ("ar[0]", .n 6), ("ar[1]", .n 2), ("ar[2]", .n 4), ("ar[3]", .n 6),
       ("sv.f0", .n 7), ("sv.f1", .b true)] ∧
    Spec.cycle Wit.s3Sample 100 (Spec.initEnv Wit.s3Sample) =
      ([("i", .n 4), ("d", .n 8), ("ar[0]", .n 6), ("ar[1]", .n 2), ("ar[2]", .n 4), ("ar[3]", .n 6),
        ("sv.f0", .n 7), ("sv.f1", .b true)], none) := by
  decide +kernel

/-- A subscript one past the end, inside the guard: the reference raises `indexOut`, the
implementation `IndexOutOfBounds`, at the same point (`ar[0..3]` already written). -/
example : Strict Wit.s3OutOfBounds = true ∧
    (Wit.firstCycle Wit.s3OutOfBounds).1 = some (.fault .IndexOutOfBounds .indexBounds) ∧
    Spec.cycle Wit.s3OutOfBounds 100 (Spec.initEnv Wit.s3OutOfBounds) =
      (eraseEnv (Wit.firstCycle Wit.s3OutOfBounds).2, some .indexOut) := by
  decide +kernel

/-- The reference itself follows IEC: `/` truncates toward zero, `MOD` has the sign of the
dividend, arithmetic faults on overflow of the operand type, `AND` short-circuits (the division
by zero on the right is not evaluated). -/
example :
    Spec.arith .div (-7) 2 = .ok (-3) ∧ Spec.arith .mod (-7) 2 = .ok (-1) ∧
    Spec.arith .mod 7 (-2) = .ok 1 ∧ Spec.arith .div 1 0 = .error .divZero ∧
    Spec.inType .sint 128 = .error .overflow ∧
    Spec.eval { vars := [("x", .int .dint)] } [("x", .n 0)]
      (.bin .and (.blit false) (.bin .eq (.bin .div (.var "x") (.var "x")) (.var "x"))) = .ok (.b false) :=
  ⟨rfl, rfl, rfl, rfl, rfl, rfl⟩

/-! ## The full statement is false of the current code -/

/-- **Counterexample (untyped literal lowered to DINT).**  `c : INT := 32766; c := c + 1` is in the
reference's typed core.  Second cycle: the reference computes in INT and faults with `overflow`
at 32767 + 1; the implementation computes in DINT, completes, and `c` holds 32768. -/
theorem c02_counterexample_int_overflow :
    Spec.typed Wit.driftIntLiteral = true ∧ Wit.driftIntLiteral.accepted = true ∧
    Spec.reportAt Wit.driftIntLiteral 100 (fun _ => []) 1 (Spec.initEnv Wit.driftIntLiteral) = some .overflow ∧
    reportAt .real Wit.driftIntLiteral 100 (fun _ => []) 1 (Wit.init Wit.driftIntLiteral) = none ∧
    (runFrom .real Wit.driftIntLiteral 100 (fun _ => []) 2 (Wit.init Wit.driftIntLiteral)).store.vars
      = [("c", .i .dint 32768)] := by decide +kernel

/-- **Regression fact (`RETURN` in a PROGRAM, fixed in f3b5b76).**  Reference and implementation
agree: early exit, the cycle completes with `x = 1` — and the program is inside the guard, so
`c02_refines_partial` covers it. -/
theorem c02_return_in_program_agrees :
    Strict Wit.returnInProgram = true ∧
    Spec.cycle Wit.returnInProgram 100 (Spec.initEnv Wit.returnInProgram) = ([("x", .n 1)], none) ∧
    Wit.firstCycle Wit.returnInProgram = (none, [("x", .i .dint 1)]) := by
  decide +kernel

/-- **Counterexample (`ULINT as i64` in FOR bounds).**  Reference: three iterations, `n = 3`;
implementation: `TypeMismatch` before the first iteration. -/
theorem c02_counterexample_for_ulint :
    Spec.typed Wit.forUlintCast = true ∧
    (Spec.cycle Wit.forUlintCast 100 (Spec.initEnv Wit.forUlintCast)).2 = none ∧
    slookup "n" (Spec.cycle Wit.forUlintCast 100 (Spec.initEnv Wit.forUlintCast)).1 = some (.n 3) ∧
    (Wit.firstCycle Wit.forUlintCast).1 = some (.fault .TypeMismatch .forCoerceNegative) := by
  decide +kernel

/-- **Regression fact (ULINT subscript above `i64::MAX`, fixed in c336de3).**
`ar : ARRAY[-2..2] OF DINT`, `u = 2^64 - 2`: the program is inside the guard, the reference raises
`indexOut` at `ar[u] := DINT#7` and the implementation `IndexOutOfBounds`; `ar[-2]` is untouched. -/
theorem c02_index_ulint_now_out_of_bounds :
    Strict Wit.indexUlintCast = true ∧
    (Spec.cycle Wit.indexUlintCast 100 (Spec.initEnv Wit.indexUlintCast)).2 = some .indexOut ∧
    (Wit.firstCycle Wit.indexUlintCast).1 = some (.fault .IndexOutOfBounds .indexBounds) ∧
    lookup "ar[-2]" (Wit.firstCycle Wit.indexUlintCast).2 = some (.i .dint 0) := by
  decide +kernel

/-- The repairs modelled by `Cfg` remove these disagreements (what the oracle uses to
attribute a mismatch to a recorded finding): literal lowering to the checker's type, exact FOR
bounds. -/
theorem c02_repairs_remove_the_counterexamples :
    reportAt { litSmallest := true } Wit.driftIntLiteral 100 (fun _ => []) 1 (Wit.init Wit.driftIntLiteral)
      = some (.fault .Overflow .narrow) ∧
    (cycle { forExact := true } Wit.forUlintCast 100 (Wit.init Wit.forUlintCast)).2 = none := by
  decide +kernel

/-! ## Multi-dimensional subscripts (`array_offset`, Model/StArray.lean) -/

open TrustVerif.StArray in
/-- **`array_offset` is row-major addressing.**  It succeeds exactly when there is one subscript
per dimension and every subscript lies within ITS OWN dimension, and then returns the row-major
position. -/
theorem c02_array_offset_ok_iff (dims : List (Int × Int)) (idx : List Int) (off : Nat) :
    arrayOffset dims idx = .ok off ↔
      dims.length = idx.length ∧ InBounds (dims.zip idx) ∧ (off : Int) = rowMajor (dims.zip idx) := by
  unfold arrayOffset
  by_cases hl : dims.length = idx.length
  · simp only [hl, ne_eq, not_true_eq_false, if_false, true_and]
    by_cases hb : InBounds (dims.zip idx)
    · rw [loop_reverse_ok _ hb]
      obtain ⟨h0, _, _⟩ := rowMajor_bounds _ hb
      have hn : ¬ rowMajor (dims.zip idx) < 0 := by omega
      simp only [hn, if_false, hb, true_and]
      constructor
      · intro h
        injection h with h
        omega
      · intro h
        congr 1
        omega
    · obtain ⟨d, _, _, he⟩ := loop_reverse_err _ hb
      rw [he]
      simp [hb]
  · simp [hl]

open TrustVerif.StArray in
/-- A subscript outside its own dimension: `IndexOutOfBounds` naming such a subscript and the
bounds of its dimension; a wrong number of subscripts: `TypeMismatch`. -/
theorem c02_array_offset_faults (dims : List (Int × Int)) (idx : List Int) :
    (dims.length ≠ idx.length → arrayOffset dims idx = .error .typeMismatch) ∧
    (dims.length = idx.length → ¬ InBounds (dims.zip idx) →
      ∃ d ∈ dims.zip idx, (d.2 < d.1.1 ∨ d.2 > d.1.2) ∧
        arrayOffset dims idx = .error (.outOfBounds d.2 d.1.1 d.1.2)) := by
  constructor
  · intro h; simp [arrayOffset, h]
  · intro hl hb
    obtain ⟨d, hd, hr, he⟩ := loop_reverse_err _ hb
    exact ⟨d, hd, hr, by simp [arrayOffset, hl, he]⟩

open TrustVerif.StArray in
/-- The offset addresses an existing element, and different subscript tuples address different
elements: no two elements of an array share storage, whatever the bounds. -/
theorem c02_array_offset_injective (dims : List (Int × Int)) (i1 i2 : List Int) (off : Nat)
    (h1 : arrayOffset dims i1 = .ok off) (h2 : arrayOffset dims i2 = .ok off) :
    i1 = i2 ∧ (off : Int) < size (dims.zip i1) := by
  obtain ⟨l1, b1, e1⟩ := (c02_array_offset_ok_iff dims i1 off).mp h1
  obtain ⟨l2, b2, e2⟩ := (c02_array_offset_ok_iff dims i2 off).mp h2
  refine ⟨rowMajor_inj dims i1 i2 l1.symm l2.symm b1 b2 (by omega), ?_⟩
  obtain ⟨_, h, _⟩ := rowMajor_bounds _ b1
  omega

/-- Non-vacuity on `ARRAY[0..1, 0..3]` and `ARRAY[-1..1, 2..3]`: `m[0,2]` is element 2, `m[2,0]`
faults on its FIRST dimension, `m[1,3]` of the second array is its last element (5). -/
example :
    StArray.arrayOffset [(0, 1), (0, 3)] [0, 2] = .ok 2 ∧
    StArray.arrayOffset [(0, 1), (0, 3)] [2, 0] = .error (.outOfBounds 2 0 1) ∧
    StArray.arrayOffset [(-1, 1), (2, 3)] [1, 3] = .ok 5 ∧
    StArray.arrayOffset [(0, 1), (0, 3)] [1] = .error .typeMismatch := ⟨rfl, rfl, rfl, rfl⟩

end TrustVerif.StCore
