import TrustVerif.Lemmas.StExec
import TrustVerif.Lemmas.StWitness

/-!
# C03 — a variable always holds a value of its declared type

Property theorems only.  `StoreWT Γ σ`: every declared variable holds a value whose runtime tag is
the declared type and whose magnitude is in that type's range.

The full statement is **false of the current code** (`c03_counterexample_*`: `Stmt::Assign`
stores the evaluated value as is, untyped literals are lowered to DINT).  Proved instead:

* the initial store is well typed (`c03_init`), input writes of the declared type keep it so;
* the FOR control update keeps the tag of the control variable for **every** program
  (`c03_for_control_keeps_tag`);
* inside the decidable guard `Strict`, `StoreWT` holds at every cycle boundary of every run —
  after completed and after faulted cycles (`c03_preserved_partial`, `c03_every_cycle_partial`).

Stage S3: the elements of an array and the fields of a struct are slots of the store like any
variable (`elemName`, `fldName`; `Program.ctx` declares them with the element / field type), so
`StoreWT` covers them, and it also states that the shapes (bounds, field names) are the declared ones.
-/
namespace TrustVerif.StCore

/-- **Initial store.**  The compile-time coercion of initialisers (`coerce_value_to_type`) leaves
every variable with a value of its declared type. -/
theorem c03_init (p : Program) (h : Spec.typed p = true) : StoreWT p.ctx p.initStore :=
  init_WT p h

/-- **FOR control updates never change the tag**, for every program: whatever
`coerce_loop_value` returns has the kind of the template (the control variable's current value)
and lies in that kind's range. -/
theorem c03_for_control_keeps_tag (k : IKind) (c n : Int) (v : Val)
    (h : coerceLoopValue (.i k c) n = .ok v) : v = .i k n ∧ k.inRange n = true := by
  unfold coerceLoopValue at h
  simp only at h
  by_cases hs : k.signed = true
  · by_cases hr : k.inRange n = true
    · simp [hs, hr, pure, Except.pure] at h
      exact ⟨h.symm, hr⟩
    · simp [hs, hr, fault] at h
  · by_cases hn : n < 0
    · simp [hs, hn, fault] at h
    · by_cases hr : k.inRange n = true
      · simp [hs, hn, hr, pure, Except.pure] at h
        exact ⟨h.symm, hr⟩
      · simp [hs, hn, hr, fault] at h

/-- **Preservation, one cycle, inside the guard**: from a well-typed store the store after the
cycle is well typed — whether the cycle completed or faulted half-way. -/
theorem c03_preserved_partial (p : Program) (hS : Strict p = true) (σ : Store) (hσ : StoreWT p.ctx σ)
    (fuel : Nat) : StoreWT p.ctx (cycle .real p fuel { store := σ }).1.store :=
  (cycle_rel p hS σ hσ fuel).1

/-- **Every cycle boundary of every run, inside the guard**: for every input trace that writes
values of the declared types (input latching / debugger writes of well-typed values), every
budget and every `n`, the store before cycle `n` is well typed. -/
theorem c03_every_cycle_partial (p : Program) (hS : Strict p = true) (ins : Inputs)
    (hins : InputsWT p.ctx ins) (fuel : Nat) (n : Nat) :
    StoreWT p.ctx (runFrom .real p fuel ins n { store := p.initStore }).store := by
  have hT : Spec.typed p = true := by
    simp only [Strict, Bool.and_eq_true] at hS; exact hS.1.1
  exact (run_inv p hS ins hins p.initStore (init_WT p hT) fuel n).1

/-- The executable form of the invariant used by the oracle implies the invariant. -/
theorem c03_envWT_sound (Γ : Ctx) (σ : Store) (h : envWT Γ σ.vars = true) (ha : σ.aggs = Γ.aggs)
    (hc : Spec.aggOK Γ = true) : StoreWT Γ σ := by
  refine ⟨?_, ha, hc⟩
  intro x t hx
  unfold envWT at h
  have hm : (x, t) ∈ Γ.vars := mem_of_lookup hx
  have := (List.all_eq_true.mp h) (x, t) hm
  simp only at this
  cases hl : lookup x σ.vars with
  | none => simp [hl] at this
  | some v => simp [hl] at this; exact ⟨v, rfl, this⟩

/-- Non-vacuity: the sample program is inside the guard; its store after the first cycle is well
typed (checked by evaluation, independently of the theorem). -/
example : Strict Wit.strictSample = true ∧
    envWT Wit.strictSample.ctx (Wit.firstCycle Wit.strictSample).2 = true := by decide +kernel

/-! ## The full statement is false of the current code -/

/-- **Counterexample (tag drift through an untyped literal).**  `c : INT; c := c + 1`: after the
first cycle `c` holds `DInt 32767` — an integer of another kind than declared. -/
theorem c03_counterexample_literal_drift :
    Wit.driftIntLiteral.accepted = true ∧
    (Wit.firstCycle Wit.driftIntLiteral) = (none, [("c", .i .dint 32767)]) ∧
    envWT Wit.driftIntLiteral.ctx (Wit.firstCycle Wit.driftIntLiteral).2 = false := by decide +kernel

/-- **Counterexample (widening assignment stores the narrower tag).**  `d : DINT; s : SINT := 3;
d := s` leaves `SInt 3` in `d`. -/
theorem c03_counterexample_widening_drift :
    Wit.driftWidening.accepted = true ∧
    (Wit.firstCycle Wit.driftWidening).2 = [("d", .i .sint 3), ("s", .i .sint 3)] := by decide +kernel

/-- **Counterexample (out of the declared range).**  `s : SINT; s := 1000` is accepted
(contextual literal) and `s` holds `DInt 1000`, outside SINT's range. -/
theorem c03_counterexample_out_of_range :
    Wit.driftLiteralRange.accepted = true ∧
    (Wit.firstCycle Wit.driftLiteralRange).2 = [("s", .i .dint 1000)] ∧
    IKind.sint.inRange 1000 = false := by decide +kernel

/-- **Regression fact (ELSE branch of CASE, fixed in 22a8b8f).**  `d := TRUE` with `d : DINT`
inside `CASE … ELSE` is now rejected; before the fix it was accepted and left `Bool` in `d`. -/
theorem c03_case_else_now_rejected :
    Wit.caseElseStore.accepted = false ∧ Wit.caseElseStore.acceptedBefore22a8b8f = true ∧
    (Wit.firstCycle Wit.caseElseStore).2 = [("d", .b true)] := by decide +kernel

/-- The modelled repair of the write path (coerce to the declared type, `Overflow` when it does
not fit) restores the invariant on the three drift witnesses. -/
theorem c03_repair_restores_invariant :
    envWT Wit.driftIntLiteral.ctx
      (cycle { coerce := some Wit.driftIntLiteral.ctx } Wit.driftIntLiteral 100 (Wit.init Wit.driftIntLiteral)).1.store.vars = true ∧
    envWT Wit.driftWidening.ctx
      (cycle { coerce := some Wit.driftWidening.ctx } Wit.driftWidening 100 (Wit.init Wit.driftWidening)).1.store.vars = true ∧
    (cycle { coerce := some Wit.driftLiteralRange.ctx } Wit.driftLiteralRange 100 (Wit.init Wit.driftLiteralRange)).2
      = some (.fault .Overflow .narrow) := by decide +kernel

/-- **Counterexample (initialisers of frame-local declarations are never checked), stage S4.**
`VAR lt0 : INT := TRUE;` in `FUNCTION F0 : INT` is accepted; `F0 := lt0` returns the BOOL and
`d := F0(..)` stores it: after the first cycle `d : INT` holds `Bool(true)`. -/
theorem c03_counterexample_local_init_family :
    Wit.localInitFamily.accepted = true ∧
    Wit.firstXCycle Wit.localInitFamily = (none, [("d", .b true)], 0) ∧
    (Val.b true).hasTy (.int .int) = false := by decide +kernel

/-- Stage S3, non-vacuity: after the first cycle of the S3 sample (inside the guard) every element
of `ar` carries the tag INT and the fields of `sv` the tags DINT / BOOL. -/
example : Strict Wit.s3Sample = true ∧
    envWT Wit.s3Sample.ctx (Wit.firstCycle Wit.s3Sample).2 = true ∧
    lookup "ar[3]" (Wit.firstCycle Wit.s3Sample).2 = some (.i .int 6) ∧
    lookup "sv.f1" (Wit.firstCycle Wit.s3Sample).2 = some (.b true) := by
  decide +kernel

end TrustVerif.StCore
