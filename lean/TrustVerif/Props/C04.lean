import TrustVerif.Lemmas.C04

/-!
# C04 — standard function blocks follow the IEC timing diagrams on every trace

Property theorems only.  `Model/C04.lean` mirrors the Rust step functions (pub structs and the
`exec_*` wrappers over instance variables) and holds the history-level `Spec`.

Conventions: a trace `tr` is the list of calls in call order; "every prefix" is the universal
quantification over `tr` and the next call `c` (every non-empty prefix of a trace is some
`tr ++ [c]`); the `*_outputs` theorems restate the same fact for the whole output sequence.
Time between two calls is attributed to the later call (`TCall.dt` / the clock difference).
-/
namespace TrustVerif.C04

/-! ## TON -/

/-- **TON, pub struct, every trace and prefix, arbitrary PT and dt.**  `Q` is TRUE exactly when IN has
been TRUE over the consecutive calls ending now and their accumulated time reaches PT; `ET` is that
time, limited to PT (a negative PT counts as zero). -/
theorem c04_ton_trace (tr : List TCall) (c : TCall) :
    (tonStep (tonRun tr) c).2 = Spec.ton (tr ++ [c]) := by
  have h := tonStep_out (tonRun tr) tr.reverse c (tonRun_et tr)
  simpa [Spec.ton] using h

/-- The whole output sequence of `Ton` is the specification evaluated on every prefix. -/
theorem c04_ton_outputs (tr : List TCall) :
    outputs tonStep {} tr = (prefixes tr).map Spec.ton :=
  outputs_eq_map_prefixes tonStep tr {} Spec.ton (fun pre c => c04_ton_trace pre c)

/-- **TON, runtime route (`exec_ton` on instance variables), every trace and prefix**, for traces in
which PT does not rise between two consecutive calls with IN = TRUE (in particular: PT constant
during each timing run).  The delta of a call is the clock difference to the previous call of the
instance (zero at the first call). -/
theorem c04_ton_exec_trace (tr : List XCall) (c : XCall) (hs : Spec.steadyX (tr ++ [c]) = true) :
    (execTon (execTonRun tr) c).2 = Spec.tonX (tr ++ [c]) := by
  have h := (execTon_spec (execTonRun tr) tr.reverse c (execTonRun_inv tr)).2
  simp only [Spec.steadyX, Spec.tonX, List.reverse_append, List.reverse_cons, List.reverse_nil,
    List.nil_append, List.singleton_append] at hs ⊢
  exact h hs

/-- The guard of `c04_ton_exec_trace` is needed: the wrapper stores the *clamped* ET, so after Q has
fired and PT is raised it restarts from the old PT, while the pub struct keeps the true sum
(PT = 10, 15 ns with IN, then PT = 20 and 5 ns more: struct/closed form `Q, ET = 20`, wrapper `¬Q, ET = 15`). -/
theorem c04_ton_exec_guard_needed :
    let tr : List XCall := [⟨true, 10, 0⟩, ⟨true, 10, 15⟩]
    let c : XCall := ⟨true, 20, 20⟩
    Spec.steadyX (tr ++ [c]) = false ∧
      (execTon (execTonRun tr) c).2 = { q := false, et := 15 } ∧
      Spec.tonX (tr ++ [c]) = { q := true, et := 20 } ∧
      (tonStep (tonRun [⟨true, 10, 0⟩, ⟨true, 10, 15⟩]) ⟨true, 20, 5⟩).2 = { q := true, et := 20 } := by
  decide

/-- `TON.Q → IN` (arbitrary state, PT, dt). -/
theorem c04_ton_q_imp_in (s : TonS) (c : TCall) (h : (tonStep s c).2.q = true) : c.inp = true := by
  cases hc : c.inp with
  | true => rfl
  | false => simp [tonStep, hc] at h

/-! ## TOF -/

/-- **TOF, pub struct, every trace and prefix, arbitrary PT and dt.**  `Q` is TRUE while IN is TRUE
and, after IN fell, as long as at every call since the fall the time accumulated since the fall was
below PT; `ET` is that time, shows PT on the call that reaches it, and is zero otherwise. -/
theorem c04_tof_trace (tr : List TCall) (c : TCall) :
    (tofStep (tofRun tr) c).2 = Spec.tof (tr ++ [c]) := by
  have h := (tofStep_spec (tofRun tr) tr.reverse c (tofRun_inv tr)).2
  simpa [Spec.tof] using h

theorem c04_tof_outputs (tr : List TCall) :
    outputs tofStep {} tr = (prefixes tr).map Spec.tof :=
  outputs_eq_map_prefixes tofStep tr {} Spec.tof (fun pre c => c04_tof_trace pre c)

/-- **TOF, runtime route, every trace and prefix** (no condition on PT). -/
theorem c04_tof_exec_trace (tr : List XCall) (c : XCall) :
    (execTof (execTofRun tr) c).2 = Spec.tofX (tr ++ [c]) := by
  have h := (execTof_spec (execTofRun tr) tr.reverse c (execTofRun_inv tr)).2
  simpa [Spec.tofX] using h

/-- With PT constant since IN fell and non-negative deltas, "below PT at every call since the fall"
is the closed form "the time accumulated since the fall is below PT": TOF.Q stays TRUE until the
accumulated time since IN fell reaches PT. -/
theorem c04_tof_closed_form (pt : Int) (c : TCall) (r : List TCall)
    (hpt : ∀ x ∈ c :: r, x.pt = pt) (hdt : ∀ x ∈ c :: r, 0 ≤ x.dt) :
    Spec.allBelow (c :: r) = decide (Spec.sumDt (c :: r) < normPt pt) := by
  induction r generalizing c with
  | nil => simp [Spec.allBelow, hpt c (List.mem_cons_self ..)]
  | cons p r ih =>
    have ih' := ih p (fun x hx => hpt x (List.mem_cons_of_mem _ hx))
      (fun x hx => hdt x (List.mem_cons_of_mem _ hx))
    have hd := hdt c (List.mem_cons_self ..)
    rw [Spec.allBelow, ih', hpt c (List.mem_cons_self ..), sumDt_cons c (p :: r)]
    by_cases h1 : Spec.sumDt (p :: r) + c.dt < normPt pt
    · have h2 : Spec.sumDt (p :: r) < normPt pt := by omega
      simp [h1, h2]
    · simp [h1]

/-! ## TP -/

/-- **TP, pub struct, every trace and prefix, arbitrary PT and dt.**  The output is the IEC
non-retriggerable pulse: `Q` from the rising edge of IN accepted while no pulse was running until the
accumulated time reaches PT, `ET` that time; IN is ignored while the pulse runs. -/
theorem c04_tp_trace (tr : List TCall) (c : TCall) :
    (tpStep (tpRun tr) c).2 = Spec.tp (tr ++ [c]) := by
  have h := (tpStep_spec (tpRun tr) tr.reverse c (tpRun_inv tr)).2
  simpa [Spec.tp] using h

theorem c04_tp_outputs (tr : List TCall) :
    outputs tpStep {} tr = (prefixes tr).map Spec.tp :=
  outputs_eq_map_prefixes tpStep tr {} Spec.tp (fun pre c => c04_tp_trace pre c)

/-- **TP, runtime route (`exec_tp`), every trace and prefix.** -/
theorem c04_tp_exec_trace (tr : List XCall) (c : XCall) :
    (execTp (execTpRun tr) c).2 = Spec.tpX (tr ++ [c]) := by
  have h := (execTp_spec (execTpRun tr) tr.reverse c (execTpRun_inv tr)).2
  simpa [Spec.tpX] using h

/-- The specification is non-retriggerable: while a pulse runs, the next output does not depend on IN. -/
theorem c04_tp_spec_ignores_in (h : List TCall) (c : TCall) (b : Bool)
    (hr : (Spec.tpRunning h).isSome = true) :
    Spec.tpRunning ({ c with inp := b } :: h) = Spec.tpRunning (c :: h) := by
  cases hp : Spec.tpRunning h with
  | none => simp [hp] at hr
  | some a => simp [Spec.tpRunning, hp]

/-- **Regression witness of the repaired finding C04-tp-retrigger** (PT = 10; IN rises at call 1, falls at
call 2 and rises again at call 3, inside the pulse).  The trace lies in the retrigger region, and the
code — struct and runtime route — answers it like IEC: the second rising edge is ignored, the pulse ends
at call 4 after 12 ≥ PT.  (Before commit b46c61d `Tp::step` restarted ET at call 3 and answered
`Q = TRUE, ET = 4, 8` at calls 3 and 4; the harness replays this trace on the real code on every run.) -/
theorem c04_tp_witness :
    Spec.retriggeredT tpWitness = true ∧ Spec.retriggeredX tpWitnessX = true ∧
      outputs tpStep {} tpWitness =
        [{ q := true, et := 0 }, { q := true, et := 4 }, { q := true, et := 8 }, { q := false, et := 0 },
         { q := false, et := 0 }, { q := false, et := 0 }] ∧
      outputs execTp {} tpWitnessX = outputs tpStep {} tpWitness := by
  decide

/-! ## ET ≤ PT, 0 ≤ ET, ET never decreases while timing (arbitrary PT) -/

/-- **ET never exceeds PT** — every state, every call, all three timers (the reported ET is what
both routes expose; the runtime route stores exactly this value). -/
theorem c04_et_le_pt (c : TCall) :
    (∀ s : TonS, (tonStep s c).2.et ≤ normPt c.pt) ∧
      (∀ s : TofS, (tofStep s c).2.et ≤ normPt c.pt) ∧
      (∀ s : TpS, (tpStep s c).2.et ≤ normPt c.pt) := by
  have hp := normPt_nonneg c.pt
  refine ⟨?_, ?_, ?_⟩
  · intro s
    simp only [tonStep]
    split <;> omega
  · intro s
    simp only [tofStep]
    split <;> omega
  · intro s0
    rw [tpStep_eq]
    generalize ({ s0 with prevIn := s0.prevIn || s0.active } : TpS) = s
    by_cases ha : ((!s.prevIn && c.inp) || s.active) = true
    · rw [tpStepRetrig_run s c ha]
      by_cases hge : (if (!s.prevIn && c.inp) = true then 0 else s.et) + c.dt ≥ normPt c.pt
      · simp only [hge, if_true]; exact hp
      · simp only [hge, if_false]; omega
    · have ha' : ((!s.prevIn && c.inp) || s.active) = false := by simpa using ha
      rw [tpStepRetrig_idle s c ha']
      exact hp

/-- **0 ≤ ET** (and the accumulator stays non-negative) when deltas are non-negative. -/
theorem c04_et_nonneg (c : TCall) (hd : 0 ≤ c.dt) :
    (∀ s : TonS, 0 ≤ s.et → 0 ≤ (tonStep s c).1.et ∧ 0 ≤ (tonStep s c).2.et) ∧
      (∀ s : TofS, 0 ≤ s.et → 0 ≤ (tofStep s c).1.et ∧ 0 ≤ (tofStep s c).2.et) ∧
      (∀ s : TpS, 0 ≤ s.et → 0 ≤ (tpStep s c).1.et ∧ 0 ≤ (tpStep s c).2.et) :=
  ⟨fun s h0 => ⟨(tonStep_bounds s c h0 hd).1, (tonStep_bounds s c h0 hd).2.2.1⟩,
   fun s h0 => ⟨(tofStep_bounds s c h0 hd).1, (tofStep_bounds s c h0 hd).2.2.1⟩,
   fun s h0 => ⟨(tpStep_bounds s c h0 hd).1, (tpStep_bounds s c h0 hd).2.2.1⟩⟩

/-- **TON: ET never decreases while timing** (two consecutive calls with IN, any state, any PTs),
unless PT is lowered below the ET already shown. -/
theorem c04_ton_et_monotone (s : TonS) (c1 c2 : TCall) (h1 : c1.inp = true) (h2 : c2.inp = true)
    (hd : 0 ≤ c2.dt) (hpt : (tonStep s c1).2.et ≤ normPt c2.pt) :
    (tonStep s c1).2.et ≤ (tonStep (tonStep s c1).1 c2).2.et := by
  simp only [tonStep, h1, h2, if_true] at hpt ⊢
  repeat' split
  all_goals omega

/-- Same for the runtime route, where the next call restarts from the stored (clamped) ET. -/
theorem c04_ton_exec_et_monotone (i : TimerInst) (c1 c2 : XCall) (h1 : c1.inp = true)
    (h2 : c2.inp = true) (hpt : (execTon i c1).2.et ≤ normPt c2.pt) :
    (execTon i c1).2.et ≤ (execTon (execTon i c1).1 c2).2.et := by
  have hd := elapsed_nonneg (some c1.now) c2.now
  simp only [execTon, tonStep, XCall.toT, h1, h2, if_true] at hpt hd ⊢
  repeat' split
  all_goals omega

/-- **TOF: ET never decreases while timing** (the delay keeps running over two consecutive calls),
unless PT is lowered below the ET already shown. -/
theorem c04_tof_et_monotone (s : TofS) (c1 c2 : TCall)
    (ht : (tofStep s c1).1.timing = true) (h2 : c2.inp = false) (hd : 0 ≤ c2.dt)
    (hpt : (tofStep s c1).2.et ≤ normPt c2.pt) :
    (tofStep s c1).2.et ≤ (tofStep (tofStep s c1).1 c2).2.et := by
  rw [tofStep_timing_et s c1 ht] at hpt ⊢
  have hp : (tofStep s c1).1.prevIn = false := by
    rw [tofStep_prevIn]; exact tofStep_timing_in s c1 ht
  exact tof_mono_core _ c2 ht hp h2 hd hpt

/-- **TP: ET never decreases while timing** (the pulse runs over two consecutive calls; whatever IN does). -/
theorem c04_tp_et_monotone (s : TpS) (c1 c2 : TCall)
    (ha1 : (tpStep s c1).1.active = true) (ha2 : (tpStep (tpStep s c1).1 c2).1.active = true)
    (hd : 0 ≤ c2.dt) :
    (tpStep s c1).2.et ≤ (tpStep (tpStep s c1).1 c2).2.et := by
  rw [tpStep_active_et s c1 ha1]
  exact tp_mono_core _ c2 ha1 hd ha2

/-! ## No `i64` overflow -/

/-- **Pub structs: `et + delta` cannot overflow** when deltas are non-negative and the total time of the
trace fits `i64` (then `0 ≤ et ≤ Σ dt`). -/
theorem c04_struct_no_overflow (tr : List TCall) (c : TCall)
    (hd : ∀ x ∈ tr ++ [c], 0 ≤ x.dt) (hsum : Spec.sumDt (c :: tr.reverse) ≤ i64Max) :
    tonOvf (tonRun tr) c = false ∧ tofOvf (tofRun tr) c = false ∧ tpOvf (tpRun tr) c = false := by
  have hdr : ∀ x ∈ tr.reverse, 0 ≤ x.dt := fun x hx => hd x (by simp at hx ⊢; exact Or.inl hx)
  have hc : 0 ≤ c.dt := hd c (by simp)
  rw [sumDt_cons] at hsum
  obtain ⟨a0, a1⟩ := tonRun_bounds tr hdr
  obtain ⟨b0, b1⟩ := tofRun_bounds tr hdr
  obtain ⟨c0, c1⟩ := tpRun_bounds tr hdr
  exact ⟨tonOvf_false _ c a0 hc (by omega), tofOvf_false _ c b0 hc (by omega),
    tpOvf_false _ c c0 hc (by omega)⟩

/-- **Runtime route: neither `now - last` nor `et + delta` can overflow** while the instance's clock
values are non-negative `i64`s that never step back (then `0 ≤ ET ≤ now`). -/
theorem c04_exec_no_overflow (tr : List XCall) (c : XCall) (hc : Spec.clockOkX (tr ++ [c]) = true) :
    execTonOvf (execTonRun tr) c = false ∧ execTofOvf (execTofRun tr) c = false ∧
      execTpOvf (execTpRun tr) c = false := by
  simp only [Spec.clockOkX, List.reverse_append, List.reverse_cons, List.reverse_nil,
    List.nil_append, List.singleton_append] at hc
  have hc' := (clockOk_cons c tr.reverse hc).2
  obtain ⟨l1, i1⟩ := execTonRun_clock tr hc'
  obtain ⟨l2, i2⟩ := execTofRun_clock tr hc'
  obtain ⟨l3, i3⟩ := execTpRun_clock tr hc'
  exact ⟨(execTon_clock _ c i1 (clockStep_of _ c _ l1 hc)).1,
    (execTof_clock _ c i2 (clockStep_of _ c _ l2 hc)).1,
    (execTp_clock _ c i3 (clockStep_of _ c _ l3 hc)).1⟩

/-! ## Counters -/

/-- **CTU, all eight integer kinds, every trace and prefix**: `CV` is the number of rising edges of CU
since the last reset, saturated at the kind's maximum; `Q ↔ CV ≥ PV`.  (The pub struct `Ctu` is kind
`int`.) -/
theorem c04_ctu_trace (k : IntKind) (hk : k ∈ IntKind.all) (tr : List CtuCall) (c : CtuCall) :
    (ctuStep k (ctuRun k tr) c).2 = Spec.ctu k (tr ++ [c]) := by
  have hw := (IntKind.all_wf k hk).2.1
  have h := (ctuStep_spec k hw (ctuRun k tr) tr.reverse c (ctuRun_inv k hw tr)).2
  simpa [Spec.ctu] using h

/-- **CTD, all eight integer kinds, every trace and prefix** (PV within the kind's range): `CV` is the
last loaded value minus the rising edges of CD since the load, saturated at the kind's minimum
(zero for unsigned kinds); `Q ↔ CV ≤ 0`. -/
theorem c04_ctd_trace (k : IntKind) (hk : k ∈ IntKind.all) (tr : List CtdCall) (c : CtdCall)
    (hpv : ∀ x ∈ tr ++ [c], k.lo ≤ x.pv) :
    (ctdStep k (ctdRun k tr) c).2 = Spec.ctd k (tr ++ [c]) := by
  have hw := IntKind.all_wf k hk
  have hpr : ∀ x ∈ tr.reverse, k.lo ≤ x.pv := fun x hx => hpv x (by simp at hx ⊢; exact Or.inl hx)
  have h := (ctdStep_spec k hw (ctdRun k tr) tr.reverse c (hpv c (by simp)) (ctdRun_inv k hw tr hpr)).2
  simpa [Spec.ctd] using h

/-- **CTUD, all eight integer kinds, every trace and prefix** (PV within range): the IEC body over exact
integers with every increment/decrement clamped into the kind's range; R wins over LD, simultaneous
rising edges cancel. -/
theorem c04_ctud_trace (k : IntKind) (hk : k ∈ IntKind.all) (tr : List CtudCall) (c : CtudCall)
    (hpv : ∀ x ∈ tr ++ [c], k.lo ≤ x.pv ∧ x.pv ≤ k.hi) :
    (ctudStep k (ctudRun k tr) c).2 = Spec.ctud k (tr ++ [c]) := by
  have hw := IntKind.all_wf k hk
  have hpr : ∀ x ∈ tr.reverse, k.lo ≤ x.pv ∧ x.pv ≤ k.hi :=
    fun x hx => hpv x (by simp at hx ⊢; exact Or.inl hx)
  have h := (ctudStep_spec k hw (ctudRun k tr) tr.reverse c (hpv c (by simp))
    (ctudRun_inv k hw tr hpr)).2
  simpa [Spec.ctud] using h

/-- **Counters saturate instead of wrapping**: one call keeps `CV` inside the kind's range, for every
kind, every state in range and every input (so the Rust `cv += 1` / `cv -= 1` never overflow). -/
theorem c04_counters_stay_in_range (k : IntKind) (hk : k ∈ IntKind.all) (s : CState)
    (hs : k.lo ≤ s.cv ∧ s.cv ≤ k.hi) :
    (∀ c : CtuCall, k.lo ≤ (ctuStep k s c).1.cv ∧ (ctuStep k s c).1.cv ≤ k.hi) ∧
      (∀ c : CtdCall, k.lo ≤ c.pv ∧ c.pv ≤ k.hi →
        k.lo ≤ (ctdStep k s c).1.cv ∧ (ctdStep k s c).1.cv ≤ k.hi) ∧
      (∀ c : CtudCall, k.lo ≤ c.pv ∧ c.pv ≤ k.hi →
        k.lo ≤ (ctudStep k s c).1.cv ∧ (ctudStep k s c).1.cv ≤ k.hi) := by
  have hw := IntKind.all_wf k hk
  refine ⟨fun c => ctuStep_range k hw s c hs, fun c hpv => ctdStep_range k hw s c hpv hs, ?_⟩
  intro c hpv
  -- one step from any in-range state: unfold and split
  obtain ⟨k0, k1, k2⟩ := hw
  simp only [ctudStep, k.floor_eq ⟨k0, k1, k2⟩]
  by_cases hr : c.r = true
  · simp only [hr, if_true]; omega
  · simp only [hr, Bool.false_eq_true, if_false]
    by_cases hl : c.ld = true
    · simp only [hl, if_true]; omega
    · simp only [hl, Bool.false_eq_true, if_false]
      refine ⟨?_, ?_⟩ <;> (repeat' split) <;> first | omega | (simp_all; omega)

/-- At the bounds a further edge leaves `CV` unchanged (no wrap): CTU at the maximum, CTD at the floor. -/
theorem c04_counters_hold_at_bounds (k : IntKind) (hk : k ∈ IntKind.all) (s : CState) :
    (∀ c : CtuCall, s.cv = k.hi → c.r = false → (ctuStep k s c).1.cv = k.hi) ∧
      (∀ c : CtdCall, s.cv = k.lo → c.ld = false → (ctdStep k s c).1.cv = k.lo) := by
  have hw := IntKind.all_wf k hk
  refine ⟨?_, ?_⟩
  · intro c h1 h2
    simp [ctuStep, h1, h2]
  · intro c h1 h2
    simp [ctdStep, h1, h2, k.floor_eq hw]

/-! ## Edge detectors -/

/-- **R_TRIG, every trace and prefix**: `Q_k = CLK_k ∧ ¬CLK_{k-1}` (CLK before the first call = FALSE). -/
theorem c04_rtrig_trace (tr : List Bool) (clk : Bool) :
    (rtrigStep (rtrigRun tr) clk).2 = Spec.rtrig (tr ++ [clk]) := by
  simp [rtrigStep, Spec.rtrig, Spec.rtrigR, rtrigRun_eq]

/-- **F_TRIG, every trace and prefix**: `Q_k = ¬CLK_k ∧ CLK_{k-1}` with CLK before the first call taken
as TRUE — the literal IEC body (docs/specs/08 §3: fires on a first call with CLK = FALSE). -/
theorem c04_ftrig_trace (tr : List Bool) (clk : Bool) :
    (ftrigStep (ftrigRun tr) clk).2 = Spec.ftrig (tr ++ [clk]) := by
  simp [ftrigStep, Spec.ftrig, Spec.ftrigR, ftrigRun_eq]

/-- **One-shot**: an edge detector never fires on two consecutive calls, whatever the trace. -/
theorem c04_trig_oneshot (tr : List Bool) (c1 c2 : Bool) :
    ¬ (Spec.rtrig (tr ++ [c1]) = true ∧ Spec.rtrig (tr ++ [c1, c2]) = true) ∧
      ¬ (Spec.ftrig (tr ++ [c1]) = true ∧ Spec.ftrig (tr ++ [c1, c2]) = true) := by
  simp only [Spec.rtrig, Spec.ftrig, List.reverse_append, List.reverse_cons, List.reverse_nil,
    List.nil_append, List.cons_append, Spec.rtrigR, Spec.ftrigR, List.headD_cons]
  cases c1 <;> cases c2 <;> simp

/-- **Exactly one call per edge**: R_TRIG fires at a call iff CLK is TRUE there and was FALSE at the
previous call (or there was none); F_TRIG iff CLK is FALSE there and was TRUE at the previous call
(or there was none). -/
theorem c04_trig_fires_iff_edge (tr : List Bool) (clk : Bool) :
    (Spec.rtrig (tr ++ [clk]) = true ↔ clk = true ∧ tr.getLast?.getD false = false) ∧
      (Spec.ftrig (tr ++ [clk]) = true ↔ clk = false ∧ tr.getLast?.getD true = true) := by
  have hl : ∀ d : Bool, tr.reverse.headD d = tr.getLast?.getD d := by
    intro d
    rw [List.getLast?_eq_head?_reverse]
    cases tr.reverse <;> rfl
  simp only [Spec.rtrig, Spec.ftrig, List.reverse_append, List.reverse_cons, List.reverse_nil,
    List.nil_append, List.singleton_append, Spec.rtrigR, Spec.ftrigR, hl]
  cases clk <;> cases tr.getLast?.getD false <;> cases tr.getLast?.getD true <;> simp

/-! ## Bistables -/

/-- **SR, every trace and prefix**: `Q1_k = S1_k ∨ (¬R_k ∧ Q1_{k-1})`. -/
theorem c04_sr_trace (tr : List (Bool × Bool)) (c : Bool × Bool) :
    srStep (srRun tr) c.1 c.2 = Spec.sr (tr ++ [c]) := by
  simp [Spec.sr, Spec.srR, srStep_eq, srRun_eq]

/-- **RS, every trace and prefix**: `Q1_k = ¬R1_k ∧ (S_k ∨ Q1_{k-1})`. -/
theorem c04_rs_trace (tr : List (Bool × Bool)) (c : Bool × Bool) :
    rsStep (rsRun tr) c.1 c.2 = Spec.rs (tr ++ [c]) := by
  simp [Spec.rs, Spec.rsR, rsStep_eq, rsRun_eq]

/-- **Dominance**: SR is set dominant (S1 ⇒ Q1), RS is reset dominant (R1 ⇒ ¬Q1), whatever the state and
the other input; with neither input the state is kept. -/
theorem c04_bistable_dominance (q x : Bool) :
    srStep q true x = true ∧ rsStep q x true = false ∧ srStep q false false = q ∧
      rsStep q false false = q ∧ srStep q false true = false ∧ rsStep q true false = true := by
  cases q <;> cases x <;> decide

/-! ## Instances are independent -/

/-- **Calling one instance never changes another**: after a call of instance `i`, every other instance
has exactly the variables it had before. -/
theorem c04_independent_step (st : Store) (i j : Nat) (c : Call) (hne : j ≠ i) :
    (st.call i c).1.get j = st.get j :=
  Store.call_get_ne st i j c hne

/-- **Every interleaving**: after any global trace of calls on a store, an instance holds what it would
hold had its own calls been executed alone (so all its outputs depend on its own sub-trace only). -/
theorem c04_independent_trace (st : Store) (g : List (Nat × Call)) (j : Nat) (hj : j < st.length) :
    (st.run g).get j = instRun (st.get j) (subTrace g j) :=
  Store.run_get g st j hj

/-- The answer of a call inside an interleaved trace is the answer of the same call after the
instance's own earlier calls alone. -/
theorem c04_independent_outputs (st : Store) (g : List (Nat × Call)) (j : Nat) (c : Call)
    (hj : j < st.length) :
    ((st.run g).call j c).2 = (execStep (instRun (st.get j) (subTrace g j)) c).2 := by
  simp only [Store.call]
  rw [c04_independent_trace st g j hj]

/-- An instance that only receives calls of one kind runs that kind's state machine: the store-level
model connects to the per-block theorems above (shown for one block of each family). -/
theorem c04_store_runs_blocks (trT : List XCall) (k : IntKind) (trC : List CtudCall) (trB : List Bool) :
    (instRun {} (trT.map Call.ton)).timer = execTonRun trT ∧
      (instRun {} (trT.map Call.tof)).timer = execTofRun trT ∧
      (instRun {} (trT.map Call.tp)).timer = execTpRun trT ∧
      (instRun {} (trC.map (Call.ctud k))).ctr = ctudRun k trC ∧
      (instRun {} (trB.map Call.rtrig)).m = rtrigRun trB ∧
      (instRun {} (trB.map Call.ftrig)).m = ftrigRun trB :=
  ⟨instRun_ton trT {}, instRun_tof trT {}, instRun_tp trT {}, instRun_ctud k trC {},
   instRun_rtrig trB {}, instRun_ftrig trB {}⟩

/-! ## Documented behaviour that is part of the specification used here -/

/-- ET returns to zero once timing has ended — one call after a TOF delay has expired, and at once when
a TP pulse ends even if IN is still TRUE — where IEC 61131-3 Figure 15 keeps ET at PT until IN rises
(TOF) / falls (TP).  This is the runtime's documented diagram (docs/specs/08 §5) and is asserted by its
own tests (fb_timers_full.rs, iec_timers.rs); `Spec` follows it, and code and `Spec` agree (PT = 10). -/
theorem c04_documented_et_reset_example :
    (prefixes [⟨true, 10, 0⟩, ⟨false, 10, 10⟩, ⟨false, 10, 1⟩]).map Spec.tof =
        [{ q := true, et := 0 }, { q := false, et := 10 }, { q := false, et := 0 }] ∧
      outputs tofStep {} [⟨true, 10, 0⟩, ⟨false, 10, 10⟩, ⟨false, 10, 1⟩] =
        [{ q := true, et := 0 }, { q := false, et := 10 }, { q := false, et := 0 }] ∧
      (prefixes [⟨true, 10, 0⟩, ⟨true, 10, 10⟩]).map Spec.tp = [{ q := true, et := 0 }, { q := false, et := 0 }] ∧
      outputs tpStep {} [⟨true, 10, 0⟩, ⟨true, 10, 10⟩] = [{ q := true, et := 0 }, { q := false, et := 0 }] := by
  decide

/-! ## Non-vacuity -/

/-- `c04_ton_exec_trace`: a steady trace on which the timer fires exactly when the accumulated time
lands on PT (PT = 10; clock 0, 4, 10). -/
example :
    let tr : List XCall := [⟨true, 10, 0⟩, ⟨true, 10, 4⟩, ⟨true, 10, 10⟩]
    Spec.steadyX tr = true ∧ Spec.tonX tr = { q := true, et := 10 } ∧
      Spec.tonX (tr.take 2) = { q := false, et := 4 } := by decide

/-- `c04_tp_trace`: IN toggles after the pulse and a second pulse is accepted. -/
example :
    let tr : List TCall := [⟨true, 10, 0⟩, ⟨true, 10, 6⟩, ⟨false, 10, 4⟩, ⟨true, 10, 1⟩]
    Spec.retriggeredT tr = false ∧ (prefixes tr).map Spec.tp =
      [{ q := true, et := 0 }, { q := true, et := 6 }, { q := false, et := 0 }, { q := true, et := 1 }] := by
  decide

/-- `c04_tof_closed_form` / `c04_tof_et_monotone`: PT = 10, IN falls, 4 + 6 ns later the delay expires. -/
example :
    let tr : List TCall := [⟨true, 10, 0⟩, ⟨false, 10, 4⟩, ⟨false, 10, 6⟩, ⟨false, 10, 1⟩]
    (prefixes tr).map Spec.tof =
      [{ q := true, et := 0 }, { q := true, et := 4 }, { q := false, et := 10 }, { q := false, et := 0 }] ∧
      (tofStep (tofRun [⟨true, 10, 0⟩]) ⟨false, 10, 4⟩).1.timing = true := by
  decide

/-- `c04_struct_no_overflow` / `c04_exec_no_overflow`: hypotheses hold on ordinary traces, and the
overflow predicate is not vacuous (it fires on an accumulator beyond `i64`). -/
example :
    Spec.clockOkX [⟨true, 10, 0⟩, ⟨true, 10, 4⟩, ⟨true, 10, 4⟩] = true ∧
      Spec.clockOkX [⟨true, 10, 5⟩, ⟨true, 10, 4⟩] = false ∧
      tonOvf (tonRun [⟨true, 10, i64Max⟩]) ⟨true, 10, 1⟩ = true := by decide

/-- `c04_ctd_trace`, `c04_ctud_trace`, `c04_counters_stay_in_range`: in-range PVs exist for every kind and
the counters do hit their bounds (USINT: load 1, count down twice: stays at 0; SINT up-counter at 127). -/
example :
    (∀ k ∈ IntKind.all, k.lo ≤ 0 ∧ (0 : Int) ≤ k.hi) ∧
      Spec.ctd .usint [⟨false, true, 1⟩, ⟨true, false, 1⟩, ⟨false, false, 1⟩, ⟨true, false, 1⟩] =
        { q := true, cv := 0 } ∧
      (ctuStep .sint { cv := 127 } ⟨true, false, 5⟩).1.cv = 127 := by decide

/-- `c04_independent_trace`: two instances interleaved. -/
example :
    let st : Store := [{}, {}]
    let g : List (Nat × Call) := [(0, .rtrig true), (1, .sr true false), (0, .rtrig true)]
    (st.run g).get 0 = instRun {} [.rtrig true, .rtrig true] ∧ ((st.run g).get 1).q1 = true := by
  decide

/-- `c04_ton_q_imp_in`, `c04_ton_et_monotone`, `c04_ton_exec_et_monotone`: Q does become TRUE, and two
consecutive timing calls with ET below the second PT exist (ET 4 then 9, PT = 10). -/
example :
    (tonStep { et := 6 } ⟨true, 10, 4⟩).2.q = true ∧
      (tonStep {} ⟨true, 10, 4⟩).2.et ≤ normPt 10 ∧
      (tonStep (tonStep {} ⟨true, 10, 4⟩).1 ⟨true, 10, 5⟩).2.et = 9 ∧
      (execTon (execTon {} ⟨true, 10, 0⟩).1 ⟨true, 10, 4⟩).2.et = 4 := by decide

/-- `c04_tp_et_monotone`, `c04_tp_spec_ignores_in`: a pulse that runs over two consecutive calls. -/
example :
    let s := tpRun [⟨true, 10, 0⟩]
    (tpStep s ⟨true, 10, 3⟩).1.active = true ∧ (tpStep (tpStep s ⟨true, 10, 3⟩).1 ⟨false, 10, 3⟩).1.active = true ∧
      (Spec.tpRunning [⟨true, 10, 3⟩, ⟨true, 10, 0⟩]).isSome = true := by decide

/-- `c04_counters_hold_at_bounds`: the bounds are reachable states (INT up-counter at 32767, ULINT
down-counter at 0). -/
example :
    (ctuStep .int { cv := 32766 } ⟨true, false, 1⟩).1.cv = IntKind.int.hi ∧
      (ctdStep .ulint { cv := 1 } ⟨true, false, 1⟩).1.cv = IntKind.ulint.lo := by decide

end TrustVerif.C04
